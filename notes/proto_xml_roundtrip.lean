/-! Prototype: printer/parser round trip for a cut-down XML (no attributes). -/
namespace Rt

inductive X where
  | el (tag : List Char) (kids : List X)
  | tx (s : List Char)
deriving Repr

def escChar : Char → List Char
  | '&' => "&amp;".toList
  | '<' => "&lt;".toList
  | '>' => "&gt;".toList
  | c => [c]
def esc (s : List Char) : List Char := s.flatMap escChar

mutual
def render : X → List Char
  | .tx s => esc s
  | .el t [] => '<' :: t ++ ['/', '>']
  | .el t (k :: ks) => '<' :: t ++ ['>'] ++ renders (k :: ks) ++ ['<', '/'] ++ t ++ ['>']
def renders : List X → List Char
  | [] => []
  | k :: ks => render k ++ renders ks
end

def nameChar (c : Char) : Bool := c.isAlphanum || c == '_' || c == ':' || c == '-' || c == '.'

/-- take a name: longest prefix of name chars -/
def takeName : List Char → List Char × List Char
  | [] => ([], [])
  | c :: cs => if nameChar c then let (n, r) := takeName cs; (c :: n, r) else ([], c :: cs)

/-- read text up to '<', unescaping -/
def takeText : List Char → List Char × List Char
  | [] => ([], [])
  | '<' :: r => ([], '<' :: r)
  | '&' :: 'a' :: 'm' :: 'p' :: ';' :: r => let (t, r') := takeText r; ('&' :: t, r')
  | '&' :: 'l' :: 't' :: ';' :: r => let (t, r') := takeText r; ('<' :: t, r')
  | '&' :: 'g' :: 't' :: ';' :: r => let (t, r') := takeText r; ('>' :: t, r')
  | c :: r => let (t, r') := takeText r; (c :: t, r')

mutual
/-- parse one node -/
def pNode : Nat → List Char → Option (X × List Char)
  | 0, _ => none
  | fuel+1, '<' :: r =>
    match takeName r with
    | ([], _) => none
    | (t, '/' :: '>' :: r') => some (.el t [], r')
    | (t, '>' :: r') =>
      match pNodes fuel r' with
      | some (ks, '<' :: '/' :: r'') =>
        match takeName r'' with
        | (t', '>' :: r''') => if t' = t ∧ ks ≠ [] then some (.el t ks, r''') else none
        | _ => none
      | _ => none
    | _ => none
  | _+1, [] => none
  | _+1, c :: r =>
    let (t, r') := takeText (c :: r)
    some (.tx t, r')
/-- parse nodes until "</" or end of input -/
def pNodes : Nat → List Char → Option (List X × List Char)
  | 0, _ => none
  | _+1, [] => some ([], [])
  | _+1, '<' :: '/' :: r => some ([], '<' :: '/' :: r)
  | fuel+1, inp =>
    match pNode fuel inp with
    | some (k, r) =>
      match pNodes fuel r with
      | some (ks, r') => some (k :: ks, r')
      | none => none
    | none => none
end

#eval pNodes 100 (render (.el "a".toList [.tx "x<y".toList, .el "b".toList [], .tx "z".toList]))

end Rt

namespace Rt

theorem takeName_append (t : List Char) (c : Char) (r : List Char)
    (ht : ∀ x ∈ t, nameChar x = true) (hc : nameChar c = false) :
    takeName (t ++ c :: r) = (t, c :: r) := by
  induction t with
  | nil => simp [takeName, hc]
  | cons a as ih =>
    have ha : nameChar a = true := ht a (by simp)
    have ih' := ih (fun x hx => ht x (by simp [hx]))
    simp [takeName, ha, ih']

def startsLt : List Char → Prop
  | [] => True
  | c :: _ => c = '<'

theorem takeText_esc (s rest : List Char) (hr : startsLt rest) :
    takeText (esc s ++ rest) = (s, rest) := by
  induction s with
  | nil =>
    cases rest with
    | nil => simp [esc, takeText]
    | cons c r => simp [startsLt] at hr; subst hr; simp [esc, takeText]
  | cons c cs ih =>
    simp only [esc, List.flatMap_cons] at *
    by_cases h1 : c = '&'
    · subst h1; simp [escChar, takeText, ih]
    · by_cases h2 : c = '<'
      · subst h2; simp [escChar, takeText, ih]
      · by_cases h3 : c = '>'
        · subst h3; simp [escChar, takeText, ih]
        · have : escChar c = [c] := by unfold escChar; split <;> simp_all
          rw [this]
          simp only [List.singleton_append, List.cons_append, List.nil_append]
          rw [takeText.eq_def]
          split <;> simp_all

end Rt

namespace Rt

def isTx : X → Bool | .tx _ => true | _ => false

mutual
def WF : X → Prop
  | .tx s => s ≠ []
  | .el t ks => t ≠ [] ∧ (∀ c ∈ t, nameChar c = true) ∧ WFs ks
def WFs : List X → Prop
  | [] => True
  | k :: ks => WF k ∧ WFs ks ∧ (match ks with | k' :: _ => ¬(isTx k = true ∧ isTx k' = true) | [] => True)
end

mutual
def need : X → Nat
  | .tx _ => 1
  | .el _ ks => 1 + needs ks
def needs : List X → Nat
  | [] => 1
  | k :: ks => 1 + need k + needs ks
end

/-- what may follow a list of nodes: end of input or a closing tag -/
def closes : List Char → Prop
  | [] => True
  | '<' :: '/' :: _ => True
  | _ => False

theorem closes_startsLt {r : List Char} (h : closes r) : startsLt r := by
  unfold closes at h; split at h <;> simp_all [startsLt]

theorem esc_head_ne_lt (s rest : List Char) (hs : s ≠ []) :
    ∃ c r, esc s ++ rest = c :: r ∧ c ≠ '<' := by
  cases s with
  | nil => contradiction
  | cons a as =>
    simp only [esc, List.flatMap_cons]
    by_cases h1 : a = '&'
    · subst h1; exact ⟨'&', _, by simp [escChar]; rfl, by decide⟩
    · by_cases h2 : a = '<'
      · subst h2; exact ⟨'&', _, by simp [escChar]; rfl, by decide⟩
      · by_cases h3 : a = '>'
        · subst h3; exact ⟨'&', _, by simp [escChar]; rfl, by decide⟩
        · have : escChar a = [a] := by unfold escChar; split <;> simp_all
          exact ⟨a, _, by simp [this]; rfl, h2⟩

theorem pNode_text (fuel : Nat) (s rest : List Char) (hs : s ≠ []) (hr : startsLt rest) :
    pNode (fuel+1) (esc s ++ rest) = some (.tx s, rest) := by
  obtain ⟨c, r, hcr, hc⟩ := esc_head_ne_lt s rest hs
  have ht := takeText_esc s rest hr
  rw [hcr] at ht ⊢
  rw [pNode.eq_def]
  split
  · contradiction
  · rename_i heq; simp at heq; exact absurd heq.1 hc
  · simp_all
  · simp_all

end Rt

namespace Rt

theorem nameChar_slash : nameChar '/' = false := by decide
theorem nameChar_gt : nameChar '>' = false := by decide

theorem render_el_head (t : List Char) (ks : List X) (ht : t ≠ []) (hn : ∀ c ∈ t, nameChar c = true) :
    ∃ c r, render (.el t ks) = '<' :: c :: r ∧ c ≠ '/' := by
  cases t with
  | nil => contradiction
  | cons a as =>
    have ha : nameChar a = true := hn a (by simp)
    have hne : a ≠ '/' := by intro h; subst h; simp [nameChar_slash] at ha
    cases ks with
    | nil => exact ⟨a, _, by simp [render]; rfl, hne⟩
    | cons k ks => exact ⟨a, _, by simp [render]; rfl, hne⟩

theorem startsLt_render_nonTx (k : X) (hk : WF k) (h : isTx k = false) (r : List Char) :
    startsLt (render k ++ r) := by
  cases k with
  | tx s => simp [isTx] at h
  | el t ks =>
    obtain ⟨ht, hn, _⟩ := (by simpa [WF] using hk : t ≠ [] ∧ (∀ c ∈ t, nameChar c = true) ∧ WFs ks)
    obtain ⟨c, r', hr, _⟩ := render_el_head t ks ht hn
    simp [hr, startsLt]

theorem pNodes_step (f : Nat) (c : Char) (r : List Char)
    (h : ¬ (c = '<' ∧ ∃ r', r = '/' :: r')) :
    pNodes (f+1) (c :: r) =
      match pNode f (c :: r) with
      | some (k, r1) =>
        (match pNodes f r1 with
         | some (ks, r') => some (k :: ks, r')
         | none => none)
      | none => none := by
  rw [pNodes.eq_def]
  split
  · contradiction
  · rename_i heq; simp at heq
  · rename_i heq; simp at heq; exact absurd ⟨heq.1, _, heq.2⟩ h
  · rename_i heq _ _; simp at heq; subst heq; rfl

mutual
theorem rt_node : ∀ (x : X), WF x → ∀ (rest : List Char) (fuel : Nat), need x ≤ fuel →
    (isTx x = true → startsLt rest) → pNode fuel (render x ++ rest) = some (x, rest)
  | .tx s, h, rest, fuel, hf, hr => by
    cases fuel with
    | zero => simp [need] at hf
    | succ f =>
      simp only [render]
      exact pNode_text f s rest (by simpa [WF] using h) (hr (by simp [isTx]))
  | .el t [], h, rest, fuel, hf, _ => by
    obtain ⟨ht, hn, _⟩ := (by simpa [WF] using h : t ≠ [] ∧ (∀ c ∈ t, nameChar c = true) ∧ WFs [])
    cases fuel with
    | zero => simp [need] at hf
    | succ f =>
      have hname : takeName (t ++ '/' :: '>' :: rest) = (t, '/' :: '>' :: rest) :=
        takeName_append t '/' _ hn nameChar_slash
      cases t with
      | nil => contradiction
      | cons a as =>
        simp only [render, List.cons_append, List.append_assoc, List.nil_append]
        rw [pNode.eq_def]
        simp only [List.cons_append] at hname
        simp [hname]
  | .el t (k :: ks), h, rest, fuel, hf, _ => by
    obtain ⟨ht, hn, hks⟩ := (by simpa [WF] using h : t ≠ [] ∧ (∀ c ∈ t, nameChar c = true) ∧ WFs (k :: ks))
    cases fuel with
    | zero => simp [need] at hf
    | succ f =>
      have hf' : needs (k :: ks) ≤ f := by simp [need] at hf; omega
      have hname1 : ∀ r, takeName (t ++ '>' :: r) = (t, '>' :: r) :=
        fun r => takeName_append t '>' r hn nameChar_gt
      have hnodes := rt_nodes (k :: ks) hks ('<' :: '/' :: (t ++ '>' :: rest)) f hf' (by simp [closes])
      cases t with
      | nil => contradiction
      | cons a as =>
        simp only [render, List.cons_append, List.append_assoc, List.nil_append]
        rw [pNode.eq_def]
        have h1 := hname1 (renders (k :: ks) ++ '<' :: '/' :: a :: (as ++ '>' :: rest))
        simp only [List.cons_append] at h1 hnodes
        simp only [h1]
        simp only [hnodes]
        have h2 := hname1 rest
        simp only [List.cons_append] at h2
        simp [h2]
theorem rt_nodes : ∀ (xs : List X), WFs xs → ∀ (rest : List Char) (fuel : Nat), needs xs ≤ fuel →
    closes rest → pNodes fuel (renders xs ++ rest) = some (xs, rest)
  | [], _, rest, fuel, hf, hc => by
    cases fuel with
    | zero => simp [needs] at hf
    | succ f =>
      simp only [renders, List.nil_append]
      unfold closes at hc
      split at hc
      · simp [pNodes]
      · simp [pNodes]
      · contradiction
  | k :: ks, h, rest, fuel, hf, hc => by
    obtain ⟨hk, hks, hadj⟩ := (by simpa [WFs] using h : WF k ∧ WFs ks ∧ _)
    cases fuel with
    | zero => simp [needs] at hf
    | succ f =>
      have hfk : need k ≤ f := by simp [needs] at hf; omega
      have hfks : needs ks ≤ f := by simp [needs] at hf; omega
      have hfollow : isTx k = true → startsLt (renders ks ++ rest) := by
        intro htx
        cases ks with
        | nil => simpa [renders] using closes_startsLt hc
        | cons k' ks' =>
          have hk' : WF k' := (by simpa [WFs] using hks : WF k' ∧ _).1
          have : isTx k' = false := by
            have := hadj; simp at this
            cases hx : isTx k' <;> simp_all
          simp only [renders, List.append_assoc]
          exact startsLt_render_nonTx k' hk' this _
      have hnode := rt_node k hk (renders ks ++ rest) f hfk hfollow
      have hrest := rt_nodes ks hks rest f hfks hc
      simp only [renders, List.append_assoc]
      -- the input is neither empty nor a closing tag
      cases k with
      | tx s =>
        obtain ⟨c, r, hcr, hc'⟩ := esc_head_ne_lt s (renders ks ++ rest) (by simpa [WF] using hk)
        simp only [render] at hnode ⊢
        rw [hcr] at hnode ⊢
        rw [pNodes_step f c r (by intro h; exact hc' h.1)]
        simp [hnode, hrest]
      | el t kk =>
        obtain ⟨ht, hn, _⟩ := (by simpa [WF] using hk : t ≠ [] ∧ (∀ c ∈ t, nameChar c = true) ∧ WFs kk)
        obtain ⟨c, r, hcr, hc'⟩ := render_el_head t kk ht hn
        rw [hcr] at hnode ⊢
        simp only [List.cons_append] at hnode ⊢
        rw [pNodes_step f '<' _ (by
          intro h; obtain ⟨_, r', hr'⟩ := h
          simp at hr'; exact hc' hr'.1)]
        simp [hnode, hrest]
end

#print axioms rt_node

end Rt
