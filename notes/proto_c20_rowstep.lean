import Pyxv.Model.Warnings
namespace Pyxv.Warn
open Pyxv Pyxv.Warn.Spec

structure RowOut where
  ws : List W := []
  orOther : Bool := false
  kept : List (Nat × Str) := []
deriving Repr, Inhabited

def typedOut (n : Nat) (r : PRow) (t : Str) (pkeys : List Str) : Except Stop RowOut :=
  if t = "audit".toList then .ok { kept := [(n, t)] }
  else
  let dep := if deprecatedTypes.contains t then [W.deprecated n t] else []
  if settingsTypes.contains t then .ok { ws := dep }
  else if (Rows.matchControl "end" false t).isSome then .ok { ws := dep }
  else
  match Rows.matchControl "begin" true t with
  | some ct =>
    if ct = "loop".toList then .error (.unsupported "loop")
    else if keyIn r "default" then .error (.unsupported "default on a begin row (lexer)")
    else .ok { ws := dep ++ (if noLabelCond r ct then [W.noLabel n ct] else []), kept := [(n, t)] }
  | none =>
  match Rows.matchSelect t with
  | some (sel, _, other) =>
    .ok { ws := dep ++ (if sel = "select one external".toList && !keyIn r "choice_filter" then [W.extNoFilter n] else []),
          orOther := other, kept := [(n, t)] }
  | none =>
    .ok { ws := dep ++ (if t = "photo".toList && !pkeys.contains "max-pixels".toList then [W.noMaxPixels n] else []),
          kept := [(n, t)] }

def rowOut (n : Nat) (r0 : PRow) : Except Stop RowOut :=
  if groupedOnly r0 "disabled" then .error (.unsupported "disabled::x") else
  let dis := if keyIn r0 "disabled" then [W.disabled n] else []
  let r := body r0
  if disabledYes r0 then .ok { ws := dis }
  else if r.isEmpty then .ok { ws := dis }
  else if groupedOnly r "type" then .error (.unsupported "type::x")
  else
  match rowType r0 with
  | none =>
    if !(keyIn r "name" || keyIn r "label") then .ok { ws := dis ++ [W.skipped n] }
    else .error (.error n "Question with no type")
  | some [] =>
    if !(keyIn r "name" || keyIn r "label") then .ok { ws := dis ++ [W.skipped n] }
    else .error (.error n "Question with no type")
  | some (c :: cs) =>
    if groupedOnly r "parameters" then .error (.unsupported "parameters::x") else
    match paramKeys ((val1 r "parameters").getD []) with
    | none => .error (.error n "parameters")
    | some pkeys =>
      match typedOut n r (c :: cs) pkeys with
      | .ok o => .ok { o with ws := dis ++ o.ws }
      | .error e => .error e

theorem deprecated_pinned' : deprecatedTypes = documentedDeprecated := by decide

theorem keyIn_body (r : PRow) (k : String) (hk : k.toList ≠ "disabled".toList) : keyIn (body r) k = keyIn r k := by
  unfold keyIn body
  induction r with
  | nil => rfl
  | cons c cs ih =>
    by_cases hc : c.1.head? = some "disabled".toList
    · have : ¬ (c.1.head? = some k.toList) := by rw [hc]; intro h; exact hk (Option.some.inj h).symm
      simp [List.filter_cons, hc, this, ih]
    · simp [List.filter_cons, hc, ih]

/-- the typed part of what is due -/
theorem typedOut_ok (n : Nat) (r0 : PRow) (t : Str) (pkeys : List Str) (o : RowOut)
    (hact : active r0 = true) (hne : t ≠ []) (hty : rowType r0 = some t)
    (hpk : paramKeys ((val1 (body r0) "parameters").getD []) = some pkeys)
    (h : typedOut n (body r0) t pkeys = .ok o) :
    rowDue n r0 = (if keyIn r0 "disabled" then [W.disabled n] else []) ++ o.ws ∧ o.orOther = orOtherRow r0 := by
  have htyped : typed r0 = true := by
    cases t with
    | nil => exact absurd rfl hne
    | cons c cs => simp [typed, hty]
  have hcf : keyIn r0 "choice_filter" = keyIn (body r0) "choice_filter" := (keyIn_body r0 _ (by decide)).symm
  unfold typedOut at h
  rw [deprecated_pinned'] at h
  simp only [rowDue, disabledTrig, skippedTrig, deprecatedTrig, noLabelTrig, extNoFilterTrig, noMaxPixelsTrig,
    orOtherRow, hact, htyped, hty, hpk, plainQuestion, isSelectExternal, Bool.true_and, Bool.not_true, Bool.false_and,
    Option.getD_some, hcf]
  by_cases ha : t = "audit".toList
  · simp only [ha, if_true] at h
    cases h
    subst ha
    simp
    split <;> simp
  · simp only [ha, if_false] at h
    by_cases hs : settingsTypes.contains t = true
    · simp only [hs, if_true] at h
      cases h
      cases hb : Rows.matchControl "begin" true t <;> simp_all
    · simp only [hs] at h
      cases he : Rows.matchControl "end" false t with
      | some e =>
        simp only [he, Option.isSome_some, if_true] at h
        cases h
        cases hb : Rows.matchControl "begin" true t <;> simp_all
      | none =>
        simp only [he, Option.isSome_none, Bool.false_eq_true, if_false] at h
        cases hb : Rows.matchControl "begin" true t with
        | some ct =>
          simp only [hb] at h
          split at h
          · cases h
          · split at h
            · cases h
            · cases h
              simp_all
        | none =>
          simp only [hb] at h
          cases hm : Rows.matchSelect t with
          | some x =>
            obtain ⟨sel, ln, other⟩ := x
            simp only [hm] at h
            cases h
            simp_all
          | none =>
            simp only [hm] at h
            cases h
            simp_all
end Pyxv.Warn
