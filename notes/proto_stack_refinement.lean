/-! Prototype (C04): the begin/end stack machine builds the same tree as a recursive-descent
    reading of the rows. -/
namespace Stk

inductive Kind | group | rep deriving DecidableEq, Repr

inductive Row where
  | q (name : String)
  | begin_ (k : Kind) (name : String)
  | end_ (k : Kind)
deriving Repr

inductive Tree where
  | leaf (name : String)
  | node (k : Kind) (name : String) (kids : List Tree)
deriving Repr

/-! ### Implementation shape: explicit stack of open frames (as in workbook_to_json) -/
structure Frame where
  kind : Kind
  name : String
  kids : List Tree        -- children collected so far, in order

/-- state: finished children of the root so far, and the stack of open frames (innermost first) -/
def push (t : Tree) : List Tree × List Frame → List Tree × List Frame
  | (root, []) => (root ++ [t], [])
  | (root, f :: fs) => (root, { f with kids := f.kids ++ [t] } :: fs)

def step : List Tree × List Frame → Row → Option (List Tree × List Frame)
  | st, .q n => some (push (.leaf n) st)
  | (root, fs), .begin_ k n => some (root, ⟨k, n, []⟩ :: fs)
  | (_, []), .end_ _ => none                                  -- unmatched end
  | (root, f :: fs), .end_ k =>
      if f.kind = k then some (push (.node f.kind f.name f.kids) (root, fs)) else none

def run : List Tree × List Frame → List Row → Option (List Tree × List Frame)
  | st, [] => some st
  | st, r :: rs => match step st r with
    | some st' => run st' rs
    | none => none

def convertStack (rows : List Row) : Option (List Tree) :=
  match run ([], []) rows with
  | some (root, []) => some root
  | _ => none                                                  -- unmatched begin

/-! ### Specification: recursive descent -/
/-- parse items until an `end_` row or the end; returns the items and the remaining rows -/
def items : Nat → List Row → Option (List Tree × List Row)
  | 0, _ => none
  | _+1, [] => some ([], [])
  | _+1, .end_ k :: rs => some ([], .end_ k :: rs)
  | f+1, .q n :: rs => match items f rs with
    | some (ts, rest) => some (.leaf n :: ts, rest)
    | none => none
  | f+1, .begin_ k n :: rs => match items f rs with
    | some (kids, .end_ k' :: rest) =>
      if k = k' then
        match items f rest with
        | some (ts, rest') => some (.node k n kids :: ts, rest')
        | none => none
      else none
    | _ => none

def convertSpec (rows : List Row) : Option (List Tree) :=
  match items (rows.length + 1) rows with
  | some (ts, []) => some ts
  | _ => none

#eval convertStack [.q "a", .begin_ .group "g", .q "b", .begin_ .rep "r", .q "c", .end_ .rep, .end_ .group, .q "d"]
#eval convertSpec [.q "a", .begin_ .group "g", .q "b", .begin_ .rep "r", .q "c", .end_ .rep, .end_ .group, .q "d"]

end Stk

namespace Stk

def pushAll (ts : List Tree) (st : List Tree × List Frame) : List Tree × List Frame :=
  ts.foldl (fun s t => push t s) st

theorem pushAll_frame (ts : List Tree) (root : List Tree) (f : Frame) (fs : List Frame) :
    pushAll ts (root, f :: fs) = (root, { f with kids := f.kids ++ ts } :: fs) := by
  induction ts generalizing f with
  | nil => simp [pushAll]
  | cons t ts ih =>
    simp only [pushAll, List.foldl_cons, push] at *
    rw [ih]; simp

theorem pushAll_root (ts root : List Tree) : pushAll ts (root, []) = (root ++ ts, []) := by
  induction ts generalizing root with
  | nil => simp [pushAll]
  | cons t ts ih => simp only [pushAll, List.foldl_cons, push] at *; rw [ih]; simp

theorem pushAll_cons (t : Tree) (ts : List Tree) (st) : pushAll (t :: ts) st = pushAll ts (push t st) := rfl

theorem run_items : ∀ (fuel : Nat) (rows : List Row) (ts : List Tree) (rest : List Row)
    (st : List Tree × List Frame),
    items fuel rows = some (ts, rest) → run st rows = run (pushAll ts st) rest := by
  intro fuel
  induction fuel with
  | zero => intro rows ts rest st h; simp [items] at h
  | succ f ih =>
    intro rows ts rest st h
    cases rows with
    | nil => simp [items] at h; obtain ⟨rfl, rfl⟩ := h; simp [pushAll]
    | cons r rs =>
      cases r with
      | end_ k => simp [items] at h; obtain ⟨rfl, rfl⟩ := h; simp [pushAll]
      | q n =>
        simp only [items] at h
        split at h
        · rename_i ts' rest' heq
          simp at h; obtain ⟨rfl, rfl⟩ := h
          simp only [run, step]
          rw [ih rs ts' rest' _ heq, pushAll_cons]
        · contradiction
      | begin_ k n =>
        simp only [items] at h
        split at h
        · rename_i kids k' rest1 heq
          split at h
          · rename_i hk; subst hk
            split at h
            · rename_i ts' rest' heq2
              simp at h; obtain ⟨rfl, rfl⟩ := h
              obtain ⟨root, fs⟩ := st
              simp only [run, step]
              rw [ih rs kids _ _ heq, pushAll_frame]
              simp only [run, step, List.nil_append, if_true]
              rw [ih rest1 ts' rest' _ heq2, pushAll_cons]
            · contradiction
          · contradiction
        · contradiction

theorem spec_implies_stack (rows : List Row) (ts : List Tree)
    (h : convertSpec rows = some ts) : convertStack rows = some ts := by
  unfold convertSpec at h
  split at h
  · rename_i ts' heq
    simp at h; subst h
    unfold convertStack
    rw [run_items _ rows ts' [] ([], []) heq, pushAll_root]
    simp [run]
  · contradiction

#print axioms spec_implies_stack
end Stk
