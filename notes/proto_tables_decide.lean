namespace Tables
structure Qtd where
  control : List (String × String)
  bind : List (String × String)
  hint : Option String
  action : List (String × String)
deriving DecidableEq, Repr

def qtd : List (String × Qtd) := [
  ("q picture", ⟨[("tag", "upload"), ("mediatype", "image/*")], [("type", "binary")], none, []⟩),
  ("photo", ⟨[("tag", "upload"), ("mediatype", "image/*")], [("type", "binary")], none, []⟩),
  ("add date time prompt", ⟨[("tag", "input")], [("type", "dateTime")], none, []⟩),
  ("add audio prompt", ⟨[("tag", "upload"), ("mediatype", "audio/*")], [("type", "binary")], none, []⟩),
  ("q date time", ⟨[("tag", "input")], [("type", "dateTime")], none, []⟩),
  ("phonenumber", ⟨[], [("jr:preload", "property"), ("type", "string"), ("jr:preloadParams", "phonenumber")], none, []⟩),
  ("get start time", ⟨[], [("jr:preload", "timestamp"), ("type", "dateTime"), ("jr:preloadParams", "start")], none, []⟩),
  ("add select multiple prompt using", ⟨[("tag", "select")], [("type", "string")], none, []⟩),
  ("add note prompt", ⟨[("tag", "input")], [("readonly", "true()"), ("type", "string")], none, []⟩),
  ("calculate", ⟨[], [("type", "string")], none, []⟩),
  ("acknowledge", ⟨[("tag", "trigger")], [("type", "string")], none, []⟩),
  ("location", ⟨[("tag", "input")], [("type", "geopoint")], none, []⟩),
  ("text", ⟨[("tag", "input")], [("type", "string")], none, []⟩),
  ("select all that apply from", ⟨[("tag", "select")], [("type", "string")], none, []⟩),
  ("simserial", ⟨[], [("jr:preload", "property"), ("type", "string"), ("jr:preloadParams", "simserial")], none, []⟩),
  ("string", ⟨[("tag", "input")], [("type", "string")], none, []⟩),
  ("q string", ⟨[("tag", "input")], [("type", "string")], none, []⟩),
  ("imei", ⟨[], [("jr:preload", "property"), ("type", "string"), ("jr:preloadParams", "deviceid")], none, []⟩),
  ("integer", ⟨[("tag", "input")], [("type", "int")], none, []⟩),
  ("datetime", ⟨[("tag", "input")], [("type", "dateTime")], none, []⟩),
  ("q note", ⟨[("tag", "input")], [("readonly", "true()"), ("type", "string")], none, []⟩),
  ("subscriber id", ⟨[], [("jr:preload", "property"), ("type", "string"), ("jr:preloadParams", "subscriberid")], none, []⟩),
  ("decimal", ⟨[("tag", "input")], [("type", "decimal")], none, []⟩),
  ("dateTime", ⟨[("tag", "input")], [("type", "dateTime")], none, []⟩),
  ("q audio", ⟨[("tag", "upload"), ("mediatype", "audio/*")], [("type", "binary")], none, []⟩),
  ("q geopoint", ⟨[("tag", "input")], [("type", "geopoint")], none, []⟩),
  ("q geoshape", ⟨[("tag", "input")], [("type", "geoshape")], none, []⟩),
  ("q geotrace", ⟨[("tag", "input")], [("type", "geotrace")], none, []⟩),
  ("q image", ⟨[("tag", "upload"), ("mediatype", "image/*")], [("type", "binary")], none, []⟩),
  ("get today", ⟨[], [("jr:preload", "date"), ("type", "date"), ("jr:preloadParams", "today")], none, []⟩),
  ("video", ⟨[("tag", "upload"), ("mediatype", "video/*")], [("type", "binary")], none, []⟩),
  ("q acknowledge", ⟨[("tag", "trigger")], [("type", "string")], none, []⟩),
  ("add video prompt", ⟨[("tag", "upload"), ("mediatype", "video/*")], [("type", "binary")], none, []⟩),
  ("number of days in last month", ⟨[("tag", "input")], [("type", "int"), ("constraint", "0 <= . and . <= 31")], some "Enter a number 0-31.", []⟩),
  ("get sim id", ⟨[], [("jr:preload", "property"), ("type", "string"), ("jr:preloadParams", "simserial")], none, []⟩),
  ("q location", ⟨[("tag", "input")], [("type", "geopoint")], none, []⟩),
  ("select one", ⟨[("tag", "select1")], [("type", "string")], none, []⟩),
  ("select one external", ⟨[("tag", "input")], [("type", "string")], none, []⟩),
  ("add image prompt", ⟨[("tag", "upload"), ("mediatype", "image/*")], [("type", "binary")], none, []⟩),
  ("select all that apply", ⟨[("tag", "select")], [("type", "string")], none, []⟩),
  ("get end time", ⟨[], [("jr:preload", "timestamp"), ("type", "dateTime"), ("jr:preloadParams", "end")], none, []⟩),
  ("barcode", ⟨[("tag", "input")], [("type", "barcode")], none, []⟩),
  ("q video", ⟨[("tag", "upload"), ("mediatype", "video/*")], [("type", "binary")], none, []⟩),
  ("geopoint", ⟨[("tag", "input")], [("type", "geopoint")], none, []⟩),
  ("geoshape", ⟨[("tag", "input")], [("type", "geoshape")], none, []⟩),
  ("geotrace", ⟨[("tag", "input")], [("type", "geotrace")], none, []⟩),
  ("select multiple from", ⟨[("tag", "select")], [("type", "string")], none, []⟩),
  ("end time", ⟨[], [("jr:preload", "timestamp"), ("type", "dateTime"), ("jr:preloadParams", "end")], none, []⟩),
  ("device id", ⟨[], [("jr:preload", "property"), ("type", "string"), ("jr:preloadParams", "deviceid")], none, []⟩),
  ("subscriberid", ⟨[], [("jr:preload", "property"), ("type", "string"), ("jr:preloadParams", "subscriberid")], none, []⟩),
  ("q barcode", ⟨[("tag", "input")], [("type", "barcode")], none, []⟩),
  ("q select", ⟨[("tag", "select")], [("type", "string")], none, []⟩),
  ("select one using", ⟨[("tag", "select1")], [("type", "string")], none, []⟩),
  ("rank", ⟨[("tag", "odk:rank")], [("type", "odk:rank")], none, []⟩),
  ("image", ⟨[("tag", "upload"), ("mediatype", "image/*")], [("type", "binary")], none, []⟩),
  ("q int", ⟨[("tag", "input")], [("type", "int")], none, []⟩),
  ("add text prompt", ⟨[("tag", "input")], [("type", "string")], none, []⟩),
  ("add date prompt", ⟨[("tag", "input")], [("type", "date")], none, []⟩),
  ("q calculate", ⟨[], [("type", "string")], none, []⟩),
  ("start", ⟨[], [("jr:preload", "timestamp"), ("type", "dateTime"), ("jr:preloadParams", "start")], none, []⟩),
  ("trigger", ⟨[("tag", "trigger")], [], none, []⟩),
  ("add acknowledge prompt", ⟨[("tag", "trigger")], [("type", "string")], none, []⟩),
  ("percentage", ⟨[("tag", "input")], [("type", "int"), ("constraint", "0 <= . and . <= 100")], none, []⟩),
  ("get phone number", ⟨[], [("jr:preload", "property"), ("type", "string"), ("jr:preloadParams", "phonenumber")], none, []⟩),
  ("today", ⟨[], [("jr:preload", "date"), ("type", "date"), ("jr:preloadParams", "today")], none, []⟩),
  ("gps", ⟨[("tag", "input")], [("type", "geopoint")], none, []⟩),
  ("q date", ⟨[("tag", "input")], [("type", "date")], none, []⟩),
  ("sim id", ⟨[], [("jr:preload", "property"), ("type", "string"), ("jr:preloadParams", "simserial")], none, []⟩),
  ("add decimal prompt", ⟨[("tag", "input")], [("type", "decimal")], none, []⟩),
  ("number of days in last six months", ⟨[("tag", "input")], [("type", "int"), ("constraint", "0 <= . and . <= 183")], some "Enter a number 0-183.", []⟩),
  ("deviceid", ⟨[], [("jr:preload", "property"), ("type", "string"), ("jr:preloadParams", "deviceid")], none, []⟩),
  ("int", ⟨[("tag", "input")], [("type", "int")], none, []⟩),
  ("add barcode prompt", ⟨[("tag", "input")], [("type", "barcode")], none, []⟩),
  ("select multiple using", ⟨[("tag", "select")], [("type", "string")], none, []⟩),
  ("q decimal", ⟨[("tag", "input")], [("type", "decimal")], none, []⟩),
  ("end", ⟨[], [("jr:preload", "timestamp"), ("type", "dateTime"), ("jr:preloadParams", "end")], none, []⟩),
  ("add calculate prompt", ⟨[], [("type", "string")], none, []⟩),
  ("add dateTime prompt", ⟨[("tag", "input")], [("type", "dateTime")], none, []⟩),
  ("note", ⟨[("tag", "input")], [("readonly", "true()"), ("type", "string")], none, []⟩),
  ("add location prompt", ⟨[("tag", "input")], [("type", "geopoint")], none, []⟩),
  ("get subscriber id", ⟨[], [("jr:preload", "property"), ("type", "string"), ("jr:preloadParams", "subscriberid")], none, []⟩),
  ("phone number", ⟨[("tag", "input")], [("type", "string"), ("constraint", "regex(., '^\\d*$')")], some "Enter numbers only.", []⟩),
  ("get device id", ⟨[], [("jr:preload", "property"), ("type", "string"), ("jr:preloadParams", "deviceid")], none, []⟩),
  ("add integer prompt", ⟨[("tag", "input")], [("type", "int")], none, []⟩),
  ("q dateTime", ⟨[("tag", "input")], [("type", "dateTime")], none, []⟩),
  ("date", ⟨[("tag", "input")], [("type", "date")], none, []⟩),
  ("q select1", ⟨[("tag", "select1")], [("type", "string")], none, []⟩),
  ("start time", ⟨[], [("jr:preload", "timestamp"), ("type", "dateTime"), ("jr:preloadParams", "start")], none, []⟩),
  ("number of days in last year", ⟨[("tag", "input")], [("type", "int"), ("constraint", "0 <= . and . <= 365")], some "Enter a number 0-365.", []⟩),
  ("date time", ⟨[("tag", "input")], [("type", "dateTime")], none, []⟩),
  ("time", ⟨[("tag", "input")], [("type", "time")], none, []⟩),
  ("audio", ⟨[("tag", "upload"), ("mediatype", "audio/*")], [("type", "binary")], none, []⟩),
  ("add select one prompt using", ⟨[("tag", "select1")], [("type", "string")], none, []⟩),
  ("hidden", ⟨[], [("type", "string")], none, []⟩),
  ("uri:subscriberid", ⟨[], [("jr:preload", "property"), ("type", "string"), ("jr:preloadParams", "uri:subscriberid")], none, []⟩),
  ("uri:phonenumber", ⟨[], [("jr:preload", "property"), ("type", "string"), ("jr:preloadParams", "uri:phonenumber")], none, []⟩),
  ("uri:simserial", ⟨[], [("jr:preload", "property"), ("type", "string"), ("jr:preloadParams", "uri:simserial")], none, []⟩),
  ("uri:deviceid", ⟨[], [("jr:preload", "property"), ("type", "string"), ("jr:preloadParams", "uri:deviceid")], none, []⟩),
  ("username", ⟨[], [("jr:preload", "property"), ("type", "string"), ("jr:preloadParams", "username")], none, []⟩),
  ("uri:username", ⟨[], [("jr:preload", "property"), ("type", "string"), ("jr:preloadParams", "uri:username")], none, []⟩),
  ("email", ⟨[], [("jr:preload", "property"), ("type", "string"), ("jr:preloadParams", "email")], none, []⟩),
  ("uri:email", ⟨[], [("jr:preload", "property"), ("type", "string"), ("jr:preloadParams", "uri:email")], none, []⟩),
  ("osm", ⟨[("tag", "upload"), ("mediatype", "osm/*")], [("type", "binary")], none, []⟩),
  ("file", ⟨[("tag", "upload"), ("mediatype", "application/*")], [("type", "binary")], none, []⟩),
  ("add file prompt", ⟨[("tag", "upload"), ("mediatype", "application/*")], [("type", "binary")], none, []⟩),
  ("range", ⟨[("tag", "range")], [("type", "int")], none, []⟩),
  ("audit", ⟨[], [("type", "binary")], none, []⟩),
  ("xml-external", ⟨[], [], none, []⟩),
  ("csv-external", ⟨[], [], none, []⟩),
  ("start-geopoint", ⟨[("tag", "action")], [("type", "geopoint")], none, [("name", "odk:setgeopoint"), ("event", "odk-instance-first-load")]⟩),
  ("background-audio", ⟨[("tag", "action")], [("type", "binary")], none, [("name", "odk:recordaudio"), ("event", "odk-instance-load")]⟩),
  ("background-geopoint", ⟨[("tag", "trigger")], [("type", "geopoint")], none, []⟩)]
def selectAliases : List (String × String) := [("add select one prompt using", "select one"), ("add select multiple prompt using", "select all that apply"), ("select all that apply from", "select all that apply"), ("select one from", "select one"), ("select1", "select one"), ("select_one", "select one"), ("select one", "select one"), ("select_multiple", "select all that apply"), ("select all that apply", "select all that apply"), ("select_one_external", "select one external"), ("select_one_from_file", "select one"), ("select_multiple_from_file", "select all that apply"), ("select one from file", "select one"), ("select multiple from file", "select all that apply"), ("rank", "rank")]
def typeAliases : List (String × String) := [("imei", "deviceid"), ("image", "photo"), ("add image prompt", "photo"), ("add photo prompt", "photo"), ("add audio prompt", "audio"), ("add video prompt", "video"), ("add file prompt", "file")]
def yesNo : List (String × Bool) := [("yes", true), ("Yes", true), ("YES", true), ("true", true), ("True", true), ("TRUE", true), ("true()", true), ("no", false), ("No", false), ("NO", false), ("false", false), ("False", false), ("FALSE", false), ("false()", false)]
def bindingConversions : List (String × String) := [("yes", "true()"), ("Yes", "true()"), ("YES", "true()"), ("true", "true()"), ("True", "true()"), ("TRUE", "true()"), ("no", "false()"), ("No", "false()"), ("NO", "false()"), ("false", "false()"), ("False", "false()"), ("FALSE", "false()")]
def questionClasses : List String := ["", "action", "input", "odk:rank", "osm", "range", "select", "select1", "trigger", "upload"]
end Tables

open Tables
def lookup (k : String) : List (String × α) → Option α
  | [] => none
  | (k', v) :: r => if k = k' then some v else lookup k r

/-- every select alias resolves to a type present in the type table -/
theorem select_aliases_in_table : selectAliases.all (fun (_, t) => (lookup t qtd).isSome) = true := by decide +kernel
/-- every type alias maps to a type with an identical table entry, when the alias itself is a key -/
theorem type_alias_equiv : typeAliases.all (fun (a, t) => match lookup a qtd, lookup t qtd with
    | some x, some y => x == y | none, some _ => true | _, none => false) = true := by decide +kernel
/-- every control tag of the table has a question class -/
theorem tags_have_class : qtd.all (fun (_, e) => match lookup "tag" e.control with
    | some t => (if t = "upload" ∧ lookup "mediatype" e.control = some "osm/*" then "osm" else t) ∈ questionClasses
    | none => true) = true := by decide +kernel
/-- yes/no spellings and bind conversions agree -/
theorem yesno_agree : bindingConversions.all (fun (k, v) => match lookup k yesNo with
    | some b => v = (if b then "true()" else "false()") | none => false) = true := by decide +kernel
theorem int_integer : lookup "int" qtd = lookup "integer" qtd := by decide +kernel
#print axioms tags_have_class
