#!/bin/bash
# MANIFEST.setup_cmd: regenerate tables from /repo, build model, proofs and driver (offline).
set -e
cd "$(dirname "$0")"
mkdir -p .work evidence replays
/venv/bin/python harness/translate_tables.py lean/Pyxv/Generated/Tables.lean
cd lean
lake build 2>&1 | tail -5
echo '{"op":"xml.esc","s":"a<b"}' | .lake/build/bin/driver
