#!/venv/bin/python
"""
Confirm a seeded change delivered by a mutation sub-agent and file it under /verif/seeded/<id>/.

  tools/seedverify.py /tmp/mut/out/c03/1 C03-1

In a scratch worktree of /repo: the demonstration must exit 0 on the unchanged tree, the patch must apply,
the demonstration must exit non-zero with it, and the repository's test suite must still pass every
stable_pass test of /root/.vp/BASELINE.json (tools/baseline_check.py).  Only then is the directory copied.
"""
import json
import os
import shutil
import subprocess
import sys
from pathlib import Path

ROOT = Path(__file__).resolve().parent.parent


def sh(cmd, **kw):
    p = subprocess.run(cmd, capture_output=True, text=True, **kw)
    return p.returncode, (p.stdout + p.stderr)


def main():
    src, sid = Path(sys.argv[1]), sys.argv[2]
    wt = Path(f"/tmp/seedverify_{os.getpid()}")
    ran = []
    ok = False
    try:
        sh(["git", "-C", "/repo", "worktree", "add", "--detach", str(wt), "HEAD"])
        rc0, out0 = sh(["/venv/bin/python", str(src / "demo.py"), str(wt)], cwd=str(src))
        ran.append(f"demo.py on unchanged tree: exit {rc0}")
        rca, outa = sh(["git", "-C", str(wt), "apply", str(src / "patch.diff")])
        ran.append(f"git apply patch.diff: exit {rca}")
        rc1, out1 = sh(["/venv/bin/python", str(src / "demo.py"), str(wt)], cwd=str(src))
        ran.append(f"demo.py with the change: exit {rc1}: {out1.strip().splitlines()[-1][:200] if out1.strip() else ''}")
        rcb, outb = sh(["/venv/bin/python", str(ROOT / "tools" / "baseline_check.py"), str(wt)])
        ran.append(f"tools/baseline_check.py with the change: exit {rcb}: {outb.strip().splitlines()[0] if outb.strip() else ''}")
        ok = rc0 == 0 and rca == 0 and rc1 != 0 and rcb == 0
    finally:
        sh(["git", "-C", "/repo", "worktree", "remove", "--force", str(wt)])
    print(sid, "CONFIRMED" if ok else "REJECTED", ran)
    if not ok:
        return 1
    dst = ROOT / "seeded" / sid
    dst.mkdir(parents=True, exist_ok=True)
    if src.resolve() != dst.resolve():
        shutil.copy(src / "patch.diff", dst / "patch.diff")
        shutil.copy(src / "demo.py", dst / "demo.py")
        for extra in src.iterdir():
            if extra.suffix == ".py" and extra.name != "demo.py":
                shutil.copy(extra, dst / extra.name)
    meta = {}
    if (src / "meta.json").exists():
        try:
            meta = json.loads((src / "meta.json").read_text())
        except Exception:  # noqa: BLE001
            meta = {"raw": (src / "meta.json").read_text()}
    meta["seeded_id"] = sid
    if "ran" in meta:
        meta["agent_ran"] = meta.pop("ran")
    meta["confirmed_by_coordinator"] = ran
    meta["repo_head"] = sh(["git", "-C", "/repo", "rev-parse", "--short", "HEAD"])[1].strip()
    (dst / "meta.json").write_text(json.dumps(meta, indent=1, ensure_ascii=False))
    return 0


if __name__ == "__main__":
    sys.exit(main())
