#!/venv/bin/python
"""
Run registered checks against seeded property-breaking changes.

  tools/seedtest.py <seeded-id | path-to-dir-with-patch.diff> [--checks C02,C04] [--tier quick] [--seed N] [--inplace]

Default: a scratch git worktree of /repo under /tmp gets the patch, the demonstration is run there
(must exit 1 with the patch, 0 without) and the checks run with PYXFORM_REPO pointing at it
(vcore, impl and the translator honour it), so /repo itself is never touched while other work reads it.
--inplace applies the patch to /repo itself (git -C /repo apply … ; checks ; git -C /repo checkout -- .).
Results are printed and written to <dir>/result.json.
"""
import argparse
import json
import os
import subprocess
import sys
import time
from pathlib import Path

ROOT = Path(__file__).resolve().parent.parent


def sh(cmd, **kw):
    p = subprocess.run(cmd, capture_output=True, text=True, **kw)
    return p.returncode, p.stdout + p.stderr


def main():
    ap = argparse.ArgumentParser()
    ap.add_argument("target")
    ap.add_argument("--checks", default="")
    ap.add_argument("--tier", default="quick")
    ap.add_argument("--seed", default="0")
    ap.add_argument("--inplace", action="store_true")
    ap.add_argument("--no-demo", action="store_true")
    a = ap.parse_args()
    d = Path(a.target)
    if not d.exists():
        d = ROOT / "seeded" / a.target
    patch = d / "patch.diff"
    meta = json.loads((d / "meta.json").read_text()) if (d / "meta.json").exists() else {}
    checks = [c for c in a.checks.split(",") if c] or [meta.get("property", "")]
    res = {"patch": str(patch), "checks": {}, "tier": a.tier, "seed": a.seed}
    wt = Path(f"/tmp/seedwt_{os.getpid()}")
    repo = "/repo"
    try:
        if a.inplace:
            rc, out = sh(["git", "-C", "/repo", "apply", str(patch)])
            if rc:
                print("patch does not apply:", out)
                return 2
            target = "/repo"
        else:
            sh(["git", "-C", repo, "worktree", "add", "--detach", str(wt), "HEAD"])
            if not (d / "demo.py").exists() or a.no_demo:
                pass
            else:
                rc0, _ = sh(["/venv/bin/python", str(d / "demo.py"), str(wt)], cwd=str(d))
                res["demo_clean_rc"] = rc0
            rc, out = sh(["git", "-C", str(wt), "apply", str(patch)])
            if rc:
                print("patch does not apply:", out)
                return 2
            target = str(wt)
        if (d / "demo.py").exists() and not a.no_demo:
            rc1, out1 = sh(["/venv/bin/python", str(d / "demo.py"), target], cwd=str(d))
            res["demo_patched_rc"] = rc1
            res["demo_patched_out"] = out1[-500:]
        env = dict(os.environ, VERIF_SEED=a.seed)
        if not a.inplace:
            env["PYXFORM_REPO"] = target
        for c in checks:
            t0 = time.time()
            rc, out = sh([str(ROOT / "check"), c, "--tier", a.tier], cwd=str(ROOT), env=env)
            viol = [l for l in out.splitlines() if l.startswith("VIOLATION")]
            res["checks"][c] = {"rc": rc, "violation": viol[:1], "wall_s": round(time.time() - t0, 1),
                                "tail": out.splitlines()[-3:]}
            print(f"{d.name}: check {c} rc={rc} {viol[:1]} ({time.time()-t0:.0f}s)")
    finally:
        if a.inplace:
            sh(["git", "-C", "/repo", "checkout", "--", "."])
        else:
            sh(["git", "-C", repo, "worktree", "remove", "--force", str(wt)])
        # leave the generated tables as the unchanged tree has them
        env0 = {k: v for k, v in os.environ.items() if k != "PYXFORM_REPO"}
        env0["PYTHONPATH"] = str(ROOT / "harness")
        sh(["/venv/bin/python", "-c", "import vcore; vcore.WORK.mkdir(exist_ok=True); print(vcore.regenerate_tables())"],
           cwd=str(ROOT), env=env0)
    (d / "result.json").write_text(json.dumps(res, indent=1))
    print(json.dumps({k: v for k, v in res.items() if k.startswith("demo")}))
    return 0


if __name__ == "__main__":
    sys.exit(main())
