#!/venv/bin/python
"""Fold known_findings.d/*.json fragments (delivered by slice builders) into known_findings.json."""
import json
from pathlib import Path
ROOT = Path(__file__).resolve().parent.parent
main = ROOT / "known_findings.json"
k = json.loads(main.read_text())
have = {(f["property"], f["id"]) for f in k["open"]}
for f in sorted((ROOT / "known_findings.d").glob("*.json")):
    frag = json.loads(f.read_text())
    rp = frag.get("replace_property")
    if rp:  # the fragment is the complete new state of that property's open findings
        k["open"] = [e for e in k["open"] if e["property"] != rp]
        have = {(e["property"], e["id"]) for e in k["open"]}
    for e in frag.get("open", []):
        if (e["property"], e["id"]) not in have:
            k["open"].append(e); have.add((e["property"], e["id"]))
    for e in frag.get("fixed", []):
        if e not in k["fixed"]:
            k["fixed"].append(e)
    f.unlink()
main.write_text(json.dumps(k, indent=1, ensure_ascii=False) + "\n")
print("open:", [(f["property"], f["id"]) for f in k["open"]])
