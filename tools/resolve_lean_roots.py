#!/venv/bin/python
"""Resolve merge conflicts in lean/Main.lean and lean/Pyxv.lean: union of import lines, union of handlers."""
import re, sys
from pathlib import Path
ROOT = Path(__file__).resolve().parent.parent
def clean(lines):
    return [l for l in lines if not re.match(r"^(<<<<<<<|=======|>>>>>>>)", l)]
# Pyxv.lean: imports only
p = ROOT / "lean" / "Pyxv.lean"
seen, out = set(), []
for l in clean(p.read_text().splitlines()):
    if l.strip() and l not in seen:
        seen.add(l); out.append(l)
p.write_text("\n".join(out) + "\n")
# Main.lean
p = ROOT / "lean" / "Main.lean"
lines = clean(p.read_text().splitlines())
imports, handlers, body = [], [], []
for l in lines:
    if l.startswith("import "):
        if l not in imports: imports.append(l)
        continue
    m = re.match(r"^\s*\[(.*)\]\s*$", l)
    if m and "ops" in l:
        for h in [x.strip() for x in m.group(1).split(",") if x.strip()]:
            if h not in handlers: handlers.append(h)
        if "@@HANDLERS@@" not in body: body.append("@@HANDLERS@@")
        continue
    body.append(l)
text = "\n".join(imports) + "\n" + "\n".join(body).replace("@@HANDLERS@@", "  [" + ", ".join(handlers) + "]") + "\n"
p.write_text(text)
print("imports:", len(imports), "handlers:", handlers)
