#!/bin/bash
# tools/soak.sh "C05 C08" "0 1 2" [tier]: run checks sequentially, print one summary line per run
cd /verif; tier=${3:-quick}
for c in $1; do for s in $2; do
  out=$(VERIF_SEED=$s ./check $c --tier $tier 2>&1); rc=$?
  echo "$c seed=$s rc=$rc $(echo "$out" | grep -c '^KNOWN-FINDING') known; $(echo "$out" | grep '^VIOLATION' | head -1) $(echo "$out" | tail -1 | grep -o 'evals=.*')"
done; done
