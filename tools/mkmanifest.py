#!/usr/bin/env python3
"""Assemble MANIFEST.json from tools/manifest_entries.json (one entry per registered check);
every property without an entry goes to not_applicable with the reason given in
tools/not_applicable.json (default: not built yet)."""
import json
from pathlib import Path

ROOT = Path(__file__).resolve().parent.parent
props = [json.loads(l) for l in (ROOT / "properties.jsonl").read_text().splitlines() if l.strip()]
entries = json.loads((ROOT / "tools" / "manifest_entries.json").read_text())
for f in sorted((ROOT / "tools" / "manifest.d").glob("*.json")):
    entries.update(json.loads(f.read_text()))
na = json.loads((ROOT / "tools" / "not_applicable.json").read_text()) if (ROOT / "tools" / "not_applicable.json").exists() else {}
hooks = json.loads((ROOT / "tools" / "hooks.json").read_text())

checks = []
for p in props:
    pid = p["id"]
    if pid in entries:
        e = entries[pid]
        checks.append(
            {
                "property_id": pid,
                "quick_cmd": f"./check {pid} --tier quick",
                "thorough_cmd": f"./check {pid} --tier thorough",
                "evidence_file": f"evidence/{pid}.json",
                "replay_cmd_template": f"./check {pid} --replay {{path}}",
                "engine": "lean-model",
                "level_claimed": {"category": "proof", "text": e["text"], "design_ref": e.get("design_ref", "DESIGN.md §5 " + pid)},
                "level_note": e["note"],
                "technique": e["technique"],
            }
        )
m = {
    "version": 1,
    "setup_cmd": "./setup.sh",
    "hooks": hooks,
    "engines": [
        {"name": "lean-model", "path": "lean/", "serves_properties": sorted(entries),
         "kind_free_text": "Lean 4 model (Pyxv/Model, import-free), theorems (Pyxv/Proofs), tables regenerated from /repo on every run (Pyxv/Generated), compiled JSON-lines driver (Main.lean)"},
        {"name": "harness", "path": "harness/", "serves_properties": sorted(entries),
         "kind_free_text": "Python correspondence + failing-input search harness running /repo's working tree in-process (vcore.py decision procedure)"},
    ],
    "checks": checks,
    "notes": "See DESIGN.md. A check is registered here only after a many-seed soak on the unchanged tree.",
    "not_applicable": [
        {"property_id": p["id"], "reason": na.get(p["id"], "check not built yet (work in progress; see DESIGN.md §9)")}
        for p in props if p["id"] not in entries
    ],
}
(ROOT / "MANIFEST.json").write_text(json.dumps(m, indent=1) + "\n")
print("checks:", [c["property_id"] for c in checks], "not_applicable:", len(m["not_applicable"]))
