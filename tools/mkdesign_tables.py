#!/venv/bin/python
"""Regenerate the generated tables of DESIGN.md (between <!-- BEGIN GENERATED:x --> / <!-- END GENERATED:x -->)
from the repository state: obligations (theorems per property), seeded/*/ (which check catches which seeded
change), known_findings.json (open / fixed)."""
import json
import re
import sys
from pathlib import Path

ROOT = Path(__file__).resolve().parent.parent
sys.path.insert(0, str(ROOT / "harness"))
import vcore  # noqa: E402

props = [json.loads(l) for l in (ROOT / "properties.jsonl").read_text().splitlines() if l.strip()]
obl = vcore.obligations()


def status_table():
    out = ["| property | theorems listed (audited with `#print axioms` each run) | proof modules | check | notes |", "|---|---|---|---|---|"]
    for p in props:
        pid = p["id"]
        e = obl.get(pid, {"modules": [], "theorems": []})
        note = f"notes/design_{pid}.md" if (ROOT / "notes" / f"design_{pid}.md").exists() else "§5 " + pid
        out.append(f"| {pid} {p['title'][:60]} | {len(e['theorems'])} | {', '.join(m.replace('Pyxv.Proofs.', '') for m in e['modules'])} | harness/props/{pid.lower()}.py | {note} |")
    return "\n".join(out)


def seeded_table():
    out = ["| seeded change | property | what it does (needs) | result of the property's check (quick tier, seed 0) |", "|---|---|---|---|"]
    caught = total = 0
    for d in sorted((ROOT / "seeded").iterdir()):
        if not (d / "meta.json").exists():
            continue
        m = json.loads((d / "meta.json").read_text())
        r = json.loads((d / "result.json").read_text()) if (d / "result.json").exists() else {}
        res = []
        for c, v in r.get("checks", {}).items():
            if v.get("violation"):
                kind = "VIOLATION (no-failing-input-found)" if "no-failing-input-found" in v["violation"][0] else "VIOLATION with failing input"
            else:
                kind = f"missed (exit {v.get('rc')})"
            res.append(f"{c}: {kind}")
        total += 1
        if any("VIOLATION" in x for x in res):
            caught += 1
        summ = re.sub(r"\s+", " ", str(m.get("summary", "")))[:160]
        needs = re.sub(r"\s+", " ", str(m.get("needs", "")))[:140]
        out.append(f"| {d.name} | {m.get('property', d.name[:3])} | {summ} ({needs}) | {'; '.join(res) or 'not run yet'} |")
    out.append(f"\nCaught: {caught} of {total}.")
    return "\n".join(out)


def findings_table():
    k = json.loads((ROOT / "known_findings.json").read_text())
    out = ["Open (printed as `KNOWN-FINDING:` by the property's check, exit 0):", "", "| property | id | what fails |", "|---|---|---|"]
    for f in sorted(k["open"], key=lambda f: (f["property"], f["id"])):
        out.append(f"| {f['property']} | {f['id']} | {re.sub(chr(10), ' ', f['what'])[:400]} |")
    out += ["", "Repaired in /repo (one `fix:` commit each; a fixed entry suppresses nothing):", ""]
    for line in k["fixed"]:
        out.append("* " + line)
    return "\n".join(out)


def summaries_block():
    out = []
    ids = [p["id"] for p in props] + ["E2E"]
    for pid in ids:
        f = ROOT / "notes" / f"summary_{pid}.md"
        if f.exists():
            body = " ".join(l.strip() for l in f.read_text().strip().splitlines())
            out.append(f"* **{pid}** {body}")
    return "\n".join(out)


def inject(text, name, body):
    b, e = f"<!-- BEGIN GENERATED:{name} -->", f"<!-- END GENERATED:{name} -->"
    if b not in text:
        return text
    i, j = text.index(b) + len(b), text.index(e)
    return text[:i] + "\n" + body + "\n" + text[j:]


p = ROOT / "DESIGN.md"
t = p.read_text()
t = inject(t, "status", status_table())
t = inject(t, "seeded", seeded_table())
t = inject(t, "findings", findings_table())
t = inject(t, "summaries", summaries_block())
p.write_text(t)
print("DESIGN.md tables regenerated")
