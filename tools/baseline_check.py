#!/venv/bin/python
"""Run /repo's test suite (guard off) and check that every stable_pass test of BASELINE.json passes."""
import json, subprocess, sys, tempfile, os
import xml.etree.ElementTree as ET

repo = sys.argv[1] if len(sys.argv) > 1 else "/repo"
base = json.load(open("/root/.vp/BASELINE.json"))
with tempfile.TemporaryDirectory() as d:
    out = os.path.join(d, "j.xml")
    subprocess.run(["/venv/bin/python", "-m", "pytest", "-q", "-p", "no:cacheprovider", "--timeout=900",
                    "--continue-on-collection-errors", f"--junitxml={out}"], cwd=repo,
                   stdout=subprocess.DEVNULL, stderr=subprocess.DEVNULL, env={**os.environ, "PYTHONDONTWRITEBYTECODE": "1"})
    passed = set()
    for tc in ET.parse(out).getroot().iter("testcase"):
        ok = not any(c.tag in ("failure", "error", "skipped") for c in tc)
        if ok:
            passed.add(f"{tc.get('classname')}::{tc.get('name')}")
missing = [t for t in base["stable_pass"] if t not in passed]
print(f"stable_pass={len(base['stable_pass'])} passed_now={len(passed)} missing={len(missing)}")
for t in missing[:20]:
    print("  NOT PASSING:", t)
sys.exit(1 if missing else 0)
