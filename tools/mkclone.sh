#!/bin/bash
# tools/mkclone.sh <name>: private clone of /verif for one slice builder (with the Lean build output copied in)
set -e
n="$1"; d=/tmp/agents/$n
rm -rf "$d"; mkdir -p "$d"
git clone -q /verif "$d/verif"
cp -r /verif/lean/.lake "$d/verif/lean/.lake"
cd "$d/verif" && git checkout -q -b "$n" && mkdir -p .work evidence replays
echo "$d/verif"
