#!/bin/bash
# tools/merge_slice.sh <name>: merge branch <name> of /tmp/agents/<name>/verif, resolving the routine conflicts
n="$1"; cd /verif
git checkout -q -- lean/Pyxv/Generated/Tables.lean evidence 2>/dev/null
git fetch -q /tmp/agents/$n/verif $n || exit 1
if git merge --no-edit FETCH_HEAD >/tmp/merge_$n.log 2>&1; then echo "$n: merged cleanly"; else
  for f in $(git diff --name-only --diff-filter=U); do
    case "$f" in
      evidence/*|lean/Pyxv/Generated/Tables.lean) git checkout --ours -- "$f" ;;
      harness/translate_tables.py) sed -i '/^<<<<<<< /d;/^=======$/d;/^>>>>>>> /d' "$f" ;;
      lean/Main.lean|lean/Pyxv.lean) : ;;
      *) echo "UNRESOLVED: $f" ;;
    esac
  done
  tools/resolve_lean_roots.py >/dev/null
  if grep -l '^<<<<<<< ' $(git diff --name-only --diff-filter=U) 2>/dev/null; then echo "$n: manual resolution needed"; exit 1; fi
  /venv/bin/python harness/translate_tables.py lean/Pyxv/Generated/Tables.lean
  git add -A && git commit -qm "merge $n slice" && echo "$n: merged with routine conflict resolution"
fi
