import Pyxv.Model.Process
/-! Lemmas about the process model (C14). -/
namespace Pyxv.Process

section lru
variable {κ ν : Type} [DecidableEq κ]

theorem lookupK_mem {k : κ} {v : ν} : ∀ {l : List (κ × ν)}, lookupK k l = some v → (k, v) ∈ l
  | [], h => by simp [lookupK] at h
  | (k', v') :: rest, h => by
    unfold lookupK at h
    split at h
    · rename_i hk; cases h; subst hk; simp
    · exact List.mem_cons_of_mem _ (lookupK_mem h)

theorem lookupK_none {k : κ} : ∀ {l : List (κ × ν)}, lookupK k l = none → k ∉ l.map (·.1)
  | [], _ => by simp
  | (k', v') :: rest, h => by
    unfold lookupK at h
    split at h
    · cases h
    · rename_i hk
      have := lookupK_none h
      simp only [List.map_cons, List.mem_cons, not_or]
      exact ⟨hk, this⟩

theorem lookupK_isSome_of_mem {k : κ} : ∀ {l : List (κ × ν)}, k ∈ l.map (·.1) → (lookupK k l).isSome
  | [], h => by simp at h
  | (k', v') :: rest, h => by
    unfold lookupK
    split
    · simp
    · rename_i hk
      simp only [List.map_cons, List.mem_cons] at h
      rcases h with h | h
      · exact absurd h hk
      · exact lookupK_isSome_of_mem h

theorem mem_eraseK {k : κ} {e : κ × ν} {l : List (κ × ν)} (h : e ∈ eraseK k l) : e ∈ l ∧ e.1 ≠ k := by
  simpa [eraseK] using h

/-- what a call returns: the stored value on a hit, `f k` otherwise -/
theorem call_out (f : κ → ν) (c : Lru κ ν) (k : κ) :
    (c.call f k).2.1 = (lookupK k c.entries).getD (f k) := by
  unfold Lru.call
  split
  · rename_i v h; simp [h]
  · rename_i h
    simp only [h, Option.getD_none]
    split
    · rfl
    · rfl
    · split <;> rfl

/-- a call never invents entries: each entry afterwards was there before, or is `(k, f k)` -/
theorem call_entries (f : κ → ν) (c : Lru κ ν) (k : κ) {e : κ × ν}
    (he : e ∈ (c.call f k).1.entries) : e ∈ c.entries ∨ e = (k, f k) := by
  unfold Lru.call at he
  split at he
  · rename_i v h
    simp only [List.mem_cons] at he
    rcases he with he | he
    · left; subst he; exact lookupK_mem h
    · left; exact (mem_eraseK he).1
  · split at he
    · simp only [List.mem_cons] at he
      rcases he with he | he
      · right; exact he
      · left; exact he
    · left; exact he
    · split at he
      · simp only [List.mem_cons] at he
        rcases he with he | he
        · right; exact he
        · left; exact he
      · simp only [List.mem_cons] at he
        rcases he with he | he
        · right; exact he
        · left; exact (List.dropLast_sublist _).subset he

theorem call_cap (f : κ → ν) (c : Lru κ ν) (k : κ) : (c.call f k).1.cap = c.cap := by
  unfold Lru.call
  split
  · rfl
  · split
    · rfl
    · rfl
    · split <;> rfl

theorem call_coherent {f : κ → ν} {c : Lru κ ν} (h : Coherent f c) (k : κ) : Coherent f (c.call f k).1 := by
  intro e he
  rcases call_entries f c k he with h1 | h1
  · exact h e h1
  · subst h1; rfl

theorem call_out_coherent {f : κ → ν} {c : Lru κ ν} (h : Coherent f c) (k : κ) : (c.call f k).2.1 = f k := by
  rw [call_out]
  cases hl : lookupK k c.entries with
  | none => rfl
  | some v => exact h _ (lookupK_mem hl)

theorem run_outputs {f : κ → ν} : ∀ (ops : List κ) {c : Lru κ ν}, Coherent f c →
    (runCached f c ops).2.map (·.1) = ops.map f ∧ Coherent f (runCached f c ops).1
  | [], _, h => ⟨rfl, h⟩
  | k :: ks, c, h => by
    have ih := run_outputs ks (call_coherent h k)
    simp only [runCached, List.map_cons, call_out_coherent h k]
    exact ⟨by rw [ih.1], ih.2⟩

/-- keys stay distinct -/
def KeysNodup (c : Lru κ ν) : Prop := (c.entries.map (·.1)).Nodup

theorem eraseK_keys (k : κ) (l : List (κ × ν)) : k ∉ (eraseK k l).map (·.1) := by
  intro h
  rcases List.mem_map.1 h with ⟨e, he, hk⟩
  exact (mem_eraseK he).2 hk

theorem call_nodup (f : κ → ν) {c : Lru κ ν} (h : KeysNodup c) (k : κ) : KeysNodup (c.call f k).1 := by
  unfold KeysNodup at *
  unfold Lru.call
  split
  · simp only [List.map_cons, List.nodup_cons]
    refine ⟨eraseK_keys k _, ?_⟩
    exact List.Nodup.sublist (List.Sublist.map _ (List.filter_sublist)) h
  · rename_i hn
    have hk := lookupK_none hn
    split
    · simp only [List.map_cons, List.nodup_cons]; exact ⟨hk, h⟩
    · exact h
    · split
      · simp only [List.map_cons, List.nodup_cons]; exact ⟨hk, h⟩
      · simp only [List.map_cons, List.nodup_cons]
        refine ⟨fun hm => hk ?_, ?_⟩
        · exact (List.Sublist.map _ (List.dropLast_sublist _)).subset hm
        · exact List.Nodup.sublist (List.Sublist.map _ (List.dropLast_sublist _)) h

theorem call_size (f : κ → ν) {c : Lru κ ν} {n : Nat} (hc : c.cap = some n) (h : c.entries.length ≤ n)
    (k : κ) : (c.call f k).1.entries.length ≤ n := by
  unfold Lru.call
  split
  · rename_i v hl
    have hm := lookupK_mem hl
    -- erasing a present key removes at least one entry
    have : (eraseK k c.entries).length < c.entries.length := by
      unfold eraseK
      apply List.length_filter_lt_length_iff_exists.2
      exact ⟨(k, v), hm, by simp⟩
    simp only [List.length_cons]; omega
  · rw [hc]
    cases n with
    | zero => simpa using h
    | succ m =>
      simp only
      split
      · simp only [List.length_cons]; omega
      · simp only [List.length_cons, List.length_dropLast]; omega

end lru

section world
variable {τ ξ ν : Type} [DecidableEq ξ]

/-- the invariant of the identity-keyed cache: addresses of live objects are distinct, live objects
are the ones the caller's bindings mean, and every cache entry belongs to a live object and holds
`g` of *that* object -/
structure Inv (g : τ → ξ → ν) (w : World τ ξ ν) (env : List (ObjId × τ)) : Prop where
  nodup : (w.heap.map (·.1)).Nodup
  bound : ∀ e ∈ w.heap, lookupK e.1 env = some e.2
  valid : ∀ e ∈ w.cache.entries, ∃ t, (e.1.1, t) ∈ w.heap ∧ e.2 = g t e.1.2

omit [DecidableEq ξ] in
theorem gc_inv {g : τ → ξ → ν} {w : World τ ξ ν} {env} (h : Inv g w env) : Inv g (gc true w) env where
  nodup := List.Nodup.sublist (List.Sublist.map _ List.filter_sublist) h.nodup
  bound := fun e he => h.bound e (List.mem_filter.1 he).1
  valid := fun e he => by
    obtain ⟨t, ht, hv⟩ := h.valid e he
    refine ⟨t, ?_, hv⟩
    simp only [gc, List.mem_filter, Bool.true_and, Bool.or_eq_true, decide_eq_true_eq]
    exact ⟨ht, Or.inr (List.mem_map.2 ⟨e, he, rfl⟩)⟩

theorem mem_heap_unique {l : List (ObjId × τ)} (hn : (l.map (·.1)).Nodup) {i : ObjId} {t t' : τ}
    (h1 : (i, t) ∈ l) (h2 : (i, t') ∈ l) : t = t' := by
  induction l with
  | nil => cases h1
  | cons a rest ih =>
    simp only [List.map_cons, List.nodup_cons] at hn
    simp only [List.mem_cons] at h1 h2
    rcases h1 with h1 | h1 <;> rcases h2 with h2 | h2
    · rw [← h1] at h2; exact (Prod.mk.inj h2).2.symm ▸ rfl
    · exact absurd (List.mem_map.2 ⟨(i, t'), h2, by rw [← h1]⟩) hn.1
    · exact absurd (List.mem_map.2 ⟨(i, t), h1, by rw [← h2]⟩) hn.1
    · exact ih hn.2 h1 h2

/-- one step keeps the invariant; a call returns `g` of the object the caller passed -/
theorem step_inv {g : τ → ξ → ν} {w w' : World τ ξ ν} {env} (h : Inv g w env) {op : Op τ ξ} {out : Option ν}
    (hs : w.step true g op = some (w', out)) :
    (match op with
      | .alloc id t => Inv g w' ((id, t) :: env) ∧ out = none
      | .drop _ => Inv g w' env ∧ out = none
      | .call id x => Inv g w' env ∧ ∃ t, lookupK id env = some t ∧ out = some (g t x)) := by
  cases op with
  | alloc id t =>
    simp only [World.step] at hs
    split at hs
    · cases hs
    · rename_i hfresh
      simp only [Option.some.injEq, Prod.mk.injEq] at hs
      refine ⟨?_, hs.2.symm⟩
      rw [← hs.1]
      apply gc_inv
      refine ⟨?_, ?_, ?_⟩
      · simp only [List.map_cons, List.nodup_cons]; exact ⟨hfresh, h.nodup⟩
      · intro e he
        simp only [List.mem_cons] at he
        rcases he with he | he
        · subst he; simp [lookupK]
        · have hne : e.1 ≠ id := fun heq => hfresh (List.mem_map.2 ⟨e, he, heq⟩)
          simp only [lookupK, hne, if_false]
          exact h.bound e he
      · intro e he
        obtain ⟨t', ht', hv⟩ := h.valid e he
        exact ⟨t', List.mem_cons_of_mem _ ht', hv⟩
  | drop id =>
    simp only [World.step, Option.some.injEq, Prod.mk.injEq] at hs
    refine ⟨?_, hs.2.symm⟩
    rw [← hs.1]
    exact gc_inv ⟨h.nodup, h.bound, h.valid⟩
  | call id x =>
    simp only [World.step] at hs
    split at hs
    · split at hs
      · cases hs
      · rename_i t ht
        simp only [Option.some.injEq, Prod.mk.injEq] at hs
        have hmem : (id, t) ∈ w.heap := lookupK_mem ht
        have hout : (w.cache.call (fun key => g t key.2) (id, x)).2.1 = g t x := by
          rw [call_out]
          cases hl : lookupK (id, x) w.cache.entries with
          | none => rfl
          | some v =>
            obtain ⟨t', ht', hv⟩ := h.valid _ (lookupK_mem hl)
            have : t' = t := mem_heap_unique h.nodup ht' hmem
            subst this
            simpa using hv
        refine ⟨?_, t, h.bound _ hmem, ?_⟩
        · rw [← hs.1]
          apply gc_inv
          refine ⟨h.nodup, h.bound, ?_⟩
          intro e he
          rcases call_entries _ _ _ he with h1 | h1
          · exact h.valid e h1
          · subst h1; exact ⟨t, hmem, rfl⟩
        · rw [← hs.2, hout]
    · cases hs

theorem run_spec {g : τ → ξ → ν} : ∀ (ops : List (Op τ ξ)) {w w' : World τ ξ ν} {env} {outs : List ν},
    Inv g w env → World.run true g w ops = some (w', outs) → outs.map some = specOutputs g env ops
  | [], _, _, _, _, _, hr => by
    simp only [World.run, Option.some.injEq, Prod.mk.injEq] at hr
    rw [← hr.2]; rfl
  | op :: ops, w, w', env, outs, h, hr => by
    simp only [World.run] at hr
    split at hr
    · cases hr
    · rename_i w1 out hs
      split at hr
      · cases hr
      · rename_i w2 outs2 hr2
        simp only [Option.some.injEq, Prod.mk.injEq] at hr
        have hstep := step_inv h hs
        cases op with
        | alloc id t =>
          obtain ⟨hi, ho⟩ := hstep
          subst ho
          rw [← hr.2]
          simpa [specOutputs] using run_spec ops hi hr2
        | drop id =>
          obtain ⟨hi, ho⟩ := hstep
          subst ho
          rw [← hr.2]
          simpa [specOutputs] using run_spec ops hi hr2
        | call id x =>
          obtain ⟨hi, t, ht, ho⟩ := hstep
          subst ho
          rw [← hr.2]
          simp only [List.singleton_append, List.map_cons, specOutputs, ht, Option.map_some]
          rw [run_spec ops hi hr2]

omit [DecidableEq ξ] in
theorem inv_empty (g : τ → ξ → ν) (cap : Option Nat) : Inv g (World.empty cap : World τ ξ ν) [] :=
  ⟨by simp [World.empty], by simp [World.empty], by simp [World.empty, emptyLru]⟩

end world

/-! ### dict assignment -/
section dict
variable {κ ν : Type} [DecidableEq κ]

theorem aset_idem (k : κ) (v : ν) : ∀ d : List (κ × ν), aset k v (aset k v d) = aset k v d
  | [] => by simp [aset]
  | (k', v') :: rest => by
    by_cases h : k' = k
    · simp [aset, h]
    · simp [aset, h, aset_idem k v rest]

theorem asetAll_append (d : List (κ × ν)) (ps qs : List (κ × ν)) :
    asetAll d (ps ++ qs) = asetAll (asetAll d ps) qs := by
  simp [asetAll, List.foldl_append]

theorem asetAll_twice_short (d : List (κ × ν)) (pe : List (κ × ν)) (h : pe.length ≤ 1) :
    asetAll (asetAll d pe) pe = asetAll d pe := by
  match pe, h with
  | [], _ => rfl
  | [p], _ => simp [asetAll, aset_idem]

end dict

/-! ### `get_nsmap` -/

theorem nsPairs_append (base : List (Str × Str)) (ts us : List Str) :
    nsPairs base (ts ++ us) = nsPairs base ts ++ nsPairs base us := by
  simp [nsPairs, List.filterMap_append, List.filter_append, List.map_append]

theorem nsPairs_single_len (base : List (Str × Str)) (e : Str) : (nsPairs base [e]).length ≤ 1 := by
  unfold nsPairs
  rw [List.length_map]
  exact Nat.le_trans (List.length_filter_le _ _) (by
    simpa using List.length_filterMap_le parseDecl [e])

/-- declaring the same namespace once more does not change the map -/
theorem nsmapOf_append_again (base : List (Str × Str)) (ts : List Str) (e : Str) :
    nsmapOf base ((ts ++ [e]) ++ [e]) = nsmapOf base (ts ++ [e]) := by
  unfold nsmapOf
  rw [nsPairs_append, asetAll_append, nsPairs_append, asetAll_append,
    asetAll_twice_short _ _ (nsPairs_single_len base e)]

/-! ### search redirect -/

theorem hasExt_nil : hasExtInstanceExt [] = false := by
  simp [hasExtInstanceExt]

theorem redirect_idem {s s' : SurveyState} (h : redirectSearch s = .ok s') : redirectSearch s' = .ok s' := by
  unfold redirectSearch at h
  split at h
  · cases h
  · simp only [Except.ok.injEq] at h
    subst h
    unfold redirectSearch
    have hnone : (List.find? (fun q => q.search && hasExtInstanceExt q.itemset)
        (s.selects.map fun q => if q.search then { q with itemset := [] } else q)) = none := by
      rw [List.find?_eq_none]
      intro q hq
      rcases List.mem_map.1 hq with ⟨q0, _, rfl⟩
      by_cases hs : q0.search
      · simp [hs, hasExt_nil]
      · simp [hs]
    simp only [hnone]
    have hsearched : (List.filter (fun x => x.search)
          (s.selects.map fun q => if q.search then { q with itemset := [] } else q)).map (·.listName)
        = (s.selects.filter (·.search)).map (·.listName) := by
      induction s.selects with
      | nil => rfl
      | cons q rest ih =>
        by_cases hs : q.search <;> simp [hs, ih]
    congr 1
    rw [hsearched]
    have h1 : (List.map (fun q : SelectQ => if q.search then { q with itemset := [] } else q)
        (s.selects.map fun q => if q.search then { q with itemset := [] } else q))
        = s.selects.map fun q => if q.search then { q with itemset := [] } else q := by
      rw [List.map_map]
      apply List.map_congr_left
      intro q _
      by_cases hs : q.search <;> simp [hs]
    have h2 : ∀ searched : List Str, (List.map (fun l : Str × Bool => (l.1, l.2 || decide (l.1 ∈ searched)))
        (s.lists.map fun l => (l.1, l.2 || decide (l.1 ∈ searched))))
        = s.lists.map fun l => (l.1, l.2 || decide (l.1 ∈ searched)) := by
      intro searched
      rw [List.map_map]
      apply List.map_congr_left
      intro l _
      simp
    simp only [h1, h2]

theorem redirect_keeps {s s' : SurveyState} (h : redirectSearch s = .ok s') :
    s'.triggerRefs = s.triggerRefs ∧ s'.names = s.names := by
  unfold redirectSearch at h
  split at h
  · cases h
  · simp only [Except.ok.injEq] at h
    subst h
    exact ⟨rfl, rfl⟩

theorem nsAppend_keeps (s : SurveyState) : (nsAppend s).triggerRefs = s.triggerRefs ∧ (nsAppend s).names = s.names := by
  unfold nsAppend
  split <;> exact ⟨rfl, rfl⟩

theorem validate_congr {s s' : SurveyState} (h1 : s'.triggerRefs = s.triggerRefs) (h2 : s'.names = s.names) :
    validateTriggers s' = validateTriggers s := by
  simp [validateTriggers, h1, h2]

/-! ### string order, sorted iteration -/

theorem leStr_total : ∀ a b : Str, (leStr a b || leStr b a) = true
  | [], _ => by simp [leStr]
  | _ :: _, [] => by simp [leStr]
  | a :: as, b :: bs => by
    by_cases h : a = b
    · subst h; simpa [leStr] using leStr_total as bs
    · have h' : ¬ b = a := fun e => h e.symm
      have hn : a.toNat ≠ b.toNat := fun e => h (Char.toNat_inj.1 e)
      simp only [leStr, h, h', if_false, Bool.or_eq_true, decide_eq_true_eq]
      omega

theorem leStr_antisymm : ∀ a b : Str, leStr a b = true → leStr b a = true → a = b
  | [], [], _, _ => rfl
  | [], _ :: _, _, h => by simp [leStr] at h
  | _ :: _, [], h, _ => by simp [leStr] at h
  | a :: as, b :: bs, h1, h2 => by
    by_cases h : a = b
    · subst h
      simp only [leStr, if_true] at h1 h2
      rw [leStr_antisymm as bs h1 h2]
    · have h' : ¬ b = a := fun e => h e.symm
      simp only [leStr, h, h', if_false, decide_eq_true_eq] at h1 h2
      omega

theorem leStr_trans : ∀ a b c : Str, leStr a b = true → leStr b c = true → leStr a c = true
  | [], _, _, _, _ => by simp [leStr]
  | _ :: _, [], _, h, _ => by simp [leStr] at h
  | _ :: _, _ :: _, [], _, h => by simp [leStr] at h
  | a :: as, b :: bs, c :: cs, h1, h2 => by
    by_cases hab : a = b
    · subst hab
      by_cases hac : a = c
      · subst hac
        simp only [leStr, if_true] at h1 h2 ⊢
        exact leStr_trans as bs cs h1 h2
      · simp only [leStr, hac, if_false, if_true] at h1 h2 ⊢
        exact h2
    · by_cases hbc : b = c
      · subst hbc
        simp only [leStr, hab, if_false, if_true] at h1 h2 ⊢
        exact h1
      · simp only [leStr, hab, hbc, if_false, decide_eq_true_eq] at h1 h2
        have hac : a ≠ c := by
          intro e; subst e; omega
        simp only [leStr, hac, if_false, decide_eq_true_eq]
        omega

/-- `sorted()` of a set does not depend on the order in which the set is iterated -/
theorem sortStr_perm {l₁ l₂ : List Str} (h : l₁.Perm l₂) : sortStr l₁ = sortStr l₂ := by
  unfold sortStr
  apply List.Perm.eq_of_pairwise (le := fun a b => leStr a b = true)
  · intro a b _ _ h1 h2; exact leStr_antisymm a b h1 h2
  · exact List.pairwise_mergeSort (le := leStr) leStr_trans leStr_total l₁
  · exact List.pairwise_mergeSort (le := leStr) leStr_trans leStr_total l₂
  · exact ((List.mergeSort_perm l₁ leStr).trans h).trans (List.mergeSort_perm l₂ leStr).symm

theorem perm_short {l l' : List Str} (h : l'.Perm l) (hl : l.length ≤ 1) : l' = l := by
  match l, hl with
  | [], _ => exact List.Perm.eq_nil h
  | [a], _ => exact List.perm_singleton.1 h

/-! ### the scanner -/

def Thread.lens (t : Thread) : List Nat :=
  t.emitted.map (·.1) ++ (match t.pending with | some l => [l] | none => []) ++ t.todo

/-- whatever the register holds, a step of a thread neither loses nor reorders its own tokens -/
theorem thread_step_lens (reg : Option (Nat × Nat)) (t : Thread) : (t.step reg).2.lens = t.lens := by
  unfold Thread.step
  split
  · rename_i len h
    simp [Thread.lens, h]
  · rename_i h
    split
    · rfl
    · rename_i len rest ht
      simp [Thread.lens, h, ht]

theorem sys_step_lens (s : Sys) (who : Bool) :
    (s.step who).a.lens = s.a.lens ∧ (s.step who).b.lens = s.b.lens := by
  unfold Sys.step
  cases who <;> simp [thread_step_lens]

theorem sys_run_lens : ∀ (sched : List Bool) (s : Sys),
    (s.run sched).a.lens = s.a.lens ∧ (s.run sched).b.lens = s.b.lens
  | [], _ => ⟨rfl, rfl⟩
  | w :: ws, s => by
    have ih := sys_run_lens ws (s.step w)
    have h1 := sys_step_lens s w
    simp only [Sys.run, List.foldl_cons] at ih ⊢
    exact ⟨ih.1.trans h1.1, ih.2.trans h1.2⟩

theorem done_lens {t : Thread} (h : t.done = true) : t.emitted.map (·.1) = t.lens := by
  simp only [Thread.done, Bool.and_eq_true, List.isEmpty_iff, Option.isNone_iff_eq_none] at h
  simp [Thread.lens, h.1, h.2]

theorem positionsFrom_append (p : Nat) (l : List Nat) (x : Nat) :
    positionsFrom p (l ++ [x]) = positionsFrom p l ++ [(p + l.sum, p + l.sum + x)] := by
  induction l generalizing p with
  | nil => simp [positionsFrom]
  | cons a rest ih => simp [positionsFrom, ih, Nat.add_assoc]

/-! ### re-running dict writes -/
section W
variable {κ ν : Type} [DecidableEq κ]

theorem aset_keys_of_mem {k : κ} {v : ν} : ∀ {d : List (κ × ν)}, k ∈ d.map (·.1) → (aset k v d).map (·.1) = d.map (·.1)
  | [], h => by simp at h
  | (k', v') :: rest, h => by
    by_cases hk : k' = k
    · simp [aset, hk]
    · simp only [List.map_cons, List.mem_cons] at h
      have : k ∈ rest.map (·.1) := by
        rcases h with h | h
        · exact absurd h.symm hk
        · exact h
      simp [aset, hk, aset_keys_of_mem this]

theorem aset_of_not_mem {k : κ} {v : ν} : ∀ {d : List (κ × ν)}, k ∉ d.map (·.1) → aset k v d = d ++ [(k, v)]
  | [], _ => rfl
  | (k', v') :: rest, h => by
    simp only [List.map_cons, List.mem_cons, not_or] at h
    have hk : ¬ k' = k := fun e => h.1 e.symm
    simp [aset, hk, aset_of_not_mem h.2]

theorem mem_keys_aset (k : κ) (v : ν) : ∀ d : List (κ × ν), k ∈ (aset k v d).map (·.1)
  | [] => by simp [aset]
  | (k', v') :: rest => by
    by_cases hk : k' = k
    · simp [aset, hk]
    · simp only [aset, hk, if_false, List.map_cons, List.mem_cons]
      exact Or.inr (mem_keys_aset k v rest)

theorem keys_sub_aset (k : κ) (v : ν) {x : κ} : ∀ {d : List (κ × ν)}, x ∈ d.map (·.1) → x ∈ (aset k v d).map (·.1)
  | [], h => by simp at h
  | (k', v') :: rest, h => by
    by_cases hk : k' = k
    · subst hk; simpa [aset] using h
    · simp only [List.map_cons, List.mem_cons] at h
      simp only [aset, hk, if_false, List.map_cons, List.mem_cons]
      rcases h with h | h
      · exact Or.inl h
      · exact Or.inr (keys_sub_aset k v h)

theorem keys_sub_asetAll {x : κ} : ∀ (ws : List (κ × ν)) {d : List (κ × ν)}, x ∈ d.map (·.1) → x ∈ (asetAll d ws).map (·.1)
  | [], _, h => h
  | w :: ws, d, h => by
    simp only [asetAll, List.foldl_cons]
    exact keys_sub_asetAll ws (keys_sub_aset w.1 w.2 h)

theorem written_keys_asetAll : ∀ (ws : List (κ × ν)) (d : List (κ × ν)) (w : κ × ν), w ∈ ws → w.1 ∈ (asetAll d ws).map (·.1)
  | [], _, _, h => by cases h
  | w0 :: ws, d, w, h => by
    simp only [asetAll, List.foldl_cons]
    simp only [List.mem_cons] at h
    rcases h with h | h
    · subst h; exact keys_sub_asetAll ws (mem_keys_aset _ _ d)
    · exact written_keys_asetAll ws _ w h

theorem aset_overwrite (k : κ) (u v : ν) : ∀ d : List (κ × ν), aset k v (aset k u d) = aset k v d
  | [] => by simp [aset]
  | (k', v') :: rest => by
    by_cases hk : k' = k
    · simp [aset, hk]
    · simp [aset, hk, aset_overwrite k u v rest]

theorem aset_comm {k k' : κ} (hne : k' ≠ k) (u v' : ν) : ∀ {d : List (κ × ν)}, k ∈ d.map (·.1) →
    aset k' v' (aset k u d) = aset k u (aset k' v' d)
  | [], h => by simp at h
  | (a, b) :: rest, h => by
    by_cases ha : a = k
    · subst ha
      have : ¬ a = k' := fun e => hne e.symm
      simp [aset, this]
    · simp only [List.map_cons, List.mem_cons] at h
      have hr : k ∈ rest.map (·.1) := by
        rcases h with h | h
        · exact absurd h.symm ha
        · exact h
      by_cases ha' : a = k'
      · subst ha'; simp [aset, ha]
      · simp [aset, ha, ha', aset_comm hne u v' hr]

theorem aset_absorb {k : κ} (u v : ν) : ∀ (ws : List (κ × ν)) {d : List (κ × ν)}, k ∈ d.map (·.1) →
    aset k v (asetAll (aset k u d) ws) = aset k v (asetAll d ws)
  | [], d, _ => by simp [asetAll, aset_overwrite]
  | (k', v') :: ws, d, h => by
    simp only [asetAll, List.foldl_cons]
    by_cases hk : k' = k
    · subst hk; rw [aset_overwrite]
    · rw [aset_comm hk u v' h]
      exact aset_absorb u v ws (keys_sub_aset k' v' h)

theorem aset_append_of_mem {k : κ} {v : ν} (e : κ × ν) : ∀ {d : List (κ × ν)}, k ∈ d.map (·.1) →
    aset k v (d ++ [e]) = aset k v d ++ [e]
  | [], h => by simp at h
  | (a, b) :: rest, h => by
    by_cases ha : a = k
    · simp [aset, ha]
    · simp only [List.map_cons, List.mem_cons] at h
      have hr : k ∈ rest.map (·.1) := by
        rcases h with h | h
        · exact absurd h.symm ha
        · exact h
      simp [aset, ha, aset_append_of_mem e hr]

theorem asetAll_append_entry (e : κ × ν) : ∀ (ws : List (κ × ν)) {d : List (κ × ν)},
    (∀ w ∈ ws, w.1 ∈ d.map (·.1)) → asetAll (d ++ [e]) ws = asetAll d ws ++ [e]
  | [], _, _ => rfl
  | w :: ws, d, h => by
    simp only [asetAll, List.foldl_cons]
    rw [aset_append_of_mem e (h w (List.mem_cons_self ..))]
    apply asetAll_append_entry e ws
    intro w' hw'
    exact keys_sub_aset _ _ (h w' (List.mem_cons_of_mem _ hw'))

theorem asetAll_idem_rev : ∀ (rs : List (κ × ν)) (d : List (κ × ν)),
    asetAll (asetAll d rs.reverse) rs.reverse = asetAll d rs.reverse
  | [], _ => rfl
  | (k, v) :: rs, d => by
    have ih := asetAll_idem_rev rs
    simp only [List.reverse_cons]
    rw [asetAll_append d, asetAll_append (asetAll (asetAll d rs.reverse) [(k, v)])]
    show aset k v (asetAll (aset k v (asetAll d rs.reverse)) rs.reverse) = aset k v (asetAll d rs.reverse)
    by_cases hm : k ∈ (asetAll d rs.reverse).map (·.1)
    · rw [aset_absorb v v rs.reverse hm, ih]
    · rw [aset_of_not_mem hm, asetAll_append_entry (k, v) rs.reverse, ih, ← aset_of_not_mem hm, aset_idem]
      intro w hw
      exact written_keys_asetAll rs.reverse d w hw

/-- Re-running a sequence of dict assignments on its own result changes nothing (why not resetting
`_translations` between `xml()` calls is harmless for the entries `_setup_translations` writes). -/
theorem asetAll_idem (d ws : List (κ × ν)) : asetAll (asetAll d ws) ws = asetAll d ws := by
  have := asetAll_idem_rev ws.reverse d
  simpa using this

end W

end Pyxv.Process
