import Pyxv.Proofs.RowsLemmas
/-!
# C04 — survey rows map one-to-one, in order and nesting, onto instance and body
-/
namespace Pyxv.C04
open Pyxv Pyxv.Form Pyxv.Rows

/-- **Refinement**: the begin/end stack machine of `workbook_to_json` equals the
    recursive-descent (grammar) reading of the sheet: same tree on success, same located error
    otherwise — for every list of rows. -/
theorem stack_refines_nest (rows : List (Nat × RowK)) : parseRows rows = nest rows :=
  parseRows_eq_nest rows

/-- **Instance shape**: ignoring `jr:template` copies, the children of the primary instance are
    exactly the element tree — one node per element, in sheet order, nested as begin/end nest. -/
theorem instance_shape (app : Bool) (its : List Item) : eraseL (instKids app its) = plainL its :=
  erase_instKids its app

/-- Disabled, blank, comment and settings-type rows contribute nothing: dropping them from the
    sheet changes neither the tree nor the error. -/
theorem skip_rows_vanish (rows : List (Nat × RowK)) :
    parseRows (rows.filter notSkip) = parseRows rows := by
  unfold parseRows
  rw [run_skip_irrelevant]

/-- A top-level repeat is preceded by exactly its template; inside a repeat's ordinary copy no
    further templates are generated (the nested templates live in the outer template). -/
theorem repeat_template_toplevel (n : Str) (b : Bool) (ks rest : List Item) :
    instKids false (.sec .rep n b ks :: rest) =
      tmpl n ks :: NT.node n false (instKids true ks) :: instKids false rest := by
  simp [instKids, tmpl]

theorem repeat_no_template_inside (n : Str) (b : Bool) (ks rest : List Item) :
    instKids true (.sec .rep n b ks :: rest) = NT.node n false (instKids true ks) :: instKids true rest := by
  simp [instKids]

/-- generated companions sit where the documentation says: `<repeat>_count` immediately before
    its repeat, `<select>_other` immediately after its select -/
theorem count_helper_before_repeat (f : Nat) (n : Nat) (ct : Ctl) (name : Str) (b : Bool) (h : QData)
    (rs : List (Nat × RowK)) (kids ts : List Item) (n' : Nat) (rest rest' : List (Nat × RowK))
    (h1 : items f rs = .ok (kids, (n', .end_ ct) :: rest)) (h2 : items f rest = .ok (ts, rest')) :
    items (f + 1) ((n, .begin_ ct name b (some h)) :: rs) = .ok (.q h :: .sec ct name b kids :: ts, rest') := by
  simp [items, h1, h2, optItem]

theorem other_after_select (f : Nat) (n : Nat) (d o : QData) (rs : List (Nat × RowK)) (ts : List Item)
    (rest : List (Nat × RowK)) (h1 : items f rs = .ok (ts, rest)) :
    items (f + 1) ((n, .q d (some o)) :: rs) = .ok (.q d :: .q o :: ts, rest) := by
  simp [items, h1, optItem]

mutual
theorem bodyCtl_paths (pre : List Str) (it : Item) : (bodyCtl pre it).map (·.2) = bodyPaths pre it := by
  cases it with
  | q d => simp only [bodyCtl, bodyPaths]; split <;> simp
  | sec ct n b ks => cases ct <;> simp [bodyCtl, bodyPaths, bodyCtlL_paths]
theorem bodyCtlL_paths (pre : List Str) (its : List Item) :
    (bodyCtlL pre its).map (·.2) = bodyPathsL pre its := by
  cases its with
  | nil => simp [bodyCtlL, bodyPathsL]
  | cons k ks => simp [bodyCtlL, bodyPathsL, bodyCtl_paths, bodyCtlL_paths]
end

/-- **Body shape**: the body controls are, in document order, exactly one control per element that
    has one (with the tag of its type), a `group` per group and a `group`+`repeat` pair per repeat;
    their refs are the body paths that `C02.refs_resolve` shows to resolve. -/
theorem body_controls_cover_paths (pre : List Str) (its : List Item) :
    (bodyCtlL pre its).map (·.2) = bodyPathsL pre its := bodyCtlL_paths pre its

/-! ### Non-vacuity -/
def q (s : String) : QData := { name := s.toList, bind := true, control := true, node := true }

def exRows : List (Nat × RowK) :=
  [(2, .q (q "a") none), (3, .begin_ .group "g".toList false none), (4, .skip),
   (5, .begin_ .rep "r".toList false (some (q "r_count"))), (6, .q (q "s") (some (q "s_other"))),
   (7, .end_ .rep), (8, .end_ .group), (9, .q (q "z") none)]

example : (match parseRows exRows with
    | .ok its => eraseL (instKids false its) == plainL its && its.length == 3
    | .error _ => false) = true := by decide +kernel

example : (match parseRows [(2, .q (q "a") none), (3, .end_ .group)] with
    | .error (.unmatchedEnd 3) => true | _ => false) = true := by decide +kernel
example : (match parseRows [(2, .begin_ .group "g".toList false none), (3, .end_ .rep)] with
    | .error (.unmatchedEnd 3) => true | _ => false) = true := by decide +kernel
example : (match parseRows [(2, .begin_ .group "g".toList false none), (3, .q (q "a") none)] with
    | .error (.unmatchedBegin .group _) => true | _ => false) = true := by decide +kernel

end Pyxv.C04
