import Pyxv.Proofs.C01Root
/-!
# C01: the constants the `Assemble` model writes by hand are the ones in the source

`Pyxv.Gen.*` is regenerated from the working tree on every run; the facts below are re-checked by the kernel
each time, so a change of `XML_RESERVED_PREFIXES`, `XML_RESERVED_NAMESPACES`, `INVALID_XML_CHAR_REGEX` or of the
literal `get_nsmap` appends makes this file fail (→ the check reports the broken obligation and searches for
an input) instead of silently leaving the model behind.
-/
namespace Pyxv.C01
open Pyxv Pyxv.Xml Pyxv.Asm

/-- the reserved prefixes `nameValid` / `pyDeclOk` compare with are the source's `XML_RESERVED_PREFIXES` -/
theorem reserved_prefixes_pinned : Pyxv.Gen.xmlReservedPrefixes = ["xml", "xmlns"] := by decide +kernel

/-- `reservedNs` tests exactly the source's `XML_RESERVED_NAMESPACES` -/
theorem reserved_namespaces_pinned :
    Pyxv.Gen.xmlReservedNamespaces.map String.toList = [xmlnsNsUri, xmlNsUri] := by decide +kernel

/-- the fragment `nsString` appends is the literal in `Survey.get_nsmap` -/
theorem entities_literal_pinned : Pyxv.Gen.entitiesNsLiteral.toList = entitiesNs := by decide +kernel

/-! ## `isXmlChar` is the complement of `INVALID_XML_CHAR_REGEX` -/

/-- items of a character class body: `a-b` is a range, anything else a single character -/
def classItems : Nat → List Nat → List (Nat × Nat)
  | 0, _ => []
  | _, [] => []
  | f + 1, a :: 45 :: b :: rest => (a, b) :: classItems f rest
  | f + 1, a :: rest => (a, a) :: classItems f rest

/-- `[^ … ]` → the items of the negated class -/
def negatedClass (codes : List Nat) : Option (List (Nat × Nat)) :=
  match codes with
  | 91 :: 94 :: rest =>
    match rest.reverse with
    | 93 :: body => some (classItems body.length body.reverse)
    | _ => none
  | _ => none

def inRanges (rs : List (Nat × Nat)) (n : Nat) : Bool := rs.any fun r => r.1 ≤ n && n ≤ r.2

/-- the class the source's regex negates: TAB, LF, CR, U+0020–U+D7FF, U+E000–U+FFFD, U+10000–U+10FFFF -/
theorem invalid_char_regex_pinned :
    negatedClass Pyxv.Gen.invalidXmlCharRegexCodes =
      some [(9, 9), (10, 10), (13, 13), (0x20, 0xD7FF), (0xE000, 0xFFFD), (0x10000, 0x10FFFF)] := by decide +kernel

/-- **`isXmlChar` (the character test of `validDoc`, and of the reader) accepts exactly the characters the
    source's `INVALID_XML_CHAR_REGEX` does not match** -/
theorem isXmlChar_is_regex_complement (c : Char) :
    isXmlChar c = match negatedClass Pyxv.Gen.invalidXmlCharRegexCodes with
      | some rs => inRanges rs c.toNat
      | none => false := by
  rw [invalid_char_regex_pinned]
  simp only [isXmlChar, inRanges, List.any_cons, List.any_nil, Bool.or_false]
  have e9 : (c.toNat == 9) = (decide (9 ≤ c.toNat) && decide (c.toNat ≤ 9)) := by
    rw [Bool.eq_iff_iff]; simp only [beq_iff_eq, Bool.and_eq_true, decide_eq_true_eq]; omega
  have e10 : (c.toNat == 10) = (decide (10 ≤ c.toNat) && decide (c.toNat ≤ 10)) := by
    rw [Bool.eq_iff_iff]; simp only [beq_iff_eq, Bool.and_eq_true, decide_eq_true_eq]; omega
  have e13 : (c.toNat == 13) = (decide (13 ≤ c.toNat) && decide (c.toNat ≤ 13)) := by
    rw [Bool.eq_iff_iff]; simp only [beq_iff_eq, Bool.and_eq_true, decide_eq_true_eq]; omega
  rw [e9, e10, e13]
  simp [Bool.or_assoc]

#print axioms isXmlChar_is_regex_complement

-- non-vacuity: the class parser on other sources; U+FFFE is matched by the regex, U+FFFD is not
example : negatedClass [91, 94, 97, 45, 122, 48, 93] = some [(97, 122), (48, 48)] := by decide
example : isXmlChar (Char.ofNat 0xFFFE) = false ∧ isXmlChar (Char.ofNat 0xFFFD) = true ∧ isXmlChar (Char.ofNat 1) = false := by
  decide +kernel

end Pyxv.C01
