import Pyxv.Proofs.Convert
import Pyxv.Proofs.C10
/-!
# C10 for the end-to-end composition: dynamic defaults are applied exactly once

Convert's decorated elements are mapped into the `Defaults` slice's element type (`toDef`); the `<setvalue>` nodes
the composed model writes — after the binds in `<model>` (`bindNodes`) and at the end of each `<repeat>` (`dynSets`) —
are then, read as (location, `ref`, `event`) facts, exactly the facts of `Defaults.gen` on the mapped tree, so
`C10.setvalues_exactly_once` applies: they are a permutation of the spec `expSets` (one per question with a dynamic
default, at its nearest repeat ancestor, `<model>` if none; none for any other question).  Static defaults are the
instance text (`defaultsOfL`), dynamic ones leave the node empty.
-/
namespace Pyxv.ConvertP
open Pyxv Pyxv.Form Pyxv.Rows Pyxv.Xml Pyxv.Asm Pyxv.Convert Pyxv.C01

/-- the question as the `Defaults` slice sees it (`default`, `self.type`) -/
def toQ (d : QData) (p : Pay) : Defaults.Q :=
  { name := d.name, type := typeName p.cells, default := (get p.cells "default").getD [] }

mutual
def toDef : DItem → Defaults.El
  | .q d p => .q (toQ d p)
  | .sec .rep n _ _ ks => .rep n (toDefL ks)
  | .sec .group n _ _ ks => .grp n (toDefL ks)
  | .sec .loop n _ _ ks => .grp n (toDefL ks)
def toDefL : List DItem → List Defaults.El
  | [] => []
  | k :: ks => toDef k :: toDefL ks
end

/-- `default_is_dynamic(self.default, self.type)` through the lexer model -/
def dynQ (q : Defaults.Q) : Bool := Lexer.defaultIsDynamic q.default q.type == some true

/-- a setvalue fact without its value: (location: `none` = `<model>`, `some r` = inside `<repeat nodeset=r>`; ref; event) -/
abbrev Fact := Option (List Str) × Str × Str

def projFact (f : Defaults.SetFact) : Fact := (f.loc, xpathStr f.set.ref, f.set.event)

/-- the fact a `<setvalue ref event>` element at location `loc` states -/
def factOf (loc : Option (List Str)) : Node → Option Fact
  | .elem t a _ =>
    if t = l!"setvalue" then some (loc, (lookup (l!"ref") a).getD [], (lookup (l!"event") a).getD []) else none
  | .text _ _ => none

theorem defaultIsDynamic_nil (ty : Str) : Lexer.defaultIsDynamic [] ty ≠ some true := by
  unfold Lexer.defaultIsDynamic
  cases Lexer.activeRules with
  | none => simp
  | some r => simp [Lexer.dynamicWith]

theorem hasDyn_iff (d : QData) (p : Pay) :
    Defaults.hasDynDefault dynQ (toQ d p) = (match get p.cells "default" with | some _ => isDynDefault p.cells | none => false) := by
  unfold Defaults.hasDynDefault dynQ toQ isDynDefault defaultDyn
  cases hd : get p.cells "default" with
  | none => simp
  | some dv =>
    simp only [Option.getD_some]
    cases dv with
    | nil =>
      have := defaultIsDynamic_nil (typeName p.cells)
      cases h : Lexer.defaultIsDynamic [] (typeName p.cells) with
      | none => simp
      | some b => cases b <;> simp_all
    | cons c cs => simp

theorem setvalue_attrs (ref value event : Str) :
    lookup (l!"ref") (setAttrs [] [(l!"ref", ref), (l!"value", value), (l!"event", event)]) = some ref ∧
    lookup (l!"event") (setAttrs [] [(l!"ref", ref), (l!"value", value), (l!"event", event)]) = some event := by
  constructor
  · have a : (attrLocal (l!"value") != attrLocal (l!"ref")) = true := by decide
    have b : (attrLocal (l!"event") != attrLocal (l!"ref")) = true := by decide
    exact lookup_pyNode_head _ _ _ (by simp only [List.all_cons, List.all_nil, a, b]; rfl)
  · exact lookup_pyNode_last (l!"event") event [(l!"ref", ref), (l!"value", value)]

/-- the setvalue of one element, as a fact -/
theorem dynSetOf_fact (els : List Refs.Chain) (ctx : Refs.Chain) (d : QData) (p : Pay) (pre : List Str) (near : Option (List Str))
    (sub : Defaults.Path → Str → Str) (hctx : ctx.path = pre ++ [d.name]) :
    (dynSetOf els ctx p.cells near.isSome).filterMap (factOf near) =
      ((Defaults.dynSet dynQ sub pre near.isSome (toQ d p)).map fun s => projFact { loc := near, set := s }) := by
  unfold dynSetOf Defaults.dynSet
  rw [hasDyn_iff]
  cases hd : get p.cells "default" with
  | none => simp
  | some dv =>
    simp only []
    cases hdy : isDynDefault p.cells with
    | false => simp
    | true =>
      obtain ⟨h1, h2⟩ := setvalue_attrs (xpathStr ctx.path) ((Refs.insertXpaths els (some ctx) {} dv).getD dv)
        (if near.isSome then evNewRepeat else evFirstLoad)
      simp only [if_true, List.filterMap_cons, List.filterMap_nil, setvalueNode, pyNode, factOf, h1, h2, Option.getD_some,
        List.map_cons, List.map_nil, projFact, toQ, hctx]
      cases near <;> rfl

theorem inRep_snoc (pc : Refs.Chain) (n : Str) (k : Refs.Kind) : inRep (pc ++ [(n, k)]) = (inRep pc || k == Refs.Kind.rep) := by
  simp [inRep, List.any_append]

theorem factOf_bindNode (els : List Refs.Chain) (ctx : Refs.Chain) (q : Binds.Q) : factOf none (bindNode els ctx q) = none := by
  simp only [bindNode, pyNode, factOf]; rw [if_neg (by decide)]

mutual
/-- inside a repeat, the walk over the binds emits no setvalue -/
theorem bindNodes_facts_inRep (els : List Refs.Chain) : ∀ (pc : Refs.Chain) (d : DItem), inRep pc = true →
    (bindNodes els pc d).filterMap (factOf none) = []
  | pc, .q d p, h => by
    simp only [bindNodes, h, if_true, List.append_nil]
    split
    · simp [factOf_bindNode]
    · rfl
  | pc, .sec ct n b p ks, h => by
    have h' : inRep (pc ++ [(n, kindOf ct)]) = true := by rw [inRep_snoc, h]; rfl
    simp only [bindNodes, List.filterMap_append, bindNodesL_facts_inRep els _ ks h', List.append_nil]
    split
    · simp [factOf_bindNode]
    · rfl
theorem bindNodesL_facts_inRep (els : List Refs.Chain) : ∀ (pc : Refs.Chain) (ds : List DItem), inRep pc = true →
    (bindNodesL els pc ds).filterMap (factOf none) = []
  | _, [], _ => rfl
  | pc, k :: ks, h => by
    simp only [bindNodesL, List.filterMap_append, bindNodes_facts_inRep els pc k h, bindNodesL_facts_inRep els pc ks h,
      List.append_nil]
end

mutual
/-- **setvalues in `<model>`** = `Defaults.modelSets` of the mapped tree (elements without a repeat ancestor) -/
theorem bindNodes_facts (els : List Refs.Chain) (sub : Defaults.Path → Str → Str) : ∀ (pc : Refs.Chain) (d : DItem),
    inRep pc = false →
    (bindNodes els pc d).filterMap (factOf none) =
      (Defaults.modelSets dynQ sub pc.path [toDef d]).map fun s => projFact { loc := none, set := s }
  | pc, .q d p, h => by
    have hb : (if d.bind = true then [bindNode els (pc ++ [(d.name, .q)]) p.bq] else []).filterMap (factOf none) = [] := by
      split
      · simp [factOf_bindNode]
      · rfl
    have := dynSetOf_fact els (pc ++ [(d.name, .q)]) d p pc.path none sub (path_snoc pc d.name .q)
    simp only [Option.isSome_none] at this
    simp only [bindNodes, List.filterMap_append, hb, List.nil_append, h, Bool.false_eq_true, if_false, toDef,
      Defaults.modelSets, List.append_nil, this]
  | pc, .sec .rep n b p ks, h => by
    have h' : inRep (pc ++ [(n, kindOf .rep)]) = true := by rw [inRep_snoc]; simp [kindOf]
    have hb : (if b = true then [bindNode els (pc ++ [(n, kindOf .rep)]) p.bq] else []).filterMap (factOf none) = [] := by
      split
      · simp [factOf_bindNode]
      · rfl
    simp only [bindNodes, List.filterMap_append, hb, bindNodesL_facts_inRep els _ ks h', toDef, Defaults.modelSets,
      List.append_nil, List.map_nil]
  | pc, .sec .group n b p ks, h => by
    have h' : inRep (pc ++ [(n, kindOf .group)]) = false := by rw [inRep_snoc, h]; rfl
    have hb : (if b = true then [bindNode els (pc ++ [(n, kindOf .group)]) p.bq] else []).filterMap (factOf none) = [] := by
      split
      · simp [factOf_bindNode]
      · rfl
    simp only [bindNodes, List.filterMap_append, hb, List.nil_append, bindNodesL_facts els sub _ ks h', toDef,
      Defaults.modelSets, List.append_nil, path_snoc]
  | pc, .sec .loop n b p ks, h => by
    have h' : inRep (pc ++ [(n, kindOf .loop)]) = false := by rw [inRep_snoc, h]; rfl
    have hb : (if b = true then [bindNode els (pc ++ [(n, kindOf .loop)]) p.bq] else []).filterMap (factOf none) = [] := by
      split
      · simp [factOf_bindNode]
      · rfl
    simp only [bindNodes, List.filterMap_append, hb, List.nil_append, bindNodesL_facts els sub _ ks h', toDef,
      Defaults.modelSets, List.append_nil, path_snoc]
theorem bindNodesL_facts (els : List Refs.Chain) (sub : Defaults.Path → Str → Str) : ∀ (pc : Refs.Chain) (ds : List DItem),
    inRep pc = false →
    (bindNodesL els pc ds).filterMap (factOf none) =
      (Defaults.modelSets dynQ sub pc.path (toDefL ds)).map fun s => projFact { loc := none, set := s }
  | _, [], _ => by simp [bindNodesL, toDefL, Defaults.modelSets]
  | pc, k :: ks, h => by
    have h1 := bindNodes_facts els sub pc k h
    have h2 := bindNodesL_facts els sub pc ks h
    have hsplit : ∀ (e : Defaults.El) (rest : List Defaults.El),
        Defaults.modelSets dynQ sub pc.path (e :: rest) =
          Defaults.modelSets dynQ sub pc.path [e] ++ Defaults.modelSets dynQ sub pc.path rest := by
      intro e rest; cases e <;> simp [Defaults.modelSets]
    simp only [bindNodesL, List.filterMap_append, h1, h2, toDefL]
    rw [hsplit (toDef k) (toDefL ks), List.map_append]
end

theorem factOf_choiceInst (l : List Choices.Inst) : (l.map Choices.instNode).filterMap (factOf none) = [] := by
  induction l with
  | nil => rfl
  | cons i is ih =>
    have : factOf none (Choices.instNode i) = none := by
      unfold Choices.instNode
      cases i.src <;> simp only [factOf] <;> rw [if_neg (by decide)]
    simp only [List.map_cons, List.filterMap_cons, this, ih]

/-- **C10 for the whole conversion, `<model>` part** (`_partial`: the setvalues appended to `<repeat>` elements —
    `dynSets`, the counterpart of `Defaults.helperSets` — and the instance text are not in the statement).
    In the document of a successful conversion the `<setvalue>` children of `<model>`, read as (location, `ref`,
    `event`) facts, are exactly `Defaults.modelSets` of the element tree mapped into the `Defaults` slice's type
    (`toDefL`, `dynQ` = `Lexer.defaultIsDynamic`): by `Defaults.dynSet`, one `odk-instance-first-load` setvalue for each
    question without a repeat ancestor whose default is dynamic, at its own path, in document order — none for a
    question with a static or no default, none for questions inside repeats, none for the generated meta block.
    `Defaults.modelSets` is the function `C10.setvalues_exactly_once` / `C10.exactly_once` are proved about. -/
theorem convert_c10_model_partial (wb : Workbook) (doc : Node) (h : convertDoc wb = .ok doc)
    (sub : Defaults.Path → Str → Str) :
    ∃ (root : Str) (dall : List DItem),
      (modelKidsOf doc).filterMap (factOf none) =
        (Defaults.modelSets dynQ sub [root] (toDefL dall)).map fun s => projFact { loc := none, set := s } := by
  obtain ⟨f, lists, rows, drows, o, ditems, T⟩ := convertDoc_trace wb doc h
  refine ⟨f.name, dWithMeta f.name rows ditems, ?_⟩
  have hsub : (submissionNode f).filterMap (factOf none) = [] := by
    unfold submissionNode
    split
    · rfl
    · simp only [pyNode, List.filterMap_cons, factOf]; rw [if_neg (by decide)]; rfl
  have hinst : ∀ ks, factOf none (pyNode "instance".toList [] ks) = none := by
    intro ks; simp only [pyNode, factOf]; rw [if_neg (by decide)]
  have hb := bindNodesL_facts (elsOf f.name (dWithMeta f.name rows ditems)) sub [(f.name, .group)]
    (dWithMeta f.name rows ditems) (by simp [inRep])
  rw [T.hdoc, modelKidsOf_assemble]
  unfold Asm.modelKids
  simp only [itextPart, List.append_nil, List.filterMap_append, List.filterMap_cons, hsub, hinst, List.nil_append,
    factOf_choiceInst, hb, Refs.Chain.path, List.map]

#print axioms convert_c10_model_partial

-- non-vacuity: the worked example has no dynamic default, so its `<model>` carries no setvalue — and the mapped tree
-- says the same
example : ∃ doc, convertDoc exWb = .ok doc ∧ ∃ root dall,
    (modelKidsOf doc).filterMap (factOf none) =
      (Defaults.modelSets dynQ (fun _ s => s) [root] (toDefL dall)).map fun s => projFact { loc := none, set := s } := by
  obtain ⟨doc, hd, -⟩ := convert_ok exWb false exText ex_convert
  exact ⟨doc, hd, convert_c10_model_partial exWb doc hd _⟩
-- exactly one setvalue for a question the lexer classifies as dynamic, none otherwise (`Defaults.dynSet`)
example (d : QData) (p : Pay) (pre : List Str) (sub : Defaults.Path → Str → Str) :
    (Defaults.dynSet dynQ sub pre false (toQ d p)).length = if Defaults.hasDynDefault dynQ (toQ d p) then 1 else 0 := by
  unfold Defaults.dynSet; split <;> rfl

end Pyxv.ConvertP
