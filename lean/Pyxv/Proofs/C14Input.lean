import Pyxv.Proofs.ProcessLemmas
import Pyxv.Proofs.C13
/-!
# C14: converting the same input dict again (what `workbook_to_json` leaves in the caller's dict)
-/
namespace Pyxv.C14
open Pyxv Pyxv.Process

/-- cleaning a cleaned cell changes nothing, for both modes of `clean_text_values` (C13's
`clean_idempotent`: strip, collapse and smart-quote replacement, over the regenerated SMART_QUOTES) -/
theorem cleanCell_idem (sw : Bool) (c : Cell) : cleanCell sw (cleanCell sw c) = cleanCell sw c := by
  cases c with
  | int n => rfl
  | str s =>
    by_cases h : s.isEmpty
    · simp [cleanCell, h]
    · simp only [cleanCell, h, Bool.false_eq_true, if_false]
      by_cases h2 : (Spell.cleanText sw s).isEmpty
      · simp [h2]
      · simp only [h2, Bool.false_eq_true, if_false, Pyxv.C13.clean_idempotent]

theorem map_aset {κ ν : Type} [DecidableEq κ] (g : ν → ν) (k : κ) (v : ν) : ∀ d : List (κ × ν),
    (aset k v d).map (fun kv => (kv.1, g kv.2)) = aset k (g v) (d.map fun kv => (kv.1, g kv.2))
  | [] => rfl
  | (k', v') :: rest => by
    by_cases hk : k' = k
    · simp [aset, hk]
    · simp [aset, hk, map_aset g k v rest]

theorem cleanRow_idem (sw : Bool) (n : Option Nat) (row : List (Str × Cell)) :
    cleanRow sw n (cleanRow sw n row) = cleanRow sw n row := by
  have hmap : ∀ r : List (Str × Cell),
      (r.map fun kv => (kv.1, cleanCell sw kv.2)).map (fun kv => (kv.1, cleanCell sw kv.2))
        = r.map fun kv => (kv.1, cleanCell sw kv.2) := by
    intro r
    rw [List.map_map]
    apply List.map_congr_left
    intro kv _
    simp [cleanCell_idem]
  cases n with
  | none => simp only [cleanRow]; exact hmap row
  | some k =>
    simp only [cleanRow]
    rw [map_aset (cleanCell sw), hmap]
    exact aset_idem _ _ _

/-- **What a conversion leaves in the caller's dict is a fixpoint of the cleaning stage**: for every
sheet (survey: `strip_whitespace`; choices: `add_row_number`; the others: neither) the rows
`clean_text_values` stores back — cleaned cells, `__row` — are exactly the rows a second conversion of the
same dict object reads after its own cleaning.  Everything downstream reads only those rows, so both
conversions give the same result (after d7ea67c this is the only in-place change left). -/
theorem input_unchanged_or_equivalent (sw addRow : Bool) (rows : List (List (Str × Cell))) :
    cleanSheet sw addRow (cleanSheet sw addRow rows) = cleanSheet sw addRow rows := by
  unfold cleanSheet
  generalize 2 = i
  induction rows generalizing i with
  | nil => rfl
  | cons r rs ih =>
    simp only [cleanSheetFrom, cleanRow_idem, ih]

example : cleanSheet false true [[("list_name".toList, .str "yn".toList), ("label".toList, .str "it’s “ok”".toList)]]
    = [[("list_name".toList, .str "yn".toList), ("label".toList, .str "it's \"ok\"".toList), ("__row".toList, .int 2)]] := by
  decide +kernel
example : cleanSheet true false [[("label".toList, .str "  a   b ".toList)]] = [[("label".toList, .str "a b".toList)]] := by
  decide +kernel

end Pyxv.C14
