import Pyxv.Proofs.ProcessLemmas
/-!
# C14: converting the same input dict again (what `workbook_to_json` leaves in the caller's dict)
-/
namespace Pyxv.C14
open Pyxv Pyxv.Process Pyxv.Spell

/-- regenerated `SMART_QUOTES`: no replacement text contains a character that is itself replaced -/
theorem smartTable_closed : ∀ p ∈ smartTable, ∀ c ∈ p.2, smartTable.find? (fun q => q.1 = c) = none := by
  decide +kernel

theorem unsmartChar_fix {tab : List (Char × Str)} {c : Char} (h : tab.find? (fun q => q.1 = c) = none) :
    unsmartChar tab c = [c] := by
  simp [unsmartChar, h]

theorem flatMap_congr' {α β} {f g : α → List β} : ∀ {l : List α}, (∀ a ∈ l, f a = g a) → l.flatMap f = l.flatMap g
  | [], _ => rfl
  | a :: l, h => by
    simp only [List.flatMap_cons]
    rw [h a (List.mem_cons_self ..), flatMap_congr' fun b hb => h b (List.mem_cons_of_mem _ hb)]

theorem unsmartWith_idem (tab : List (Char × Str))
    (hc : ∀ p ∈ tab, ∀ c ∈ p.2, tab.find? (fun q => q.1 = c) = none) (s : Str) :
    unsmartWith tab (unsmartWith tab s) = unsmartWith tab s := by
  unfold unsmartWith
  rw [List.flatMap_assoc]
  apply flatMap_congr'
  intro c _
  show (unsmartChar tab c).flatMap (unsmartChar tab) = unsmartChar tab c
  cases hf : tab.find? (fun q => q.1 = c) with
  | none => simp [unsmartChar, hf]
  | some p =>
    have hm : p ∈ tab := List.mem_of_find?_eq_some hf
    have : unsmartChar tab c = p.2 := by simp [unsmartChar, hf]
    rw [this]
    have h2 : ∀ c' ∈ p.2, unsmartChar tab c' = [c'] := fun c' hc' => unsmartChar_fix (hc p hm c' hc')
    calc p.2.flatMap (unsmartChar tab) = p.2.flatMap (fun c' => [c']) := flatMap_congr' h2
      _ = p.2 := by simp

/-- cleaning a cell of a sheet processed without `strip_whitespace` (choices, external_choices,
entities, settings) twice is cleaning it once -/
theorem cleanText_nostrip_idem (s : Str) : cleanText false (cleanText false s) = cleanText false s := by
  simp only [cleanText, Bool.false_eq_true, if_false, unsmart]
  exact unsmartWith_idem smartTable smartTable_closed s

theorem cleanCell_nostrip_idem (c : Cell) : cleanCell false (cleanCell false c) = cleanCell false c := by
  cases c with
  | int n => rfl
  | str s =>
    by_cases h : s.isEmpty
    · simp [cleanCell, h]
    · simp only [cleanCell, h, Bool.false_eq_true, if_false]
      by_cases h2 : (cleanText false s).isEmpty
      · simp [h2]
      · simp only [h2, Bool.false_eq_true, if_false, cleanText_nostrip_idem]

theorem map_aset {κ ν : Type} [DecidableEq κ] (g : ν → ν) (k : κ) (v : ν) : ∀ d : List (κ × ν),
    (aset k v d).map (fun kv => (kv.1, g kv.2)) = aset k (g v) (d.map fun kv => (kv.1, g kv.2))
  | [] => rfl
  | (k', v') :: rest => by
    by_cases hk : k' = k
    · simp [aset, hk]
    · simp [aset, hk, map_aset g k v rest]

theorem cleanRow_nostrip_idem (n : Option Nat) (row : List (Str × Cell)) :
    cleanRow false n (cleanRow false n row) = cleanRow false n row := by
  have hmap : ∀ r : List (Str × Cell),
      (r.map fun kv => (kv.1, cleanCell false kv.2)).map (fun kv => (kv.1, cleanCell false kv.2))
        = r.map fun kv => (kv.1, cleanCell false kv.2) := by
    intro r
    rw [List.map_map]
    apply List.map_congr_left
    intro kv _
    simp [cleanCell_nostrip_idem]
  cases n with
  | none => simp only [cleanRow]; exact hmap row
  | some k =>
    simp only [cleanRow]
    rw [map_aset (cleanCell false), hmap]
    exact aset_idem _ _ _

/-- PARTIAL — full statement: for every sheet, `cleanSheet sw addRow (cleanSheet sw addRow rows) =
cleanSheet sw addRow rows` (the rows a second conversion of the same dict object reads are the rows
the first one read, so both give the same result).  Proved for the sheets cleaned without
`strip_whitespace` (choices incl. `__row`, external_choices, entities, settings); missing: idempotence of
`RE_WHITESPACE.sub(" ", value.strip())` for the survey sheet (`collapse ∘ strip`, then smart quotes). -/
theorem input_unchanged_or_equivalent_partial (addRow : Bool) (rows : List (List (Str × Cell))) :
    cleanSheet false addRow (cleanSheet false addRow rows) = cleanSheet false addRow rows := by
  unfold cleanSheet
  generalize 2 = i
  induction rows generalizing i with
  | nil => rfl
  | cons r rs ih =>
    simp only [cleanSheetFrom, cleanRow_nostrip_idem, ih]

example : cleanSheet false true [[("list_name".toList, .str "yn".toList), ("label".toList, .str "it’s “ok”".toList)]]
    = [[("list_name".toList, .str "yn".toList), ("label".toList, .str "it's \"ok\"".toList), ("__row".toList, .int 2)]] := by
  decide +kernel

end Pyxv.C14
