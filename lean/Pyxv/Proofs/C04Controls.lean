import Pyxv.Proofs.ControlsLemmas
import Pyxv.Model.TableList
import Pyxv.Proofs.C04
/-!
# C04, second half — every body control carries the attributes its type and cells dictate

`Pyxv.Controls` mirrors the code (ordered dict updates in `xls2json` / `Question.__init__` / `_build_xml`);
`Pyxv.Controls.Spec` is the short table-driven statement of the property.
-/
namespace Pyxv.C04
open Pyxv Pyxv.Rows Pyxv.Controls

/-! ### the parameter blocks as finite maps -/

theorem lookup_fillDefault (acc : Dict) (a b k : Str) :
    lookup k (fillDefault acc (a, b)) =
      match lookup k acc with | some v => some v | none => if k = a then some b else none := by
  unfold fillDefault
  by_cases h : (lookup a acc).isSome = true
  · simp only [h, if_true]
    cases hl : lookup k acc with
    | some v => rfl
    | none =>
      by_cases hk : k = a
      · subst hk; rw [hl] at h; simp at h
      · simp [hk]
  · simp only [h]
    show lookup k (dset acc a b) = _
    rw [lookup_dset]
    by_cases hk : k = a
    · subst hk
      cases hl : lookup k acc with
      | some v => rw [hl] at h; simp at h
      | none => simp
    · simp only [hk, if_false]; cases lookup k acc <;> rfl

theorem keysNodupB_fillDefault (acc : Dict) (kv : Str × Str) (h : keysNodupB acc = true) :
    keysNodupB (fillDefault acc kv) = true := by
  unfold fillDefault; split
  · exact h
  · exact keysNodupB_dset _ _ _ h

theorem lookup_foldl_fillDefault (defs : Dict) : ∀ (acc : Dict) (k : Str),
    lookup k (defs.foldl fillDefault acc) =
      match lookup k acc with | some v => some v | none => lookup k defs := by
  induction defs with
  | nil => intro acc k; simp only [List.foldl, lookup]; cases lookup k acc <;> rfl
  | cons x rest ih =>
    intro acc k
    obtain ⟨a, b⟩ := x
    simp only [List.foldl, ih, lookup_fillDefault, lookup]
    cases lookup k acc with
    | some v => rfl
    | none => by_cases hk : k = a <;> simp [hk]

theorem keysNodupB_foldl_fillDefault (defs : Dict) : ∀ (acc : Dict), keysNodupB acc = true →
    keysNodupB (defs.foldl fillDefault acc) = true := by
  induction defs with
  | nil => intro acc h; exact h
  | cons x rest ih => intro acc h; exact ih _ (keysNodupB_fillDefault _ _ h)

theorem lookup_rangeParams (ps : Dict) (k : Str) :
    lookup k (rangeParams ps) = match lookup k ps with | some v => some v | none => lookup k rangeDefaults :=
  lookup_foldl_fillDefault _ _ _

theorem keysNodupB_paramCtl (t : Str) (r : Cells) (ps c : Dict) (h : keysNodupB c = true) :
    keysNodupB (paramCtl t r ps c) = true := by
  unfold paramCtl
  repeat' split
  all_goals first
    | exact h
    | exact keysNodupB_dset _ _ _ h
    | exact keysNodupB_dset _ _ _ (keysNodupB_dset _ _ _ h)

/-- **The parameter block of every type other than `range`, as a finite map**: after the block, key `k`
    of the row's control dict holds the parameter-derived value the table prescribes, else what it held. -/
theorem paramCtl_lookup (t : Str) (r : Cells) (ps c : Dict) (k : Str) (ht : t ≠ k!"range") :
    lookup k (paramCtl t r ps c) =
      match Spec.paramAttr t r ps k with | some v => some v | none => lookup k c := by
  unfold paramCtl Spec.paramAttr
  simp only [ht, if_false]
  by_cases h1 : t = k!"text"
  · subst h1
    by_cases hk : k = k!"rows"
    · subst hk; cases hl : lookup (k!"rows") ps <;> simp [Spec.paramAttrTable, List.find?, lookup_dset, hl]
    · have hk' : ¬ (k!"rows") = k := fun e => hk e.symm
      cases hl : lookup (k!"rows") ps <;> simp [Spec.paramAttrTable, List.find?, lookup_dset, hk, hk']
  · by_cases h2 : t = k!"photo"
    · subst h2
      by_cases hk : k = k!"intent"
      · subst hk
        cases hl : lookup (k!"app") ps <;> cases ha : appApplies r <;>
          simp [Spec.paramAttrTable, List.find?, lookup_dset, hl, ha]
      · have hk' : ¬ (k!"intent") = k := fun e => hk e.symm
        cases hl : lookup (k!"app") ps <;> cases ha : appApplies r <;>
          simp [Spec.paramAttrTable, List.find?, lookup_dset, hk, hk']
    · by_cases h3 : isGeo t = true
      · have hg : t = k!"geopoint" ∨ t = k!"geoshape" ∨ t = k!"geotrace" := by
          simpa [isGeo, or_assoc] using h3
        simp only [h1, h2, h3, if_false, if_true]
        by_cases hka : k = k!"accuracyThreshold"
        · subst hka
          rcases hg with hg | hg | hg <;> subst hg <;>
            cases hc : lookup (k!"capture-accuracy") ps <;> cases hw : lookup (k!"warning-accuracy") ps <;>
            simp [Spec.paramAttrTable, List.find?, lookup_dset, hc]
        · have hka' : ¬ (k!"accuracyThreshold") = k := fun e => hka e.symm
          by_cases hku : k = k!"unacceptableAccuracyThreshold"
          · subst hku
            rcases hg with hg | hg | hg <;> subst hg <;>
              cases hc : lookup (k!"capture-accuracy") ps <;> cases hw : lookup (k!"warning-accuracy") ps <;>
              simp [Spec.paramAttrTable, List.find?, lookup_dset, hw]
          · have hku' : ¬ (k!"unacceptableAccuracyThreshold") = k := fun e => hku e.symm
            rcases hg with hg | hg | hg <;> subst hg <;>
              cases hc : lookup (k!"capture-accuracy") ps <;> cases hw : lookup (k!"warning-accuracy") ps <;>
              simp [Spec.paramAttrTable, List.find?, lookup_dset, hka, hku, hka', hku']
      · have hg : t ≠ k!"geopoint" ∧ t ≠ k!"geoshape" ∧ t ≠ k!"geotrace" := by
          simpa [isGeo, not_or, and_assoc] using h3
        have e1 : ¬ (k!"text") = t := fun e => h1 e.symm
        have e2 : ¬ (k!"photo") = t := fun e => h2 e.symm
        have e3 : ¬ (k!"geopoint") = t := fun e => hg.1 e.symm
        have e4 : ¬ (k!"geoshape") = t := fun e => hg.2.1 e.symm
        have e5 : ¬ (k!"geotrace") = t := fun e => hg.2.2 e.symm
        simp [h1, h2, h3, Spec.paramAttrTable, List.find?, e1, e2, e3, e4, e5]

theorem paramCtl_range (r : Cells) (ps c : Dict) : paramCtl (k!"range") r ps c = c := by
  simp [paramCtl, isGeo]

/-- **Model = specification, as finite maps, for every row** (`body_attrs_of_row`): for every type `t`
    with type-table entry `e`, every row `r` (distinct columns) and every parsed parameter dict `ps`
    (distinct keys), attribute `k` of the body control the code builds — type-table `control` dict, updated
    by the row's control dict, updated by the type's parameter block, `tag` removed, for `range` the
    parameters set afterwards — is the parameter-derived value if the type's vocabulary gives one, else the
    row's `control::k` cell (appearance, `body::k`, …), else the type table's entry (`mediatype`). -/
theorem body_attrs_of_row (t : Str) (e : List (String × String × String)) (r : Cells) (ps : Dict) (k : Str)
    (hr : keysNodupB (rowCtlCells r) = true) (hp : keysNodupB ps = true) :
    lookup k (qAttrs t e r ps) = Spec.bodyAttr t e r ps k := by
  unfold qAttrs Spec.bodyAttr
  by_cases ht : t = k!"range"
  · subst ht
    have hn : keysNodupB (rangeParams ps) = true := keysNodupB_foldl_fillDefault _ _ hp
    simp only [if_true, lookup_dupdate, lookupLast_eq_lookup _ _ hn, lookup_rangeParams,
      Spec.paramAttr, lookup_filter_ne, paramCtl_range, lookupLast_eq_lookup _ _ hr]
    cases lookup k ps with
    | some v => rfl
    | none =>
      cases lookup k rangeDefaults with
      | some v => rfl
      | none =>
        by_cases hk : k = k!"tag"
        · simp [hk]
        · simp only [hk, if_false]; cases lookup k (rowCtlCells r) <;> rfl
  · have hn : keysNodupB (paramCtl t r ps (rowCtlCells r)) = true := keysNodupB_paramCtl _ _ _ _ hr
    simp only [ht, if_false, lookup_filter_ne, lookup_dupdate, lookupLast_eq_lookup _ _ hn,
      paramCtl_lookup t r ps _ k ht]
    by_cases hk : k = k!"tag"
    · subst hk
      have : Spec.paramAttr t r ps (k!"tag") = none := by
        unfold Spec.paramAttr
        simp only [ht, if_false]
        simp [Spec.paramAttrTable, List.find?]
      simp [this]
    · simp only [hk, if_false]
      cases Spec.paramAttr t r ps k with
      | some v => rfl
      | none => cases lookup k (rowCtlCells r) <;> rfl

/-! ### noninterference of the appearance cell and the parameters cell -/

theorem paramAttr_appearance (t : Str) (r : Cells) (ps : Dict)
    (hrange : t = k!"range" → lookup (k!"appearance") ps = none) :
    Spec.paramAttr t r ps (k!"appearance") = none := by
  unfold Spec.paramAttr
  by_cases ht : t = k!"range"
  · simp [ht, hrange ht, rangeDefaults, lookup]
  · simp [ht, Spec.paramAttrTable, List.find?]

/-- **The appearance attribute never depends on the parameters cell** (what seeded change C04-1 broke): with
    any two parameter assignments the body control carries the same `appearance` — the row's appearance cell.
    (`range` sets every parameter as an attribute, so there the assignments must not contain the key
    `appearance`; `parameters_generic.validate` guarantees that.) -/
theorem appearance_independent_of_parameters (t : Str) (e : List (String × String × String)) (r : Cells)
    (ps ps' : Dict) (hr : keysNodupB (rowCtlCells r) = true) (hp : keysNodupB ps = true) (hp' : keysNodupB ps' = true)
    (hrange : t = k!"range" → lookup (k!"appearance") ps = none ∧ lookup (k!"appearance") ps' = none) :
    lookup (k!"appearance") (qAttrs t e r ps) = lookup (k!"appearance") (qAttrs t e r ps') := by
  rw [body_attrs_of_row _ _ _ _ _ hr hp, body_attrs_of_row _ _ _ _ _ hr hp']
  unfold Spec.bodyAttr
  rw [paramAttr_appearance t r ps (fun h => (hrange h).1), paramAttr_appearance t r ps' (fun h => (hrange h).2)]

/-- and it is the cell itself (or, without a cell, the type table's entry) -/
theorem appearance_is_the_cell (t : Str) (e : List (String × String × String)) (r : Cells) (ps : Dict)
    (hr : keysNodupB (rowCtlCells r) = true) (hp : keysNodupB ps = true)
    (hrange : t = k!"range" → lookup (k!"appearance") ps = none) :
    lookup (k!"appearance") (qAttrs t e r ps) =
      match lookup (k!"appearance") (rowCtlCells r) with
      | some v => some v
      | none => lookup (k!"appearance") (typeCtl e) := by
  rw [body_attrs_of_row _ _ _ _ _ hr hp]
  unfold Spec.bodyAttr
  rw [paramAttr_appearance t r ps hrange]
  rfl

/-- **… and vice versa**: changing only the appearance cell changes no other attribute — with the one
    coded exception that a `photo`'s `app` parameter becomes `intent` only when the appearance is absent or
    `annotate` (xls2json.py 1276-1278). -/
theorem parameters_independent_of_appearance (t : Str) (e : List (String × String × String)) (r r' : Cells)
    (ps : Dict) (k : Str) (hr : keysNodupB (rowCtlCells r) = true) (hr' : keysNodupB (rowCtlCells r') = true)
    (hp : keysNodupB ps = true) (hk : k ≠ k!"appearance")
    (hsame : ∀ k', k' ≠ k!"appearance" → lookup k' (rowCtlCells r) = lookup k' (rowCtlCells r'))
    (hphoto : ¬ (t = k!"photo" ∧ k = k!"intent")) :
    lookup k (qAttrs t e r ps) = lookup k (qAttrs t e r' ps) := by
  rw [body_attrs_of_row _ _ _ _ _ hr hp, body_attrs_of_row _ _ _ _ _ hr' hp]
  have hpa : Spec.paramAttr t r ps k = Spec.paramAttr t r' ps k := by
    unfold Spec.paramAttr
    by_cases ht : t = k!"range"
    · simp [ht]
    · simp only [ht, if_false]
      by_cases hph : t = k!"photo"
      · subst hph
        have hk2 : ¬ k = k!"intent" := fun h => hphoto ⟨rfl, h⟩
        have hk3 : ¬ (k!"intent") = k := fun h => hk2 h.symm
        simp [Spec.paramAttrTable, List.find?, hk3]
      · simp [hph]
  unfold Spec.bodyAttr
  rw [hpa, hsame k hk]

/-! ### visibility -/

/-- the control tag by which `builder._get_question_class` picks the class -/
def classTag (e : List (String × String × String)) : String :=
  let tag := (entryGet e "control" "tag").getD ""
  if tag = "upload" && entryGet e "control" "mediatype" = some "osm/*" then "osm" else tag

/-- **A question row has a body control iff it is user-visible** (`control_iff_visible`): for every row of
    a table type other than the external-instance types, the model emits a control exactly when the type's
    control class builds one and the visibility predicate of the property holds: the type is not `calculate`,
    and a row with a calculation or a trigger shows a label or a hint (what seeded change C04-2 broke). -/
theorem bool_hidden_visible (x a b c : Bool) : (x && !(a || (b && !c))) = (x && (!a && (!b || c))) := by
  cases x <;> cases a <;> cases b <;> cases c <;> rfl

theorem control_iff_visible (name t : Str) (r : Cells) (e : List (String × String × String)) (d : Form.QData)
    (hx : (t = "xml-external".toList || t = "csv-external".toList) = false) (he : typeEntry t = some e)
    (h : qdata name t r = some d) :
    d.control = (tagHasControl (classTag e) && Spec.visible t e r) := by
  unfold qdata at h
  split at h
  · rename_i h1; rw [hx] at h1; cases h1
  · rw [he] at h
    injection h with h
    subst h
    exact bool_hidden_visible _ _ _ _

theorem bool_select_visible (b c : Bool) : (!(b && !c)) = (!false && (!b || (c || false))) := by
  cases b <;> cases c <;> rfl

/-- the same for select rows (`select_one` / `select_multiple` / `rank` …: not `calculate`, no type-table hint
    — `select_types_plain` below checks both against the regenerated tables) -/
theorem select_control_iff_visible (lists : List Str) (r : Cells) (name sel ln : Str) (other : Bool)
    (e : List (String × String × String)) (d : Form.QData) (o : Option Form.QData)
    (hs : decide (sel = "calculate".toList) = false) (he : entryHas e "" = false)
    (h : classifySelect lists r name sel ln other = .row (.q d o)) :
    d.control = Spec.visible sel e r := by
  unfold classifySelect at h
  repeat' split at h
  all_goals first
    | (cases h; done)
    | (cases h; unfold Spec.visible; rw [hs, he]; exact bool_select_visible _ _)

/-! ### facts about the regenerated tables (re-checked against the current source on every run) -/

def entryOf (t : String) : Option (List (String × String × String)) :=
  (Pyxv.Gen.questionTypes.find? fun p => p.1 = t).map (·.2)

/-- every type's control tag has a control class in `builder.QUESTION_CLASSES` -/
theorem every_tag_has_class :
    Pyxv.Gen.questionTypes.all (fun p => Pyxv.Gen.questionClasses.any fun c => c.1 = classTag p.2) = true := by
  decide +kernel

/-- `tagHasControl` = "the class of that tag overrides `Question.build_xml`" -/
theorem tagHasControl_is_build_xml :
    Pyxv.Gen.questionClasses.all (fun c => tagHasControl c.1 == c.2.2) = true := by decide +kernel

/-- the type table's `control` sections hold only `tag` and `mediatype`: every other attribute of a body
    control (appearance, rows, intent, thresholds, …) comes from the row's cells and parameters -/
theorem type_control_keys :
    Pyxv.Gen.questionTypes.all (fun p => p.2.all fun x => x.1 != "control" || x.2.1 == "tag" || x.2.1 == "mediatype")
      = true := by decide +kernel

/-- a `mediatype` exactly on the `upload` types, from the documented set -/
theorem mediatype_iff_upload :
    Pyxv.Gen.questionTypes.all (fun p =>
      match entryGet p.2 "control" "mediatype" with
      | some m => entryGet p.2 "control" "tag" == some "upload" &&
                  ["image/*", "audio/*", "video/*", "application/*", "osm/*"].contains m
      | none => entryGet p.2 "control" "tag" != some "upload") = true := by decide +kernel

/-- media types as documented -/
theorem mediatypes_as_documented :
    [("image", "image/*"), ("photo", "image/*"), ("audio", "audio/*"), ("video", "video/*"),
     ("file", "application/*")].all (fun tm =>
      match entryOf tm.1 with
      | some e => entryGet e "control" "tag" == some "upload" && entryGet e "control" "mediatype" == some tm.2
      | none => false) = true := by decide +kernel

/-- rows that are not user-visible by type — calculate, hidden, metadata, actions, external instances —
    have no control class that builds a node -/
theorem invisible_types_have_no_control :
    ["calculate", "hidden", "start", "end", "today", "deviceid", "username", "phonenumber", "email", "simserial",
     "subscriberid", "audit", "start-geopoint", "background-audio", "xml-external",
     "csv-external"].all (fun t =>
      match entryOf t with
      | some e => !tagHasControl (classTag e)
      | none => false) = true := by decide +kernel

/-- select types are not `calculate` and have no type-table hint (hypotheses of `select_control_iff_visible`) -/
theorem select_types_plain :
    Pyxv.Gen.aliasSelect.all (fun p =>
      p.2 != "calculate" &&
      match entryOf p.2 with
      | some e => !entryHas e "" && tagHasControl (classTag e)
      | none => false) = true := by decide +kernel

/-! ### the body presents the rows in sheet order -/
open Pyxv.Form

mutual
/-- element names of the body controls below an item, document order -/
def tagsOf : Item → List Str
  | .q d => if d.control then [d.tag] else []
  | .sec .rep _ _ ks => "group".toList :: "repeat".toList :: tagsOfL ks
  | .sec .group _ _ ks => "group".toList :: tagsOfL ks
  | .sec .loop _ _ ks => "group".toList :: tagsOfL ks
def tagsOfL : List Item → List Str
  | [] => []
  | k :: ks => tagsOf k ++ tagsOfL ks
end

def optTags : Option QData → List Str
  | some d => if d.control then [d.tag] else []
  | none => []

def headerTags : Form.Ctl → List Str
  | .rep => ["group".toList, "repeat".toList]
  | _ => ["group".toList]

/-- the controls one classified row contributes, in order -/
def rowTags : RowK → List Str
  | .q d other => (if d.control then [d.tag] else []) ++ optTags other
  | .begin_ ct _ _ helper => optTags helper ++ headerTags ct
  | _ => []

def allRowTags : List (Nat × RowK) → List Str
  | [] => []
  | (_, k) :: rest => rowTags k ++ allRowTags rest

def framesTags : List Frame → List Str
  | [] => []
  | f :: fs => framesTags fs ++ headerTags f.ct ++ tagsOfL f.kids

/-- what the stack machine has emitted so far, read off its state -/
def stTags (st : St) : List Str := tagsOfL st.1 ++ framesTags st.2

theorem tagsOfL_append (a b : List Item) : tagsOfL (a ++ b) = tagsOfL a ++ tagsOfL b := by
  induction a with
  | nil => simp [tagsOfL]
  | cons x xs ih => simp [tagsOfL, ih]

theorem tagsOf_sec (ct : Form.Ctl) (n : Str) (b : Bool) (ks : List Item) :
    tagsOf (.sec ct n b ks) = headerTags ct ++ tagsOfL ks := by
  cases ct <;> simp [tagsOf, headerTags]

theorem stTags_push (t : Item) (st : St) : stTags (push t st) = stTags st ++ tagsOf t := by
  obtain ⟨root, fs⟩ := st
  cases fs with
  | nil => simp [push, stTags, framesTags, tagsOfL_append, tagsOfL]
  | cons f rest => simp [push, stTags, framesTags, tagsOfL_append, tagsOfL]

theorem stTags_pushOpt (o : Option QData) (st : St) : stTags (pushOpt o st) = stTags st ++ optTags o := by
  cases o with
  | none => simp [pushOpt, optTags]
  | some d => simp [pushOpt, optTags, stTags_push, tagsOf]

theorem stTags_step (st st' : St) (n : Nat) (k : RowK) (h : step st n k = .ok st') :
    stTags st' = stTags st ++ rowTags k := by
  cases k with
  | skip => simp [step] at h; subst h; simp [rowTags]
  | bad e => simp [step] at h
  | q d other =>
    simp [step] at h; subst h
    simp [rowTags, stTags_pushOpt, stTags_push, tagsOf]
  | begin_ ct name bind helper =>
    simp only [step] at h
    have hp := stTags_pushOpt helper st
    generalize pushOpt helper st = p at h hp
    obtain ⟨root, fs⟩ := p
    simp at h; subst h
    simp only [stTags, framesTags, tagsOfL, rowTags, List.append_nil] at hp ⊢
    rw [← List.append_assoc, hp]; simp
  | end_ ct =>
    obtain ⟨root, fs⟩ := st
    cases fs with
    | nil => simp [step] at h
    | cons f rest =>
      simp only [step] at h
      split at h
      · simp at h; subst h
        rw [stTags_push, tagsOf_sec]
        simp [rowTags, stTags, framesTags]
      · simp at h

theorem stTags_run : ∀ (rows : List (Nat × RowK)) (st st' : St), run st rows = .ok st' →
    stTags st' = stTags st ++ allRowTags rows := by
  intro rows
  induction rows with
  | nil => intro st st' h; simp [run] at h; subst h; simp [allRowTags]
  | cons x rest ih =>
    intro st st' h
    obtain ⟨n, k⟩ := x
    simp only [run] at h
    split at h
    · rename_i st1 h1
      rw [ih _ _ h, stTags_step _ _ _ _ h1]; simp [allRowTags]
    · simp at h

/-- **Body order = sheet order**: when the sheet parses, the element names of the body controls in
    document order (depth-first over the nested tree) are exactly the concatenation, row by row in sheet
    order, of what each row contributes — its control if it is user-visible, `group` (+ `repeat`) for a
    begin row, the `_other` companion after its select, nothing for end / skipped / invisible rows. -/
theorem body_order_is_row_order (rows : List (Nat × RowK)) (its : List Item) (h : parseRows rows = .ok its) :
    tagsOfL its = allRowTags rows := by
  unfold parseRows at h
  split at h
  · rename_i root h1
    simp at h; subst h
    have := stTags_run rows ([], []) (root, []) h1
    simpa [stTags, framesTags, tagsOfL] using this
  · simp at h
  · simp at h

mutual
theorem bodyCtl_tags (pre : List Str) (it : Item) : (bodyCtl pre it).map (·.1) = tagsOf it := by
  cases it with
  | q d => simp only [bodyCtl, tagsOf]; split <;> simp
  | sec ct n b ks => cases ct <;> simp [bodyCtl, tagsOf, bodyCtlL_tags]
theorem bodyCtlL_tags (pre : List Str) (its : List Item) : (bodyCtlL pre its).map (·.1) = tagsOfL its := by
  cases its with
  | nil => simp [bodyCtlL, tagsOfL]
  | cons k ks => simp [bodyCtlL, tagsOfL, bodyCtl_tags, bodyCtlL_tags]
end

/-- the same for the observed control list `bodyCtlL` (element name, ref) of `Pyxv.Form` -/
theorem body_controls_in_row_order (pre : List Str) (rows : List (Nat × RowK)) (its : List Item)
    (h : parseRows rows = .ok its) : (bodyCtlL pre its).map (·.1) = allRowTags rows := by
  rw [bodyCtlL_tags, body_order_is_row_order rows its h]

/-! ### the attribute model and the structure model are one model -/

theorem optCtl_tags (o : Option QData) : (optCtl o).map (·.1) = optTags o := by
  cases o with
  | none => rfl
  | some d => simp only [optCtl, optTags]; split <;> simp

theorem emitOut_tags (k : RowK) (r : Cells) (ps : Dict) : (emitOut k r ps).map (·.1) = rowTags k := by
  cases k with
  | q d other =>
    simp only [emitOut, rowTags, List.map_append, optCtl_tags]
    split <;> simp
  | begin_ ct name b helper =>
    cases ct <;> simp [emitOut, rowTags, headerTags, optCtl_tags]
  | skip => rfl
  | end_ ct => rfl
  | bad e => rfl

/-- **Per row, the attribute model emits exactly the controls of the row's classification**: whenever
    `Controls.rowControls` answers, the row classifies (`Rows.classify` on the prepared cells) as some `k` and
    the emitted element names are `rowTags k` — the controls the structure model places for that row. -/
theorem rowControls_aligned (lists : List Str) (n : Nat) (r0 : Cells) (cs : List Controls.Ctl)
    (h : rowControls lists n r0 = .ok cs) :
    ∃ k, classify lists n (prep r0).1 = .row k ∧ cs.map (·.1) = rowTags k := by
  unfold rowControls at h
  simp only [] at h
  split at h
  · cases h
  · split at h
    · cases h
    · rename_i k hk
      split at h
      · cases h
      · split at h
        · cases h
        · split at h
          · cases h
          · injection h with h
            subst h
            exact ⟨k, hk, emitOut_tags _ _ _⟩

/-- what `rowControls` returns when it answers: the pure emission `emitOut` of the row's classification on the
    prepared cells, for parameters with distinct keys that passed the row's checks (the bridge for callers that
    decorate the element tree with these attributes, e.g. `Pyxv.Convert.decorate` / `ownAttrs`) -/
theorem rowControls_out (lists : List Str) (n : Nat) (r0 : Cells) (cs : List Controls.Ctl)
    (h : rowControls lists n r0 = .ok cs) :
    ∃ k ps, classify lists n (prep r0).1 = .row k ∧ keysNodupB ps = true ∧
      emitChecks k (prep r0).1 ps = .ok () ∧ cs = emitOut k (prep r0).1 ps := by
  unfold rowControls at h
  simp only [] at h
  split at h
  · cases h
  · split at h
    · cases h
    · rename_i k hk
      split at h
      · cases h
      · rename_i ps hps
        split at h
        · cases h
        · rename_i hn
          split at h
          · cases h
          · rename_i u hu
            injection h with h
            exact ⟨k, ps, hk, by simpa using hn, by cases u; exact hu, h.symm⟩

theorem allControls_aligned (lists : List Str) : ∀ (rows : List Cells) (n : Nat) (cs : List Controls.Ctl)
    (ks : List (Nat × RowK)), allControls lists n rows = .ok cs →
    classifyAll lists n (rows.map fun r => (prep r).1) = .ok ks → cs.map (·.1) = allRowTags ks := by
  intro rows
  induction rows with
  | nil =>
    intro n cs ks h1 h2
    simp [allControls] at h1; simp [classifyAll] at h2; subst h1; subst h2; rfl
  | cons r rs ih =>
    intro n cs ks h1 h2
    simp only [allControls] at h1
    simp only [List.map_cons, classifyAll] at h2
    cases hr : rowControls lists n r with
    | error f => rw [hr] at h1; cases h1
    | ok c1 =>
      rw [hr] at h1; simp only [] at h1
      obtain ⟨k, hk, ht⟩ := rowControls_aligned lists n r c1 hr
      rw [hk] at h2; simp only [] at h2
      cases ha : allControls lists (n + 1) rs with
      | error f => rw [ha] at h1; cases h1
      | ok c2 =>
        rw [ha] at h1; simp only [] at h1
        cases hc : classifyAll lists (n + 1) (rs.map fun r => (prep r).1) with
        | error w => rw [hc] at h2; cases h2
        | ok k2 =>
          rw [hc] at h2; simp only [] at h2
          injection h1 with h1; injection h2 with h2
          subst h1; subst h2
          simp [allRowTags, ht, ih (n + 1) c2 k2 ha hc]

/-- **One model** (`controls_aligned`): whenever the attribute pipeline and the structural pipeline both
    answer for a sheet, the flat list of (element, attributes) the attribute model emits is aligned, element by
    element, with the body control list (element, ref) of `Rows.formOut` — so `body_attrs_of_row` /
    `control_iff_visible` speak about exactly the controls that `stack_refines_nest`, `refs_resolve` and
    `body_controls_cover_paths` place in the tree. -/
theorem controls_aligned (root : Str) (lists : List Str) (rows : List Cells) (settings : Cells)
    (cs : List Controls.Ctl) (o : FormOut) (h1 : allControls lists 2 rows = .ok cs)
    (h2 : formOut root lists (rows.map fun r => (prep r).1) settings = .ok o) :
    cs.map (·.1) = o.ctl.map (·.1) := by
  unfold formOut at h2
  cases hc : classifyAll lists 2 (rows.map fun r => (prep r).1) with
  | error w => rw [hc] at h2; simp at h2
  | ok ks =>
    rw [hc] at h2; simp only [] at h2
    cases hp : parseRows ks with
    | error e => rw [hp] at h2; simp at h2
    | ok items =>
      rw [hp] at h2; simp only [] at h2
      split at h2
      · simp at h2
      · split at h2
        · simp at h2
        · split at h2
          · simp at h2
          · simp at h2; subst h2
            simp only []
            rw [body_controls_in_row_order _ ks items hp]
            exact allControls_aligned lists rows 2 cs ks h1 hc

theorem allControlsN_aligned (lists : List Str) : ∀ (rows : List (Nat × Cells)) (cs : List Controls.Ctl)
    (ks : List (Nat × RowK)), allControlsN lists rows = .ok cs →
    classifyNum lists (rows.map fun nr => (nr.1, (prep nr.2).1)) = .ok ks → cs.map (·.1) = allRowTags ks := by
  intro rows
  induction rows with
  | nil =>
    intro cs ks h1 h2
    simp [allControlsN] at h1; simp [classifyNum] at h2; subst h1; subst h2; rfl
  | cons r rs ih =>
    intro cs ks h1 h2
    obtain ⟨n, r⟩ := r
    simp only [allControlsN] at h1
    simp only [List.map_cons, classifyNum] at h2
    cases hr : rowControls lists n r with
    | error f => rw [hr] at h1; cases h1
    | ok c1 =>
      rw [hr] at h1; simp only [] at h1
      obtain ⟨k, hk, ht⟩ := rowControls_aligned lists n r c1 hr
      rw [hk] at h2; simp only [] at h2
      cases ha : allControlsN lists rs with
      | error f => rw [ha] at h1; cases h1
      | ok c2 =>
        rw [ha] at h1; simp only [] at h1
        cases hc : classifyNum lists (rs.map fun nr => (nr.1, (prep nr.2).1)) with
        | error w => rw [hc] at h2; cases h2
        | ok k2 =>
          rw [hc] at h2; simp only [] at h2
          injection h1 with h1; injection h2 with h2
          subst h1; subst h2
          simp [allRowTags, ht, ih c2 k2 ha hc]

/-- **One model, table-list groups included** (the pipeline the checks run, `controls.model`): the controls
    the attribute model emits for the expanded sheet are aligned with the body control list of
    `TableList.formOutT`. -/
theorem controls_aligned_tl (root : Str) (lists : List Str) (rows : List Cells) (settings : Cells)
    (cs : List Controls.Ctl) (o : FormOut) (h1 : allControlsN lists (TableList.sheetRows rows) = .ok cs)
    (h2 : TableList.formOutT root lists rows settings = .ok o) :
    cs.map (·.1) = o.ctl.map (·.1) := by
  unfold TableList.formOutT at h2
  split at h2
  · cases h2
  · rename_i o' ho
    split at h2
    · cases h2
    · injection h2 with h2; subst h2
      unfold formOutN at ho
      cases hc : classifyNum lists ((TableList.sheetRows rows).map fun nr => (nr.1, (prep nr.2).1)) with
      | error w => rw [hc] at ho; simp at ho
      | ok ks =>
        rw [hc] at ho; simp only [] at ho
        cases hp : parseRows ks with
        | error e => rw [hp] at ho; simp at ho
        | ok items =>
          rw [hp] at ho; simp only [] at ho
          split at ho
          · simp at ho
          · split at ho
            · simp at ho
            · split at ho
              · simp at ho
              · simp at ho; subst ho
                simp only []
                rw [body_controls_in_row_order _ ks items hp]
                exact allControlsN_aligned lists _ cs ks h1 hc

/-! ### exactly one `jr:template` copy per repeat, at every depth -/

mutual
/-- number of `jr:template` nodes whose name satisfies `p`, anywhere in the tree -/
def tmplCount (p : Str → Bool) : NT → Nat
  | .node n t ks => (if t && p n then 1 else 0) + tmplCountL p ks
def tmplCountL (p : Str → Bool) : List NT → Nat
  | [] => 0
  | k :: ks => tmplCount p k + tmplCountL p ks
end

mutual
/-- number of repeats whose name satisfies `p`, anywhere in the element tree -/
def repCount (p : Str → Bool) : Item → Nat
  | .q _ => 0
  | .sec .rep n _ ks => (if p n then 1 else 0) + repCountL p ks
  | .sec .group _ _ ks => repCountL p ks
  | .sec .loop _ _ ks => repCountL p ks
def repCountL (p : Str → Bool) : List Item → Nat
  | [] => 0
  | k :: ks => repCount p k + repCountL p ks
end

theorem tmplCountL_append (p : Str → Bool) (a b : List NT) :
    tmplCountL p (a ++ b) = tmplCountL p a + tmplCountL p b := by
  induction a with
  | nil => simp [tmplCountL]
  | cons x xs ih => simp [tmplCountL, ih, Nat.add_assoc]

theorem tmplKids_unfold_q (d : QData) (rest : List Item) :
    tmplKids (.q d :: rest) = (if d.node then [NT.node d.name false []] else []) ++ tmplKids rest := by
  simp [tmplKids]

theorem tmplCountL_qnode (p : Str → Bool) (d : QData) :
    tmplCountL p (if d.node then [NT.node d.name false []] else []) = 0 := by
  split <;> simp [tmplCountL, tmplCount]

mutual
/-- inside the ordinary copy of a repeat no template is generated -/
theorem no_template_in_copy (p : Str → Bool) (its : List Item) : tmplCountL p (instKids true its) = 0 := by
  cases its with
  | nil => simp [instKids, tmplCountL]
  | cons it rest =>
    cases it with
    | q d => rw [instKids_unfold_q, tmplCountL_append, tmplCountL_qnode, no_template_in_copy p rest]
    | sec ct n b ks =>
      cases ct <;> simp [instKids, tmplCountL, tmplCount, no_template_in_copy p ks, no_template_in_copy p rest]
end

mutual
theorem templates_in_template (p : Str → Bool) (its : List Item) :
    tmplCountL p (tmplKids its) = repCountL p its := by
  cases its with
  | nil => simp [tmplKids, tmplCountL, repCountL]
  | cons it rest =>
    cases it with
    | q d =>
      rw [tmplKids_unfold_q, tmplCountL_append, tmplCountL_qnode, templates_in_template p rest]
      simp [repCountL, repCount]
    | sec ct n b ks =>
      cases ct <;>
        simp [tmplKids, tmplCountL, tmplCount, repCountL, repCount, templates_in_template p ks,
          templates_in_template p rest, templates_top p ks]
theorem templates_top (p : Str → Bool) (its : List Item) :
    tmplCountL p (instKids false its) = repCountL p its := by
  cases its with
  | nil => simp [instKids, tmplCountL, repCountL]
  | cons it rest =>
    cases it with
    | q d =>
      rw [instKids_unfold_q, tmplCountL_append, tmplCountL_qnode, templates_top p rest]
      simp [repCountL, repCount]
    | sec ct n b ks =>
      cases ct <;>
        simp [instKids, tmplCountL, tmplCount, repCountL, repCount, templates_in_template p ks,
          templates_top p ks, templates_top p rest, no_template_in_copy p ks, Nat.add_assoc]
end

/-- **One template per repeat, at every depth**: in the primary instance the number of `jr:template` nodes
    named `nm` equals the number of repeats named `nm` in the element tree — for every tree, however the repeats
    are nested in groups and in each other (a repeat reached through a group inside another repeat's template
    still gets exactly one template copy; its ordinary copies get none). -/
theorem one_template_per_repeat (root : Str) (its : List Item) (p : Str → Bool) :
    tmplCount p (instanceOf root its) = repCountL p its := by
  simp [instanceOf, tmplCount, templates_top]

/-! ### the pipeline's attributes satisfy the specification (no hypothesis beyond "the pipeline answers") -/

theorem startsWith_split : ∀ (a p : Str), startsWith a p = true → p ++ a.drop p.length = a
  | _, [] => by intro _; simp
  | [], _ :: _ => by intro h; simp [startsWith] at h
  | x :: xs, y :: ys => by
    intro h
    simp only [startsWith, Bool.and_eq_true, beq_iff_eq] at h
    simp [h.1, startsWith_split xs ys h.2]

theorem any_rowCtlCells (r : Cells) (x : Str) :
    ((rowCtlCells r).any fun kv => kv.1 = x) =
      r.any fun kv => startsWith kv.1 (k!"control::") && decide (kv.1.drop 9 = x) := by
  induction r with
  | nil => rfl
  | cons kv rest ih =>
    by_cases hs : startsWith kv.1 (k!"control::") = true
    · have hc : rowCtlCells (kv :: rest) = (kv.1.drop 9, kv.2) :: rowCtlCells rest := by
        simp [rowCtlCells, hs]
      rw [hc]; simp only [List.any_cons, hs, Bool.true_and, ih]
    · have hf : startsWith kv.1 (k!"control::") = false := by simpa using hs
      have hc : rowCtlCells (kv :: rest) = rowCtlCells rest := by simp [rowCtlCells, hf]
      rw [hc]; simp only [List.any_cons, hf, Bool.false_and, Bool.false_or, ih]

/-- distinct columns give distinct keys of the row's control dict -/
theorem keysNodupB_rowCtlCells (r : Cells) (h : keysNodupB r = true) : keysNodupB (rowCtlCells r) = true := by
  induction r with
  | nil => rfl
  | cons kv rest ih =>
    obtain ⟨k, v⟩ := kv
    simp only [keysNodupB, Bool.and_eq_true, Bool.not_eq_true'] at h
    have ihr := ih h.2
    by_cases hs : startsWith k (k!"control::") = true
    · have hc : rowCtlCells ((k, v) :: rest) = (k.drop 9, v) :: rowCtlCells rest := by
        simp [rowCtlCells, hs]
      rw [hc]
      simp only [keysNodupB, Bool.and_eq_true, Bool.not_eq_true', ihr, and_true, any_rowCtlCells]
      rw [List.any_eq_false]
      intro kv' hm
      have hne : ¬ kv'.1 = k := by
        have := List.any_eq_false.mp h.1 kv' hm
        simpa using this
      intro hcontra
      simp only [Bool.and_eq_true, decide_eq_true_eq] at hcontra
      have e1 := startsWith_split kv'.1 _ hcontra.1
      have e2 := startsWith_split k _ hs
      apply hne
      rw [← e1, ← e2]
      simp only [List.length_cons, List.length_nil] at *
      rw [hcontra.2]
    · have hc : rowCtlCells ((k, v) :: rest) = rowCtlCells rest := by
        have : startsWith k (k!"control::") = false := by simpa using hs
        simp [rowCtlCells, this]
      rw [hc]; exact ihr

theorem rowGuards_nodup (r0 r : Cells) (h : rowGuards r0 r = .ok ()) : keysNodupB r = true := by
  unfold rowGuards at h
  split at h
  · cases h
  · rename_i hn
    simp only [Bool.not_eq_true', Bool.and_eq_false_iff, not_or, Bool.not_eq_false] at hn
    simpa using hn.2

theorem rowControls_guards (lists : List Str) (n : Nat) (r0 : Cells) (cs : List Controls.Ctl)
    (h : rowControls lists n r0 = .ok cs) : keysNodupB (prep r0).1 = true := by
  unfold rowControls at h
  simp only [] at h
  split at h
  · cases h
  · rename_i u hu
    cases u
    exact rowGuards_nodup _ _ hu

/-- **What the pipeline puts on a visible question's control is what the property dictates**: whenever the
    attribute pipeline answers for a row that classifies as a non-select question with a body control, the first
    control it emits is that question's element with attributes `a` such that, for every key `k`,
    `lookup k a = Spec.bodyAttr …` — the parameter-derived value, else the row's `control::k` cell, else the type
    table's entry.  The side conditions of `body_attrs_of_row` (distinct columns, distinct parameter keys) are
    derived from the pipeline's own guards, not assumed. -/
theorem pipeline_attrs_spec (lists : List Str) (n : Nat) (r0 : Cells) (cs : List Controls.Ctl)
    (d : QData) (other : Option QData)
    (h : rowControls lists n r0 = .ok cs)
    (hk : classify lists n (prep r0).1 = .row (.q d other)) (hc : d.control = true)
    (hs : matchSelect ((get (prep r0).1 "type").getD []) = none) :
    ∃ ps a rest, cs = (d.tag, a) :: rest ∧
      ∀ k, lookup k a = Spec.bodyAttr ((get (prep r0).1 "type").getD [])
        ((typeEntry ((get (prep r0).1 "type").getD [])).getD []) (prep r0).1 ps k := by
  obtain ⟨k', ps, hk', hp, _, hout⟩ := rowControls_out lists n r0 cs h
  rw [hk] at hk'; injection hk' with hk'; subst hk'
  have hr := keysNodupB_rowCtlCells _ (rowControls_guards lists n r0 cs h)
  refine ⟨ps, qAttrs _ _ (prep r0).1 ps, optCtl other, ?_, fun k => body_attrs_of_row _ _ _ _ k hr hp⟩
  rw [hout]
  simp only [emitOut, hc, if_true, hs, List.cons_append, List.nil_append]

/-! ### rows marked disabled produce nothing; the count companion exists iff the cell is not a bare reference -/

/-- **A row marked disabled is skipped, whatever kind of row it is** (question, select, audit, begin / end, a row
    that would otherwise be rejected): it classifies as `skip` — so by `skip_rows_vanish` it leaves no trace in the
    tree — and it is no audit row of the meta block.  (What seeded change C04-8 broke for audit rows.) -/
theorem disabled_row_vanishes (lists : List Str) (n : Nat) (r : Cells) (v : Str)
    (h : get r "disabled" = some v) (hv : yesNoTrue v = true) :
    classify lists n r = .row .skip ∧ isAuditRow r = false := by
  constructor
  · unfold classify; simp only [h, hv, if_true]
  · unfold isAuditRow; simp [h, hv]

/-- … and the attribute model emits no control for it -/
theorem disabled_row_no_controls (lists : List Str) (n : Nat) (r0 : Cells) (cs : List Controls.Ctl)
    (hd : ∃ v, get (prep r0).1 "disabled" = some v ∧ yesNoTrue v = true)
    (h : rowControls lists n r0 = .ok cs) : cs = [] := by
  obtain ⟨v, h1, h2⟩ := hd
  obtain ⟨k, ps, hk, _, _, hout⟩ := rowControls_out lists n r0 cs h
  rw [(disabled_row_vanishes lists n _ v h1 h2).1] at hk
  injection hk with hk; subst hk
  rw [hout]; rfl

/-- **The generated `<name>_count` node exists exactly when the count cell is not a bare reference**
    (constant, expression, reference followed by an operator, function call …) — what seeded change C04-9 broke. -/
theorem count_helper_iff (name : Str) (r : Cells) :
    (countHelper name r).isSome = (match get r "control::jr:count" with
      | some e => !isPyxformRef e
      | none => false) := by
  unfold countHelper
  cases hg : get r "control::jr:count" with
  | none => rfl
  | some e => simp only []; split <;> simp_all

/-! ### Non-vacuity -/

def exEntryText : List (String × String × String) := [("control", "tag", "input"), ("bind", "type", "string")]
def exRowText : Cells := [(k!"type", k!"text"), (k!"name", k!"a"), (k!"control::appearance", k!"multiline"),
  (k!"control::foo", k!"bar")]
def exParams : Dict := [(k!"rows", k!"3")]

-- hypotheses of `body_attrs_of_row` / the noninterference theorems hold on a C04-1 shaped row …
example : keysNodupB (rowCtlCells exRowText) = true ∧ keysNodupB exParams = true := by decide +kernel
-- … and the model keeps both the appearance and the rows attribute there
example : qAttrs (k!"text") exEntryText exRowText exParams =
    [(k!"appearance", k!"multiline"), (k!"foo", k!"bar"), (k!"rows", k!"3")] := by decide +kernel
example : Spec.bodyAttr (k!"text") exEntryText exRowText exParams (k!"appearance") = some (k!"multiline") ∧
    Spec.bodyAttr (k!"text") exEntryText exRowText exParams (k!"rows") = some (k!"3") ∧
    Spec.bodyAttr (k!"text") exEntryText exRowText exParams (k!"tag") = none := by decide +kernel
-- range: defaults fill in, parameters win over a `body::start` cell
example : Spec.bodyAttrs (k!"range") [("control", "tag", "range")] [(k!"control::start", k!"3")] [(k!"end", k!"5")] =
    [(k!"start", k!"1"), (k!"end", k!"5"), (k!"step", k!"1")] := by decide +kernel
example : qAttrs (k!"range") [("control", "tag", "range")] [(k!"control::start", k!"3")] [(k!"end", k!"5")] =
    [(k!"start", k!"1"), (k!"end", k!"5"), (k!"step", k!"1")] := by decide +kernel
-- photo: `app` becomes `intent` with appearance `annotate`, not with `new` (the coded exception)
example : lookup (k!"intent") (qAttrs (k!"photo") [] [(k!"control::appearance", k!"annotate")] [(k!"app", k!"a.b")]) = some (k!"a.b")
    ∧ lookup (k!"intent") (qAttrs (k!"photo") [] [(k!"control::appearance", k!"new")] [(k!"app", k!"a.b")]) = none := by
  decide +kernel
-- parameters_generic.parse
example : parseParams (k!"Rows= 3 ; app=X.y") = some [(k!"rows", k!"3"), (k!"app", k!"x.y")] := by decide +kernel
example : parseParams (k!"rows") = none ∧ parseParams [] = some [] := by decide +kernel

-- visibility: a `text` row with a calculation and only a hint is user-visible (the C04-2 shape); without the hint it is not
example : (qdata (k!"a") "text".toList [(k!"bind::calculate", k!"1"), (k!"hint", k!"h")]).map (·.control) = some true ∧
    (qdata (k!"a") "text".toList [(k!"bind::calculate", k!"1")]).map (·.control) = some false ∧
    (qdata (k!"a") "calculate".toList [(k!"bind::calculate", k!"1"), (k!"label", k!"L")]).map (·.control) = some false := by
  decide +kernel
example : (typeEntry "text".toList).isSome = true ∧
    ("text".toList = "xml-external".toList || "text".toList = "csv-external".toList) = false := by decide +kernel

-- body order on the example sheet of `Pyxv.C04`
example : (match parseRows exRows with
    | .ok its => tagsOfL its == allRowTags exRows && (allRowTags exRows).length == 8
    | .error _ => false) = true := by decide +kernel

-- one model: a sheet with a parameterised text row, a repeat and a select inside it
def exSheet : List Cells := [
  [(k!"type", k!"text"), (k!"name", k!"a"), (k!"label", k!"A"), (k!"control::appearance", k!"multiline"),
   (k!"parameters", k!"rows=3")],
  [(k!"type", k!"begin repeat"), (k!"name", k!"r"), (k!"label", k!"R"), (k!"control::appearance", k!"field-list")],
  [(k!"type", k!"select_one yn"), (k!"name", k!"s"), (k!"label", k!"S")],
  [(k!"type", k!"calculate"), (k!"name", k!"c"), (k!"bind::calculate", k!"1")],
  [(k!"type", k!"end repeat")]]

example : (match allControls [k!"yn"] 2 exSheet,
                 formOut (k!"data") [k!"yn"] (exSheet.map fun r => (prep r).1) [] with
    | .ok cs, .ok o => cs.map (·.1) == o.ctl.map (·.1) && cs.length == 4 &&
        cs.head? == some (k!"input", [(k!"appearance", k!"multiline"), (k!"rows", k!"3")])
    | _, _ => false) = true := by decide +kernel

-- templates: repeat r holds group g holding repeat r2 (the nesting of seeded C04-4): one template each
def exNested : List Item :=
  [.sec .rep (k!"r") false [.q (q "a"), .sec .group (k!"g") false [.sec .rep (k!"r2") false [.q (q "b")]]]]
example : tmplCount (fun _ => true) (instanceOf (k!"data") exNested) = 2 ∧
    tmplCount (· == k!"r2") (instanceOf (k!"data") exNested) = 1 ∧ repCountL (· == k!"r2") exNested = 1 := by
  decide +kernel

-- a table-list group with a label: the generated note and header select appear, appearances are rewritten
def exTL : List Cells := [
  [(k!"type", k!"begin group"), (k!"name", k!"t"), (k!"label", k!"T"), (k!"control::appearance", k!"table-list minimal")],
  [(k!"type", k!"select_one yn"), (k!"name", k!"s1"), (k!"label", k!"S1")],
  [(k!"type", k!"select_one yn"), (k!"name", k!"s2"), (k!"label", k!"S2"), (k!"control::appearance", k!"w1")],
  [(k!"type", k!"end group")]]

example : (match allControlsN [k!"yn"] (TableList.sheetRows exTL), TableList.formOutT (k!"data") [k!"yn"] exTL [] with
    | .ok cs, .ok o => cs.map (·.1) == o.ctl.map (·.1) &&
        cs == [(k!"group", [(k!"appearance", k!"field-list minimal")]), (k!"input", []),
               (k!"select1", [(k!"appearance", k!"label")]), (k!"select1", [(k!"appearance", k!"list-nolabel")]),
               (k!"select1", [(k!"appearance", k!"list-nolabel")])] &&
        o.body.map xpathStr == [k!"/data/t", k!"/data/t/generated_table_list_label_2",
          k!"/data/t/reserved_name_for_field_list_labels_3", k!"/data/t/s1", k!"/data/t/s2"]
    | _, _ => false) = true := by decide +kernel

-- disabled audit row: skipped and not in the meta block; count cells: `${n}` has no companion, `${n} + 1` has one
example : (match classify [] 2 [(k!"type", k!"audit"), (k!"disabled", k!"yes")] with
      | .row .skip => true | _ => false) = true ∧
    isAuditRow [(k!"type", k!"audit"), (k!"disabled", k!"yes")] = false ∧
    isAuditRow [(k!"type", k!"audit"), (k!"disabled", k!"no")] = true := by decide +kernel
example : (countHelper (k!"r") [(k!"control::jr:count", k!"${n}")]).isSome = false ∧
    (countHelper (k!"r") [(k!"control::jr:count", k!"${n} + 1")]).isSome = true ∧
    (countHelper (k!"r") [(k!"control::jr:count", k!"${n} * ${m}")]).isSome = true ∧
    (countHelper (k!"r") [(k!"control::jr:count", k!"3")]).isSome = true := by decide +kernel

-- pipeline_attrs_spec applies to the first row of `exSheet` (text, appearance multiline, parameters rows=3)
example : (match rowControls [k!"yn"] 2 exSheet.head!, classify [k!"yn"] 2 (prep exSheet.head!).1 with
    | .ok cs, .row (.q d none) => d.control && cs.length == 1 &&
        matchSelect ((get (prep exSheet.head!).1 "type").getD []) == none
    | _, _ => false) = true := by decide +kernel

end Pyxv.C04
