import Pyxv.Proofs.C19
import Pyxv.Model.EntitiesHeaders
/-!
# C19 — the entities header loop (duplicate spellings, grouped headers)

Theorems about `Pyxv.Entities.dealiasSheet` / `convertH` (Model/EntitiesHeaders.lean): the model of
`dealias_and_group_headers` on the entities sheet, composed from C05's `Binds.headerKeys`.
-/
namespace Pyxv.C19
open Pyxv Pyxv.Entities Pyxv.Gen

/-- keys after `d[k] = v` -/
theorem setCell_fst (d : Cells) (k v : Str) :
    (setCell d k v).map (·.1) = if d.any (fun p => p.1 = k) then d.map (·.1) else d.map (·.1) ++ [k] := by
  unfold setCell
  split
  · simp only [List.map_map]
    apply List.map_congr_left
    intro p _
    simp only [Function.comp]
    split <;> simp_all
  · simp

theorem setCell_keeps (d : Cells) (k v k' : Str) (h : k' ∈ d.map (·.1)) : k' ∈ (setCell d k v).map (·.1) := by
  rw [setCell_fst]; split
  · exact h
  · exact List.mem_append_left _ h

theorem setCell_has (d : Cells) (k v : Str) : k ∈ (setCell d k v).map (·.1) := by
  rw [setCell_fst]; split
  · rename_i hc
    simp only [List.any_eq_true, decide_eq_true_eq] at hc
    obtain ⟨p, hp, rfl⟩ := hc
    exact List.mem_map_of_mem hp
  · simp

/-- `process_row` never drops a key of `out_row` -/
theorem processRowE_keeps (key : List (Str × List Str)) : ∀ (r acc r' : Cells) (k : Str),
    processRowE key acc r = .ok r' → k ∈ acc.map (·.1) → k ∈ r'.map (·.1)
  | [], acc, r', k, h, hk => by
    simp only [processRowE, Except.ok.injEq] at h; subst h; exact hk
  | (h0, v0) :: r, acc, r', k, h, hk => by
    unfold processRowE at h
    split at h
    · cases h
    · cases h
    · exact processRowE_keeps key r _ r' k h (setCell_keeps _ _ _ _ hk)
    · split at h
      · cases h
      · exact processRowE_keeps key r _ r' k h (setCell_keeps _ _ _ _ hk)

/-- every cell of the row is filed under the first token of its header -/
theorem processRowE_first_token (key : List (Str × List Str)) : ∀ (r acc r' : Cells) (h v t0 : Str) (rest : List Str),
    processRowE key acc r = .ok r' → (h, v) ∈ r → lookup h key = some (t0 :: rest) → t0 ∈ r'.map (·.1)
  | [], _, _, _, _, _, _, _, hm, _ => by cases hm
  | (h0, v0) :: r, acc, r', h, v, t0, rest, hr, hm, hl => by
    unfold processRowE at hr
    rcases List.mem_cons.mp hm with heq | hm'
    · cases heq
      rw [hl] at hr
      cases rest with
      | nil => exact processRowE_keeps key r _ r' t0 hr (setCell_has _ _ _)
      | cons x xs =>
        simp only at hr
        split at hr
        · cases hr
        · exact processRowE_keeps key r _ r' t0 hr (setCell_has _ _ _)
    · split at hr
      · cases hr
      · cases hr
      · exact processRowE_first_token key r _ r' h v t0 rest hr hm' hl
      · split at hr
        · cases hr
        · exact processRowE_first_token key r _ r' h v t0 rest hr hm' hl

/-- **unknown_first_token_rejected** (extends `unknown_columns_rejected` to the full header loop).  On a
    one-row entities sheet, a cell whose header — after dealiasing and splitting on the delimiter — has a first
    token that is not one of the entities columns rejects the form, naming that token among the unexpected
    columns; whatever the other headers, cells, the survey and the settings are (unless the sheet leaves the
    model's fragment). -/
theorem unknown_first_token_rejected (root : Str) (sub : Str → Str) (settings : Cells) (headers : List Str)
    (row : Cells) (survey : List Cells) (key : List (Str × List Str)) (h v t0 : Str) (rest : List Str)
    (hkey : entityHeaderKey headers = .ok key) (hm : (h, v) ∈ row) (hl : lookup h key = some (t0 :: rest))
    (hun : entityColumnsL.contains t0 = false) :
    (∃ w, convertH root sub settings headers [row] survey = .error (.unsupported w)) ∨
    (∃ cs, t0 ∈ cs ∧ convertH root sub settings headers [row] survey = .error (.columns cs)) := by
  unfold convertH dealiasSheet
  simp only [hkey, processRowsE]
  cases hp : processRowE key [] row with
  | error e =>
    -- `processRowE` only fails with `unsupported`
    have : ∀ (r acc : Cells) e, processRowE key acc r = .error e → ∃ w, e = .unsupported w := by
      intro r
      induction r with
      | nil => intro acc e h; simp [processRowE] at h
      | cons c r ih =>
        intro acc e h
        obtain ⟨h0, v0⟩ := c
        unfold processRowE at h
        split at h
        · cases h; exact ⟨_, rfl⟩
        · cases h; exact ⟨_, rfl⟩
        · exact ih _ _ h
        · split at h
          · cases h; exact ⟨_, rfl⟩
          · exact ih _ _ h
    obtain ⟨w, rfl⟩ := this _ _ _ hp
    exact Or.inl ⟨w, rfl⟩
  | ok row' =>
    right
    have hin : t0 ∈ row'.map (·.1) := processRowE_first_token key row [] row' h v t0 rest hp hm hl
    have hex : t0 ∈ extraColumns row' := by
      unfold extraColumns
      have hnot : ¬ t0 ∈ entityColumnsL := by
        intro hc
        rw [List.contains_iff_mem.mpr hc] at hun
        cases hun
      exact List.mem_filter.mpr ⟨hin, by simp [hnot]⟩
    have hne : extraColumns row' ≠ [] := fun h0 => by rw [h0] at hex; cases hex
    refine ⟨extraColumns row', hex, ?_⟩
    simp only [convert, unknown_columns_rejected row' hne]

example : convertH "data".toList id [] ["dataset".toList, "foo:bar".toList]
    [[("dataset".toList, "t".toList), ("foo:bar".toList, "x".toList)]] [] = .error (.columns ["foo".toList]) :=
  errVal_elim _ _ (by decide)

/-- **duplicate_header_step.**  One step of the header loop, in every state: a header that `process_header`
    changes (or that is an alias) and whose tokens an earlier header already produced is rejected with
    `INVALID_DUPLICATE` naming both — whatever headers follow. -/
theorem duplicate_header_step (udc : Bool) (al : List (Str × List Str)) (cols : List Str) (h : Str) (hs : List Str)
    (key : List (Str × List Str)) (tk : List (List Str × Str)) (nh : Binds.NH) (toks : List Str) (other : Str)
    (hne : h ≠ []) (hnew : lookup h key = none) (hp : Binds.processHeader udc al cols h = some (nh, toks))
    (hseen : Binds.lookupToks toks tk = some other) (hch : nh ≠ .str h) :
    Binds.headerKeys udc al cols (h :: hs) key tk = .error (.dup other h) := by
  unfold Binds.headerKeys
  cases h with
  | nil => exact absurd rfl hne
  | cons c cs => simp [hnew, hp, hseen, hch]

/-- **exact_then_respelled_rejected.**  A sheet whose first header is exactly an entities column (not an alias)
    and whose second header is another spelling of it (snake-cases to it, or is its alias) is rejected with
    `INVALID_DUPLICATE`, whatever columns follow and whatever the rows hold. -/
theorem exact_then_respelled_rejected (a b : Str) (hs : List Str) (row : Cells) (rows : List Cells) (nh : Binds.NH)
    (ha : a ≠ []) (hb : b ≠ []) (hab : b ≠ a)
    (hpa : Binds.processHeader ((a :: b :: hs).any fun h => isInfix "::".toList h) entityAliasesB entityHeaderColumns a
      = some (.str a, [a]))
    (hpb : Binds.processHeader ((a :: b :: hs).any fun h => isInfix "::".toList h) entityAliasesB entityHeaderColumns b
      = some (nh, [a]))
    (hch : nh ≠ .str b) :
    dealiasSheet (a :: b :: hs) (row :: rows) = .error (.msg (dupMsg a b)) := by
  have h1 : Binds.headerKeys ((a :: b :: hs).any fun h => isInfix "::".toList h) entityAliasesB entityHeaderColumns
      (a :: b :: hs) [] [] = .error (.dup a b) := by
    rw [Binds.headerKeys]
    cases a with
    | nil => exact absurd rfl ha
    | cons c cs =>
      simp only [List.isEmpty_cons, Bool.false_eq_true, if_false, lookup, Option.isSome_none, hpa, Binds.lookupToks,
        List.nil_append]
      apply duplicate_header_step _ _ _ _ _ _ _ nh [c :: cs] (c :: cs) hb
      · simp [lookup, hab]
      · exact hpb
      · simp [Binds.lookupToks]
      · exact hch
  unfold dealiasSheet entityHeaderKey
  simp only [h1]

set_option maxRecDepth 20000 in
example : dealiasSheet ["dataset".toList, "Dataset".toList] [[("dataset".toList, "t".toList)]] =
    .error (.msg (dupMsg "dataset".toList "Dataset".toList)) := errVal_elim _ _ (by decide)

set_option maxRecDepth 20000 in
example : dealiasSheet ["label".toList, "dataset".toList, "list_name".toList] [[("dataset".toList, "t".toList)]] =
    .error (.msg (dupMsg "dataset".toList "list_name".toList)) := errVal_elim _ _ (by decide)

-- the accepted order (other spelling first, exact spelling last): no rejection, the later cell wins
set_option maxRecDepth 20000 in
example : dealiasSheet ["Dataset".toList, "dataset".toList]
    [[("Dataset".toList, "t".toList), ("dataset".toList, "u".toList)]] = .ok [[("dataset".toList, "u".toList)]] :=
  okVal_elim _ _ (by decide)

example : dealiasSheet ["dataset".toList, "Dataset".toList] [[]] =
    .error (.msg (dupMsg "dataset".toList "Dataset".toList)) :=
  exact_then_respelled_rejected _ _ [] [] [] (.str "dataset".toList) (by decide) (by decide) (by decide)
    (by decide) (by decide) (by decide)

example : Binds.headerKeys false entityAliasesB entityHeaderColumns ["list_name".toList, "x".toList]
    [("dataset".toList, ["dataset".toList])] [(["dataset".toList], "dataset".toList)] =
    .error (.dup "dataset".toList "list_name".toList) :=
  duplicate_header_step _ _ _ _ _ _ _ (.str "dataset".toList) ["dataset".toList] _ (by decide) (by decide) (by decide)
    (by decide) (by decide)

/-! ### conservativity: on plainly spelled, distinct headers the full loop is the identity -/

theorem lookup_mem {β} (k : Str) : ∀ (l : List (Str × β)) (v : β), lookup k l = some v → (k, v) ∈ l
  | [], _, h => by simp [lookup] at h
  | (k', v') :: l, v, h => by
    unfold lookup at h
    split at h
    · rename_i hk; cases h; subst hk; exact List.mem_cons_self
    · exact List.mem_cons_of_mem _ (lookup_mem k l v h)

theorem lookup_append_isSome {β} (k : Str) (l : List (Str × β)) (v : β) : (lookup k (l ++ [(k, v)])).isSome = true := by
  induction l with
  | nil => simp [lookup]
  | cons p l ih =>
    obtain ⟨k', v'⟩ := p
    simp only [List.cons_append, lookup]
    split
    · rfl
    · exact ih

theorem lookup_append_mono {β} (k : Str) (l m : List (Str × β)) (h : (lookup k l).isSome = true) :
    (lookup k (l ++ m)).isSome = true := by
  induction l with
  | nil => simp [lookup] at h
  | cons p l ih =>
    obtain ⟨k', v'⟩ := p
    simp only [List.cons_append, lookup] at h ⊢
    split
    · rfl
    · rename_i hk; simp only [hk, if_false] at h; exact ih h

/-- headers that `process_header` leaves unchanged pass the loop, each mapped to itself -/
theorem headerKeys_plain (udc : Bool) (al : List (Str × List Str)) (cols : List Str) :
    ∀ (hs : List Str) (key : List (Str × List Str)) (tk : List (List Str × Str)),
    (∀ h ∈ hs, h ≠ [] ∧ Binds.processHeader udc al cols h = some (.str h, [h])) →
    (∀ p ∈ key, p.2 = [p.1]) →
    ∃ key', Binds.headerKeys udc al cols hs key tk = .ok key' ∧ (∀ p ∈ key', p.2 = [p.1]) ∧
      (∀ h, (h ∈ hs ∨ (lookup h key).isSome = true) → (lookup h key').isSome = true)
  | [], key, tk, _, hk => ⟨key, by simp [Binds.headerKeys], hk, fun h hh => by
      rcases hh with hh | hh
      · cases hh
      · exact hh⟩
  | h :: hs, key, tk, hp, hk => by
    obtain ⟨hne, hph⟩ := hp h List.mem_cons_self
    have hp' : ∀ x ∈ hs, x ≠ [] ∧ Binds.processHeader udc al cols x = some (.str x, [x]) :=
      fun x hx => hp x (List.mem_cons_of_mem _ hx)
    have hemp : h.isEmpty = false := by cases h with
      | nil => exact absurd rfl hne
      | cons c cs => rfl
    unfold Binds.headerKeys
    simp only [hemp, Bool.false_eq_true, if_false]
    by_cases hseen : (lookup h key).isSome = true
    · simp only [hseen, if_true]
      obtain ⟨key', h1, h2, h3⟩ := headerKeys_plain udc al cols hs key tk hp' hk
      refine ⟨key', h1, h2, fun x hx => ?_⟩
      rcases hx with hx | hx
      · rcases List.mem_cons.mp hx with rfl | hx
        · exact h3 _ (Or.inr hseen)
        · exact h3 _ (Or.inl hx)
      · exact h3 _ (Or.inr hx)
    · simp only [hseen, Bool.false_eq_true, if_false, hph]
      have hk' : ∀ p ∈ key ++ [(h, [h])], p.2 = [p.1] := by
        intro p hp0
        rcases List.mem_append.mp hp0 with hp0 | hp0
        · exact hk p hp0
        · simp only [List.mem_singleton] at hp0; subst hp0; rfl
      have fin : ∀ tk', ∃ key', Binds.headerKeys udc al cols hs (key ++ [(h, [h])]) tk' = .ok key' ∧
          (∀ p ∈ key', p.2 = [p.1]) ∧
          (∀ x, (x ∈ h :: hs ∨ (lookup x key).isSome = true) → (lookup x key').isSome = true) := by
        intro tk'
        obtain ⟨key', h1, h2, h3⟩ := headerKeys_plain udc al cols hs (key ++ [(h, [h])]) tk' hp' hk'
        refine ⟨key', h1, h2, fun x hx => ?_⟩
        rcases hx with hx | hx
        · rcases List.mem_cons.mp hx with rfl | hx
          · exact h3 _ (Or.inr (lookup_append_isSome _ _ _))
          · exact h3 _ (Or.inl hx)
        · exact h3 _ (Or.inr (lookup_append_mono _ _ _ hx))
      split
      · simp only [ne_eq, not_true_eq_false, if_false]
        exact fin _
      · exact fin _

/-- cells under plainly mapped, pairwise distinct headers are filed unchanged, in order -/
theorem processRowE_plain (key : List (Str × List Str)) : ∀ (r acc : Cells),
    (∀ k ∈ r.map (·.1), lookup k key = some [k]) → (acc.map (·.1) ++ r.map (·.1)).Nodup →
    processRowE key acc r = .ok (acc ++ r)
  | [], acc, _, _ => by simp [processRowE]
  | (h, v) :: r, acc, hl, hnd => by
    have hlh : lookup h key = some [h] := hl h (by simp)
    have hnotin : ¬ h ∈ acc.map (·.1) := by
      intro hc
      have := (List.nodup_append.mp hnd).2.2 h hc h (by simp)
      exact this rfl
    have hset : setCell acc h v = acc ++ [(h, v)] := by
      unfold setCell
      have : acc.any (fun p => decide (p.1 = h)) = false := by
        rw [List.any_eq_false]
        intro p hp hc
        simp only [decide_eq_true_eq] at hc
        exact hnotin (hc ▸ List.mem_map_of_mem hp)
      simp [this]
    unfold processRowE
    simp only [hlh, hset]
    rw [processRowE_plain key r (acc ++ [(h, v)]) (fun k hk => hl k (by simp at hk ⊢; exact Or.inr hk))
      (by simpa [List.append_assoc] using hnd)]
    simp

/-- **dealiasSheet_plain** (conservativity).  When every header of the sheet is one `process_header` leaves
    unchanged (an exactly spelled entities column, or an unknown colon-free unpadded one) and every row has
    pairwise distinct keys among the headers, the full header loop returns the rows unchanged: every theorem
    of C19.lean about `convert` on dealiased rows (`entity_table`, `convert_eq_spec`, …) is then a theorem
    about `convertH` on the raw sheet. -/
theorem dealiasSheet_plain (headers : List Str) (rows : List Cells)
    (hplain : ∀ h ∈ headers, h ≠ [] ∧ ∀ udc, Binds.processHeader udc entityAliasesB entityHeaderColumns h = some (.str h, [h]))
    (hrows : ∀ r ∈ rows, (r.map (·.1)).Nodup ∧ ∀ k ∈ r.map (·.1), k ∈ headers) :
    dealiasSheet headers rows = .ok rows := by
  cases rows with
  | nil => rfl
  | cons r0 rs =>
    obtain ⟨key, h1, h2, h3⟩ := headerKeys_plain (headers.any fun h => isInfix "::".toList h) entityAliasesB
      entityHeaderColumns headers [] [] (fun h hh => ⟨(hplain h hh).1, (hplain h hh).2 _⟩) (by simp)
    have hlk : ∀ k ∈ headers, lookup k key = some [k] := by
      intro k hk
      have hs := h3 k (Or.inl hk)
      cases hl : lookup k key with
      | none => rw [hl] at hs; cases hs
      | some t => have := h2 _ (lookup_mem k key t hl); simp only at this; rw [this]
    have hall : ∀ (rows : List Cells), (∀ r ∈ rows, (r.map (·.1)).Nodup ∧ ∀ k ∈ r.map (·.1), k ∈ headers) →
        processRowsE key rows = .ok rows := by
      intro rows
      induction rows with
      | nil => intro _; rfl
      | cons r rs ih =>
        intro hr
        obtain ⟨hnd, hin⟩ := hr r List.mem_cons_self
        have := processRowE_plain key r [] (fun k hk => hlk k (hin k hk)) (by simpa using hnd)
        simp only [processRowsE, this, List.nil_append, ih (fun x hx => hr x (List.mem_cons_of_mem _ hx))]
    unfold dealiasSheet entityHeaderKey
    simp only [h1]
    exact hall _ hrows

/-- **convertH_plain.**  On such a sheet the mechanism with the header loop in front is `convert`. -/
theorem convertH_plain (root : Str) (sub : Str → Str) (settings : Cells) (headers : List Str) (rows survey : List Cells)
    (hplain : ∀ h ∈ headers, h ≠ [] ∧ ∀ udc, Binds.processHeader udc entityAliasesB entityHeaderColumns h = some (.str h, [h]))
    (hrows : ∀ r ∈ rows, (r.map (·.1)).Nodup ∧ ∀ k ∈ r.map (·.1), k ∈ headers) :
    convertH root sub settings headers rows survey = convert root sub settings rows survey := by
  unfold convertH
  rw [dealiasSheet_plain headers rows hplain hrows]

set_option maxRecDepth 20000 in
example : dealiasSheet ["dataset".toList, "label".toList] [[("dataset".toList, "t".toList), ("label".toList, "x".toList)]] =
    .ok [[("dataset".toList, "t".toList), ("label".toList, "x".toList)]] :=
  dealiasSheet_plain _ _ (by decide) (by decide)

end Pyxv.C19
