import Pyxv.Model.ChoicesInline
import Pyxv.Proofs.C09
/-!
# C09 — in-line items of `search()` selects and the `query` of `select_one_external` (phase 8b)

`Pyxv.Choices.inlineItems` and `Pyxv.Choices.selObs` are the functions the driver op `choices.model` runs; the
check compares their output (`items`, `query` of every select) with the implementation on every generated
workbook.  Here they are proved equal to the specifications of `Pyxv.Model.ChoicesInline` for every list,
every label shape and every string.
-/
namespace Pyxv.C09
open Pyxv Pyxv.Rows Pyxv.Choices

theorem inline_go_eq (l : Str) (itext : Bool) (cs : List Choice) (i : Nat) :
    inlineItems.go l itext i cs = some (Spec.inlineFrom itext l i cs) := by
  induction cs generalizing i with
  | nil => simp [inlineItems.go, Spec.inlineFrom]
  | cons c rest ih =>
    rw [inlineItems.go]
    simp only [ih]
    cases itext <;> cases h : c.label <;>
      simp [Spec.inlineFrom, Spec.inlineItem, Spec.plainLabel, Spec.itextIdOf, h, List.append_assoc]

theorem inlineFrom_length (itext : Bool) (l : Str) (cs : List Choice) (i : Nat) :
    (Spec.inlineFrom itext l i cs).length = cs.length := by
  induction cs generalizing i with
  | nil => rfl
  | cons c rest ih => simp [Spec.inlineFrom, ih]

theorem inlineFrom_get (itext : Bool) (l : Str) (cs : List Choice) (i k : Nat) :
    (Spec.inlineFrom itext l i cs)[k]? = cs[k]?.map (Spec.inlineItem itext l (i + k)) := by
  induction cs generalizing i k with
  | nil => simp [Spec.inlineFrom]
  | cons c rest ih =>
    cases k with
    | zero => simp [Spec.inlineFrom]
    | succ k => simp [Spec.inlineFrom, ih, Nat.add_assoc, Nat.add_comm 1 k]

theorem inlineFrom_values (itext : Bool) (l : Str) (cs : List Choice) (i : Nat) :
    (Spec.inlineFrom itext l i cs).map (·.2) = cs.map (·.name) := by
  induction cs generalizing i with
  | nil => rfl
  | cons c rest ih => simp [Spec.inlineFrom, Spec.inlineItem, ih]

/-- The in-line items of a `search()` select: always produced, one per choice of the list, in sheet order;
    item `i` is the itext reference `jr:itext('l-i')` (when the list requires itext) or the plain label
    text (empty when absent), and the value is the name of choice `i`. -/
theorem inline_items (l : Str) (cs : List Choice) (b : Bool) :
    ∃ items, inlineItems l cs b = some items ∧ items.length = cs.length ∧
      (∀ i, items[i]? = cs[i]?.map (Spec.inlineItem (requiresItext cs) l i)) ∧
      items.map (·.2) = cs.map (·.name) := by
  refine ⟨Spec.inlineFrom (requiresItext cs) l 0 cs, ?_, inlineFrom_length _ _ _ _, fun i => ?_, inlineFrom_values _ _ _ _⟩
  · simp [inlineItems, inline_go_eq]
  · simpa using inlineFrom_get (requiresItext cs) l cs 0 i

example : inlineItems (c!"l") [{ name := c!"a", label := .plain (c!"A"), media := false, extras := [] },
                               { name := c!"b", label := .none, media := false, extras := [(c!"x", c!"1")] }] true
    = some [((false, c!"A"), c!"a"), ((false, []), c!"b")] := by decide +kernel
example : inlineItems (c!"l") [{ name := c!"a", label := .dict, media := false, extras := [] },
                               { name := c!"b", label := .plain (c!"B"), media := false, extras := [] }] true
    = some [((true, c!"jr:itext('l-0')"), c!"a"), ((true, c!"jr:itext('l-1')"), c!"b")] := by decide +kernel

/-- The itext id an in-line item refers to is the id the static instance of the same list would give choice `i`
    as `itextId` (`instance_items`): in-line rendering and instance rendering address the same translations. -/
theorem inline_itext_id (l : Str) (i : Nat) (c : Choice) :
    (itemOf true l i c).head? = some (c!"itextId", Spec.itextIdOf l i) ∧
    (Spec.inlineItem true l i c).1 = (true, c!"jr:itext('" ++ Spec.itextIdOf l i ++ c!"')") := ⟨rfl, rfl⟩

example : Spec.itextIdOf (c!"fruits") 12 = c!"fruits-12" := by decide +kernel

/-! ## the `query` of a `select_one_external` -/

/-- Whenever the model answers for a `select_one_external` row, the select's `query` is
    `instance('LIST')/root/item[FILTER]` with LIST the name in the type cell (a list of the external_choices
    sheet) and FILTER the row's own `choice_filter` after `${}` substitution (`current()/` form); there is no
    itemset, no in-line item and no or_other companion. -/
theorem external_query (inp : Input) (tbl : List NameInfo) (lists : List (Str × List Choice)) (extLists : List Str)
    (name : Str) (path : List Str) (chain : Refs.Chain) (cells : Cells) (sel ln : Str) (other : Bool) (o : SelObs)
    (hsel : isExternalSel sel = true)
    (h : selObs inp tbl lists extLists name path chain cells sel ln other = .ok o) :
    ∃ pred, subst inp.root tbl chain true false ((lookup (c!"choice_filter") cells).getD []) = some pred ∧
      o.query = some (Spec.externalQuery ln pred) ∧ o.itemset = none ∧ o.items = [] ∧ o.other = none ∧
      extLists.contains ln = true := by
  unfold selObs at h
  simp only [hsel, bind, Except.bind, pure, Except.pure, throw, throwThe, MonadExcept.throw, MonadExceptOf.throw,
    if_true] at h
  split at h
  · contradiction
  split at h
  · contradiction
  split at h <;> (split at h <;> first | contradiction | skip)
  all_goals
    split at h
    · contradiction
    split at h
    · contradiction
    split at h
    · contradiction
    cases hs : subst inp.root tbl chain true false ((lookup (c!"choice_filter") cells).getD []) with
    | none => simp [hs] at h
    | some pred =>
      simp only [hs] at h
      injection h with h
      subst h
      refine ⟨pred, rfl, rfl, rfl, rfl, rfl, ?_⟩
      simp_all

example : ((selObs { root := c!"data", choices := [], choiceCols := [], allowDup := none, survey := [], extHeader := [],
                     extRows := none } [] [] [c!"towns"] (c!"s") [c!"s"] [] [(c!"choice_filter", c!"a=1")]
             (c!"select one external") (c!"towns") false).toOption.map (·.query))
    = some (some (c!"instance('towns')/root/item[a=1]")) := by decide +kernel

/-! ## the whole `search()` select (monadic peeling of `selObs`: one lemma per `if … then throw` join point) -/

theorem bind_ok {α β : Type} {x : Except String α} {f : α → Except String β} {o : β}
    (h : (x >>= f) = .ok o) : ∃ a, x = .ok a ∧ f a = .ok o := by
  cases x with
  | error e => simp [bind, Except.bind] at h
  | ok a => exact ⟨a, rfl, h⟩

theorem guard_ok {β : Type} {c : Prop} [Decidable c] {e : String} {f : PUnit → Except String β} {o : β}
    (h : ((if c then throw e else pure PUnit.unit : Except String PUnit) >>= f) = .ok o) : ¬ c ∧ f PUnit.unit = .ok o := by
  by_cases hc : c
  · simp [hc, bind, Except.bind, throw, throwThe, MonadExceptOf.throw] at h
  · simpa [hc, bind, Except.bind, pure, Except.pure] using h

theorem guard_jp {β : Type} {c : Prop} [Decidable c] {e : String} {jp : PUnit → Except String β} {o : β}
    (h : (if c then ((throw e : Except String PUnit) >>= jp) else jp PUnit.unit) = .ok o) : ¬ c ∧ jp PUnit.unit = .ok o := by
  by_cases hc : c
  · simp [hc, bind, Except.bind, throw, throwThe, MonadExceptOf.throw] at h
  · simpa [hc] using h

theorem ite_neg_ok {β : Type} {c : Prop} [Decidable c] {A B : Except String β} {o : β} (hc : ¬ c)
    (h : (if c then A else B) = .ok o) : B = .ok o := by simpa [hc] using h
theorem ite_pos_ok {β : Type} {c : Prop} [Decidable c] {A B : Except String β} {o : β} (hc : c)
    (h : (if c then A else B) = .ok o) : A = .ok o := by simpa [hc] using h

theorem opt_match_ok {α β : Type} {x : Option α} {A : α → Except String β} {B : Except String β} {o : β}
    (h : (match x with | some v => A v | none => B) = .ok o) :
    (∃ v, A v = .ok o) ∨ (B = .ok o) := by
  cases x with
  | none => exact .inr h
  | some v => exact .inl ⟨v, h⟩

theorem ite_both {β : Type} {c : Prop} [Decidable c] {A B : Except String β} {o : β}
    (h : (if c then A else B) = .ok o) (hA : A = .ok o → B = .ok o) : B = .ok o := by
  by_cases hc : c
  · exact hA (by simpa [hc] using h)
  · simpa [hc] using h

theorem inlineItems_eq (l : Str) (cs : List Choice) (b : Bool) :
    inlineItems l cs b = some (Spec.inlineFrom (requiresItext cs) l 0 cs) := by
  simp [inlineItems, inline_go_eq]

/-- Whenever the model answers for a select whose appearance calls `search()`, the select carries no itemset and
    no query; its in-line items are those of its **own** list (the list named in the type cell, which exists),
    one per choice in sheet order, each as `Spec.inlineItem` says (`inline_items`). -/
theorem search_select_inline (inp : Input) (tbl : List NameInfo) (lists : List (Str × List Choice)) (extLists : List Str)
    (name : Str) (path : List Str) (chain : Refs.Chain) (cells : Cells) (sel ln : Str) (other : Bool) (o : SelObs)
    (hsel : isExternalSel sel = false) (hs : isSearch cells = true)
    (h : selObs inp tbl lists extLists name path chain cells sel ln other = .ok o) :
    ∃ cs, lookup ln lists = some cs ∧ o.items = Spec.inlineFrom (requiresItext cs) ln 0 cs ∧
      o.itemset = none ∧ o.query = none := by
  unfold selObs at h
  obtain ⟨_, h⟩ := guard_jp h
  obtain ⟨_, h⟩ := guard_jp h
  rcases hr : lookup (c!"randomize") (paramsOf cells) with _ | v <;> rw [hr] at h <;> obtain ⟨_, h⟩ := guard_jp h
  all_goals
    have h := ite_neg_ok (by simp [hsel]) h
    obtain ⟨_, h⟩ := guard_jp h
    have h := ite_both h (by
      intro h
      obtain ⟨_, h⟩ := guard_jp h
      obtain ⟨_, h⟩ := guard_jp h
      exact h)
    obtain ⟨_, h⟩ := guard_jp h
    obtain ⟨_, h⟩ := guard_jp h
    have h := ite_pos_ok hs h
    obtain ⟨_, h⟩ := guard_jp h
    obtain ⟨hk, h⟩ := guard_jp h
    rw [inlineItems_eq] at h
    cases hl : lookup ln lists with
    | none => simp [hl] at hk
    | some cs =>
      injection h with h
      subst h
      refine ⟨cs, rfl, ?_, rfl, rfl⟩
      simp [hl]

example : ((selObs { root := c!"data", choices := [], choiceCols := [], allowDup := none, survey := [], extHeader := [],
                     extRows := none } []
             [(c!"fr", [{ name := c!"a", label := .plain (c!"A"), media := false, extras := [] },
                        { name := c!"b", label := .none, media := false, extras := [] }])] [] (c!"s") [c!"s"] []
             [(c!"label", c!"S"), (c!"control::appearance", c!"search('fruits')")]
             (c!"select one") (c!"fr") false).toOption.map (·.items))
    = some [((false, c!"A"), c!"a"), ((false, []), c!"b")] := by decide +kernel

end Pyxv.C09
