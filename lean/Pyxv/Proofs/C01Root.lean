import Pyxv.Proofs.C01NoBr
/-!
# C01: every attribute the converter itself puts on the primary instance root survives

`root_id_is_form_id` generalised: `id`, `xmlns` (instance_xmlns), `version`, `odk:prefix`, `odk:delimiter`
are set *after* the user's `instance::` / `attribute::` columns, in this order, and none of them has the
local name of another — so whatever the user columns are (`attribute::orx:id`, `instance::version`,
`attribute::jr:prefix`, …: `setAttribute` evicts by *local* name), the generated attributes are on the
root with the generated values.  (Seeded change C01-9 reorders the writes; this is the statement it breaks.)
-/
namespace Pyxv.C01
open Pyxv Pyxv.Xml Pyxv.Asm

theorem lookup_step (key : Str) (a : List (Str × Str)) (c : Bool) (k v : Str) (hk : k ≠ key)
    (hl : attrLocal key ≠ attrLocal k) :
    lookup key (if c = true then a else setAttr a k v) = lookup key a := by
  cases c
  · exact lookup_setAttr_other _ _ _ _ hk hl
  · rfl

theorem lookup_step_self (a : List (Str × Str)) (k v : Str) :
    lookup k (if false = true then a else setAttr a k v) = some v := lookup_setAttr_self a k v

/-- **the generated attributes of the primary instance root survive every user column** -/
theorem generated_root_attrs_survive (f : Fields) :
    lookup "id".toList (rootAttrs f) = some f.idString ∧
    (f.instanceXmlns.isEmpty = false → lookup "xmlns".toList (rootAttrs f) = some f.instanceXmlns) ∧
    (f.version.isEmpty = false → lookup "version".toList (rootAttrs f) = some f.version) ∧
    (f.pfx.isEmpty = false → lookup "odk:prefix".toList (rootAttrs f) = some f.pfx) ∧
    (f.delimiter.isEmpty = false → lookup "odk:delimiter".toList (rootAttrs f) = some f.delimiter) := by
  refine ⟨lookup_id_rootAttrs f, ?_, ?_, ?_, ?_⟩
  · intro h
    unfold rootAttrs
    simp only [h]
    rw [lookup_step _ _ _ "odk:delimiter".toList _ (by decide) (by decide),
      lookup_step _ _ _ "odk:prefix".toList _ (by decide) (by decide),
      lookup_step _ _ _ "version".toList _ (by decide) (by decide)]
    exact lookup_setAttr_self _ _ _
  · intro h
    unfold rootAttrs
    simp only [h]
    rw [lookup_step _ _ _ "odk:delimiter".toList _ (by decide) (by decide),
      lookup_step _ _ _ "odk:prefix".toList _ (by decide) (by decide)]
    exact lookup_setAttr_self _ _ _
  · intro h
    unfold rootAttrs
    simp only [h]
    rw [lookup_step _ _ _ "odk:delimiter".toList _ (by decide) (by decide)]
    exact lookup_setAttr_self _ _ _
  · intro h
    unfold rootAttrs
    simp only [h]
    exact lookup_setAttr_self _ _ _

#print axioms generated_root_attrs_survive

/-- user columns whose *local* names collide with every generated attribute -/
def exEvict : Fields :=
  { name := "d".toList, title := [], idString := "fid".toList, version := "7".toList, pfx := "pp".toList,
    delimiter := "+".toList, instanceXmlns := "urn:i".toList,
    instAttrs := [("id".toList, "hijack".toList), ("jr:version".toList, "0".toList)],
    attrib := [("orx:id".toList, "x".toList), ("ev:xmlns".toList, "y".toList), ("prefix".toList, "z".toList),
               ("jr:delimiter".toList, "w".toList)] }
example : rootAttrs exEvict =
    [("id".toList, "fid".toList), ("xmlns".toList, "urn:i".toList), ("version".toList, "7".toList),
     ("odk:prefix".toList, "pp".toList), ("odk:delimiter".toList, "+".toList)] := by decide +kernel
example : lookup "version".toList (rootAttrs exEvict) = some "7".toList :=
  (generated_root_attrs_survive exEvict).2.2.1 rfl

/-- the reserved prefixes are exactly the lower-case `xml` / `xmlns` (seeded change C01-8 makes the test
    case-insensitive): a case variant has to be declared like any other prefix -/
theorem reserved_prefixes_exact :
    nameValid [] "xml:lang".toList = true ∧ nameValid [] "XML:lang".toList = false ∧
    nameValid [] "Xml:space".toList = false ∧ nameValid [] "XmlNs:a".toList = false ∧
    nameValid ["XML".toList] "XML:lang".toList = true ∧
    prefixesBound [] (.elem "a".toList [("XML:lang".toList, "en".toList)] []) = false ∧
    prefixesBound [] (.elem "a".toList [("xml:lang".toList, "en".toList)] []) = true := by decide +kernel

end Pyxv.C01
