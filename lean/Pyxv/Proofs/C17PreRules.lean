import Pyxv.Model.PreRules
import Pyxv.Proofs.C17Params
/-!
# C17 — missing survey sheet and `range` parameter-domain rules, with the text of the diagnosis (`Pyxv.PreRules`)

Every statement is about *all* sheet-name lists / parameter cells of the stated shape.
-/
namespace Pyxv.C17.Pre
open Pyxv Pyxv.Controls Pyxv.PreRules

/-! ## missing survey sheet -/

/-- **missing survey sheet**: without survey rows and without a survey header row the workbook is refused, whatever
    the other sheets are called and whatever `str.lower` does; the message starts with the sentence naming `survey`. -/
theorem missing_survey_rejected (lower : Str → Str) (names : List Str) :
    ∃ hint, surveyPrecheck lower false false names = .reject (mustHaveSurvey ++ hint) :=
  ⟨surveyHint lower names, by simp [surveyPrecheck]⟩

example : surveyPrecheck lowerAscii false false ["surveys".toList, "choices".toList, "_survey".toList] =
    .reject ("You must have a sheet named 'survey'. When looking for a sheet named 'survey', the following sheets with similar names were found: 'surveys'.").toList := by
  decide +kernel

/-- the refusal happens *only* in that case: a workbook with survey rows or a survey header row passes this check -/
theorem survey_precheck_pass_iff (lower : Str → Str) (hasRows hasHeader : Bool) (names : List Str) :
    surveyPrecheck lower hasRows hasHeader names = .pass ↔ (hasRows = true ∨ hasHeader = true) := by
  cases hasRows <;> cases hasHeader <;> simp [surveyPrecheck]

example : surveyPrecheck lowerAscii false true [] = .pass := by decide

/-- **the hint names every similar sheet**: a sheet name that `find_sheet_misspellings` selects (distance ≤ 2 to
    `survey`, not a supported name, no leading underscore) makes the message the first sentence + the hint over exactly
    the selected names, in workbook order. -/
theorem missing_survey_hint (lower : Str → Str) (names : List Str) (k : Str)
    (hk : k ∈ Warn.misspellCands lower Warn.supported "survey".toList names) :
    surveyPrecheck lower false false names =
      .reject (mustHaveSurvey ++ similarMsg "survey".toList (Warn.misspellCands lower Warn.supported "survey".toList names)) := by
  simp only [surveyPrecheck, Bool.not_false, Bool.and_self, ↓reduceIte, surveyHint, Warn.findSheetMisspellings]
  cases h : Warn.misspellCands lower Warn.supported "survey".toList names with
  | nil => rw [h] at hk; cases hk
  | cons c cs => rfl

example : "surveys".toList ∈ Warn.misspellCands lowerAscii Warn.supported "survey".toList ["surveys".toList] := by
  decide +kernel

/-! ## `range` parameter cell -/

/-- **malformed range parameters**: a part without `=` refuses the cell with the "Expecting parameters …" message -/
theorem range_malformed_rejected (raw p : Str) (hm : p ∈ parseParts raw) (h : '=' ∉ p) :
    rangeCell raw = .reject parseMsg := by
  simp only [rangeCell, malformed_params_rejected raw p hm h]

example : rangeCell "start".toList = .reject parseMsg :=
  range_malformed_rejected _ "start".toList (by decide +kernel) (by decide)

theorem mem_insertStr (x y : Str) : ∀ l : List Str, y ∈ insertStr x l ↔ y = x ∨ y ∈ l
  | [] => by simp [insertStr]
  | z :: zs => by
    simp only [insertStr]
    split
    · simp
    · simp only [List.mem_cons, mem_insertStr x y zs]
      constructor
      · rintro (h | h | h) <;> simp [h]
      · rintro (h | h | h) <;> simp [h]

theorem mem_sortStr (y : Str) : ∀ l : List Str, y ∈ sortStr l ↔ y ∈ l
  | [] => by simp [sortStr]
  | x :: xs => by simp only [sortStr, mem_insertStr, mem_sortStr y xs, List.mem_cons]

/-- **unknown range parameter**: a key of the parsed cell outside {start, end, step} refuses the cell with the
    "Accepted parameters are …" message over a list that contains that key (and only keys of the cell outside the
    allowed set), whatever else the cell holds — in particular before any value is looked at. -/
theorem range_unknown_param_named (raw : Str) (ps : Dict) (kv : Str × Str) (hp : parseParams raw = some ps)
    (hm : kv ∈ ps) (hk : rangeAllowed.contains kv.1 = false) :
    ∃ es, rangeCell raw = .reject (extrasMsg es) ∧ kv.1 ∈ es ∧
      ∀ e ∈ es, e ∈ ps.map (·.1) ∧ rangeAllowed.contains e = false := by
  have hin : kv.1 ∈ extras ps := by
    simp only [extras, List.mem_filter, List.mem_map, hk, Bool.not_false, and_true]
    exact ⟨kv, hm, rfl⟩
  simp only [rangeCell, hp]
  cases he : extras ps with
  | nil => rw [he] at hin; cases hin
  | cons e es =>
    refine ⟨sortStr (e :: es), rfl, ?_, ?_⟩
    · rw [mem_sortStr, ← he]; exact hin
    · intro x hx
      rw [mem_sortStr, ← he] at hx
      simp only [extras, List.mem_filter, Bool.not_eq_true'] at hx
      exact hx

example : rangeCell "foo=1 start=2 bar=x".toList =
    .reject "Accepted parameters are 'end, start, step'. The following are invalid parameter(s): 'bar, foo'.".toList := by
  decide +kernel

theorem numbersCheck_reject (pre : Dict) (kv : Str × Str) (post : Dict)
    (hpre : ∀ p ∈ pre, floatLit p.2 = true) (h1 : floatLit kv.2 = false) (h2 : notNumber kv.2 = true) :
    numbersCheck (pre ++ kv :: post) = .reject rangeNumbersMsg := by
  induction pre with
  | nil => simp [numbersCheck, h1, h2]
  | cons p ps ih =>
    have hp : floatLit p.2 = true := hpre p (by simp)
    simp only [List.cons_append, numbersCheck, hp, ↓reduceIte]
    exact ih (fun q hq => hpre q (by simp [hq]))

/-- **range value not a number**: in a cell whose keys are all allowed, the first value that is not a plain decimal
    literal and is surely refused by `float()` (empty, or an ASCII string with a character no numeric literal has)
    refuses the row with the "must all be numbers" message, whatever follows it. -/
theorem range_not_number_rejected (raw : Str) (pre : Dict) (kv : Str × Str) (post : Dict)
    (hp : parseParams raw = some (pre ++ kv :: post)) (he : extras (pre ++ kv :: post) = [])
    (hpre : ∀ p ∈ pre, floatLit p.2 = true) (h1 : floatLit kv.2 = false) (h2 : notNumber kv.2 = true) :
    rangeCell raw = .reject rangeNumbersMsg := by
  simp only [rangeCell, hp, he, numbersCheck_reject pre kv post hpre h1 h2]

example : rangeCell "start=1 end=q step=y".toList = .reject rangeNumbersMsg :=
  range_not_number_rejected _ [("start".toList, "1".toList)] ("end".toList, "q".toList) [("step".toList, "y".toList)]
    (by decide +kernel) (by decide +kernel) (by decide +kernel) (by decide +kernel) (by decide +kernel)

/-- converse: a cell that passes has only allowed keys and only plain decimal literals as values -/
theorem numbersCheck_pass : ∀ ps : Dict, numbersCheck ps = .pass → ∀ p ∈ ps, floatLit p.2 = true
  | [], _, p, hp => by cases hp
  | kv :: rest, h, p, hp => by
    simp only [numbersCheck] at h
    split at h
    · rename_i hf
      rcases List.mem_cons.mp hp with rfl | hr
      · exact hf
      · exact numbersCheck_pass rest h p hr
    · split at h <;> cases h

theorem range_pass_sound (raw : Str) (h : rangeCell raw = .pass) :
    ∃ ps, parseParams raw = some ps ∧ extras ps = [] ∧ ∀ p ∈ ps, floatLit p.2 = true := by
  cases hp : parseParams raw with
  | none => simp only [rangeCell, hp] at h; cases h
  | some ps =>
    cases he : extras ps with
    | nil => simp only [rangeCell, hp, he] at h; exact ⟨ps, rfl, he, numbersCheck_pass ps h⟩
    | cons e es => simp only [rangeCell, hp, he] at h; cases h

example : rangeCell "start=1.5;end=2;step=0.5".toList = .pass := by decide +kernel

/-- agreement with the tied per-type block `Controls.validateParams` (stream of C04/`controls`): on a parsed cell
    the two give the same verdict class -/
theorem numbersCheck_agrees (ps : Dict) :
    (ps.forM fun kv => needFloat kv.2 "Range parameters must all be numbers") =
      (match numbersCheck ps with
       | .pass => .ok ()
       | .reject _ => .error (.err "Range parameters must all be numbers")
       | .unsupported _ => .error (.unsup "float() literal")) := by
  induction ps with
  | nil => rfl
  | cons kv rest ih =>
    have hc : ((kv :: rest).forM fun kv => needFloat kv.2 "Range parameters must all be numbers") =
        (needFloat kv.2 "Range parameters must all be numbers" >>= fun _ =>
          rest.forM fun kv => needFloat kv.2 "Range parameters must all be numbers") := rfl
    rw [hc, ih]
    simp only [numbersCheck, needFloat]
    by_cases h1 : floatLit kv.2 = true
    · simp [h1, bind, Except.bind]
    · by_cases h2 : notNumber kv.2 = true
      · simp [h1, h2, bind, Except.bind]
      · simp [h1, h2, bind, Except.bind]

example : (numbersCheck [("start".toList, "1e5".toList)]) = .unsupported "float() literal" := by decide +kernel

/-- lifting to the sheet: the cell is cleaned (`clean_text_values`) first, every theorem above applies to the cleaned cell -/
theorem range_sheet_cell (raw : Str) : rangeCellOfSheet raw = rangeCell (Spell.cleanText true raw) := rfl

example : rangeCellOfSheet "end=5. step=1,5  End=10".toList =
    .reject "Accepted parameters are 'end, start, step'. The following are invalid parameter(s): '5 end'.".toList := by
  decide +kernel

end Pyxv.C17.Pre
