import Pyxv.Proofs.ConvertC10
import Pyxv.Proofs.ConvertNames
/-!
# C10 for the end-to-end composition, beyond `<model>`: the setvalues inside repeats

`Convert.bodyNodes` appends to each `<repeat>` the setvalues of the dynamic defaults of its descendants that are not
inside a nested repeat (`dynSetsL`, the counterpart of `Defaults.helperSets`).  `dynSetsL` finds an element's chain by
its path (`ctxOf els path`); the membership fact it needs — every element of the walk is one of `elsOf`'s chains —
holds because `elsOf` *is* the chain list of the same tree.  With it, the facts of `dynSetsL` are
`Defaults.helperSets` of the mapped tree, the facts of the whole body walk are `Defaults.bodySetsL ∘ Defaults.body`,
and all setvalue facts of the conversion are `Defaults.setFacts (Defaults.gen …)` — the list
`C10.setvalues_exactly_once` is about.
-/
namespace Pyxv.ConvertP
open Pyxv Pyxv.Form Pyxv.Rows Pyxv.Xml Pyxv.Asm Pyxv.Convert Pyxv.C01

/-- a chain of the list is found by its path (some chain with that path is; the fact only reads the path) -/
theorem ctxOf_path_of_mem (els : List Refs.Chain) (c : Refs.Chain) (hc : c ∈ els) :
    (ctxOf els c.path).path = c.path := by
  unfold ctxOf
  cases hf : els.find? (fun x => x.path == c.path) with
  | none =>
    have := List.find?_eq_none.1 hf c hc
    simp at this
  | some x =>
    have := List.find?_some hf
    simpa using this

theorem helperSets_cons (sub : Defaults.Path → Str → Str) (pre : Defaults.Path) (e : Defaults.El)
    (rest : List Defaults.El) :
    Defaults.helperSets dynQ sub pre (e :: rest) =
      Defaults.helperSets dynQ sub pre [e] ++ Defaults.helperSets dynQ sub pre rest := by
  cases e <;> simp [Defaults.helperSets]

mutual
/-- **setvalues appended to a `<repeat>`** = `Defaults.helperSets` of the mapped tree -/
theorem dynSets_facts (els : List Refs.Chain) (sub : Defaults.Path → Str → Str) (rp : List Str) :
    ∀ (pc : Refs.Chain) (d : DItem), (∀ c ∈ (toEl d).chains pc, c ∈ els) →
    (dynSets els pc.path d).filterMap (factOf (some rp)) =
      (Defaults.helperSets dynQ sub pc.path [toDef d]).map fun s => projFact { loc := some rp, set := s }
  | pc, .q d p, h => by
    have hm : pc ++ [(d.name, Refs.Kind.q)] ∈ els := h _ (by simp [toEl, Refs.El.chains])
    have hctx : (ctxOf els (pc.path ++ [d.name])).path = pc.path ++ [d.name] := by
      rw [← path_snoc pc d.name .q]; exact ctxOf_path_of_mem els _ hm
    have := dynSetOf_fact els (ctxOf els (pc.path ++ [d.name])) d p pc.path (some rp) sub hctx
    simp only [Option.isSome_some] at this
    simp only [dynSets, toDef, Defaults.helperSets, List.append_nil, this]
  | pc, .sec .rep n b p ks, _ => by
    simp only [dynSets, toDef, Defaults.helperSets, List.filterMap_nil, List.map_nil]
  | pc, .sec .group n b p ks, h => by
    have h' : ∀ c ∈ Refs.chainsL (pc ++ [(n, kindOf .group)]) (toElL ks), c ∈ els :=
      fun c hc => h c (by simp only [toEl, Refs.El.chains, List.mem_cons]; exact Or.inr hc)
    have := dynSetsL_facts els sub rp (pc ++ [(n, kindOf .group)]) ks h'
    rw [path_snoc] at this
    simp only [dynSets, toDef, Defaults.helperSets, List.append_nil, this]
  | pc, .sec .loop n b p ks, h => by
    have h' : ∀ c ∈ Refs.chainsL (pc ++ [(n, kindOf .loop)]) (toElL ks), c ∈ els :=
      fun c hc => h c (by simp only [toEl, Refs.El.chains, List.mem_cons]; exact Or.inr hc)
    have := dynSetsL_facts els sub rp (pc ++ [(n, kindOf .loop)]) ks h'
    rw [path_snoc] at this
    simp only [dynSets, toDef, Defaults.helperSets, List.append_nil, this]
theorem dynSetsL_facts (els : List Refs.Chain) (sub : Defaults.Path → Str → Str) (rp : List Str) :
    ∀ (pc : Refs.Chain) (ds : List DItem), (∀ c ∈ Refs.chainsL pc (toElL ds), c ∈ els) →
    (dynSetsL els pc.path ds).filterMap (factOf (some rp)) =
      (Defaults.helperSets dynQ sub pc.path (toDefL ds)).map fun s => projFact { loc := some rp, set := s }
  | _, [], _ => by simp [dynSetsL, toDefL, Defaults.helperSets]
  | pc, k :: ks, h => by
    have h1 := dynSets_facts els sub rp pc k
      (fun c hc => h c (by simp only [toElL, Refs.chainsL, List.mem_append]; exact Or.inl hc))
    have h2 := dynSetsL_facts els sub rp pc ks
      (fun c hc => h c (by simp only [toElL, Refs.chainsL, List.mem_append]; exact Or.inr hc))
    simp only [dynSetsL, List.filterMap_append, h1, h2, toDefL]
    rw [helperSets_cons sub pc.path (toDef k) (toDefL ks), List.map_append]
end

/-! ## the whole body walk -/

mutual
/-- the setvalue facts of the body walk: at each repeat, the facts of the setvalues `bodyNodes` appends to its
    `<repeat>` element (`dynSetsL`), located at the repeat's path; mirrors the recursion of `Convert.bodyNodes` -/
def repFacts (els : List Refs.Chain) (pre : List Str) : DItem → List Fact
  | .q _ _ => []
  | .sec .rep n _ _ ks =>
    repFactsL els (pre ++ [n]) ks ++ (dynSetsL els (pre ++ [n]) ks).filterMap (factOf (some (pre ++ [n])))
  | .sec .group n _ _ ks => repFactsL els (pre ++ [n]) ks
  | .sec .loop n _ _ ks => repFactsL els (pre ++ [n]) ks
def repFactsL (els : List Refs.Chain) (pre : List Str) : List DItem → List Fact
  | [] => []
  | k :: ks => repFacts els pre k ++ repFactsL els pre ks
end

theorem bodySetsL_append (a b : List Defaults.Body) :
    Defaults.bodySetsL (a ++ b) = Defaults.bodySetsL a ++ Defaults.bodySetsL b := by
  induction a with
  | nil => simp [Defaults.bodySetsL]
  | cons x xs ih => simp [Defaults.bodySetsL, ih]

theorem bodySetsL_qCtl (sub : Defaults.Path → Str → Str) (paths : Str → Defaults.Path) (tbl : List Defaults.Trig)
    (pre : Defaults.Path) (d : Defaults.Q) : Defaults.bodySetsL (Defaults.qCtl sub paths tbl pre d) = [] := by
  unfold Defaults.qCtl
  split <;> simp [Defaults.bodySetsL, Defaults.bodySets]

theorem body_cons (sub : Defaults.Path → Str → Str) (paths : Str → Defaults.Path) (tbl : List Defaults.Trig)
    (pre : Defaults.Path) (e : Defaults.El) (rest : List Defaults.El) :
    Defaults.body dynQ sub paths tbl pre (e :: rest) =
      Defaults.body dynQ sub paths tbl pre [e] ++ Defaults.body dynQ sub paths tbl pre rest := by
  cases e <;> simp [Defaults.body]

mutual
theorem repFacts_body (els : List Refs.Chain) (sub : Defaults.Path → Str → Str) (paths : Str → Defaults.Path)
    (tbl : List Defaults.Trig) : ∀ (pc : Refs.Chain) (d : DItem), (∀ c ∈ (toEl d).chains pc, c ∈ els) →
    repFacts els pc.path d = (Defaults.bodySetsL (Defaults.body dynQ sub paths tbl pc.path [toDef d])).map projFact
  | pc, .q d p, _ => by
    simp only [repFacts, toDef, Defaults.body, List.append_nil, bodySetsL_qCtl, List.map_nil]
  | pc, .sec .rep n b p ks, h => by
    have h' : ∀ c ∈ Refs.chainsL (pc ++ [(n, kindOf .rep)]) (toElL ks), c ∈ els :=
      fun c hc => h c (by simp only [toEl, Refs.El.chains, List.mem_cons]; exact Or.inr hc)
    have h1 := repFactsL_body els sub paths tbl (pc ++ [(n, kindOf .rep)]) ks h'
    have h2 := dynSetsL_facts els sub (pc.path ++ [n]) (pc ++ [(n, kindOf .rep)]) ks h'
    rw [path_snoc] at h1 h2
    simp only [repFacts, toDef, Defaults.body, Defaults.bodySetsL, Defaults.bodySets, List.append_nil, h1, h2,
      List.map_append, List.map_map]
    rfl
  | pc, .sec .group n b p ks, h => by
    have h' : ∀ c ∈ Refs.chainsL (pc ++ [(n, kindOf .group)]) (toElL ks), c ∈ els :=
      fun c hc => h c (by simp only [toEl, Refs.El.chains, List.mem_cons]; exact Or.inr hc)
    have h1 := repFactsL_body els sub paths tbl (pc ++ [(n, kindOf .group)]) ks h'
    rw [path_snoc] at h1
    simp only [repFacts, toDef, Defaults.body, Defaults.bodySetsL, Defaults.bodySets, List.append_nil, h1]
  | pc, .sec .loop n b p ks, h => by
    have h' : ∀ c ∈ Refs.chainsL (pc ++ [(n, kindOf .loop)]) (toElL ks), c ∈ els :=
      fun c hc => h c (by simp only [toEl, Refs.El.chains, List.mem_cons]; exact Or.inr hc)
    have h1 := repFactsL_body els sub paths tbl (pc ++ [(n, kindOf .loop)]) ks h'
    rw [path_snoc] at h1
    simp only [repFacts, toDef, Defaults.body, Defaults.bodySetsL, Defaults.bodySets, List.append_nil, h1]
theorem repFactsL_body (els : List Refs.Chain) (sub : Defaults.Path → Str → Str) (paths : Str → Defaults.Path)
    (tbl : List Defaults.Trig) : ∀ (pc : Refs.Chain) (ds : List DItem), (∀ c ∈ Refs.chainsL pc (toElL ds), c ∈ els) →
    repFactsL els pc.path ds =
      (Defaults.bodySetsL (Defaults.body dynQ sub paths tbl pc.path (toDefL ds))).map projFact
  | _, [], _ => by simp [repFactsL, toDefL, Defaults.body, Defaults.bodySetsL]
  | pc, k :: ks, h => by
    have h1 := repFacts_body els sub paths tbl pc k
      (fun c hc => h c (by simp only [toElL, Refs.chainsL, List.mem_append]; exact Or.inl hc))
    have h2 := repFactsL_body els sub paths tbl pc ks
      (fun c hc => h c (by simp only [toElL, Refs.chainsL, List.mem_append]; exact Or.inr hc))
    simp only [repFactsL, toDefL, h1, h2]
    rw [body_cons sub paths tbl pc.path (toDef k) (toDefL ks), bodySetsL_append, List.map_append]
end

#print axioms repFactsL_body

/-! ## the meta block contributes no setvalue -/

theorem repFactsL_append (els : List Refs.Chain) (pre : List Str) (a b : List DItem) :
    repFactsL els pre (a ++ b) = repFactsL els pre a ++ repFactsL els pre b := by
  induction a with
  | nil => simp [repFactsL]
  | cons x xs ih => simp [repFactsL, ih]

theorem repFactsL_map_q (els : List Refs.Chain) (pre : List Str) (f : QData → Pay) (mk : List QData) :
    repFactsL els pre (mk.map fun d => DItem.q d (f d)) = [] := by
  induction mk with
  | nil => simp [repFactsL]
  | cons x xs ih => simp only [List.map_cons, repFactsL, repFacts, ih, List.append_nil]

theorem repFactsL_dWithMeta (els : List Refs.Chain) (root : Str) (rows : List Cells) (ditems : List DItem) :
    repFactsL els [root] (dWithMeta root rows ditems) = repFactsL els [root] ditems := by
  unfold dWithMeta
  simp only []
  split
  · rfl
  · rw [repFactsL_append]
    simp only [repFactsL, repFacts, repFactsL_map_q, List.append_nil]

/-- the `<model>` part on the trace (the body of `convert_c10_model_partial`) -/
theorem trace_c10_model {wb : Workbook} {doc : Node} {f : Fields} {lists : List (Str × List Choices.Choice)}
    {rows : List Cells} {drows : List ((Nat × RowK) × Pay)} {o : FormOut} {ditems : List DItem}
    (T : Trace wb doc f lists rows drows o ditems) (sub : Defaults.Path → Str → Str) :
    (modelKidsOf doc).filterMap (factOf none) =
      (Defaults.modelSets dynQ sub [f.name] (toDefL (dWithMeta f.name rows ditems))).map
        fun s => projFact { loc := none, set := s } := by
  have hsub : (submissionNode f).filterMap (factOf none) = [] := by
    unfold submissionNode
    split
    · rfl
    · simp only [pyNode, List.filterMap_cons, factOf]; rw [if_neg (by decide)]; rfl
  have hinst : ∀ ks, factOf none (pyNode "instance".toList [] ks) = none := by
    intro ks; simp only [pyNode, factOf]; rw [if_neg (by decide)]
  have hb := bindNodesL_facts (elsOf f.name (dWithMeta f.name rows ditems)) sub [(f.name, .group)]
    (dWithMeta f.name rows ditems) (by simp [inRep])
  rw [T.hdoc, modelKidsOf_assemble]
  unfold Asm.modelKids
  simp only [itextPart, List.append_nil, List.filterMap_append, List.filterMap_cons, hsub, hinst, List.nil_append,
    factOf_choiceInst, hb, Refs.Chain.path, List.map]

/-- **C10 for the whole conversion: all setvalues** (`_partial`: the `<model>` part is read from the document's
    nodes, the repeats' part from the body *walk* — `bodyKidsOf doc = bodyNodesL els [root] ditems`, and `repFactsL`
    collects, at every repeat of that walk, the facts of exactly the setvalue nodes `bodyNodes` appends to its
    `<repeat>` element; the instance text of static defaults is not in the statement).  In a successful conversion
    the setvalue facts (location, `ref`, `event`) of `<model>` followed by those of the repeats are the facts of
    `Defaults.gen` on the element tree mapped into the `Defaults` slice's type, hence (`C10.setvalues_exactly_once`) a
    permutation of the specification `Defaults.expSets`: one setvalue per question whose default is dynamic, at its
    nearest repeat ancestor (`<model>` if none) with the matching event, none for any other element. -/
theorem convert_c10_all_partial (wb : Workbook) (doc : Node) (h : convertDoc wb = .ok doc)
    (sub : Defaults.Path → Str → Str) :
    ∃ (root : Str) (ditems dall : List DItem) (els : List Refs.Chain),
      els = elsOf root dall ∧ bodyKidsOf doc = bodyNodesL els [root] ditems ∧
      (modelKidsOf doc).filterMap (factOf none) ++ repFactsL els [root] ditems =
        (Defaults.setFacts (Defaults.gen dynQ sub root (toDefL dall))).map projFact ∧
      (Defaults.setFacts (Defaults.gen dynQ sub root (toDefL dall))).Perm
        (Defaults.expSets dynQ sub [root] none (toDefL dall)) := by
  obtain ⟨f, lists, rows, drows, o, ditems, T⟩ := convertDoc_trace wb doc h
  refine ⟨f.name, ditems, dWithMeta f.name rows ditems, _, rfl, ?_, ?_, C10.setvalues_exactly_once _ _ _ _⟩
  · rw [T.hdoc, bodyKidsOf_assemble]
  · have hcov : ∀ c ∈ Refs.chainsL [(f.name, Refs.Kind.group)] (toElL (dWithMeta f.name rows ditems)),
        c ∈ elsOf f.name (dWithMeta f.name rows ditems) := by
      intro c hc
      simp only [elsOf, Refs.El.chains, List.nil_append, List.mem_cons]
      exact Or.inr hc
    have hbody := repFactsL_body (elsOf f.name (dWithMeta f.name rows ditems)) sub
      (Defaults.pathOf (Defaults.qPaths [f.name] (toDefL (dWithMeta f.name rows ditems))))
      (Defaults.trigTable (toDefL (dWithMeta f.name rows ditems))) [(f.name, .group)]
      (dWithMeta f.name rows ditems) hcov
    have hp : Refs.Chain.path [(f.name, Refs.Kind.group)] = [f.name] := rfl
    rw [hp, repFactsL_dWithMeta] at hbody
    rw [trace_c10_model T sub, hbody]
    simp only [Defaults.setFacts, Defaults.gen, List.map_append, List.map_map]
    rfl

#print axioms convert_c10_all_partial

/-! ## Non-vacuity -/

/-- a repeat holding a question with a dynamic default (and one with a static default) -/
def exRep : List DItem :=
  [.sec .rep (l!"r") false {}
    [.q { name := l!"n", bind := true, control := true, node := true, tag := l!"input" }
        { cells := [(l!"type", l!"text"), (l!"name", l!"n"), (l!"default", l!"now()")] },
     .q { name := l!"m", bind := true, control := true, node := true, tag := l!"input" }
        { cells := [(l!"type", l!"text"), (l!"name", l!"m"), (l!"default", l!"abc")] }]]

-- the walk reads exactly one setvalue, inside the repeat, with the new-repeat event
example : repFactsL (elsOf (l!"data") exRep) [l!"data"] exRep =
    [(some [l!"data", l!"r"], l!"/data/r/n", evNewRepeat)] := by decide +kernel
-- … and that node is the last child of the `<repeat>` element `bodyNodes` writes
example : dynSetsL (elsOf (l!"data") exRep) [l!"data", l!"r"] (match exRep with | [.sec _ _ _ _ ks] => ks | _ => []) =
    [setvalueNode (elsOf (l!"data") exRep) [(l!"data", .group), (l!"r", .rep), (l!"n", .q)] (l!"now()") true] := by
  decide +kernel
example : ctxOf (elsOf (l!"data") exRep) [l!"data", l!"r", l!"n"] = [(l!"data", .group), (l!"r", .rep), (l!"n", .q)] := by
  decide +kernel
-- the theorem applied to the workbook whose text `ex_convert` pins
example : ∃ doc, convertDoc exWb = .ok doc ∧ ∃ root ditems dall els,
    els = elsOf root dall ∧ bodyKidsOf doc = bodyNodesL els [root] ditems ∧
    (modelKidsOf doc).filterMap (factOf none) ++ repFactsL els [root] ditems =
      (Defaults.setFacts (Defaults.gen dynQ (fun _ s => s) root (toDefL dall))).map projFact ∧
    (Defaults.setFacts (Defaults.gen dynQ (fun _ s => s) root (toDefL dall))).Perm
      (Defaults.expSets dynQ (fun _ s => s) [root] none (toDefL dall)) := by
  obtain ⟨doc, hd, -⟩ := convert_ok exWb false exText ex_convert
  exact ⟨doc, hd, convert_c10_all_partial exWb doc hd _⟩

end Pyxv.ConvertP
