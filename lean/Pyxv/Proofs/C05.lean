import Pyxv.Proofs.BindsLemmas
/-!
# C05 — logic cells reach the right bind unchanged, with the type the table prescribes

Property theorems about `Pyxv.Binds` (the model of `process_header` / `process_row` /
`Question.__init__` / `xml_bindings`).  `Spec.source` / `Spec.value` are the property's own
reading: the attribute `k` of a row's bind is the row's logic cell for `k` if it has one, else the
type table's value, converted (yes/no, message redirection) and reference-substituted.
-/
namespace Pyxv.C05
open Pyxv Pyxv.Binds

/-! ## bind_of_row -/

/-- the two reasons an entry of the bind dict is not emitted -/
def dropped (trig : Bool) (k : Str) : Bool := (trig && decide (k = calcKey)) || blockedAttrs.contains k

/-- lookup in the attribute list `xml_bindings` emits -/
theorem lookup_attrsOf (root : Str) (tops : List Str) (path : Str) (trig : Bool) :
    ∀ (b : BindDict) (attrs : List (Str × Str)), attrsOf root tops path trig b = some attrs → ∀ k,
      lookup k attrs =
        if dropped trig k then none else (lookup k b).bind (Spec.value root tops path k) := by
  intro b
  induction b with
  | nil =>
    intro attrs h k
    simp only [attrsOf, Option.some.injEq] at h
    subst h
    show none = _
    split <;> rfl
  | cons p rest ih =>
    obtain ⟨k0, v0⟩ := p
    intro attrs h k
    unfold attrsOf at h
    split at h
    · next hc =>
      rw [ih attrs h k]
      simp only [lookup]
      by_cases hk : k = k0
      · subst hk
        have : dropped trig k = true := by unfold dropped; rw [hc]; rfl
        rw [if_pos this, if_pos this]
      · rw [if_neg hk]
    · next hc =>
      split at h
      · cases h
      · next s hs =>
        split at h
        · cases h
        · next s' hs' =>
          split at h
          · next hb =>
            rw [ih attrs h k]
            simp only [lookup]
            by_cases hk : k = k0
            · subst hk
              have : dropped trig k = true := by unfold dropped; rw [hb]; exact Bool.or_true _
              rw [if_pos this, if_pos this]
            · rw [if_neg hk]
          · next hb =>
            cases hr : attrsOf root tops path trig rest with
            | none => rw [hr] at h; cases h
            | some r' =>
              rw [hr] at h
              simp only [Option.map_some, Option.some.injEq] at h
              subst h
              simp only [lookup]
              by_cases hk : k = k0
              · subst hk
                have hd : dropped trig k = false := by
                  unfold dropped
                  have h1 : (trig && decide (k = calcKey)) = false := by
                    cases hx : (trig && decide (k = calcKey)) with
                    | false => rfl
                    | true => exact absurd hx hc
                  have h2 : blockedAttrs.contains k = false := by
                    cases hx : blockedAttrs.contains k with
                    | false => rfl
                    | true => exact absurd hx hb
                  rw [h1, h2]; rfl
                rw [if_pos rfl, if_pos rfl, hd]
                simp only [Bool.false_eq_true, if_false, Option.bind_some, Spec.value, hs, hs']
              · rw [if_neg hk, if_neg hk]
                exact ih r' hr k

/-- **bind_of_row.**  The attribute list of a question's bind is, as a finite map, exactly what the
    property prescribes: for every attribute name `k` (other than the two names `utils.node`
    swallows — known finding `C05-bind-attr-named-like-node-kwarg`) the value is the converted,
    reference-substituted logic cell of *this row* if it has one for `k`, else the converted
    type-table value, else absent.  For all type-table entries, all rows, all expressions.
    (`hl`: the row's bind keys are distinct — `processRow_bind_keys_nodup` below.) -/
theorem bind_of_row (root : Str) (tops : List Str) (path : Str) (trig : Bool)
    (tt : List (Str × Str)) (logic : BindDict) (attrs : List (Str × Str))
    (hl : (logic.map (·.1)).Nodup)
    (h : attrsOf root tops path trig (dictUpdate (tt.map fun (k, v) => (k, BVal.s v)) logic) = some attrs)
    (k : Str) (hk : blockedAttrs.contains k = false) :
    lookup k attrs = (Spec.source tt logic trig k).bind (Spec.value root tops path k) := by
  rw [lookup_attrsOf root tops path trig _ attrs h k, lookup_dictUpdate _ _ _ hl, lookup_map_s]
  unfold Spec.source dropped
  rw [hk, Bool.or_false]
  cases hc : (trig && decide (k = calcKey)) with
  | true => rfl
  | false =>
    simp only [Bool.false_eq_true, if_false]
    cases lookup k logic with
    | none => rfl
    | some v => rfl

/-- the row's bind dict that `process_row` builds has pairwise distinct keys (for every header
    key and every row) — the hypothesis `hl` of `bind_of_row` always holds in the pipeline -/
theorem processRow_bind_keys_nodup (dl : Str) (key : List (Str × List Str)) (cells : List (Str × Str))
    (r : PRow) (h : processRow dl key {} cells = .ok r) : ((r.bind.getD []).map (·.1)).Nodup :=
  processRow_nodup dl key cells {} r (by simp [bindNodup]) h

/-- keys of the emitted attribute list are a sublist of the bind dict's keys -/
theorem attrsOf_keys_sublist (root : Str) (tops : List Str) (path : Str) (trig : Bool) :
    ∀ (b : BindDict) (attrs : List (Str × Str)), attrsOf root tops path trig b = some attrs →
      (attrs.map (·.1)).Sublist (b.map (·.1)) := by
  intro b
  induction b with
  | nil => intro attrs h; simp only [attrsOf, Option.some.injEq] at h; subst h; simp
  | cons p rest ih =>
    obtain ⟨k0, v0⟩ := p
    intro attrs h
    unfold attrsOf at h
    split at h
    · exact (ih attrs h).cons _
    · split at h
      · cases h
      · split at h
        · cases h
        · split at h
          · exact (ih attrs h).cons _
          · cases hr : attrsOf root tops path trig rest with
            | none => simp [hr] at h
            | some r' =>
              simp only [hr, Option.map_some, Option.some.injEq] at h
              subst h
              simp only [List.map_cons]
              exact (ih r' hr).cons_cons _

/-- **no attribute duplicated**: the attribute names of an emitted bind are pairwise distinct,
    whenever the type-table entry has distinct keys (a `decide` fact about the regenerated table,
    `type_table_bind_keys_nodup`). -/
theorem attrs_nodup (root : Str) (tops : List Str) (e : Elem) (b : Bind)
    (htt : ∀ tt, e.q.tt = some tt → (tt.map (·.1)).Nodup)
    (hl : ((e.q.bind.getD []).map (·.1)).Nodup)
    (h : xmlBind root tops e = some (some b)) : (b.attrs.map (·.1)).Nodup := by
  unfold xmlBind at h
  split at h
  · cases h
  · next bd hb =>
    split at h
    · cases h
    · cases ha : attrsOf root tops (Form.xpathStr e.path) e.q.trigger bd with
      | none => simp [ha] at h
      | some a =>
        simp only [ha, Option.map_some, Option.some.injEq] at h
        subst h
        refine (attrsOf_keys_sublist _ _ _ _ bd a ha).nodup ?_
        unfold elemBind at hb
        split at hb
        · cases hb
        · simp only [Option.some.injEq] at hb
          subst hb
          unfold rawBind
          split
          · next tt htt' =>
            apply dictUpdate_nodup
            have := htt tt htt'
            simpa [List.map_map, Function.comp_def] using this
          · exact hl

/-! ## no_bind_without_logic / binds exactly where prescribed -/

/-- **no_bind_without_logic.**  An element whose type-table entry has no bind section and whose row
    has no bind cell gets no bind element. -/
theorem no_bind_without_logic (root : Str) (tops : List Str) (e : Elem)
    (htt : e.q.tt = none) (hb : e.q.bind = none ∨ e.q.bind = some []) :
    xmlBind root tops e = some none := by
  unfold xmlBind elemBind rawBind
  rcases hb with hb | hb <;> simp [htt, hb]

/-- the binds are exactly at the elements that carry a (non-empty) bind dict, in document order:
    no bind is attached to a node of another row, none is missing, none is invented -/
theorem binds_exactly_where_prescribed (root : Str) (tops : List Str) :
    ∀ (es : List Elem) (bs : List Bind), renderAll root tops es = some bs →
      bs.map (·.path) = (es.filter fun e => (elemBind e.q).isSome).map (·.path) := by
  intro es
  induction es with
  | nil => intro bs h; simp only [renderAll, Option.some.injEq] at h; subst h; rfl
  | cons e rest ih =>
    intro bs h
    unfold renderAll at h
    split at h
    · cases h
    · next ob hx =>
      split at h
      · cases h
      · next bs' hr =>
        simp only [Option.some.injEq] at h
        subst h
        have := ih bs' hr
        unfold xmlBind at hx
        split at hx
        · next hn =>
          simp only [Option.some.injEq] at hx
          subst hx
          simp [hn, this]
        · next bd hb =>
          split at hx
          · cases hx
          · cases ha : attrsOf root tops (Form.xpathStr e.path) e.q.trigger bd with
            | none => simp [ha] at hx
            | some a =>
              simp only [ha, Option.map_some, Option.some.injEq] at hx
              subst hx
              simp [hb, this]

/-! ## one_bind_per_node -/

theorem lower_instanceID : lowerAscii "instanceID".toList = "instanceid".toList := by decide

/-- **one_bind_per_node.**  Whenever the model produces an XForm, the nodesets of its bind elements
    are pairwise distinct: every node has at most one bind (and, with
    `binds_exactly_where_prescribed`, exactly one iff its row or type prescribes one).  For all
    row lists, all nestings. -/
theorem one_bind_per_node (root : Str) (ks : List RK) (bs : List Bind)
    (h : bindsOfRows root ks = .ok bs) : (bs.map (·.path)).Nodup := by
  unfold bindsOfRows at h
  simp only at h
  split at h
  · cases h
  next hnames =>
  split at h
  · cases h
  split at h
  · cases h
  split at h
  · cases h
  next es hw =>
  split at h
  · cases h
  next bs' hr =>
  simp only [Out.ok.injEq] at h
  subst h
  refine (renderAll_paths _ _ _ _ hr).nodup ?_
  apply nodup_of_map (fun p => p.getLast?)
  rw [List.map_map]
  show ((es ++ [instanceID root]).map (fun e => e.path.getLast?)).Nodup
  rw [List.map_append, walk_lasts root ks [] es hw]
  simp only [Bool.or_eq_true, Bool.not_eq_true', decide_eq_false_iff_not, not_or, Bool.not_eq_true,
    Decidable.not_not] at hnames
  obtain ⟨hnd, hres⟩ := hnames
  have hn : (ks.flatMap rkNames).Nodup := nodup_of_map lowerAscii _ hnd
  rw [List.nodup_append]
  refine ⟨List.Pairwise.map some (fun a b hab e => hab (Option.some.inj e)) hn, by simp, ?_⟩
  intro a ha b hb
  simp only [List.map_cons, List.map_nil, List.mem_singleton] at hb
  subst hb
  obtain ⟨n, hn1, rfl⟩ := List.mem_map.mp ha
  intro e
  have e' : n = "instanceID".toList := Option.some.inj e
  subst e'
  have : ((ks.flatMap rkNames).map lowerAscii).any (reservedNames root).contains = true := by
    rw [List.any_eq_true]
    refine ⟨lowerAscii "instanceID".toList, List.mem_map.mpr ⟨_, hn1, rfl⟩, ?_⟩
    rw [lower_instanceID]
    simp [reservedNames]
  rw [this] at hres
  cases hres

end Pyxv.C05
