import Pyxv.Proofs.BindsLemmas
/-!
# C05 — logic cells reach the right bind unchanged, with the type the table prescribes

Property theorems about `Pyxv.Binds` (the model of `process_header` / `process_row` /
`Question.__init__` / `xml_bindings`).  `Spec.source` / `Spec.value` are the property's own
reading: the attribute `k` of a row's bind is the row's logic cell for `k` if it has one, else the
type table's value, converted (yes/no, message redirection) and reference-substituted.
-/
namespace Pyxv.C05
open Pyxv Pyxv.Binds

/-! ## bind_of_row -/

/-- the one reason an entry of the bind dict is not emitted: a triggered question's `calculate` -/
def dropped (trig : Bool) (k : Str) : Bool := trig && decide (k = calcKey)

/-- lookup in the attribute list `xml_bindings` emits -/
theorem lookup_attrsOf (root : Str) (tops : List Str) (path : Str) (trig : Bool) :
    ∀ (b : BindDict) (attrs : List (Str × Str)), attrsOf root tops path trig b = some attrs → ∀ k,
      lookup k attrs =
        if dropped trig k then none else (lookup k b).bind (Spec.value root tops path k) := by
  intro b
  induction b with
  | nil =>
    intro attrs h k
    simp only [attrsOf, Option.some.injEq] at h
    subst h
    show none = _
    split <;> rfl
  | cons p rest ih =>
    obtain ⟨k0, v0⟩ := p
    intro attrs h k
    unfold attrsOf at h
    split at h
    · next hc =>
      rw [ih attrs h k]
      simp only [lookup]
      by_cases hk : k = k0
      · subst hk
        have : dropped trig k = true := hc
        rw [if_pos this, if_pos this]
      · rw [if_neg hk]
    · next hc =>
      split at h
      · cases h
      · next s hs =>
        split at h
        · cases h
        · next s' hs' =>
          cases hr : attrsOf root tops path trig rest with
          | none => rw [hr] at h; cases h
          | some r' =>
            rw [hr] at h
            simp only [Option.map_some, Option.some.injEq] at h
            subst h
            simp only [lookup]
            by_cases hk : k = k0
            · subst hk
              have hd : dropped trig k = false := by
                unfold dropped
                cases hx : (trig && decide (k = calcKey)) with
                | false => rfl
                | true => exact absurd hx hc
              rw [if_pos rfl, if_pos rfl, hd]
              simp only [Bool.false_eq_true, if_false, Option.bind_some, Spec.value, hs, hs']
            · rw [if_neg hk, if_neg hk]
              exact ih r' hr k

/-- **bind_of_row.**  The attribute list of a question's bind is, as a finite map, exactly what the
    property prescribes: for every attribute name `k` the value is the converted,
    reference-substituted logic cell of *this row* if it has one for `k`, else the converted
    type-table value, else absent.  For all type-table entries, all rows, all expressions, all
    attribute names (no guard: the defect `C05-bind-attr-named-like-node-kwarg` is repaired).
    (`hl`: the row's bind keys are distinct — `processRow_bind_keys_nodup` below.) -/
theorem bind_of_row (root : Str) (tops : List Str) (path : Str) (trig : Bool)
    (tt : List (Str × Str)) (logic : BindDict) (attrs : List (Str × Str))
    (hl : (logic.map (·.1)).Nodup)
    (h : attrsOf root tops path trig (dictUpdate (tt.map fun (k, v) => (k, BVal.s v)) logic) = some attrs)
    (k : Str) :
    lookup k attrs = (Spec.source tt logic trig k).bind (Spec.value root tops path k) := by
  rw [lookup_attrsOf root tops path trig _ attrs h k, lookup_dictUpdate _ _ _ hl, lookup_map_s]
  unfold Spec.source dropped
  cases hc : (trig && decide (k = calcKey)) with
  | true => rfl
  | false =>
    simp only [Bool.false_eq_true, if_false]
    cases lookup k logic with
    | none => rfl
    | some v => rfl

/-- the row's bind dict that `process_row` builds has pairwise distinct keys (for every header
    key and every row) — the hypothesis `hl` of `bind_of_row` always holds in the pipeline -/
theorem processRow_bind_keys_nodup (dl : Str) (key : List (Str × List Str)) (cells : List (Str × Str))
    (r : PRow) (h : processRow dl key {} cells = .ok r) : ((r.bind.getD []).map (·.1)).Nodup :=
  processRow_nodup dl key cells {} r (by simp [bindNodup]) h

/-- keys of the emitted attribute list are a sublist of the bind dict's keys -/
theorem attrsOf_keys_sublist (root : Str) (tops : List Str) (path : Str) (trig : Bool) :
    ∀ (b : BindDict) (attrs : List (Str × Str)), attrsOf root tops path trig b = some attrs →
      (attrs.map (·.1)).Sublist (b.map (·.1)) := by
  intro b
  induction b with
  | nil => intro attrs h; simp only [attrsOf, Option.some.injEq] at h; subst h; simp
  | cons p rest ih =>
    obtain ⟨k0, v0⟩ := p
    intro attrs h
    unfold attrsOf at h
    split at h
    · exact (ih attrs h).cons _
    · split at h
      · cases h
      · split at h
        · cases h
        · cases hr : attrsOf root tops path trig rest with
          | none => simp [hr] at h
          | some r' =>
            simp only [hr, Option.map_some, Option.some.injEq] at h
            subst h
            simp only [List.map_cons]
            exact (ih r' hr).cons_cons _

/-- **no attribute duplicated**: the attribute names of an emitted bind are pairwise distinct,
    whenever the type-table entry has distinct keys (a `decide` fact about the regenerated table,
    `type_table_bind_keys_nodup`). -/
theorem attrs_nodup (root : Str) (tops : List Str) (e : Elem) (b : Bind)
    (htt : ∀ tt, e.q.tt = some tt → (tt.map (·.1)).Nodup)
    (hl : ((e.q.bind.getD []).map (·.1)).Nodup)
    (h : xmlBind root tops e = some (some b)) : (b.attrs.map (·.1)).Nodup := by
  unfold xmlBind at h
  split at h
  · cases h
  · next bd hb =>
    split at h
    · cases h
    · cases ha : attrsOf root tops (Form.xpathStr e.path) e.q.trigger bd with
      | none => simp [ha] at h
      | some a =>
        simp only [ha, Option.map_some, Option.some.injEq] at h
        subst h
        refine (attrsOf_keys_sublist _ _ _ _ bd a ha).nodup ?_
        unfold elemBind at hb
        split at hb
        · cases hb
        · simp only [Option.some.injEq] at hb
          subst hb
          unfold rawBind
          split
          · next tt htt' =>
            apply dictUpdate_nodup
            have := htt tt htt'
            simpa [List.map_map, Function.comp_def] using this
          · exact hl

/-! ## no_bind_without_logic / binds exactly where prescribed -/

/-- **no_bind_without_logic.**  An element whose type-table entry has no bind section and whose row
    has no bind cell gets no bind element. -/
theorem no_bind_without_logic (root : Str) (tops : List Str) (e : Elem)
    (htt : e.q.tt = none) (hb : e.q.bind = none ∨ e.q.bind = some []) :
    xmlBind root tops e = some none := by
  unfold xmlBind elemBind rawBind
  rcases hb with hb | hb <;> simp [htt, hb]

/-- the binds are exactly at the elements that carry a (non-empty) bind dict, in document order:
    no bind is attached to a node of another row, none is missing, none is invented -/
theorem binds_exactly_where_prescribed (root : Str) (tops : List Str) :
    ∀ (es : List Elem) (bs : List Bind), renderAll root tops es = some bs →
      bs.map (·.path) = (es.filter fun e => (elemBind e.q).isSome).map (·.path) := by
  intro es
  induction es with
  | nil => intro bs h; simp only [renderAll, Option.some.injEq] at h; subst h; rfl
  | cons e rest ih =>
    intro bs h
    unfold renderAll at h
    split at h
    · cases h
    · next ob hx =>
      split at h
      · cases h
      · next bs' hr =>
        simp only [Option.some.injEq] at h
        subst h
        have := ih bs' hr
        unfold xmlBind at hx
        split at hx
        · next hn =>
          simp only [Option.some.injEq] at hx
          subst hx
          simp [hn, this]
        · next bd hb =>
          split at hx
          · cases hx
          · cases ha : attrsOf root tops (Form.xpathStr e.path) e.q.trigger bd with
            | none => simp [ha] at hx
            | some a =>
              simp only [ha, Option.map_some, Option.some.injEq] at hx
              subst hx
              simp [hb, this]

/-! ## one_bind_per_node -/

theorem lower_instanceID : lowerAscii "instanceID".toList = "instanceid".toList := by decide

/-- **one_bind_per_node.**  Whenever the model produces an XForm, the nodesets of its bind elements
    are pairwise distinct: every node has at most one bind (and, with
    `binds_exactly_where_prescribed`, exactly one iff its row or type prescribes one).  For all
    row lists, all nestings. -/
theorem one_bind_per_node (root : Str) (ks : List RK) (metas : List Q) (bs : List Bind) {extra : List Str}
    (h : bindsOfRows root ks metas extra = .ok bs) : (bs.map (·.path)).Nodup := by
  unfold bindsOfRows at h
  simp only at h
  split at h
  · cases h
  next hnames =>
  split at h
  · cases h
  split at h
  · cases h
  split at h
  · cases h
  next es hw =>
  split at h
  · cases h
  next bs' hr =>
  split at h
  case isFalse => cases h
  simp only [Out.ok.injEq] at h
  subst h
  refine (renderAll_paths _ _ _ _ hr).nodup ?_
  apply nodup_of_map (fun p => p.getLast?)
  rw [List.map_map]
  show ((es ++ (metas.map (metaElem root) ++ [instanceID root])).map (fun e => e.path.getLast?)).Nodup
  have hm : (metas.map (metaElem root)).map (fun e => e.path.getLast?) = (metas.map (·.name)).map some := by
    simp [List.map_map, metaElem, Function.comp_def]
  rw [List.map_append, List.map_append, hm, walk_lasts root ks [] es hw, ← List.append_assoc, ← List.map_append]
  show ((allNames ks metas).map some ++ [instanceID root].map (fun e => e.path.getLast?)).Nodup
  simp only [Bool.or_eq_true, Bool.not_eq_true', decide_eq_false_iff_not, not_or, Bool.not_eq_true,
    Decidable.not_not] at hnames
  obtain ⟨hnd, hres⟩ := hnames
  have hn : (allNames ks metas).Nodup := nodup_of_map lowerAscii _ hnd
  rw [List.nodup_append]
  refine ⟨List.Pairwise.map some (fun a b hab e => hab (Option.some.inj e)) hn, by simp, ?_⟩
  intro a ha b hb
  simp only [List.map_cons, List.map_nil, List.mem_singleton] at hb
  subst hb
  obtain ⟨n, hn1, rfl⟩ := List.mem_map.mp ha
  intro e
  have e' : n = "instanceID".toList := Option.some.inj e
  subst e'
  have : ((allNames ks metas).map lowerAscii).any (reservedNames root).contains = true := by
    rw [List.any_eq_true]
    refine ⟨lowerAscii "instanceID".toList, List.mem_map.mpr ⟨_, hn1, rfl⟩, ?_⟩
    rw [lower_instanceID]
    simp [reservedNames]
  rw [this] at hres
  cases hres

/-! ## header_to_bind -/

/-! Facts about the tables regenerated from the current source (re-checked by the kernel on every run). -/

/-- every entry of `aliases.survey_header` sends its own key to its documented tokens, under both
    delimiter regimes (`::` seen in the header row or not) -/
theorem alias_entries_land :
    surveyAliases.all (fun at_ =>
      (processHeader false surveyAliases surveyColumns at_.1).map (·.2) == some at_.2 &&
      (processHeader true surveyAliases surveyColumns at_.1).map (·.2) == some at_.2) = true := by
  decide +kernel

/-- the documented logic-column names (XLSForm reference; the harness's own copy) and the bind
    attribute each must reach -/
def documentedBindColumns : List (String × String) :=
  [("read_only", "readonly"), ("readonly", "readonly"), ("relevant", "relevant"), ("relevance", "relevant"),
   ("required", "required"), ("constraint", "constraint"), ("constraint_message", "jr:constraintMsg"),
   ("constraining_message", "jr:constraintMsg"), ("calculation", "calculate"), ("calculate", "calculate"),
   ("required_message", "jr:requiredMsg"), ("requiredmsg", "jr:requiredMsg"),
   ("noapperrorstring", "jr:noAppErrorString"), ("no_app_error_string", "jr:noAppErrorString"),
   ("save_to", "entities:saveto")]

/-- the regenerated alias table sends every documented logic column to `(bind, attr)` … -/
theorem documented_columns_reach_bind :
    documentedBindColumns.all (fun ca =>
      lookup ca.1.toList surveyAliases == some ["bind".toList, ca.2.toList]) = true := by
  decide +kernel

/-- … and sends nothing else there -/
theorem only_documented_columns_reach_bind :
    surveyAliases.all (fun at_ =>
      at_.2.head? != some "bind".toList ||
      documentedBindColumns.any (fun ca => ca.1.toList == at_.1 && at_.2 == ["bind".toList, ca.2.toList])) = true := by
  decide +kernel

theorem columns_are_snake : surveyColumns.all (fun c => toSnakeCase c == c) = true := by decide +kernel

theorem jr_is_no_alias : lookup "jr".toList surveyAliases = none := by decide +kernel

theorem snake_jr : toSnakeCase "jr".toList = "jr".toList := by decide +kernel

/-- every type-table entry has pairwise distinct bind keys (hypothesis of `attrs_nodup`) -/
theorem type_table_bind_keys_nodup :
    Pyxv.Gen.questionTypes.all (fun te =>
      match typeBind te.1.toList with
      | some tt => decide (tt.map (·.1)).Nodup
      | none => true) = true := by
  decide +kernel

/-- every type-table entry that has a bind section prescribes a data type -/
theorem type_table_binds_have_type :
    Pyxv.Gen.questionTypes.all (fun te =>
      match typeBind te.1.toList with
      | some tt => (lookup "type".toList tt).isSome
      | none => true) = true := by
  decide +kernel

/-- data type and preload attributes the XLSForm reference documents for the core question types
    (pinned here independently of the source) -/
def documentedTypes : List (String × List (String × String)) :=
  let pre (k p t : String) := [("jr:preload", k), ("jr:preloadParams", p), ("type", t)]
  [("integer", [("type", "int")]), ("int", [("type", "int")]), ("decimal", [("type", "decimal")]),
   ("text", [("type", "string")]), ("string", [("type", "string")]), ("date", [("type", "date")]),
   ("time", [("type", "time")]), ("dateTime", [("type", "dateTime")]), ("datetime", [("type", "dateTime")]),
   ("geopoint", [("type", "geopoint")]), ("geotrace", [("type", "geotrace")]), ("geoshape", [("type", "geoshape")]),
   ("photo", [("type", "binary")]), ("image", [("type", "binary")]), ("audio", [("type", "binary")]),
   ("video", [("type", "binary")]), ("file", [("type", "binary")]), ("barcode", [("type", "barcode")]),
   ("note", [("readonly", "true()"), ("type", "string")]), ("calculate", [("type", "string")]),
   ("hidden", [("type", "string")]), ("acknowledge", [("type", "string")]), ("select one", [("type", "string")]),
   ("select all that apply", [("type", "string")]), ("rank", [("type", "odk:rank")]), ("range", [("type", "int")]),
   ("start", pre "timestamp" "start" "dateTime"), ("end", pre "timestamp" "end" "dateTime"),
   ("today", pre "date" "today" "date"), ("deviceid", pre "property" "deviceid" "string"),
   ("username", pre "property" "username" "string"), ("phonenumber", pre "property" "phonenumber" "string"),
   ("email", pre "property" "email" "string"), ("simserial", pre "property" "simserial" "string"),
   ("subscriberid", pre "property" "subscriberid" "string"), ("audit", [("type", "binary")])]

/-- the regenerated type table prescribes exactly the documented bind attributes for every
    documented type (as a finite map: same keys, same values) -/
theorem documented_types_prescribed :
    documentedTypes.all (fun td =>
      match typeBind td.1.toList with
      | some tt =>
        tt.length == td.2.length &&
        td.2.all (fun kv => lookup kv.1.toList tt == some kv.2.toList)
      | none => false) = true := by
  decide +kernel

/-- `BINDING_CONVERSIONS` is the yes/no table read as XPath booleans: each key is a `yes_no`
    spelling and maps to `true()` / `false()` accordingly -/
theorem conversions_agree_with_yes_no :
    Pyxv.Gen.bindingConversions.all (fun kv =>
      match Pyxv.Gen.yesNo.find? (fun p => p.1 == kv.1) with
      | some (_, b) => kv.2 == (if b then "true()" else "false()")
      | none => false) = true := by
  decide +kernel

/-- **header_to_bind.**  Every spelling `h` (any case of ASCII letters, any leading / trailing /
    repeated inner whitespace, no colon) whose snake-case form is a key of the regenerated alias table
    with a grouped target `toks` is mapped by `process_header` to exactly `toks` — in particular
    (`documented_columns_reach_bind`) every documented logic column reaches `(bind, attr)`.  Under
    both delimiter regimes. -/
theorem header_to_bind (udc : Bool) (h : Str) (toks : List Str)
    (hc : ∀ c ∈ h, c ≠ ':')
    (hl : lookup (toSnakeCase h) surveyAliases = some toks) (h2 : 2 ≤ toks.length) :
    processHeader udc surveyAliases surveyColumns h = some (.tup, toks) := by
  have hsnake : ∀ c, surveyColumns.contains c = true → toSnakeCase c = c := by
    intro c hcm
    have := List.all_eq_true.mp columns_are_snake c (List.contains_iff_mem.mp hcm)
    simpa using this
  have b1 : (surveyColumns.contains h && (lookup h surveyAliases).isNone) = false := by
    cases hm : surveyColumns.contains h with
    | false => rfl
    | true =>
      have := hsnake h hm
      rw [this] at hl
      rw [hl]; rfl
  have b2 : (surveyColumns.contains (toSnakeCase h) && (lookup (toSnakeCase h) surveyAliases).isNone) = false := by
    rw [hl]; simp
  have hne : strip h ≠ "jr".toList := by
    intro e
    have : toSnakeCase h = "jr".toList := by rw [← toSnakeCase_strip, e, snake_jr]
    rw [this, jr_is_no_alias] at hl
    cases hl
  have htok : (if (udc || isInfix "::".toList h) = true then some ((splitOn2 ':' h).map strip)
      else jrFix ((splitOnChar ':' h).map strip)) = some [strip h] := by
    rw [isInfix_dcolon_none h hc, Bool.or_false]
    cases udc with
    | true => simp [splitOn2_none ':' h hc]
    | false =>
      simp only [Bool.false_eq_true, if_false, splitOnChar_none ':' h hc, List.map_cons, List.map_nil]
      unfold jrFix
      rw [if_neg hne]
      rfl
  unfold processHeader
  rw [b1]
  simp only [Bool.false_eq_true, if_false]
  rw [b2]
  simp only [Bool.false_eq_true, if_false]
  rw [htok]
  simp only [toSnakeCase_strip, hl]
  match toks, h2 with
  | a :: b :: t, _ => simp

/-! ## noninterference -/

/-- the reference environment (names of top-level questions) does not depend on any logic cell -/
theorem tops_unchanged (pre post : List RK) (r r' : RK) (hs : sameShape r r') :
    topNames 0 (pre ++ r :: post) = topNames 0 (pre ++ r' :: post) :=
  topNames_frame pre 0 r r' post hs

/-- **noninterference** (walk level).  Replace row `j` (= `r`, after `pre`) by any row `r'` of the same
    shape (same kind, same names — e.g. the same row with different logic cells): the bind lists of
    the two forms are `a ++ m ++ b` and `a ++ m' ++ b` with the *same* `a` and `b`; only the segment
    belonging to row `j` itself (at most as many binds as the row introduces elements) can differ.
    The binds of every other row `i ≠ j` are unchanged, attribute for attribute. -/
theorem noninterference (root : Str) (tops : List Str) (st : List (Str × Bool)) (pre post : List RK)
    (r r' : RK) (hs : sameShape r r') (es es' : List Elem) (bs bs' : List Bind)
    (hw : walk root st (pre ++ r :: post) = some es) (hw' : walk root st (pre ++ r' :: post) = some es')
    (hr : renderAll root tops es = some bs) (hr' : renderAll root tops es' = some bs') :
    ∃ a m m' b, bs = a ++ m ++ b ∧ bs' = a ++ m' ++ b ∧
      m.length ≤ (rkNames r).length ∧ m'.length ≤ (rkNames r).length := by
  obtain ⟨A, M, M', B, rfl, hw2, h1, h2, _⟩ := walk_frame root pre st r r' post es hs hw
  rw [hw'] at hw2
  simp only [Option.some.injEq] at hw2
  subst hw2
  obtain ⟨x, bB, hx, hB, rfl⟩ := renderAll_append root tops (A ++ M) B bs hr
  obtain ⟨bA, bM, hA, hM, rfl⟩ := renderAll_append root tops A M x hx
  obtain ⟨x', bB', hx', hB', rfl⟩ := renderAll_append root tops (A ++ M') B bs' hr'
  obtain ⟨bA', bM', hA', hM', rfl⟩ := renderAll_append root tops A M' x' hx'
  rw [hA] at hA'
  rw [hB] at hB'
  simp only [Option.some.injEq] at hA' hB'
  subst hA' hB'
  refine ⟨bA, bM, bM', bB, rfl, rfl, ?_, ?_⟩
  · have := renderAll_length _ _ _ _ hM; omega
  · have := renderAll_length _ _ _ _ hM'
    rw [sameShape_names r r' hs]; omega

theorem bindsOfRows_ok (root : Str) (ks : List RK) (metas : List Q) (bs : List Bind) {extra : List Str}
    (h : bindsOfRows root ks metas extra = .ok bs) :
    ∃ es, walk root [] ks = some es ∧
      renderAll root (topNames 0 ks) (es ++ (metas.map (metaElem root) ++ [instanceID root])) = some bs := by
  unfold bindsOfRows at h
  simp only at h
  split at h
  · cases h
  split at h
  · cases h
  split at h
  · cases h
  split at h
  · cases h
  next es hw =>
  split at h
  · cases h
  next bs' hr =>
  split at h
  case isFalse => cases h
  simp only [Out.ok.injEq] at h
  subst h
  exact ⟨es, hw, hr⟩

/-- **meta_binds_after_rows.**  The row loop has two outputs: the rows' elements and the meta block
    (`audit` rows, then the generated `instanceID`).  The bind list is the binds of the rows followed by
    the binds of the meta block, whose nodesets are `/root/meta/<name>`: an `audit` row's logic cells and
    parameters reach `meta/audit` wherever the row stands in the sheet, and never any other node. -/
theorem meta_binds_after_rows (root : Str) (ks : List RK) (metas : List Q) (bs : List Bind)
    (h : bindsOfRows root ks metas = .ok bs) :
    ∃ es a b, walk root [] ks = some es ∧ renderAll root (topNames 0 ks) es = some a ∧
      renderAll root (topNames 0 ks) (metas.map (metaElem root) ++ [instanceID root]) = some b ∧
      bs = a ++ b ∧
      b.map (·.path) = ((metas.map (metaElem root) ++ [instanceID root]).filter
        fun e => (elemBind e.q).isSome).map (·.path) := by
  obtain ⟨es, hw, hr⟩ := bindsOfRows_ok root ks metas bs h
  obtain ⟨a, b, ha, hb, rfl⟩ := renderAll_append _ _ es _ bs hr
  exact ⟨es, a, b, hw, ha, hb, rfl, binds_exactly_where_prescribed _ _ _ b hb⟩

/-- **noninterference** (whole form).  If a form converts, and still converts after the logic cells
    of row `j` were changed (row replaced by one of the same shape), every bind outside row `j`'s own
    segment is identical in both XForms — including the generated `meta/instanceID` bind. -/
theorem noninterference_form (root : Str) (pre post : List RK) (r r' : RK) (hs : sameShape r r')
    (metas : List Q) (bs bs' : List Bind)
    (h : bindsOfRows root (pre ++ r :: post) metas = .ok bs)
    (h' : bindsOfRows root (pre ++ r' :: post) metas = .ok bs') :
    ∃ a m m' b, bs = a ++ m ++ b ∧ bs' = a ++ m' ++ b ∧
      m.length ≤ (rkNames r).length ∧ m'.length ≤ (rkNames r).length := by
  obtain ⟨es, hw, hr⟩ := bindsOfRows_ok root _ metas bs h
  obtain ⟨es', hw', hr'⟩ := bindsOfRows_ok root _ metas bs' h'
  rw [← tops_unchanged pre post r r' hs] at hr'
  obtain ⟨x, y, hx, hy, rfl⟩ := renderAll_append _ _ es _ bs hr
  obtain ⟨x', y', hx', hy', rfl⟩ := renderAll_append _ _ es' _ bs' hr'
  rw [hy] at hy'
  simp only [Option.some.injEq] at hy'
  subst hy'
  obtain ⟨a, m, m', b, rfl, rfl, h1, h2⟩ :=
    noninterference root _ [] pre post r r' hs es es' x x' hw hw' hx hx'
  exact ⟨a, m, m', b ++ y, by simp, by simp, h1, h2⟩

/-! ## the `bind::x` / `bind : x` / `bind:x` spellings, for every attribute name -/

theorem columns_colon_free : surveyColumns.all (fun c => !c.contains ':') = true := by decide +kernel
theorem bind_is_column : surveyColumns.contains "bind".toList = true := by decide +kernel
theorem bind_is_no_alias : lookup "bind".toList surveyAliases = none := by decide +kernel
theorem snake_jr_ne_bind : toSnakeCase "jr".toList ≠ "bind".toList := by decide +kernel

/-- a header that contains a colon is not caught by the two "already a column" shortcuts -/
theorem colon_header_not_column (h : Str) (hm : ':' ∈ h) :
    (surveyColumns.contains h && (lookup h surveyAliases).isNone) = false ∧
    (surveyColumns.contains (toSnakeCase h) && (lookup (toSnakeCase h) surveyAliases).isNone) = false := by
  have key : ∀ x : Str, ':' ∈ x → surveyColumns.contains x = false := by
    intro x hx
    cases hc : surveyColumns.contains x with
    | false => rfl
    | true =>
      have := List.all_eq_true.mp columns_colon_free x (List.contains_iff_mem.mp hc)
      simp only [Bool.not_eq_true', List.contains_eq_mem, decide_eq_false_iff_not] at this
      exact absurd hx this
  have hs : ':' ∈ toSnakeCase h := mem_toSnakeCase ':' h hm (by decide) (by decide)
  rw [key h hm, key _ hs]
  exact ⟨rfl, rfl⟩

/-- **header_bind_double.**  `<bind> :: <attr>` — the word `bind` in any case with any spacing, the
    delimiter `::`, then *any* attribute text without `::` (it may contain single colons:
    `jr:constraintMsg`, `odk:length`) with any surrounding spaces — is mapped to `(bind, strip attr)`,
    whether or not other headers of the sheet use `::`. -/
theorem header_bind_double (udc : Bool) (pre a : Str)
    (hp : ∀ c ∈ pre, c ≠ ':') (hb : toSnakeCase pre = "bind".toList)
    (ha : isInfix "::".toList a = false) :
    processHeader udc surveyAliases surveyColumns (pre ++ ':' :: ':' :: a) =
      some (.str "bind".toList, ["bind".toList, strip a]) := by
  have hm : ':' ∈ pre ++ ':' :: ':' :: a := by simp
  obtain ⟨b1, b2⟩ := colon_header_not_column _ hm
  unfold processHeader
  rw [b1]
  simp only [Bool.false_eq_true, if_false]
  rw [b2]
  simp only [Bool.false_eq_true, if_false]
  rw [isInfix_dcolon_prefix, Bool.or_true]
  simp only [if_true, splitOn2_prefix a pre hp, splitOn2_of_noDouble a ha, List.map_cons, List.map_nil,
    toSnakeCase_strip, hb, bind_is_no_alias, bind_is_column]

/-- **header_bind_single.**  The deprecated single-colon spelling `<bind> : <attr>` (no `::` anywhere in
    the header row, attribute text without colon and not the bare token `jr`) is mapped to
    `(bind, strip attr)` as well. -/
theorem header_bind_single (pre a : Str)
    (hp : ∀ c ∈ pre, c ≠ ':') (hb : toSnakeCase pre = "bind".toList)
    (ha : ∀ c ∈ a, c ≠ ':') (hj : strip a ≠ "jr".toList) :
    processHeader false surveyAliases surveyColumns (pre ++ ':' :: a) =
      some (.str "bind".toList, ["bind".toList, strip a]) := by
  have hm : ':' ∈ pre ++ ':' :: a := by simp
  obtain ⟨b1, b2⟩ := colon_header_not_column _ hm
  have hpj : strip pre ≠ "jr".toList := by
    intro e
    have : toSnakeCase pre = toSnakeCase "jr".toList := by rw [← toSnakeCase_strip, e]
    rw [hb] at this
    exact snake_jr_ne_bind this.symm
  unfold processHeader
  rw [b1]
  simp only [Bool.false_eq_true, if_false]
  rw [b2]
  simp only [Bool.false_eq_true, if_false]
  rw [isInfix_dcolon_single a ha pre hp]
  simp only [Bool.or_false, Bool.false_eq_true, if_false, splitOnChar_prefix a ha pre hp, List.map_cons, List.map_nil]
  have hjr : jrFix [strip pre, strip a] = some [strip pre, strip a] := by
    unfold jrFix
    rw [if_neg hpj]
    unfold jrFix
    rw [if_neg hj]
    rfl
  rw [hjr]
  simp only [toSnakeCase_strip, hb, bind_is_no_alias, bind_is_column, if_true]

/-- **header_bind_single_jr.**  The single-colon spelling of a `jr:` attribute, `<bind> : jr : <name>`
    (`bind:jr:constraintMsg`, any spacing around the tokens), is repaired to `(bind, "jr:" ++ strip name)` —
    the one case in which `:` is both delimiter and part of the attribute name. -/
theorem header_bind_single_jr (pre m a : Str)
    (hp : ∀ c ∈ pre, c ≠ ':') (hb : toSnakeCase pre = "bind".toList)
    (hmc : ∀ c ∈ m, c ≠ ':') (hmj : strip m = "jr".toList) (ha : ∀ c ∈ a, c ≠ ':') :
    processHeader false surveyAliases surveyColumns (pre ++ ':' :: (m ++ ':' :: a)) =
      some (.str "bind".toList, ["bind".toList, "jr:".toList ++ strip a]) := by
  have hm : ':' ∈ pre ++ ':' :: (m ++ ':' :: a) := by simp
  obtain ⟨b1, b2⟩ := colon_header_not_column _ hm
  have hpj : strip pre ≠ "jr".toList := by
    intro e
    have : toSnakeCase pre = toSnakeCase "jr".toList := by rw [← toSnakeCase_strip, e]
    rw [hb] at this
    exact snake_jr_ne_bind this.symm
  have hhead : (m ++ ':' :: a).head? ≠ some ':' := by
    cases m with
    | nil => exact absurd hmj (by decide)
    | cons x xs =>
      have : x ≠ ':' := hmc x (List.mem_cons_self ..)
      simpa using this
  have hinf : isInfix "::".toList (pre ++ ':' :: (m ++ ':' :: a)) = false := by
    rw [isInfix_dcolon_step _ hhead pre hp, isInfix_dcolon_single a ha m hmc]
  have hsplit : splitOnChar ':' (pre ++ ':' :: (m ++ ':' :: a)) = [pre, m, a] := by
    rw [splitOnChar_prefix' _ pre hp, splitOnChar_prefix a ha m hmc]
  unfold processHeader
  rw [b1]
  simp only [Bool.false_eq_true, if_false]
  rw [b2]
  simp only [Bool.false_eq_true, if_false]
  rw [hinf]
  simp only [Bool.or_false, Bool.false_eq_true, if_false, hsplit, List.map_cons, List.map_nil, hmj]
  have hjr : jrFix [strip pre, "jr".toList, strip a] = some [strip pre, "jr:".toList ++ strip a] := by
    unfold jrFix
    rw [if_neg hpj]
    unfold jrFix
    rw [if_pos rfl]
    rfl
  rw [hjr]
  simp only [toSnakeCase_strip, hb, bind_is_no_alias, bind_is_column, if_true]

/-! ## noninterference on raw cells -/

/-- `c'` is an edit of the raw row `c` that keeps its place in the structure: whatever the row number
    and `table_list` state, both rows classify to a single row of the same shape (same kind, same
    names) and leave the same state behind — e.g. the same row with other logic cells. -/
def SameShapeEdit (dl : Str) (key : List (Str × List Str)) (lists : List Str) (c c' : List (Str × Str)) : Prop :=
  ∀ n tl kc tl2, rowRKs dl key lists n tl c = .ok (kc, tl2) →
    ∃ r r', kc = [r] ∧ rowRKs dl key lists n tl c' = .ok ([r'], tl2) ∧ sameShape r r'

/-- **noninterference_cells.**  From the raw sheet: replace the cells of row `j` (= `c`, after `pre`) by
    `c'` (a same-shape edit).  If both sheets convert, their bind lists are `a ++ m ++ b` and
    `a ++ m' ++ b`: every bind that does not belong to row `j` is identical, attribute for attribute. -/
theorem noninterference_cells (root dl : Str) (key : List (Str × List Str)) (lists : List Str)
    (pre post : List (List (Str × Str))) (c c' : List (Str × Str)) (he : SameShapeEdit dl key lists c c')
    (ks ks' : List RK) (bs bs' : List Bind)
    (hk : processRows dl key lists 2 .off (pre ++ c :: post) = .ok ks)
    (hk' : processRows dl key lists 2 .off (pre ++ c' :: post) = .ok ks')
    (metas : List Q) (hb : bindsOfRows root ks metas = .ok bs) (hb' : bindsOfRows root ks' metas = .ok bs') :
    ∃ a m m' b r, bs = a ++ m ++ b ∧ bs' = a ++ m' ++ b ∧
      (∃ n tl tl2, rowRKs dl key lists n tl c = .ok ([r], tl2)) ∧
      m.length ≤ (rkNames r).length ∧ m'.length ≤ (rkNames r).length := by
  obtain ⟨kpre, kc, kpost, tl1, tl2, hc, hks, hall⟩ := processRows_frame dl key lists pre 2 .off c post ks hk
  obtain ⟨r, r', hkc, hc', hs⟩ := he _ _ _ _ hc
  have h2 := hall c' [r'] hc'
  rw [hk'] at h2
  simp only [Except.ok.injEq] at h2
  subst hkc
  subst hks
  subst h2
  simp only [List.append_assoc, List.singleton_append] at hb hb'
  obtain ⟨a, m, m', b, e1, e2, l1, l2⟩ := noninterference_form root kpre kpost r r' hs metas bs bs' hb hb'
  exact ⟨a, m, m', b, r, e1, e2, ⟨_, _, _, hc⟩, l1, l2⟩

/-! ## parameter-derived data type of `range` -/

/-- the parameter vocabularies regenerated from the source are the documented ones (the names the
    model's `paramBind` / `auditBind` look up by literal) -/
theorem parameter_vocabularies_pinned :
    Pyxv.Gen.audioQualityValues = ["voice-only", "low", "normal", "external"] ∧
    Pyxv.Gen.caseSensitiveParamValues = ["label", "value"] ∧
    Pyxv.Gen.auditParamNames = ["location-priority", "location-min-interval", "location-max-age", "track-changes",
      "identify-user", "track-changes-reasons"] ∧
    Pyxv.Gen.rangeDefaults = [("start", "1"), ("end", "10"), ("step", "1")] := by
  decide +kernel

/-- **range_decimal_iff.**  A `range` row gets `type = decimal` iff *some* parameter — written in any
    order, or left to its default — is a non-zero number written with a `.`; otherwise the type
    table's `int` stays.  (`process_range_question_type`, seeded change C05-2.) -/
theorem range_decimal_iff (ps : List (Str × Str)) (upd : List (Str × BVal))
    (h : paramBind "range".toList ps = .ok upd) :
    (upd = [("type".toList, .s "decimal".toList)] ↔
      ∃ v ∈ (rangeWithDefaults ps).map (·.2), floatLit v = some (true, true)) ∧
    (upd = [] ∨ upd = [("type".toList, .s "decimal".toList)]) := by
  unfold paramBind at h
  simp only [if_true] at h
  split at h
  · cases h
  · split at h
    · cases h
    · split at h
      · next hd =>
        simp only [Except.ok.injEq] at h
        subst h
        refine ⟨⟨fun _ => ?_, fun _ => rfl⟩, Or.inr rfl⟩
        unfold rangeIsDecimal at hd
        obtain ⟨v, hv, hvv⟩ := List.any_eq_true.mp hd
        exact ⟨v, hv, by simpa using hvv⟩
      · next hd =>
        simp only [Except.ok.injEq] at h
        subst h
        refine ⟨⟨fun e => (by cases e), fun ⟨v, hv, hvv⟩ => ?_⟩, Or.inl rfl⟩
        exfalso
        apply hd
        unfold rangeIsDecimal
        exact List.any_eq_true.mpr ⟨v, hv, by simp [hvv]⟩

/-! ## non-vacuity: concrete data satisfying the hypotheses of the theorems above -/

section Examples

private def s (x : String) : Str := x.toList

/-- `bind_of_row` / `lookup_attrsOf`: an `integer` row with `relevant = ${a} > 1`, `required = yes` and
    a `bind::type` override -/
example : attrsOf (s "data") [s "a"] (s "/data/q") false
    (dictUpdate ([(s "type", s "int")].map fun (k, v) => (k, BVal.s v))
      [(s "relevant", .s (s "${a} > 1")), (s "required", .s (s "yes")), (s "type", .s (s "string"))])
    = some [(s "type", s "string"), (s "relevant", s " /data/a  > 1"), (s "required", s "true()")] := by
  decide +kernel

example : ([(s "relevant", BVal.s (s "${a} > 1")), (s "required", .s (s "yes")), (s "type", .s (s "string"))].map (·.1)).Nodup := by
  decide +kernel

/-- a triggered question's `calculate` does not reach the bind; a translated constraint message is
    redirected to itext -/
example : attrsOf (s "data") [s "a"] (s "/data/q") true
    [(s "type", .s (s "string")), (s "calculate", .s (s "1 + 1")), (s "jr:constraintMsg", .d [(s "fr", s "Non")])]
    = some [(s "type", s "string"), (s "jr:constraintMsg", s "jr:itext('/data/q:jr:constraintMsg')")] := by
  decide +kernel

/-- `bind::tag` is an attribute like any other (repaired defect) -/
example : attrsOf (s "data") [] (s "/data/q") false [(s "type", .s (s "string")), (s "tag", .s (s "abc"))]
    = some [(s "type", s "string"), (s "tag", s "abc")] := by
  decide +kernel

/-- `range_decimal_iff`: decimal bounds with an integer step, reordered, defaulted -/
example : (paramBind (s "range") [(s "start", s "0.5"), (s "end", s "9.5"), (s "step", s "1")]).toOption
      = some [(s "type", .s (s "decimal"))] ∧
    (paramBind (s "range") [(s "step", s "0.25")]).toOption = some [(s "type", .s (s "decimal"))] ∧
    (paramBind (s "range") [(s "start", s "0.0"), (s "end", s "5")]).toOption = some [] ∧
    parseParams (s "end=7.5;start=1") = some [(s "end", s "7.5"), (s "start", s "1")] := by
  decide +kernel

/-- `header_bind_double` / `header_bind_single`: concrete spellings -/
example : (∀ c ∈ s " BIND ", c ≠ ':') ∧ toSnakeCase (s " BIND ") = s "bind" ∧
    isInfix (s "::") (s "  jr:constraintMsg ") = false ∧ strip (s "  jr:constraintMsg ") = s "jr:constraintMsg" := by
  decide +kernel

example : processHeader false surveyAliases surveyColumns (s "Bind : foo ") = some (.str (s "bind"), [s "bind", s "foo"]) := by
  decide +kernel

/-- `noninterference_cells`: a row and the same row with another `relevant` cell classify to single rows
    of the same shape, from the same state to the same state -/
example :
    (match headerKey [s "type", s "name", s "relevant"] with
     | .ok key =>
       (match rowRKs (s "default") key [] 2 .off [(s "type", s "text"), (s "name", s "q"), (s "relevant", s ". > 1")],
              rowRKs (s "default") key [] 2 .off [(s "type", s "text"), (s "name", s "q"), (s "relevant", s "1 = 1")] with
        | .ok ([.qs [q1]], .off), .ok ([.qs [q2]], .off) => q1.name == q2.name && q1.name == s "q"
        | _, _ => false)
     | _ => false) = true := by
  decide +kernel

example : (∀ c ∈ s " jr ", c ≠ ':') ∧ strip (s " jr ") = s "jr" ∧
    processHeader false surveyAliases surveyColumns (s "Bind : jr :constraintMsg") =
      some (.str (s "bind"), [s "bind", s "jr:constraintMsg"]) := by
  decide +kernel

/-- `header_to_bind`: a spelling with case and spacing noise -/
example : lookup (toSnakeCase (s " Read  ONLY ")) surveyAliases = some [s "bind", s "readonly"] ∧
    (∀ c ∈ s " Read  ONLY ", c ≠ ':') := by
  decide +kernel

example : processHeader true surveyAliases surveyColumns (s "Constraint  Message") =
    some (.tup, [s "bind", s "jr:constraintMsg"]) := by
  decide +kernel

/-- `no_bind_without_logic`: the `trigger` type has no bind section -/
example : typeBind (s "trigger") = none ∧ (typeBind (s "text")).isSome = true := by decide +kernel

private def exRows (rel : String) : List RK :=
  [ .qs [{ name := s "a", tt := typeBind (s "integer"), bind := none, visible := true }],
    .begin_ false [] { name := s "g", tt := none, bind := some [(s "relevant", .s (s rel))] },
    .qs [{ name := s "t", tt := typeBind (s "trigger"), bind := none, visible := true }],
    .qs [{ name := s "n", tt := typeBind (s "note"), bind := some [(s "required", .s (s "no"))] }],
    .end_ false ]

private def shown (o : Out) : List (Str × List (Str × Str)) :=
  match o with
  | .ok bs => bs.map fun b => (Form.xpathStr b.path, b.attrs)
  | _ => []

/-- `one_bind_per_node`, `binds_exactly_where_prescribed`, `noninterference_form`: a form that converts
    (the `trigger` row `t` has no logic and gets no bind; `n` gets the table's `readonly` and its own
    `required`) -/
example : shown (bindsOfRows (s "data") (exRows "${a} > 1") []) =
    [(s "/data/a", [(s "type", s "int")]),
     (s "/data/g", [(s "relevant", s " /data/a  > 1")]),
     (s "/data/g/n", [(s "readonly", s "true()"), (s "type", s "string"), (s "required", s "false()")]),
     (s "/data/meta/instanceID", [(s "type", s "string"), (s "readonly", s "true()"), (s "jr:preload", s "uid")])] := by
  decide +kernel

/-- … and the same form with the logic cell of row `g` changed: only `g`'s own bind differs -/
example : shown (bindsOfRows (s "data") (exRows "1 = 1") []) =
    [(s "/data/a", [(s "type", s "int")]),
     (s "/data/g", [(s "relevant", s "1 = 1")]),
     (s "/data/g/n", [(s "readonly", s "true()"), (s "type", s "string"), (s "required", s "false()")]),
     (s "/data/meta/instanceID", [(s "type", s "string"), (s "readonly", s "true()"), (s "jr:preload", s "uid")])] := by
  decide +kernel

example : sameShape (.begin_ false [] { name := s "g", tt := none, bind := some [(s "relevant", .s (s "${a} > 1"))] })
    (.begin_ false [] { name := s "g", tt := none, bind := some [(s "relevant", .s (s "1 = 1"))] }) := by
  simp [sameShape]

/-- the whole pipeline from a header row with alias / case / spacing / `bind::` spellings -/
example : shown (formBinds (s "data") (s "default") []
    [s " Type", s "name", s "Read Only", s "bind::foo", s "constraint_message::fr", s "Relevance"]
    [[(s " Type", s "text"), (s "name", s "q1"), (s "Read Only", s "yes"), (s "constraint_message::fr", s "Non")],
     [(s " Type", s "integer"), (s "name", s "q2"), (s "bind::foo", s "a  b"), (s "Relevance", s "${q1} = 'x'")]]) =
    [(s "/data/q1", [(s "type", s "string"), (s "readonly", s "true()"),
        (s "jr:constraintMsg", s "jr:itext('/data/q1:jr:constraintMsg')")]),
     (s "/data/q2", [(s "type", s "int"), (s "foo", s "a b"), (s "relevant", s " /data/q1  = 'x'")]),
     (s "/data/meta/instanceID", [(s "type", s "string"), (s "readonly", s "true()"), (s "jr:preload", s "uid")])] := by
  decide +kernel

/-- an `audit` row anywhere in the sheet reaches `meta/audit` (before `instanceID`) with the type table's
    `binary`, its own logic cell and its parameters as `odk:` attributes -/
example : shown (formBinds (s "data") (s "default") []
    [s "type", s "name", s "parameters", s "relevant"]
    [[(s "type", s "text"), (s "name", s "q1")],
     [(s "type", s "audit"), (s "parameters", s "track-changes=true location-priority=balanced location-min-interval=10 location-max-age=60"),
      (s "relevant", s "${q1} != ''")]]) =
    [(s "/data/q1", [(s "type", s "string")]),
     (s "/data/meta/audit", [(s "type", s "binary"), (s "relevant", s " /data/q1  != ''"), (s "odk:track-changes", s "true"),
        (s "odk:location-max-age", s "60"), (s "odk:location-min-interval", s "10"), (s "odk:location-priority", s "balanced")]),
     (s "/data/meta/instanceID", [(s "type", s "string"), (s "readonly", s "true()"), (s "jr:preload", s "uid")])] := by
  decide +kernel

/-- two spellings of one column are rejected, never merged or dropped -/
example : (match formBinds (s "data") (s "default") [] [s "type", s "name", s "relevant", s "Relevance"] [] with
    | .dupHeader _ _ => true | _ => false) = true := by
  decide +kernel

end Examples

end Pyxv.C05
