import Pyxv.Model.Lexer
/-! # Lemmas about the expression lexer model (`Pyxv.Lexer`) -/
namespace Pyxv.Lexer
open Pyxv List

/-- concatenation of the token values -/
def values (ts : List (String × Str)) : Str := ts.flatMap (·.2)

theorem scanAux_consumes (rules : Rules) : ∀ (f : Nat) (s : Str),
    values (scanAux rules f s).1 ++ (scanAux rules f s).2 = s
  | 0, s => by simp [scanAux, values]
  | f + 1, s => by
    rw [scanAux]
    split
    · simp [values]
    · split
      · simp [values]
      · rename_i n k _ _
        have ih := scanAux_consumes rules f (s.drop k)
        simp only [values, List.flatMap_cons] at ih ⊢
        rw [List.append_assoc, ih, List.take_append_drop]

/-- positions assigned by `withPos` really are the positions of the values in the text -/
theorem withPos_slices (s rem : Str) : ∀ (l : List (String × Str)) (pre : Str),
    pre ++ values l ++ rem = s → ∀ t ∈ withPos pre.length l,
      t.stop = t.start + t.value.length ∧ (s.drop t.start).take t.value.length = t.value
  | [], _, _ => by simp [withPos]
  | (n, v) :: rest, pre, h => by
    intro t ht
    simp only [withPos, List.mem_cons] at ht
    rcases ht with ht | ht
    · subst ht
      refine ⟨rfl, ?_⟩
      simp only [values, List.flatMap_cons] at h
      rw [← h]
      simp [List.append_assoc, List.drop_left', List.take_left']
    · have h' : (pre ++ v) ++ values rest ++ rem = s := by
        simpa [values, List.append_assoc] using h
      have := withPos_slices s rem rest (pre ++ v) h' t (by simpa [List.length_append] using ht)
      exact this

/-- rule names that make a default dynamic: any such token makes `dynLoop` answer `true` when the
    data type is not one of the hyphen types -/
theorem dynLoop_true_of_mem (names : List String) (ov : Bool) : ∀ (toks : List (String × Str)),
    (∃ t ∈ toks, names.contains t.1 = true) → dynLoop names false ov toks = true
  | [], h => by simp at h
  | (n, v) :: rest, h => by
    simp only [dynLoop, Bool.false_and, Bool.false_eq_true, if_false]
    by_cases hn : names.contains n = true
    · have hn' : n ∈ names := by simpa using hn
      simp [hn']
    · have : ∃ t ∈ rest, names.contains t.1 = true := by
        obtain ⟨t, ht, hc⟩ := h
        simp only [List.mem_cons] at ht
        rcases ht with ht | ht
        · subst ht; exact absurd hc hn
        · exact ⟨t, ht, hc⟩
      simp [dynLoop_true_of_mem names ov rest this]

/-- no such token (and no reference / call anywhere: `override = false`) → static, whatever the element type -/
theorem dynLoop_false_of_none (names : List String) (hy : Bool) : ∀ (toks : List (String × Str)),
    (∀ t ∈ toks, names.contains t.1 = false) → dynLoop names hy false toks = false
  | [], _ => by simp [dynLoop]
  | (n, v) :: rest, h => by
    have h1 : names.contains n = false := h (n, v) (by simp)
    have h2 := dynLoop_false_of_none names hy rest (fun t ht => h t (by simp [ht]))
    simp only [dynLoop, h1, h2]
    split <;> simp

/-- with `override` set, a token of a dynamic rule anywhere makes the default dynamic — also for the hyphen
    data types (a hyphen met first answers `override`) -/
theorem dynLoop_true_of_override (names : List String) (hy : Bool) : ∀ (toks : List (String × Str)),
    (∃ t ∈ toks, names.contains t.1 = true) → dynLoop names hy true toks = true
  | [], h => by simp at h
  | (n, v) :: rest, h => by
    simp only [dynLoop]
    split
    · rfl
    · by_cases hn : names.contains n = true
      · have hn' : n ∈ names := by simpa using hn
        simp [hn']
      · have : ∃ t ∈ rest, names.contains t.1 = true := by
          obtain ⟨t, ht, hc⟩ := h
          simp only [List.mem_cons] at ht
          rcases ht with ht | ht
          · subst ht; exact absurd hc hn
          · exact ⟨t, ht, hc⟩
        simp [dynLoop_true_of_override names hy rest this]

/-! ## a simple class: plain numbers (non-empty strings of ASCII digits) are one NUMBER token -/

def allDigits (s : Str) : Prop := ∀ c ∈ s, isDigit c = true

theorem digit_ne {c : Char} (h : isDigit c = true) : c ≠ '-' ∧ c ≠ ':' ∧ c ≠ '.' := by
  refine ⟨?_, ?_, ?_⟩ <;> (rintro rfl; revert h; decide)

theorem lit_char_allDigits (x : Char) (hx : isDigit x = false) (r : Str) (h : allDigits r) : lit [x] r = none := by
  cases r with
  | nil => simp [lit, startsWith]
  | cons c cs =>
    have hc : isDigit c = true := h c (by simp)
    have : (c == x) = false := by
      apply beq_false_of_ne; rintro rfl; rw [hc] at hx; exact absurd hx (by simp)
    simp [lit, startsWith, this]

theorem digitsN_allDigits : ∀ (k : Nat) (s : Str), allDigits s →
    digitsN k s = none ∨ ∃ r, digitsN k s = some r ∧ allDigits r
  | 0, s, h => Or.inr ⟨s, rfl, h⟩
  | k + 1, [], _ => Or.inl rfl
  | k + 1, c :: cs, h => by
    have hc : isDigit c = true := h c (by simp)
    simp only [digitsN, hc, if_true]
    exact digitsN_allDigits k cs (fun x hx => h x (by simp [hx]))

theorem optMinus_digit (c : Char) (cs : Str) (hc : isDigit c = true) : optMinus (c :: cs) = c :: cs := by
  have := (digit_ne hc).1
  unfold optMinus
  split
  · rename_i r heq; simp only [List.cons.injEq] at heq; exact absurd heq.1 this
  · rfl

theorem dropWhile_allDigits : ∀ (s : Str), allDigits s → s.dropWhile isDigit = []
  | [], _ => rfl
  | c :: cs, h => by
    have hc : isDigit c = true := h c (by simp)
    simp only [List.dropWhile, hc]
    exact dropWhile_allDigits cs (fun x hx => h x (by simp [hx]))

theorem mDate_allDigits (c : Char) (cs : Str) (h : allDigits (c :: cs)) : mDate (c :: cs) = none := by
  have hc : isDigit c = true := h c (by simp)
  unfold mDate
  rw [optMinus_digit c cs hc]
  rcases digitsN_allDigits 4 (c :: cs) h with h4 | ⟨r, h4, hr⟩
  · rw [h4]; rfl
  · rw [h4]
    simp only [Option.bind_some, lit_char_allDigits '-' (by decide) r hr, Option.bind_none]

theorem mTime_allDigits (s : Str) (h : allDigits s) : mTime s = none := by
  unfold mTime
  rcases digitsN_allDigits 2 s h with h2 | ⟨r, h2, hr⟩
  · rw [h2]; rfl
  · rw [h2]
    simp only [Option.bind_some, lit_char_allDigits ':' (by decide) r hr, Option.bind_none]

theorem mNumber_allDigits (c : Char) (cs : Str) (h : allDigits (c :: cs)) : mNumber (c :: cs) = some [] := by
  have hc : isDigit c = true := h c (by simp)
  have hd : cs.dropWhile isDigit = [] := dropWhile_allDigits cs (fun x hx => h x (by simp [hx]))
  unfold mNumber
  simp only [optMinus_digit c cs hc, digits1, hc, if_true, hd]

theorem pinnedRules_head : pinnedRules =
    ("DATETIME", mDateTime) :: ("DATE", mDate) :: ("TIME", mTime) :: ("NUMBER", mNumber) :: pinnedRules.drop 4 := rfl

theorem firstMatch_nil : firstMatch pinnedRules [] = none := by decide +kernel

/-- a plain number is exactly one NUMBER token -/
theorem scan_number (c : Char) (cs : Str) (h : allDigits (c :: cs)) :
    scanWith pinnedRules (c :: cs) = ([("NUMBER", c :: cs)], []) := by
  have hfm : firstMatch pinnedRules (c :: cs) = some ("NUMBER", (c :: cs).length) := by
    rw [pinnedRules_head]
    simp only [firstMatch, mDateTime, mDate_allDigits c cs h, mTime_allDigits _ h, mNumber_allDigits c cs h,
      Option.bind_none, List.length_nil, Nat.sub_zero]
  unfold scanWith
  rw [scanAux, hfm]
  have hk : ¬ ((c :: cs).length = 0) := by simp
  simp only [hk, if_false, List.drop_length, List.take_length]
  cases hlen : (c :: cs).length with
  | zero => simp at hlen
  | succ n =>
    rw [scanAux, firstMatch_nil]


/-! ## a simple class: date literals `dddd-dd-dd` are one DATE token -/

theorem mDate_literal (a b c d e f g h : Char)
    (ha : isDigit a = true) (hb : isDigit b = true) (hc : isDigit c = true) (hd : isDigit d = true)
    (he : isDigit e = true) (hf : isDigit f = true) (hg : isDigit g = true) (hh : isDigit h = true) (rest : Str) :
    mDate (a :: b :: c :: d :: '-' :: e :: f :: '-' :: g :: h :: rest) = some rest := by
  unfold mDate
  rw [optMinus_digit a _ ha]
  simp [digitsN, lit, startsWith, ha, hb, hc, hd, he, hf, hg, hh]

theorem pinnedRules_head2 : pinnedRules =
    ("DATETIME", mDateTime) :: ("DATE", mDate) :: pinnedRules.drop 2 := rfl

/-- a date literal is exactly one DATE token -/
theorem scan_date (a b c d e f g h : Char)
    (ha : isDigit a = true) (hb : isDigit b = true) (hc : isDigit c = true) (hd : isDigit d = true)
    (he : isDigit e = true) (hf : isDigit f = true) (hg : isDigit g = true) (hh : isDigit h = true) :
    scanWith pinnedRules [a, b, c, d, '-', e, f, '-', g, h] = ([("DATE", [a, b, c, d, '-', e, f, '-', g, h])], []) := by
  have hdm := mDate_literal a b c d e f g h ha hb hc hd he hf hg hh []
  have hfm : firstMatch pinnedRules [a, b, c, d, '-', e, f, '-', g, h] = some ("DATE", 10) := by
    rw [pinnedRules_head2]
    simp only [firstMatch, mDateTime, hdm, Option.bind_some]
    simp [lit, startsWith]
  unfold scanWith
  rw [scanAux, hfm]
  simp only [List.length_cons, List.length_nil]
  rw [scanAux, show List.drop 10 [a, b, c, d, '-', e, f, '-', g, h] = [] from rfl, firstMatch_nil]
  rfl


/-! ## every rule consumes at least one character; the pinned lexicon leaves no remainder -/

/-- a matcher makes progress: what remains is strictly shorter -/
def Prog (m : Str → Option Str) : Prop := ∀ s r, m s = some r → r.length < s.length

theorem startsWith_length : ∀ (s p : Str), startsWith s p = true → p.length ≤ s.length
  | _, [], _ => by simp
  | [], _ :: _, h => by simp [startsWith] at h
  | a :: as, p :: ps, h => by
    simp only [startsWith, Bool.and_eq_true] at h
    have := startsWith_length as ps h.2
    simp only [List.length_cons]; omega

theorem lit_len (p s r : Str) (h : lit p s = some r) : r.length + p.length = s.length := by
  unfold lit at h
  split at h
  · rename_i hs
    simp only [Option.some.injEq] at h
    subst h
    have := startsWith_length s p hs
    simp only [List.length_drop]; omega
  · cases h

theorem digitsN_len : ∀ (k : Nat) (s r : Str), digitsN k s = some r → r.length + k = s.length
  | 0, s, r, h => by simp only [digitsN, Option.some.injEq] at h; subst h; rfl
  | k + 1, [], r, h => by simp [digitsN] at h
  | k + 1, c :: cs, r, h => by
    simp only [digitsN] at h
    split at h
    · have := digitsN_len k cs r h
      simp only [List.length_cons]; omega
    · cases h

theorem optMinus_le (s : Str) : (optMinus s).length ≤ s.length := by
  unfold optMinus
  split <;> simp

theorem dropWhile_le (p : Char → Bool) : ∀ (s : Str), (s.dropWhile p).length ≤ s.length
  | [] => by simp
  | c :: cs => by
    simp only [List.dropWhile]
    split
    · have := dropWhile_le p cs; simp only [List.length_cons]; omega
    · simp

theorem digits1_lt (s r : Str) (h : digits1 s = some r) : r.length < s.length := by
  cases s with
  | nil => simp [digits1] at h
  | cons c cs =>
    simp only [digits1] at h
    split at h
    · simp only [Option.some.injEq] at h; subst h
      have := dropWhile_le isDigit cs
      simp only [List.length_cons]; omega
    · cases h

theorem ncTail_le : ∀ (f : Nat) (s : Str), (ncTail f s).length ≤ s.length
  | 0, s => by simp [ncTail]
  | f + 1, [] => by simp [ncTail]
  | f + 1, c :: cs => by
    simp only [ncTail]
    split
    · have := ncTail_le f cs; simp only [List.length_cons]; omega
    · split
      · have := ncTail_le f (cs.drop 3)
        simp only [List.length_drop, List.length_cons] at this ⊢; omega
      · simp

theorem ncName_lt (s r : Str) (h : ncName s = some r) : r.length < s.length := by
  cases s with
  | nil => simp [ncName] at h
  | cons c cs =>
    simp only [ncName] at h
    split at h
    · simp only [Option.some.injEq] at h; subst h
      have := ncTail_le cs.length cs
      simp only [List.length_cons]; omega
    · split at h
      · simp only [Option.some.injEq] at h; subst h
        have := ncTail_le cs.length (cs.drop 3)
        simp only [List.length_drop, List.length_cons] at this ⊢; omega
      · cases h

theorem qName_lt (s r : Str) (h : qName s = some r) : r.length < s.length := by
  unfold qName at h
  split at h
  · cases h
  · rename_i r2 h1
    have l1 := ncName_lt s _ h1
    split at h
    · rename_i r3 h2
      simp only [Option.some.injEq] at h; subst h
      have := ncName_lt r2 _ h2
      simp only [List.length_cons] at l1; omega
    · simp only [Option.some.injEq] at h; subst h; exact l1
  · rename_i r0 _ h1
    simp only [Option.some.injEq] at h; subst h
    exact ncName_lt s _ h1

theorem optFrac_le (s : Str) : (optFrac s).length ≤ s.length := by
  unfold optFrac
  split
  · split
    · rename_i c r _
      have := dropWhile_le isSpace r
      simp only [List.length_cons]; omega
    · simp
  · simp

theorem tz_len (r r3 : Str)
    (h : ((digitsN 2 r).bind fun r1 => (lit [':'] r1).bind fun r2 => digitsN 2 r2) = some r3) :
    r3.length + 5 = r.length := by
  cases h1 : digitsN 2 r with
  | none => simp [h1] at h
  | some r1 =>
    simp only [h1, Option.bind_some] at h
    cases h2 : lit [':'] r1 with
    | none => simp [h2] at h
    | some r2 =>
      simp only [h2, Option.bind_some] at h
      have a := digitsN_len 2 r r1 h1
      have b := lit_len [':'] r1 r2 h2
      have c' := digitsN_len 2 r2 r3 h
      simp only [List.length_cons, List.length_nil] at b; omega

theorem optTz_le (s : Str) : (optTz s).length ≤ s.length := by
  unfold optTz
  split
  · simp
  · split
    · split
      · rename_i h
        have := tz_len _ _ h
        simp only [List.length_cons]; omega
      · simp
    · simp
  · simp

theorem mDate_len (s r : Str) (h : mDate s = some r) : r.length + 10 ≤ s.length := by
  unfold mDate at h
  cases h1 : digitsN 4 (optMinus s) with
  | none => simp [h1] at h
  | some r1 =>
    simp only [h1, Option.bind_some] at h
    cases h2 : lit ['-'] r1 with
    | none => simp [h2] at h
    | some r2 =>
      simp only [h2, Option.bind_some] at h
      cases h3 : digitsN 2 r2 with
      | none => simp [h3] at h
      | some r3 =>
        simp only [h3, Option.bind_some] at h
        cases h4 : lit ['-'] r3 with
        | none => simp [h4] at h
        | some r4 =>
          simp only [h4, Option.bind_some] at h
          have a := digitsN_len 4 _ _ h1
          have b := lit_len _ _ _ h2
          have c := digitsN_len 2 _ _ h3
          have d := lit_len _ _ _ h4
          have e := digitsN_len 2 _ _ h
          have f := optMinus_le s
          simp only [List.length_cons, List.length_nil] at b d; omega

theorem mTime_len (s r : Str) (h : mTime s = some r) : r.length + 8 ≤ s.length := by
  unfold mTime at h
  cases h1 : digitsN 2 s with
  | none => simp [h1] at h
  | some r1 =>
    simp only [h1, Option.bind_some] at h
    cases h2 : lit [':'] r1 with
    | none => simp [h2] at h
    | some r2 =>
      simp only [h2, Option.bind_some] at h
      cases h3 : digitsN 2 r2 with
      | none => simp [h3] at h
      | some r3 =>
        simp only [h3, Option.bind_some] at h
        cases h4 : lit [':'] r3 with
        | none => simp [h4] at h
        | some r4 =>
          simp only [h4, Option.bind_some] at h
          cases h5 : digitsN 2 r4 with
          | none => simp [h5] at h
          | some r5 =>
            simp only [h5, Option.map_some, Option.some.injEq] at h
            subst h
            have a := digitsN_len 2 _ _ h1
            have b := lit_len _ _ _ h2
            have c := digitsN_len 2 _ _ h3
            have d := lit_len _ _ _ h4
            have e := digitsN_len 2 _ _ h5
            have f := optTz_le (optFrac r5)
            have g := optFrac_le r5
            simp only [List.length_cons, List.length_nil] at b d; omega

theorem prog_lit (p : Str) (hp : 0 < p.length) : Prog (lit p) := by
  intro s r h; have := lit_len p s r h; omega

theorem prog_mDate : Prog mDate := by intro s r h; have := mDate_len s r h; omega
theorem prog_mTime : Prog mTime := by intro s r h; have := mTime_len s r h; omega

theorem prog_mDateTime : Prog mDateTime := by
  intro s r h
  unfold mDateTime at h
  cases h1 : mDate s with
  | none => simp [h1] at h
  | some r1 =>
    simp only [h1, Option.bind_some] at h
    cases h2 : lit ['T'] r1 with
    | none => simp [h2] at h
    | some r2 =>
      simp only [h2, Option.bind_some] at h
      have a := mDate_len _ _ h1
      have b := lit_len _ _ _ h2
      have c := mTime_len _ _ h
      omega

theorem prog_mNumber : Prog mNumber := by
  intro s r h
  unfold mNumber at h
  have hm := optMinus_le s
  simp only at h
  split at h
  · rename_i r2 h1
    simp only [Option.some.injEq] at h; subst h
    have a := digits1_lt _ _ h1
    have b := dropWhile_le isDigit r2
    simp only [List.length_cons] at a; omega
  · rename_i r1 _ h1
    simp only [Option.some.injEq] at h; subst h
    have a := digits1_lt _ _ h1
    omega
  · split at h
    · rename_i r2 heq
      have a := digits1_lt _ _ h
      rw [heq] at hm
      simp only [List.length_cons] at hm; omega
    · cases h

theorem prog_mOpsMath : Prog mOpsMath := by
  intro s r h
  unfold mOpsMath at h
  split at h
  · simp only [Option.some.injEq] at h; subst h; simp only [List.length_cons]; omega
  · simp only [Option.some.injEq] at h; subst h; simp only [List.length_cons]; omega
  · split at h
    · simp only [Option.some.injEq] at h; subst h; simp
    · cases h
  · cases h

theorem prog_mOpsComp : Prog mOpsComp := by
  intro s r h
  unfold mOpsComp at h
  split at h
  · simp only [Option.some.injEq] at h; subst h; simp only [List.length_cons]; omega
  · split at h
    · simp only [Option.some.injEq] at h; subst h; simp
    · cases h
  · cases h

theorem prog_mOpsBool : Prog mOpsBool := by
  intro s r h
  unfold mOpsBool at h
  split at h
  · simp only [Option.some.injEq] at h; subst h; simp only [List.length_cons]; omega
  · simp only [Option.some.injEq] at h; subst h; simp only [List.length_cons]; omega
  · cases h

theorem prog_mSysLit : Prog mSysLit := by
  intro s r h
  unfold mSysLit at h
  split at h
  · rename_i r0
    split at h
    · rename_i x r2 heq
      simp only [Option.some.injEq] at h; subst h
      have := dropWhile_le (· != '"') r0
      rw [heq] at this
      simp only [List.length_cons] at this ⊢; omega
    · cases h
  · rename_i r0
    split at h
    · rename_i x r2 heq
      simp only [Option.some.injEq] at h; subst h
      have := dropWhile_le (· != '\'') r0
      rw [heq] at this
      simp only [List.length_cons] at this ⊢; omega
    · cases h
  · cases h

theorem prog_mWhitespace : Prog mWhitespace := by
  intro s r h
  unfold mWhitespace at h
  split at h
  · rename_i c r0
    split at h
    · simp only [Option.some.injEq] at h; subst h
      have := dropWhile_le isSpace r0
      simp only [List.length_cons]; omega
    · cases h
  · cases h

theorem prog_mOther : Prog mOther := by
  intro s r h
  unfold mOther at h
  split at h
  · split at h
    · cases h
    · simp only [Option.some.injEq] at h; subst h; simp
  · cases h

theorem prog_qName : Prog qName := qName_lt

theorem prog_qNameThen (suffix : Str) : Prog (qNameThen suffix) := by
  intro s r h
  unfold qNameThen at h
  cases h1 : qName s with
  | none => simp [h1] at h
  | some r1 =>
    simp only [h1, Option.bind_some] at h
    have a := qName_lt _ _ h1
    have b := lit_len _ _ _ h
    omega

theorem prog_mPyxformRef : Prog mPyxformRef := by
  intro s r h
  unfold mPyxformRef at h
  cases h1 : lit ['$', '{'] s with
  | none => simp [h1] at h
  | some r1 =>
    simp only [h1, Option.bind_some] at h
    have a := lit_len _ _ _ h1
    obtain ⟨r2, h2, h3⟩ := Option.bind_eq_some_iff.1 h
    have c := lit_len _ _ _ h3
    split at h2
    · rename_i x hx
      have d := lit_len _ _ _ hx
      have b := qName_lt _ _ h2
      simp only [List.length_cons, List.length_nil] at a c; omega
    · have b := qName_lt _ _ h2
      simp only [List.length_cons, List.length_nil] at a c; omega

theorem pinnedRules_eq : pinnedRules = [
    ("DATETIME", mDateTime), ("DATE", mDate), ("TIME", mTime), ("NUMBER", mNumber), ("OPS_MATH", mOpsMath),
    ("OPS_COMP", mOpsComp), ("OPS_BOOL", mOpsBool), ("OPS_UNION", lit ['|']), ("OPEN_PAREN", lit ['(']),
    ("CLOSE_PAREN", lit [')']), ("BRACKET", lit ['[', ']', '{', '}']), ("PARENT_REF", lit ['.', '.']),
    ("SELF_REF", lit ['.']), ("PATH_SEP", lit ['/']), ("SYSTEM_LITERAL", mSysLit), ("COMMA", lit [',']),
    ("WHITESPACE", mWhitespace), ("PYXFORM_REF", mPyxformRef), ("FUNC_CALL", qNameThen ['(']),
    ("XPATH_PRED_START", qNameThen ['[']), ("XPATH_PRED_END", lit [']']), ("URI_SCHEME", qNameThen [':', '/', '/']),
    ("NAME", qName), ("PYXFORM_REF_START", lit ['$', '{']), ("PYXFORM_REF_END", lit ['}']), ("OTHER", mOther)] := rfl

theorem pinned_prog : ∀ p ∈ pinnedRules, Prog p.2 := by
  rw [pinnedRules_eq]
  intro p hp
  simp only [List.mem_cons, List.mem_nil_iff, or_false] at hp
  rcases hp with rfl | rfl | rfl | rfl | rfl | rfl | rfl | rfl | rfl | rfl | rfl | rfl | rfl | rfl | rfl | rfl | rfl |
    rfl | rfl | rfl | rfl | rfl | rfl | rfl | rfl | rfl
  all_goals first
    | exact prog_mDateTime | exact prog_mDate | exact prog_mTime | exact prog_mNumber | exact prog_mOpsMath
    | exact prog_mOpsComp | exact prog_mOpsBool | exact prog_mSysLit | exact prog_mWhitespace
    | exact prog_mPyxformRef | exact prog_qNameThen _ | exact prog_qName | exact prog_mOther
    | exact prog_lit _ (by simp)

theorem firstMatch_pos : ∀ (rules : Rules), (∀ p ∈ rules, Prog p.2) → ∀ (s : Str) (n : String) (k : Nat),
    firstMatch rules s = some (n, k) → 0 < k ∧ k ≤ s.length
  | [], _, s, n, k, h => by simp [firstMatch] at h
  | (n', m) :: rs, hp, s, n, k, h => by
    simp only [firstMatch] at h
    split at h
    · rename_i rest hm
      simp only [Option.some.injEq, Prod.mk.injEq] at h
      have := hp (n', m) (by simp) s rest hm
      omega
    · exact firstMatch_pos rs (fun p hp' => hp p (List.mem_cons_of_mem _ hp')) s n k h

theorem firstMatch_isSome_of_mem : ∀ (rules : Rules) (s : Str) (p : String × (Str → Option Str)) (r : Str),
    p ∈ rules → p.2 s = some r → ∃ x, firstMatch rules s = some x
  | [], _, _, _, hp, _ => by simp at hp
  | (n', m) :: rs, s, p, r, hp, hm => by
    simp only [firstMatch]
    split
    · exact ⟨_, rfl⟩
    · rename_i hnone
      rcases List.mem_cons.1 hp with rfl | hp
      · simp only at hm; rw [hm] at hnone; cases hnone
      · exact firstMatch_isSome_of_mem rs s p r hp hm

/-- at every non-empty position some rule of the pinned lexicon matches (OTHER, or WHITESPACE for `\n`) -/
theorem firstMatch_total (c : Char) (cs : Str) : ∃ x, firstMatch pinnedRules (c :: cs) = some x := by
  by_cases hc : c = '\n'
  · subst hc
    exact firstMatch_isSome_of_mem pinnedRules _ ("WHITESPACE", mWhitespace) (cs.dropWhile isSpace)
      (by rw [pinnedRules_eq]; simp) (by simp [mWhitespace, isSpace])
  · exact firstMatch_isSome_of_mem pinnedRules _ ("OTHER", mOther) cs
      (by rw [pinnedRules_eq]; simp) (by simp [mOther, hc])

theorem scanAux_rem_nil : ∀ (f : Nat) (s : Str), s.length < f → (scanAux pinnedRules f s).2 = []
  | 0, s, h => absurd h (Nat.not_lt_zero _)
  | f + 1, s, h => by
    rw [scanAux]
    cases s with
    | nil => rw [firstMatch_nil]
    | cons c cs =>
      obtain ⟨⟨n, k⟩, hx⟩ := firstMatch_total c cs
      obtain ⟨hk1, hk2⟩ := firstMatch_pos pinnedRules pinned_prog _ n k hx
      rw [hx]
      have hk : ¬ (k = 0) := by omega
      simp only [hk, if_false]
      apply scanAux_rem_nil f
      simp only [List.length_drop]
      omega


/-! ## a simple class: quote-free words (ASCII letters, then letters / digits / `_`) are one NAME token -/

def letters : Str := "abcdefghijklmnopqrstuvwxyzABCDEFGHIJKLMNOPQRSTUVWXYZ_".toList
def wordChars : Str := letters ++ "0123456789".toList

/-- what the proof needs about a first character of a word -/
structure StartFacts (c : Char) : Prop where
  nd : isDigit c = false
  ns : isSpace c = false
  st : isNameStart c = true
  ne : ∀ x ∈ "-. *+=!<>|()[]/\"',$}".toList, c ≠ x

theorem letters_facts : ∀ c ∈ letters, isDigit c = false ∧ isSpace c = false ∧ isNameStart c = true ∧
    ("-. *+=!<>|()[]/\"',$}".toList.all fun x => c != x) = true := by decide

theorem startFacts_of_letter (c : Char) (h : c ∈ letters) : StartFacts c := by
  obtain ⟨a, b, d, e⟩ := letters_facts c h
  refine ⟨a, b, d, ?_⟩
  intro x hx
  have := List.all_eq_true.1 e x hx
  simpa using this

theorem wordChars_name : ∀ c ∈ wordChars, (isNameStart c || isNameExtra c) = true := by decide

theorem ncTail_word : ∀ (f : Nat) (s : Str), (∀ c ∈ s, c ∈ wordChars) → s.length ≤ f → ncTail f s = []
  | 0, s, _, hl => by
    have : s = [] := List.length_eq_zero_iff.1 (Nat.le_zero.1 hl)
    subst this; rfl
  | f + 1, [], _, _ => rfl
  | f + 1, c :: cs, h, hl => by
    have hc := wordChars_name c (h c (by simp))
    simp only [ncTail, hc, if_true]
    exact ncTail_word f cs (fun x hx => h x (by simp [hx])) (by simp only [List.length_cons] at hl; omega)

theorem qName_word (c : Char) (cs : Str) (hc : StartFacts c) (h : ∀ x ∈ cs, x ∈ wordChars) : qName (c :: cs) = some [] := by
  simp only [qName, ncName, hc.st, if_true, ncTail_word cs.length cs h (Nat.le_refl _)]

theorem lit_ne (x c : Char) (p cs : Str) (h : c ≠ x) : lit (x :: p) (c :: cs) = none := by
  have : (c == x) = false := beq_false_of_ne h
  simp [lit, startsWith, this]

theorem optMinus_ne (c : Char) (cs : Str) (h : c ≠ '-') : optMinus (c :: cs) = c :: cs := by
  unfold optMinus
  split
  · rename_i r heq; simp only [List.cons.injEq] at heq; exact absurd heq.1 h
  · rfl

section word
variable (c : Char) (cs : Str) (hc : StartFacts c)
include hc

theorem mem_ne (x : Char) (hx : x ∈ "-. *+=!<>|()[]/\"',$}".toList) : c ≠ x := hc.ne x hx

theorem digitsN_start (k : Nat) : digitsN (k + 1) (c :: cs) = none := by simp [digitsN, hc.nd]

theorem mDate_start : mDate (c :: cs) = none := by
  unfold mDate
  rw [optMinus_ne c cs (hc.ne '-' (by decide)), digitsN_start c cs hc 3]; rfl

theorem mTime_start : mTime (c :: cs) = none := by
  unfold mTime
  rw [digitsN_start c cs hc 1]; rfl

theorem mNumber_start : mNumber (c :: cs) = none := by
  unfold mNumber
  simp only [optMinus_ne c cs (hc.ne '-' (by decide)), digits1, hc.nd, Bool.false_eq_true, if_false]
  split
  · rename_i r2 heq; simp only [List.cons.injEq] at heq; exact absurd heq.1 (hc.ne '.' (by decide))
  · rfl

theorem mOpsMath_start : mOpsMath (c :: cs) = none := by
  unfold mOpsMath
  split
  · rename_i heq; simp only [List.cons.injEq] at heq; exact absurd heq.1 (hc.ne ' ' (by decide))
  · rename_i heq; simp only [List.cons.injEq] at heq; exact absurd heq.1 (hc.ne ' ' (by decide))
  · rename_i c' r heq
    simp only [List.cons.injEq] at heq
    obtain ⟨rfl, _⟩ := heq
    have a : (c == '*') = false := beq_false_of_ne (hc.ne '*' (by decide))
    have b : (c == '+') = false := beq_false_of_ne (hc.ne '+' (by decide))
    have d : (c == '-') = false := beq_false_of_ne (hc.ne '-' (by decide))
    simp [a, b, d]
  · rfl

theorem mOpsComp_start : mOpsComp (c :: cs) = none := by
  unfold mOpsComp
  split
  · rename_i heq; simp only [List.cons.injEq] at heq; exact absurd heq.1 (hc.ne '!' (by decide))
  · rename_i c' r heq
    simp only [List.cons.injEq] at heq
    obtain ⟨rfl, _⟩ := heq
    have a : (c == '=') = false := beq_false_of_ne (hc.ne '=' (by decide))
    have b : (c == '<') = false := beq_false_of_ne (hc.ne '<' (by decide))
    have d : (c == '>') = false := beq_false_of_ne (hc.ne '>' (by decide))
    simp [a, b, d]
  · rfl

theorem mOpsBool_start : mOpsBool (c :: cs) = none := by
  unfold mOpsBool
  split
  · rename_i heq; simp only [List.cons.injEq] at heq; exact absurd heq.1 (hc.ne ' ' (by decide))
  · rename_i heq; simp only [List.cons.injEq] at heq; exact absurd heq.1 (hc.ne ' ' (by decide))
  · rfl

theorem mSysLit_start : mSysLit (c :: cs) = none := by
  unfold mSysLit
  split
  · rename_i heq; simp only [List.cons.injEq] at heq; exact absurd heq.1 (hc.ne '"' (by decide))
  · rename_i heq; simp only [List.cons.injEq] at heq; exact absurd heq.1 (hc.ne '\'' (by decide))
  · rfl

theorem mWhitespace_start : mWhitespace (c :: cs) = none := by simp [mWhitespace, hc.ns]

theorem mPyxformRef_start : mPyxformRef (c :: cs) = none := by
  unfold mPyxformRef
  rw [lit_ne '$' c _ cs (hc.ne '$' (by decide))]; rfl

end word

/-- a quote-free word is exactly one NAME token -/
theorem scan_word (c : Char) (cs : Str) (hc : c ∈ letters) (h : ∀ x ∈ cs, x ∈ wordChars) :
    scanWith pinnedRules (c :: cs) = ([("NAME", c :: cs)], []) := by
  have f := startFacts_of_letter c hc
  have hq := qName_word c cs f h
  have hfm : firstMatch pinnedRules (c :: cs) = some ("NAME", (c :: cs).length) := by
    rw [pinnedRules_eq]
    simp only [firstMatch, mDateTime, mDate_start c cs f, mTime_start c cs f, mNumber_start c cs f,
      mOpsMath_start c cs f, mOpsComp_start c cs f, mOpsBool_start c cs f, mSysLit_start c cs f,
      mWhitespace_start c cs f, mPyxformRef_start c cs f, Option.bind_none,
      lit_ne '|' c _ cs (f.ne '|' (by decide)), lit_ne '(' c _ cs (f.ne '(' (by decide)),
      lit_ne ')' c _ cs (f.ne ')' (by decide)), lit_ne '[' c _ cs (f.ne '[' (by decide)),
      lit_ne '.' c _ cs (f.ne '.' (by decide)), lit_ne '/' c _ cs (f.ne '/' (by decide)),
      lit_ne ',' c _ cs (f.ne ',' (by decide)), lit_ne ']' c _ cs (f.ne ']' (by decide)),
      qNameThen, hq, Option.bind_some, List.length_nil, Nat.sub_zero]
    simp [lit, startsWith]
  unfold scanWith
  rw [scanAux, hfm]
  have hk : ¬ ((c :: cs).length = 0) := by simp
  simp only [hk, if_false, List.drop_length, List.take_length]
  cases hlen : (c :: cs).length with
  | zero => simp at hlen
  | succ n => rw [scanAux, firstMatch_nil]


/-! ## a simple class: dateTime literals `dddd-dd-ddTdd:dd:dd` are one DATETIME token -/

theorem mTime_literal (a b c d e f : Char)
    (ha : isDigit a = true) (hb : isDigit b = true) (hc : isDigit c = true) (hd : isDigit d = true)
    (he : isDigit e = true) (hf : isDigit f = true) :
    mTime [a, b, ':', c, d, ':', e, f] = some [] := by
  simp [mTime, digitsN, lit, startsWith, optFrac, optTz, ha, hb, hc, hd, he, hf]

/-- a dateTime literal without zone is exactly one DATETIME token -/
theorem scan_datetime (y1 y2 y3 y4 m1 m2 d1 d2 h1 h2 n1 n2 s1 s2 : Char)
    (hy1 : isDigit y1 = true) (hy2 : isDigit y2 = true) (hy3 : isDigit y3 = true) (hy4 : isDigit y4 = true)
    (hm1 : isDigit m1 = true) (hm2 : isDigit m2 = true) (hd1 : isDigit d1 = true) (hd2 : isDigit d2 = true)
    (hh1 : isDigit h1 = true) (hh2 : isDigit h2 = true) (hn1 : isDigit n1 = true) (hn2 : isDigit n2 = true)
    (hs1 : isDigit s1 = true) (hs2 : isDigit s2 = true) :
    scanWith pinnedRules [y1, y2, y3, y4, '-', m1, m2, '-', d1, d2, 'T', h1, h2, ':', n1, n2, ':', s1, s2] =
      ([("DATETIME", [y1, y2, y3, y4, '-', m1, m2, '-', d1, d2, 'T', h1, h2, ':', n1, n2, ':', s1, s2])], []) := by
  have hdm := mDate_literal y1 y2 y3 y4 m1 m2 d1 d2 hy1 hy2 hy3 hy4 hm1 hm2 hd1 hd2 ['T', h1, h2, ':', n1, n2, ':', s1, s2]
  have htm := mTime_literal h1 h2 n1 n2 s1 s2 hh1 hh2 hn1 hn2 hs1 hs2
  have hfm : firstMatch pinnedRules [y1, y2, y3, y4, '-', m1, m2, '-', d1, d2, 'T', h1, h2, ':', n1, n2, ':', s1, s2]
      = some ("DATETIME", 19) := by
    rw [pinnedRules_head2]
    simp only [firstMatch, mDateTime, hdm, Option.bind_some]
    have hl : lit ['T'] ['T', h1, h2, ':', n1, n2, ':', s1, s2] = some [h1, h2, ':', n1, n2, ':', s1, s2] := by
      simp [lit, startsWith]
    simp [hl, htm]
  unfold scanWith
  rw [scanAux, hfm]
  simp only [List.length_cons, List.length_nil]
  rw [scanAux, show List.drop 19 [y1, y2, y3, y4, '-', m1, m2, '-', d1, d2, 'T', h1, h2, ':', n1, n2, ':', s1, s2] = [] from rfl,
    firstMatch_nil]
  rfl

end Pyxv.Lexer
