import Pyxv.Model.Lexer
/-! # Lemmas about the expression lexer model (`Pyxv.Lexer`) -/
namespace Pyxv.Lexer
open Pyxv List

/-- concatenation of the token values -/
def values (ts : List (String × Str)) : Str := ts.flatMap (·.2)

theorem scanAux_consumes (rules : Rules) : ∀ (f : Nat) (s : Str),
    values (scanAux rules f s).1 ++ (scanAux rules f s).2 = s
  | 0, s => by simp [scanAux, values]
  | f + 1, s => by
    rw [scanAux]
    split
    · simp [values]
    · split
      · simp [values]
      · rename_i n k _ _
        have ih := scanAux_consumes rules f (s.drop k)
        simp only [values, List.flatMap_cons] at ih ⊢
        rw [List.append_assoc, ih, List.take_append_drop]

/-- positions assigned by `withPos` really are the positions of the values in the text -/
theorem withPos_slices (s rem : Str) : ∀ (l : List (String × Str)) (pre : Str),
    pre ++ values l ++ rem = s → ∀ t ∈ withPos pre.length l,
      t.stop = t.start + t.value.length ∧ (s.drop t.start).take t.value.length = t.value
  | [], _, _ => by simp [withPos]
  | (n, v) :: rest, pre, h => by
    intro t ht
    simp only [withPos, List.mem_cons] at ht
    rcases ht with ht | ht
    · subst ht
      refine ⟨rfl, ?_⟩
      simp only [values, List.flatMap_cons] at h
      rw [← h]
      simp [List.append_assoc, List.drop_left', List.take_left']
    · have h' : (pre ++ v) ++ values rest ++ rem = s := by
        simpa [values, List.append_assoc] using h
      have := withPos_slices s rem rest (pre ++ v) h' t (by simpa [List.length_append] using ht)
      exact this

/-- rule names that make a default dynamic: any such token makes `dynLoop` answer `true` when the
    element type is not one of the hyphen types -/
theorem dynLoop_true_of_mem (names : List String) : ∀ (toks : List (String × Str)),
    (∃ t ∈ toks, names.contains t.1 = true) → dynLoop names false toks = true
  | [], h => by simp at h
  | (n, v) :: rest, h => by
    simp only [dynLoop, Bool.false_and, Bool.false_eq_true, if_false]
    by_cases hn : names.contains n = true
    · have hn' : n ∈ names := by simpa using hn
      simp [hn']
    · have : ∃ t ∈ rest, names.contains t.1 = true := by
        obtain ⟨t, ht, hc⟩ := h
        simp only [List.mem_cons] at ht
        rcases ht with ht | ht
        · subst ht; exact absurd hc hn
        · exact ⟨t, ht, hc⟩
      simp [dynLoop_true_of_mem names rest this]

/-- no such token → static, whatever the element type -/
theorem dynLoop_false_of_none (names : List String) (hy : Bool) : ∀ (toks : List (String × Str)),
    (∀ t ∈ toks, names.contains t.1 = false) → dynLoop names hy toks = false
  | [], _ => by simp [dynLoop]
  | (n, v) :: rest, h => by
    have h1 : names.contains n = false := h (n, v) (by simp)
    have h2 := dynLoop_false_of_none names hy rest (fun t ht => h t (by simp [ht]))
    simp only [dynLoop, h1, h2]
    split <;> simp


/-! ## a simple class: plain numbers (non-empty strings of ASCII digits) are one NUMBER token -/

def allDigits (s : Str) : Prop := ∀ c ∈ s, isDigit c = true

theorem digit_ne {c : Char} (h : isDigit c = true) : c ≠ '-' ∧ c ≠ ':' ∧ c ≠ '.' := by
  refine ⟨?_, ?_, ?_⟩ <;> (rintro rfl; revert h; decide)

theorem lit_char_allDigits (x : Char) (hx : isDigit x = false) (r : Str) (h : allDigits r) : lit [x] r = none := by
  cases r with
  | nil => simp [lit, startsWith]
  | cons c cs =>
    have hc : isDigit c = true := h c (by simp)
    have : (c == x) = false := by
      apply beq_false_of_ne; rintro rfl; rw [hc] at hx; exact absurd hx (by simp)
    simp [lit, startsWith, this]

theorem digitsN_allDigits : ∀ (k : Nat) (s : Str), allDigits s →
    digitsN k s = none ∨ ∃ r, digitsN k s = some r ∧ allDigits r
  | 0, s, h => Or.inr ⟨s, rfl, h⟩
  | k + 1, [], _ => Or.inl rfl
  | k + 1, c :: cs, h => by
    have hc : isDigit c = true := h c (by simp)
    simp only [digitsN, hc, if_true]
    exact digitsN_allDigits k cs (fun x hx => h x (by simp [hx]))

theorem optMinus_digit (c : Char) (cs : Str) (hc : isDigit c = true) : optMinus (c :: cs) = c :: cs := by
  have := (digit_ne hc).1
  unfold optMinus
  split
  · rename_i r heq; simp only [List.cons.injEq] at heq; exact absurd heq.1 this
  · rfl

theorem dropWhile_allDigits : ∀ (s : Str), allDigits s → s.dropWhile isDigit = []
  | [], _ => rfl
  | c :: cs, h => by
    have hc : isDigit c = true := h c (by simp)
    simp only [List.dropWhile, hc]
    exact dropWhile_allDigits cs (fun x hx => h x (by simp [hx]))

theorem mDate_allDigits (c : Char) (cs : Str) (h : allDigits (c :: cs)) : mDate (c :: cs) = none := by
  have hc : isDigit c = true := h c (by simp)
  unfold mDate
  rw [optMinus_digit c cs hc]
  rcases digitsN_allDigits 4 (c :: cs) h with h4 | ⟨r, h4, hr⟩
  · rw [h4]; rfl
  · rw [h4]
    simp only [Option.bind_some, lit_char_allDigits '-' (by decide) r hr, Option.bind_none]

theorem mTime_allDigits (s : Str) (h : allDigits s) : mTime s = none := by
  unfold mTime
  rcases digitsN_allDigits 2 s h with h2 | ⟨r, h2, hr⟩
  · rw [h2]; rfl
  · rw [h2]
    simp only [Option.bind_some, lit_char_allDigits ':' (by decide) r hr, Option.bind_none]

theorem mNumber_allDigits (c : Char) (cs : Str) (h : allDigits (c :: cs)) : mNumber (c :: cs) = some [] := by
  have hc : isDigit c = true := h c (by simp)
  have hd : cs.dropWhile isDigit = [] := dropWhile_allDigits cs (fun x hx => h x (by simp [hx]))
  unfold mNumber
  simp only [optMinus_digit c cs hc, digits1, hc, if_true, hd]

theorem pinnedRules_head : pinnedRules =
    ("DATETIME", mDateTime) :: ("DATE", mDate) :: ("TIME", mTime) :: ("NUMBER", mNumber) :: pinnedRules.drop 4 := rfl

theorem firstMatch_nil : firstMatch pinnedRules [] = none := by decide +kernel

/-- a plain number is exactly one NUMBER token -/
theorem scan_number (c : Char) (cs : Str) (h : allDigits (c :: cs)) :
    scanWith pinnedRules (c :: cs) = ([("NUMBER", c :: cs)], []) := by
  have hfm : firstMatch pinnedRules (c :: cs) = some ("NUMBER", (c :: cs).length) := by
    rw [pinnedRules_head]
    simp only [firstMatch, mDateTime, mDate_allDigits c cs h, mTime_allDigits _ h, mNumber_allDigits c cs h,
      Option.bind_none, List.length_nil, Nat.sub_zero]
  unfold scanWith
  rw [scanAux, hfm]
  have hk : ¬ ((c :: cs).length = 0) := by simp
  simp only [hk, if_false, List.drop_length, List.take_length]
  cases hlen : (c :: cs).length with
  | zero => simp at hlen
  | succ n =>
    rw [scanAux, firstMatch_nil]


/-! ## a simple class: date literals `dddd-dd-dd` are one DATE token -/

theorem mDate_literal (a b c d e f g h : Char)
    (ha : isDigit a = true) (hb : isDigit b = true) (hc : isDigit c = true) (hd : isDigit d = true)
    (he : isDigit e = true) (hf : isDigit f = true) (hg : isDigit g = true) (hh : isDigit h = true) (rest : Str) :
    mDate (a :: b :: c :: d :: '-' :: e :: f :: '-' :: g :: h :: rest) = some rest := by
  unfold mDate
  rw [optMinus_digit a _ ha]
  simp [digitsN, lit, startsWith, ha, hb, hc, hd, he, hf, hg, hh]

theorem pinnedRules_head2 : pinnedRules =
    ("DATETIME", mDateTime) :: ("DATE", mDate) :: pinnedRules.drop 2 := rfl

/-- a date literal is exactly one DATE token -/
theorem scan_date (a b c d e f g h : Char)
    (ha : isDigit a = true) (hb : isDigit b = true) (hc : isDigit c = true) (hd : isDigit d = true)
    (he : isDigit e = true) (hf : isDigit f = true) (hg : isDigit g = true) (hh : isDigit h = true) :
    scanWith pinnedRules [a, b, c, d, '-', e, f, '-', g, h] = ([("DATE", [a, b, c, d, '-', e, f, '-', g, h])], []) := by
  have hdm := mDate_literal a b c d e f g h ha hb hc hd he hf hg hh []
  have hfm : firstMatch pinnedRules [a, b, c, d, '-', e, f, '-', g, h] = some ("DATE", 10) := by
    rw [pinnedRules_head2]
    simp only [firstMatch, mDateTime, hdm, Option.bind_some]
    simp [lit, startsWith]
  unfold scanWith
  rw [scanAux, hfm]
  simp only [List.length_cons, List.length_nil]
  rw [scanAux, show List.drop 10 [a, b, c, d, '-', e, f, '-', g, h] = [] from rfl, firstMatch_nil]
  rfl

end Pyxv.Lexer
