import Pyxv.Model.Lexer
/-! # Lemmas about the expression lexer model (`Pyxv.Lexer`) -/
namespace Pyxv.Lexer
open Pyxv List

/-- concatenation of the token values -/
def values (ts : List (String × Str)) : Str := ts.flatMap (·.2)

theorem scanAux_consumes (rules : Rules) : ∀ (f : Nat) (s : Str),
    values (scanAux rules f s).1 ++ (scanAux rules f s).2 = s
  | 0, s => by simp [scanAux, values]
  | f + 1, s => by
    rw [scanAux]
    split
    · simp [values]
    · split
      · simp [values]
      · rename_i n k _ _
        have ih := scanAux_consumes rules f (s.drop k)
        simp only [values, List.flatMap_cons] at ih ⊢
        rw [List.append_assoc, ih, List.take_append_drop]

/-- positions assigned by `withPos` really are the positions of the values in the text -/
theorem withPos_slices (s rem : Str) : ∀ (l : List (String × Str)) (pre : Str),
    pre ++ values l ++ rem = s → ∀ t ∈ withPos pre.length l,
      t.stop = t.start + t.value.length ∧ (s.drop t.start).take t.value.length = t.value
  | [], _, _ => by simp [withPos]
  | (n, v) :: rest, pre, h => by
    intro t ht
    simp only [withPos, List.mem_cons] at ht
    rcases ht with ht | ht
    · subst ht
      refine ⟨rfl, ?_⟩
      simp only [values, List.flatMap_cons] at h
      rw [← h]
      simp [List.append_assoc, List.drop_left', List.take_left']
    · have h' : (pre ++ v) ++ values rest ++ rem = s := by
        simpa [values, List.append_assoc] using h
      have := withPos_slices s rem rest (pre ++ v) h' t (by simpa [List.length_append] using ht)
      exact this

/-- rule names that make a default dynamic: any such token makes `dynLoop` answer `true` when the
    element type is not one of the hyphen types -/
theorem dynLoop_true_of_mem (names : List String) : ∀ (toks : List (String × Str)),
    (∃ t ∈ toks, names.contains t.1 = true) → dynLoop names false toks = true
  | [], h => by simp at h
  | (n, v) :: rest, h => by
    simp only [dynLoop, Bool.false_and, Bool.false_eq_true, if_false]
    by_cases hn : names.contains n = true
    · have hn' : n ∈ names := by simpa using hn
      simp [hn']
    · have : ∃ t ∈ rest, names.contains t.1 = true := by
        obtain ⟨t, ht, hc⟩ := h
        simp only [List.mem_cons] at ht
        rcases ht with ht | ht
        · subst ht; exact absurd hc hn
        · exact ⟨t, ht, hc⟩
      simp [dynLoop_true_of_mem names rest this]

/-- no such token → static, whatever the element type -/
theorem dynLoop_false_of_none (names : List String) (hy : Bool) : ∀ (toks : List (String × Str)),
    (∀ t ∈ toks, names.contains t.1 = false) → dynLoop names hy toks = false
  | [], _ => by simp [dynLoop]
  | (n, v) :: rest, h => by
    have h1 : names.contains n = false := h (n, v) (by simp)
    have h2 := dynLoop_false_of_none names hy rest (fun t ht => h t (by simp [ht]))
    simp only [dynLoop, h1, h2]
    split <;> simp

end Pyxv.Lexer
