import Pyxv.Proofs.QStableLemmas
/-! # own-level stability of questions (`QStable`) -/
namespace Pyxv.ToJson
open Pyxv Pyxv.JV

/-- what is known about one entry of the type table -/
structure EntryOk (entry : Dict) : Prop where
  nodup : (entry.map Prod.fst).Nodup
  noType : k!"type" ∉ entry.map Prod.fst
  noName : k!"name" ∉ entry.map Prod.fst
  noTrigger : k!"trigger" ∉ entry.map Prod.fst
  noChildren : k!"children" ∉ entry.map Prod.fst
  noChoices : k!"choices" ∉ entry.map Prod.fst
  noItemset : k!"itemset" ∉ entry.map Prod.fst
  noListName : k!"list_name" ∉ entry.map Prod.fst

instance (entry : Dict) : Decidable (EntryOk entry) :=
  decidable_of_iff ((entry.map Prod.fst).Nodup ∧ k!"type" ∉ entry.map Prod.fst ∧ k!"name" ∉ entry.map Prod.fst ∧
      k!"trigger" ∉ entry.map Prod.fst ∧ k!"children" ∉ entry.map Prod.fst ∧ k!"choices" ∉ entry.map Prod.fst ∧
      k!"itemset" ∉ entry.map Prod.fst ∧ k!"list_name" ∉ entry.map Prod.fst)
    ⟨fun h => ⟨h.1, h.2.1, h.2.2.1, h.2.2.2.1, h.2.2.2.2.1, h.2.2.2.2.2.1, h.2.2.2.2.2.2.1, h.2.2.2.2.2.2.2⟩,
     fun h => ⟨h.nodup, h.noType, h.noName, h.noTrigger, h.noChildren, h.noChoices, h.noItemset, h.noListName⟩⟩

/-- what is known about a slot tuple of a question class -/
structure NamesOk (names : List Str) : Prop where
  nodup : names.Nodup
  hasType : k!"type" ∈ names
  hasName : k!"name" ∈ names
  noParent : k!"parent" ∉ names
  keepType : k!"type" ∉ allDelete .question names [] []
  keepName : k!"name" ∉ allDelete .question names [] []

theorem mem_allDelete_question (names qk : List Str) (k : Str) :
    k ∈ allDelete .question names qk [] ↔ k ∈ allDelete .question names [] [] ∨ k ∈ qk := by
  simp only [allDelete, clsDelete, List.append_nil, List.mem_append, List.mem_cons, List.not_mem_nil, or_false]
  constructor
  · rintro ((h | h) | h | h)
    · exact Or.inl (Or.inl (Or.inl h))
    · exact Or.inl (Or.inl (Or.inr h))
    · exact Or.inl (Or.inr h)
    · exact Or.inr h
  · rintro (((h | h) | h) | h)
    · exact Or.inl (Or.inl h)
    · exact Or.inl (Or.inr h)
    · exact Or.inr (Or.inl h)
    · exact Or.inr (Or.inr h)

/-- the dump of a question built from `kvs`, in closed form -/
def qDump (names : List Str) (entry kvs : Dict) : Dict :=
  let slots := reloadSlots names (mergeQtd entry kvs)
  ownDump (allDelete .question names (entry.map Prod.fst) []) slots
    ++ (kwOf entry kvs).filter (fun kv => truthy kv.2)
    ++ (scalarsOf entry).filterMap (scalarEntry slots)

theorem reloadSlots_keys (names : List Str) (d : Dict) : (reloadSlots names d).map Prod.fst = names := by
  simp [reloadSlots, List.map_map, Function.comp_def]

theorem scalar_not_kw (entry src : Dict) (eo : EntryOk entry) (k : Str)
    (h1 : k ∈ (scalarsOf entry).map Prod.fst) : k ∉ (kwOf entry src).map Prod.fst := by
  intro h2
  obtain ⟨t, ht⟩ := kwOf_mem_obj entry src k h2
  simp only [List.mem_map] at h1
  obtain ⟨⟨k', s⟩, hks, e⟩ := h1
  simp only at e; subst e
  have hs := (scalarsOf_mem entry k' s).mp hks
  -- the same key twice in an association list with distinct keys: the values agree
  have : ∀ (l : Dict), (l.map Prod.fst).Nodup → (k', J.obj t) ∈ l → (k', J.str s) ∈ l → False := by
    intro l
    induction l with
    | nil => intro _ h; simp at h
    | cons kv rest ih =>
      intro hn ha hb
      simp only [List.map_cons, List.nodup_cons] at hn
      simp only [List.mem_cons] at ha hb
      rcases ha with ha | ha <;> rcases hb with hb | hb
      · rw [← ha] at hb; cases hb
      · subst ha; exact hn.1 (List.mem_map.mpr ⟨_, hb, rfl⟩)
      · subst hb; exact hn.1 (List.mem_map.mpr ⟨_, ha, rfl⟩)
      · exact ih hn.2 ha hb
  exact this entry eo.nodup ht hs

theorem toJson_question_eq (names : List Str) (np : k!"parent" ∉ names) (entry kvs : Dict) (eo : EntryOk entry)
    (x : List Str) (hx : ∀ k ∈ x, k = k!"parent") :
    toJson (.mk .question (reloadSlots names (mergeQtd entry kvs)) (entry.map Prod.fst) (kwOf entry kvs)
      (scalarsOf entry) [] none []) x = .obj (qDump names entry kvs) := by
  rw [toJson_question, reloadSlots_keys,
    ownDump_extra .question names _ x _ (reloadSlots_keys names _) (fun k hk => by rw [hx k hk]; exact np)]
  have hkwsub := kwOf_keys entry kvs
  have hown : ∀ k ∈ entry.map Prod.fst, k ∉ (ownDump (allDelete .question names (entry.map Prod.fst) [])
      (reloadSlots names (mergeQtd entry kvs))).map Prod.fst := by
    intro k hk hin
    exact (ownDump_key _ _ k hin).2 ((mem_allDelete_question names _ k).mpr (Or.inr hk))
  rw [restoreKwargs_fresh _ _ (kwOf_nodup entry kvs eo.nodup) (fun k hk => hown k (hkwsub k hk))]
  rw [restoreScalars_fresh _ _ _ (scalarsOf_nodup entry eo.nodup) (by
    intro k hk
    have hke : k ∈ entry.map Prod.fst := by
      simp only [List.mem_map] at hk
      obtain ⟨⟨k', s⟩, hks, e⟩ := hk
      simp only at e; subst e
      exact List.mem_map.mpr ⟨_, (scalarsOf_mem entry k' s).mp hks, rfl⟩
    simp only [List.map_append, List.mem_append, not_or]
    refine ⟨hown k hke, ?_⟩
    intro hin
    apply scalar_not_kw entry kvs eo k hk
    simp only [List.mem_map, List.mem_filter] at hin ⊢
    obtain ⟨q, ⟨hq, _⟩, e⟩ := hin
    exact ⟨q, hq, e⟩)]
  rfl


/-! ## lookups in the closed form -/

section lookups
variable (names : List Str) (hN : names.Nodup) (entry kvs : Dict) (eo : EntryOk entry)

theorem qDump_assoc :
    qDump names entry kvs =
      ownDump (allDelete .question names (entry.map Prod.fst) [])
        (names.map fun n => (n, (lookup n (mergeQtd entry kvs)).getD .null))
      ++ ((kwOf entry kvs).filter (fun kv => truthy kv.2)
        ++ (scalarsOf entry).filterMap (scalarEntry (reloadSlots names (mergeQtd entry kvs)))) := by
  simp [qDump, reloadSlots, List.append_assoc]

theorem tail_keys (k : Str)
    (h : k ∈ ((kwOf entry kvs).filter (fun kv => truthy kv.2)
        ++ (scalarsOf entry).filterMap (scalarEntry (reloadSlots names (mergeQtd entry kvs)))).map Prod.fst) :
    k ∈ entry.map Prod.fst := by
  simp only [List.map_append, List.mem_append] at h
  rcases h with h | h
  · apply kwOf_keys entry kvs k
    simp only [List.mem_map, List.mem_filter] at h ⊢
    obtain ⟨q, ⟨hq, _⟩, e⟩ := h
    exact ⟨q, hq, e⟩
  · have := filterMap_scalar_keys _ _ k h
    simp only [List.mem_map] at this
    obtain ⟨⟨k', s⟩, hks, e⟩ := this
    simp only at e; subst e
    exact List.mem_map.mpr ⟨_, (scalarsOf_mem entry k' s).mp hks, rfl⟩

include hN in
/-- a key that is not a key of the entry: its value in the dump is the given value, if it is a kept slot -/
theorem lookup_qDump_plain (k : Str) (hk : k ∉ entry.map Prod.fst) :
    lookup k (qDump names entry kvs) =
      if k ∈ names ∧ keeps (allDelete .question names (entry.map Prod.fst) []) (k, (lookup k kvs).getD .null) = true
      then some ((lookup k kvs).getD .null) else none := by
  rw [qDump_assoc, lookup_own_append _ names _ hN _ k
    (lookup_none_of_not_mem k _ (fun h => hk (tail_keys names entry kvs k h))),
    lookup_mergeQtd_ne entry kvs k hk]

include eo in
/-- a dict-valued key of the entry: its value in the dump is the remembered `_qtd_kwargs` value, if truthy -/
theorem lookup_qDump_obj (k : Str) (t : Dict) (hk : (k, J.obj t) ∈ entry) :
    lookup k (qDump names entry kvs) = lookup k ((kwOf entry kvs).filter (fun kv => truthy kv.2)) := by
  have hke : k ∈ entry.map Prod.fst := List.mem_map.mpr ⟨_, hk, rfl⟩
  have hown : lookup k (ownDump (allDelete .question names (entry.map Prod.fst) [])
      (names.map fun n => (n, (lookup n (mergeQtd entry kvs)).getD .null))) = none := by
    apply lookup_none_of_not_mem
    intro hin
    exact (ownDump_key _ _ k hin).2 ((mem_allDelete_question names _ k).mpr (Or.inr hke))
  rw [qDump_assoc, lookup_append_none _ _ _ hown]
  cases hl : lookup k ((kwOf entry kvs).filter (fun kv => truthy kv.2)) with
  | some v => exact lookup_append_some _ _ _ v hl
  | none =>
    rw [lookup_append_none _ _ _ hl]
    apply lookup_none_of_not_mem
    intro hin
    have hsc := filterMap_scalar_keys _ _ k hin
    -- k is both a scalar key and a dict-valued key
    simp only [List.mem_map] at hsc
    obtain ⟨⟨k', s⟩, hks, e⟩ := hsc
    simp only at e; subst e
    have hs := (scalarsOf_mem entry k' s).mp hks
    have : ∀ (l : Dict), (l.map Prod.fst).Nodup → (k', J.obj t) ∈ l → (k', J.str s) ∈ l → False := by
      intro l
      induction l with
      | nil => intro _ h; simp at h
      | cons kv rest ih =>
        intro hn ha hb
        simp only [List.map_cons, List.nodup_cons] at hn
        simp only [List.mem_cons] at ha hb
        rcases ha with ha | ha <;> rcases hb with hb | hb
        · rw [← ha] at hb; cases hb
        · subst ha; exact hn.1 (List.mem_map.mpr ⟨_, hb, rfl⟩)
        · subst hb; exact hn.1 (List.mem_map.mpr ⟨_, ha, rfl⟩)
        · exact ih hn.2 ha hb
    exact this entry eo.nodup hk hs

include eo in
/-- a string-valued key of the entry: its value in the dump is the overriding slot value, if any -/
theorem lookup_qDump_scalar (k s : Str) (hk : (k, J.str s) ∈ entry) :
    lookup k (qDump names entry kvs) =
      (scalarEntry (reloadSlots names (mergeQtd entry kvs)) (k, s)).map Prod.snd := by
  have hke : k ∈ entry.map Prod.fst := List.mem_map.mpr ⟨_, hk, rfl⟩
  have hsc : (k, s) ∈ scalarsOf entry := (scalarsOf_mem entry k s).mpr hk
  have hown : lookup k (ownDump (allDelete .question names (entry.map Prod.fst) [])
      (names.map fun n => (n, (lookup n (mergeQtd entry kvs)).getD .null))) = none := by
    apply lookup_none_of_not_mem
    intro hin
    exact (ownDump_key _ _ k hin).2 ((mem_allDelete_question names _ k).mpr (Or.inr hke))
  have hkw : lookup k ((kwOf entry kvs).filter (fun kv => truthy kv.2)) = none := by
    apply lookup_none_of_not_mem
    intro hin
    apply scalar_not_kw entry kvs eo k (List.mem_map.mpr ⟨_, hsc, rfl⟩)
    simp only [List.mem_map, List.mem_filter] at hin ⊢
    obtain ⟨q, ⟨hq, _⟩, e⟩ := hin
    exact ⟨q, hq, e⟩
  rw [qDump_assoc, lookup_append_none _ _ _ hown, lookup_append_none _ _ _ hkw,
    lookup_scalars _ _ (scalarsOf_nodup entry eo.nodup) k s hsc]

end lookups


/-- the slot value used by `restoreScalars` -/
theorem slotValue (names : List Str) (d : Dict) (k : Str) :
    (lookup k (reloadSlots names d)).getD J.null = if k ∈ names then (lookup k d).getD .null else .null := by
  rw [show reloadSlots names d = names.map (fun n => (n, (lookup n d).getD J.null)) from rfl, lookup_map_names]
  split <;> rfl

/-- dump, load, dump of one question: the closed form is a fixed point -/
theorem qDump_idem (names : List Str) (hN : names.Nodup) (entry kvs : Dict) (eo : EntryOk entry) :
    qDump names entry (qDump names entry kvs) = qDump names entry kvs := by
  let D := qDump names entry kvs
  have hown : ownDump (allDelete .question names (entry.map Prod.fst) []) (reloadSlots names (mergeQtd entry D)) =
      ownDump (allDelete .question names (entry.map Prod.fst) []) (reloadSlots names (mergeQtd entry kvs)) := by
    apply ownDump_congr
    intro n hn hd
    have hne : n ∉ entry.map Prod.fst := fun h => hd ((mem_allDelete_question names _ n).mpr (Or.inr h))
    rw [lookup_mergeQtd_ne entry D n hne, lookup_mergeQtd_ne entry kvs n hne,
      lookup_qDump_plain names hN entry kvs n hne]
    have hk : keeps (allDelete .question names (entry.map Prod.fst) []) (n, (lookup n kvs).getD .null)
        = truthy ((lookup n kvs).getD .null) := by simp [keeps, hd]
    have tn : truthy J.null = false := rfl
    by_cases t : truthy ((lookup n kvs).getD .null) = true
    · simp only [hn, hk, t, true_and, if_true, Option.getD_some]
    · simp only [hn, hk, t, true_and, if_false, Option.getD_none, tn, Bool.false_eq_true]
  have hkw : (kwOf entry D).filter (fun kv => truthy kv.2) = (kwOf entry kvs).filter (fun kv => truthy kv.2) := by
    have h1 : kwOf entry D = kwOf entry ((kwOf entry kvs).filter (fun kv => truthy kv.2)) := by
      apply kwOf_congr
      intro kv hkv t ht
      have : (kv.1, J.obj t) ∈ entry := by rw [← ht]; exact hkv
      exact lookup_qDump_obj names entry kvs eo kv.1 t this
    rw [h1, kwOf_filter_fixed entry eo.nodup kvs, List.filter_filter]
    simp
  have hsc : (scalarsOf entry).filterMap (scalarEntry (reloadSlots names (mergeQtd entry D))) =
      (scalarsOf entry).filterMap (scalarEntry (reloadSlots names (mergeQtd entry kvs))) := by
    apply filterMap_congr'
    intro ks hks
    cases ks with
    | mk k s =>
      have hme : (k, J.str s) ∈ entry := (scalarsOf_mem entry k s).mp hks
      unfold scalarEntry
      simp only [slotValue]
      by_cases hin : k ∈ names
      · simp only [hin, if_true]
        rw [lookup_mergeQtd_scalar entry D k s eo.nodup hme, lookup_qDump_scalar names entry kvs eo k s hme]
        unfold scalarEntry
        simp only [slotValue, hin, if_true]
        by_cases hc : (truthy ((lookup k (mergeQtd entry kvs)).getD J.null) &&
            neStr ((lookup k (mergeQtd entry kvs)).getD J.null) s) = true
        · simp [hc]
        · have hself : neStr (J.str s) s = false := by simp [neStr]
          simp [hc, hself]
      · simp [hin, truthy]
  show qDump names entry D = qDump names entry kvs
  unfold qDump
  simp only []
  rw [hown, hkw, hsc]


/-! ## the guards of the builder on a dump -/

theorem keeps_plain (names : List Str) (entry : Dict) (k : Str) (v : J)
    (h1 : k ∉ allDelete .question names [] []) (h2 : k ∉ entry.map Prod.fst) :
    keeps (allDelete .question names (entry.map Prod.fst) []) (k, v) = truthy v := by
  have : k ∉ allDelete .question names (entry.map Prod.fst) [] := by
    intro h
    rcases (mem_allDelete_question names _ k).mp h with h | h
    · exact h1 h
    · exact h2 h
  simp [keeps, this]

theorem lookup_qDump_plain_some (names : List Str) (hN : names.Nodup) (entry kvs : Dict) (k : Str)
    (hk : k ∉ entry.map Prod.fst) (v : J) (h : lookup k (qDump names entry kvs) = some v) :
    lookup k kvs = some v ∧ truthy v = true := by
  rw [lookup_qDump_plain names hN entry kvs k hk] at h
  split at h
  · next hc =>
    cases h
    have tv := truthy_getD_of_keeps hc.2
    cases hl : lookup k kvs with
    | none => simp [hl, truthy] at tv
    | some w => simp [hl] at tv ⊢; exact tv
  · cases h

theorem lookup_qDump_plain_keep (names : List Str) (hN : names.Nodup) (entry kvs : Dict) (k : Str)
    (hk : k ∉ entry.map Prod.fst) (hin : k ∈ names) (hd : k ∉ allDelete .question names [] [])
    (v : J) (hl : lookup k kvs = some v) (tv : truthy v = true) :
    lookup k (qDump names entry kvs) = some v := by
  rw [lookup_qDump_plain names hN entry kvs k hk, keeps_plain names entry k _ hd hk]
  simp [hin, hl, tv]

theorem mem_of_lookup (k : Str) (d : Dict) (v : J) (h : lookup k d = some v) : (k, v) ∈ d := by
  induction d with
  | nil => simp [lookup] at h
  | cons kv rest ih =>
    cases kv with
    | mk k' v' =>
      simp only [lookup] at h
      by_cases e : k = k'
      · subst e; simp only [if_true, Option.some.injEq] at h; subst h; simp
      · simp only [e, if_false] at h; simp [ih h]

theorem kwOf_mem_value (entry src : Dict) (k : Str) (u : J) (h : (k, u) ∈ kwOf entry src) : lookup k src = some u := by
  simp only [kwOf, List.mem_filterMap] at h
  obtain ⟨kv, _, hp⟩ := h
  split at hp
  · cases hl : lookup kv.1 src with
    | none => simp [hl] at hp
    | some w => simp [hl] at hp; rw [← hp.1, ← hp.2]; exact hl
  · cases hp

theorem mergeOk_qDump (names : List Str) (entry kvs : Dict) (eo : EntryOk entry) (h : mergeOk entry kvs = true) :
    mergeOk entry (qDump names entry kvs) = true := by
  unfold mergeOk at h ⊢
  rw [List.all_eq_true] at h ⊢
  intro kv hkv
  have h0 := h kv hkv
  cases hv : kv.2 with
  | obj t =>
    have hmem : (kv.1, J.obj t) ∈ entry := by rw [← hv]; exact hkv
    rw [lookup_qDump_obj names entry kvs eo kv.1 t hmem]
    cases hl : lookup kv.1 ((kwOf entry kvs).filter fun q => truthy q.2) with
    | none => rfl
    | some u =>
      have hm := mem_of_lookup _ _ _ hl
      have hsrc := kwOf_mem_value entry kvs kv.1 u (List.mem_filter.mp hm).1
      rw [hv, hsrc] at h0
      cases u <;> simp_all
  | _ => rfl

/-- what is known about the tables for questions -/
structure QOk (cfg : Cfg) : Prop where
  qNames : NamesOk cfg.questionNames
  sNames : NamesOk cfg.selectNames
  sItemset : k!"itemset" ∈ cfg.selectNames
  sListName : k!"list_name" ∈ cfg.selectNames
  keepItemset : k!"itemset" ∉ allDelete .question cfg.selectNames [] []
  keepListName : k!"list_name" ∉ allDelete .question cfg.selectNames [] []
  entries : ∀ t entry, lookup t cfg.qtd = some entry → EntryOk entry

theorem isTruthyAt_qDump (names : List Str) (hN : names.Nodup) (entry kvs : Dict) (k : Str)
    (hk : k ∉ entry.map Prod.fst) (hin : k ∈ names) (hd : k ∉ allDelete .question names [] [])
    (h : isTruthyAt k kvs = true) : isTruthyAt k (qDump names entry kvs) = true := by
  unfold isTruthyAt at h ⊢
  cases hl : lookup k kvs with
  | none => simp [hl] at h
  | some v =>
    simp only [hl] at h
    rw [lookup_qDump_plain_keep names hN entry kvs k hk hin hd v hl h]
    exact h

theorem hasKey_qDump_false (names : List Str) (hN : names.Nodup) (entry kvs : Dict) (k : Str)
    (hk : k ∉ entry.map Prod.fst) (h : hasKey k kvs = false) : hasKey k (qDump names entry kvs) = false := by
  unfold hasKey at h ⊢
  cases hl : lookup k (qDump names entry kvs) with
  | none => rfl
  | some v =>
    have := (lookup_qDump_plain_some names hN entry kvs k hk v hl).1
    simp [this] at h

/-- `QStable`: a question built by the builder dumps to a dict that the builder accepts again, and the
    question built from that dumps to the same dict. -/
theorem question_stable (cfg : Cfg) (ok : QOk cfg) : QStable cfg := by
  intro t kvs e hty h x hx
  unfold questionFromJson at h
  split at h
  · cases h
  · next g1 =>
    split at h
    · cases h
    · next g2 =>
      split at h
      · cases h
      · next entry hentry =>
        split at h
        · cases h
        · next g3 =>
          split at h
          · cases h
          · next tag htag =>
            split at h
            · cases h
            · next g4 =>
              dsimp only at h
              split at h
              · cases h
              · next g5 =>
                simp only [Option.some.injEq] at h
                subst h
                have eo := ok.entries t entry hentry
                -- the slot tuple of the class
                generalize hnames : (if cfg.selectTags.contains tag = true then cfg.selectNames else cfg.questionNames) = names
                have nok : NamesOk names := by
                  rw [← hnames]; split
                  · exact ok.sNames
                  · exact ok.qNames
                refine ⟨qDump names entry kvs,
                  .mk .question (reloadSlots names (mergeQtd entry (qDump names entry kvs))) (entry.map Prod.fst)
                    (kwOf entry (qDump names entry kvs)) (scalarsOf entry) [] none [], ?_, ?_, ?_, ?_⟩
                · exact toJson_question_eq names nok.noParent entry kvs eo x hx
                · exact lookup_qDump_plain_keep names nok.nodup entry kvs _ eo.noType nok.hasType nok.keepType
                    _ hty (by
                      simp only [not_or, Bool.not_eq_true] at g1
                      have := g1.2.1
                      simp [truthy, this])
                · -- the builder accepts the dump
                  simp only [not_or, Bool.not_eq_true, Bool.not_eq_true'] at g1 g2
                  have hnameOk : nameOk kvs = true := by
                    have := g1.2.2; revert this; cases nameOk kvs <;> simp
                  have hname' : nameOk (qDump names entry kvs) = true := by
                    unfold nameOk at hnameOk ⊢
                    cases hl : lookup k!"name" kvs with
                    | none => simp [hl] at hnameOk
                    | some v =>
                      cases v with
                      | str s =>
                        simp only [hl] at hnameOk
                        rw [lookup_qDump_plain_keep names nok.nodup entry kvs _ eo.noName nok.hasName nok.keepName
                          _ hl (by simpa [truthy] using hnameOk)]
                        exact hnameOk
                      | _ => simp [hl] at hnameOk
                  have ht := hasKey_qDump_false names nok.nodup entry kvs _ eo.noTrigger g2.1
                  have hc := hasKey_qDump_false names nok.nodup entry kvs _ eo.noChildren g2.2.1
                  have hch := hasKey_qDump_false names nok.nodup entry kvs _ eo.noChoices g2.2.2
                  have hm := mergeOk_qDump names entry kvs eo (by revert g3; cases mergeOk entry kvs <;> simp)
                  unfold questionFromJson
                  simp only [g1.1, g1.2.1, hname', ht, hc, hch, hentry, hm, htag, Bool.false_eq_true, or_self,
                    Bool.not_true, if_false, false_or]
                  rw [if_neg g4]
                  have g5' : ¬ (cfg.selectTags.contains tag = true ∧
                      (!decide (isTruthyAt k!"itemset" (qDump names entry kvs) = true ∨
                        isTruthyAt k!"list_name" (qDump names entry kvs) = true)) = true) := by
                    intro ⟨hs, hb⟩
                    apply g5
                    refine ⟨hs, ?_⟩
                    have hn2 : names = cfg.selectNames := by rw [← hnames, if_pos hs]
                    simp only [Bool.not_eq_true', decide_eq_false_iff_not, not_or, Bool.not_eq_true] at hb ⊢
                    constructor
                    · cases hi : isTruthyAt k!"itemset" kvs with
                      | false => rfl
                      | true =>
                        have := isTruthyAt_qDump names nok.nodup entry kvs _ eo.noItemset
                          (by rw [hn2]; exact ok.sItemset) (by rw [hn2]; exact ok.keepItemset) hi
                        rw [this] at hb; exact absurd hb.1 (by simp)
                    · cases hi : isTruthyAt k!"list_name" kvs with
                      | false => rfl
                      | true =>
                        have := isTruthyAt_qDump names nok.nodup entry kvs _ eo.noListName
                          (by rw [hn2]; exact ok.sListName) (by rw [hn2]; exact ok.keepListName) hi
                        rw [this] at hb; exact absurd hb.2 (by simp)
                  rw [if_neg g5']
                  simp only [hnames]
                · intro y hy
                  rw [toJson_question_eq names nok.noParent entry _ eo y hy,
                    toJson_question_eq names nok.noParent entry kvs eo y hy,
                    qDump_idem names nok.nodup entry kvs eo]


theorem mem_of_lookup' {β : Type} (k : Str) (d : List (Str × β)) (v : β) (h : lookup k d = some v) : (k, v) ∈ d := by
  induction d with
  | nil => simp [lookup] at h
  | cons kv rest ih =>
    cases kv with
    | mk k' v' =>
      simp only [lookup] at h
      by_cases e : k = k'
      · subst e; simp only [if_true, Option.some.injEq] at h; subst h; simp
      · simp only [e, if_false] at h; simp [ih h]

/-- `QOk` from a check of every entry of the table -/
theorem QOk.of_all (cfg : Cfg) (q : NamesOk cfg.questionNames) (s : NamesOk cfg.selectNames)
    (h1 : k!"itemset" ∈ cfg.selectNames) (h2 : k!"list_name" ∈ cfg.selectNames)
    (h3 : k!"itemset" ∉ allDelete .question cfg.selectNames [] [])
    (h4 : k!"list_name" ∉ allDelete .question cfg.selectNames [] [])
    (hall : ∀ e ∈ cfg.qtd, EntryOk e.2) : QOk cfg :=
  ⟨q, s, h1, h2, h3, h4, fun t entry h => hall (t, entry) (mem_of_lookup' t cfg.qtd entry h)⟩

end Pyxv.ToJson
