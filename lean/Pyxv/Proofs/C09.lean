import Pyxv.Proofs.ChoicesLemmas
/-!
# C09 — choice lists survive intact and selects are wired to their own list

Property theorems about `Pyxv.Choices` (model) against `Pyxv.Choices.Spec` (what the property demands).
All statements hold for every input (lists of any size, any strings); nothing here is bounded.
-/
namespace Pyxv.C09
open Pyxv Pyxv.Rows Pyxv.Choices

/-! ## facts about the tables regenerated from the source (re-checked on every run) -/

theorem ext_table : Pyxv.Gen.externalInstanceExtensions = [".csv", ".geojson", ".xml"] := by decide
theorem external_instances_table :
    Pyxv.Gen.externalInstances = ["calculate", "constraint", "readonly", "relevant", "required"] := by decide
theorem itemset_refs_table :
    Pyxv.Gen.itemsetRefs = [("value", "name"), ("label", "label"), ("value_geojson", "id"),
      ("label_geojson", "title"), ("last_saved", "__last-saved")] := by decide
theorem or_other_table : Pyxv.Gen.orOtherChoice = [("name", "other"), ("label", "Other")] := by decide

/-! ## lists are grouped without loss, merge or reordering -/

/-- The rows filed under list `l` are exactly the sheet's rows naming `l`, in sheet order, with
    multiplicity, each without its `list_name` cell — for every sheet. -/
theorem group_preserves (key l : Str) (rows : List Cells) :
    (lookup l (groupByKey key rows)).getD [] = Spec.listRows key l rows := by
  have := fold_group key l rows []
  simpa [groupByKey, lookup] using this

example : (lookup (c!"a") (groupByKey (c!"k")
    [[(c!"k", c!"a"), (c!"n", c!"1")], [(c!"k", c!"b"), (c!"n", c!"2")], [(c!"n", c!"x")], [(c!"n", c!"3"), (c!"k", c!"a")]])).getD []
    = [[(c!"n", c!"1")], [(c!"n", c!"3")]] := by decide

/-- Two lists are never merged into one entry, nor one list split over two. -/
theorem group_keys_nodup (key : Str) (rows : List Cells) : ((groupByKey key rows).map (·.1)).Nodup := by
  apply keys_nodup_fold; simp

/-- The lists come in the order in which their names first occur on the sheet. -/
theorem group_keys_order (key : Str) (rows : List Cells) :
    (groupByKey key rows).map (·.1) = Spec.listNames key rows := by
  have := keys_fold key rows []
  simp only [List.map_nil] at this
  rw [groupByKey, this, foldl_appendNew]
  simp [Spec.listNames]

example : (groupByKey c!"k" [[(c!"k", c!"b")], [(c!"k", c!"a")], [(c!"n", c!"x")], [(c!"k", c!"b")]]).map (·.1) = [c!"b", c!"a"] := by
  decide +kernel

/-- End to end: the options of list `l` are the sheet's rows of `l`, in order, each read by `choiceOf`. -/
theorem choices_of_list (cols : List Str) (l : Str) (rows : List Cells) :
    (lookup l (choicesOf cols rows)).getD [] = (Spec.listRows listKey l rows).map (choiceOf (badHeaders cols)) := by
  unfold choicesOf
  rw [lookup_map_snd (List.map (choiceOf (badHeaders cols))) l (groupByKey listKey rows)]
  have := group_preserves listKey l rows
  cases h : lookup l (groupByKey listKey rows) with
  | none => simp [h] at this; simp [← this]
  | some v => simp [h] at this; simp [this]

/-! ## instance items -/

/-- The instance of a list has one item per choice, in order; item `i` is `itemOf` of choice `i`: the
    `itextId` (when the list needs itext), the name, the plain label (otherwise), then every extra
    column in column order. -/
theorem instance_items (l : Str) (cs : List Choice) :
    (staticInst l cs).items.length = cs.length ∧
    ∀ i, (staticInst l cs).items[i]? = cs[i]?.map (itemOf (requiresItext cs) l i) := by
  refine ⟨by simp [staticInst, itemsFrom_length], fun i => ?_⟩
  have := itemsFrom_get (requiresItext cs) l cs 0 i
  simpa [staticInst] using this

/-- extra columns keep their column order: they are a filter of the row's cells -/
theorem extras_in_column_order (bad : List Str) (row : Cells) :
    (choiceOf bad row).extras = row.filter (fun kv => isExtraKey bad kv.1) := rfl

example : (staticInst (c!"l") [choiceOf [] [(c!"name", c!"a"), (c!"label", c!"A"), (c!"x", c!"1"), (c!"w", c!"2")],
                               choiceOf [] [(c!"name", c!"b"), (c!"w", c!"3")]]).items
    = [[(c!"name", c!"a"), (c!"label", c!"A"), (c!"x", c!"1"), (c!"w", c!"2")], [(c!"name", c!"b"), (c!"w", c!"3")]] := by decide

/-! ## instance ids, external sources -/

/-- The emitted instances have pairwise distinct ids. -/
theorem instance_ids_nodup (is out : List Inst) (h : emitInsts [] is = some out) :
    (out.map (·.name)).Nodup := (emit_inv is [] out h).1

/-- Only instances the form names are emitted, in the order in which it names them. -/
theorem instances_sublist (is out : List Inst) (h : emitInsts [] is = some out) : out.Sublist is :=
  (emit_inv is [] out h).2.2

/-- Every source the form names (pulldata file, select-from-file, xml-external / csv-external row, last-saved,
    choice list) is declared by an emitted instance of that id and that URI — and by `instance_ids_nodup`
    by exactly one. -/
theorem external_declared_once (is out : List Inst) (h : emitInsts [] is = some out) :
    ∀ i ∈ is, ∃ o ∈ out, o.name = i.name ∧ o.src = i.src := by
  intro i hi
  cases emit_declares is [] out h i hi with
  | inl h1 => exact h1
  | inr h2 => obtain ⟨p, hp, _⟩ := h2; simp [findSeen] at hp

example : emitInsts [] [pulldataInst (c!"pd"), externalInst (c!"x") (c!"xml-external"), pulldataInst (c!"pd")]
    = some [pulldataInst (c!"pd"), externalInst (c!"x") (c!"xml-external")] := by decide

/-- the same id with a different URI is rejected -/
example : emitInsts [] [pulldataInst (c!"x"), externalInst (c!"x") (c!"xml-external")] = none := by decide

/-- the conventional URIs -/
theorem uri_scheme (f n : Str) :
    (pulldataInst f).src = some (c!"jr://file-csv/" ++ f ++ c!".csv") ∧
    (externalInst n c!"xml-external").src = some (c!"jr://file/" ++ n ++ c!".xml") ∧
    (externalInst n c!"csv-external").src = some (c!"jr://file-csv/" ++ n ++ c!".csv") ∧
    lastSavedInst.src = some c!"jr://instance/last-saved" := by
  refine ⟨rfl, ?_, ?_, rfl⟩ <;> simp [externalInst, splitOnChar]

example : (fromFileInst (c!"cities.csv")).map (·.src) = some (some (c!"jr://file-csv/cities.csv")) := by decide
example : (fromFileInst (c!"g.geojson")).map (fun i => (i.name, i.src)) = some (c!"g", some (c!"jr://file/g.geojson")) := by decide

/-- Whenever any element reads `${last-saved#…}` — a question, select, external select or companion in its default,
    choice_filter or a logic bind, or a group / repeat in a logic bind — the last-saved instance is declared with the
    conventional URI.  (Full: the former finding F47 is repaired by a1c327a, its guard is gone.) -/
theorem last_saved_declared (es : List Elem) (lists : List (Str × List Choice)) (out : List Inst)
    (h : emitInsts [] (allInsts es lists) = some out) (hl : (anyLastSaved es || secLastSaved es) = true) :
    ∃ o ∈ out, o.name = lastSavedInst.name ∧ o.src = some c!"jr://instance/last-saved" := by
  have hm : lastSavedInst ∈ allInsts es lists := by
    simp only [allInsts, hl, if_true]; simp
  obtain ⟨o, ho, hn, hs⟩ := external_declared_once _ out h lastSavedInst hm
  exact ⟨o, ho, hn, by rw [hs]; rfl⟩

/-- a group whose `relevant` reads last-saved, nothing else does -/
example : let es := [Elem.sec c!"g" [(c!"bind::relevant", c!"${last-saved#q} = 'a'")]]
    anyLastSaved es = false ∧ secLastSaved es = true ∧ (allInsts es []).map (·.name) = [c!"__last-saved"] := by decide +kernel

example : anyLastSaved [Elem.sel c!"s" [c!"s"] [] [(c!"choice_filter", c!"a = ${last-saved#q}")] c!"select one external" c!"towns" false] = true := by
  decide +kernel

/-! ## … through to the document: ids of the rendered `<instance>` elements -/

open Pyxv.Xml in
/-- The `<model>` element holding the emitted instances between any other element children that carry no
    instance id (itext, the primary instance, binds …), written by the compact writer and read back by an XML
    reader: the ids of its `<instance id=…>` children are the emitted instances' names, in order, pairwise
    distinct.  `hwf` is C01's well-formedness guard (names are XML names, text and attribute characters are
    XML characters without TAB / CR / LF in attribute values). -/
theorem document_ids_unique (is out : List Inst) (h : emitInsts [] is = some out)
    (attrs : List (Str × Str)) (pre post : List Node)
    (hpre : ∀ k ∈ pre, isElem k = true) (hpost : ∀ k ∈ post, isElem k = true)
    (npre : pre.filterMap instanceId = []) (npost : post.filterMap instanceId = [])
    (hwf : (Node.elem c!"model" attrs (pre ++ out.map instNode ++ post)).WF = true) :
    ∃ doc, parseDoc (renderDoc false (.elem c!"model" attrs (pre ++ out.map instNode ++ post))) = some doc ∧
      instanceIds doc = out.map (·.name) ∧ (instanceIds doc).Nodup := by
  refine ⟨_, render_parses_compact _ hwf rfl, ?_, ?_⟩
  · rw [instanceIds_expected]
    · rw [List.filterMap_append, List.filterMap_append, npre, npost, ids_instNodes]; simp
    · intro k hk
      simp only [List.mem_append, List.mem_map] at hk
      rcases hk with (hk | ⟨i, _, rfl⟩) | hk
      · exact hpre k hk
      · exact isElem_instNode i
      · exact hpost k hk
  · rw [instanceIds_expected]
    · rw [List.filterMap_append, List.filterMap_append, npre, npost, ids_instNodes]
      simpa using instance_ids_nodup is out h
    · intro k hk
      simp only [List.mem_append, List.mem_map] at hk
      rcases hk with (hk | ⟨i, _, rfl⟩) | hk
      · exact hpre k hk
      · exact isElem_instNode i
      · exact hpost k hk

/-- the rendered id of an instance element is the instance's name -/
theorem rendered_id (i : Inst) : instanceId (instNode i) = some i.name := instanceId_instNode i

example : instText (pulldataInst c!"pd") = c!"<instance id=\"pd\" src=\"jr://file-csv/pd.csv\"/>" := by decide +kernel
example : instText (staticInst c!"l" [choiceOf [] [(c!"name", c!"a"), (c!"label", c!"A & b")]])
    = c!"<instance id=\"l\"><root><item><name>a</name><label>A &amp; b</label></item></root></instance>" := by decide +kernel
example : (Xml.Node.elem c!"model" [] ([pulldataInst c!"pd", staticInst c!"l" []].map instNode)).WF = true := by decide +kernel

/-! ## guards discharged from the data: well-formedness of the instance elements, list names from cells -/

section
open Pyxv.Xml

/-- data-level well-formedness of one emitted instance: id and URI survive attribute-value normalisation, the
    item children are XML names (the choices sheet's extra column headers) and the cell texts XML characters -/
def instOk (i : Inst) : Bool :=
  i.name.all attrCharOk && (match i.src with | some u => u.all attrCharOk | none => true) &&
  i.items.all fun it => it.all fun kv => isName kv.1 && kv.2.all textCharOk

theorem WFKids_map {α} (g : α → Node) (l : List α) (h : ∀ x ∈ l, (g x).WF = true) : WFKids (l.map g) = true := by
  induction l with
  | nil => simp [WFKids]
  | cons x rest ih =>
    simp only [List.map_cons, WFKids, Bool.and_eq_true]
    exact ⟨h x (by simp), ih (fun y hy => h y (by simp [hy]))⟩

theorem WFKids_append (a b : List Node) : WFKids (a ++ b) = (WFKids a && WFKids b) := by
  induction a with
  | nil => simp [WFKids]
  | cons x rest ih => simp [WFKids, ih, Bool.and_assoc]

theorem wf_instNode (i : Inst) (h : instOk i = true) : (instNode i).WF = true := by
  simp only [instOk, Bool.and_eq_true] at h
  obtain ⟨⟨hn, hs⟩, hi⟩ := h
  unfold instNode
  cases hsrc : i.src with
  | some u =>
    rw [hsrc] at hs
    have h1 : isName c!"instance" = true := by decide
    have h2 : isName c!"id" = true := by decide
    have h3 : isName c!"src" = true := by decide
    simp [Node.WF, WFKids, attrsWF, attrKeysNodup, h1, h2, h3, hn, hs]
  | none =>
    have h1 : isName c!"instance" = true := by decide
    have h2 : isName c!"id" = true := by decide
    have h4 : isName c!"root" = true := by decide
    have h5 : isName c!"item" = true := by decide
    have hk : WFKids (i.items.map fun it => Node.elem c!"item" [] (it.map fun kv => Node.elem kv.1 [] [.text false kv.2])) = true := by
      apply WFKids_map
      intro it hit
      have hit' := List.all_eq_true.mp hi it hit
      simp only [Node.WF, h5, attrsWF, attrKeysNodup, List.all_nil, Bool.and_self, Bool.true_and]
      apply WFKids_map
      intro kv hkv
      have := List.all_eq_true.mp hit' kv hkv
      simp only [Bool.and_eq_true] at this
      simp [Node.WF, WFKids, attrsWF, attrKeysNodup, this.1, this.2]
    simp [Node.WF, WFKids, attrsWF, attrKeysNodup, h1, h2, h4, hn, hk]

/-- the list names are list-name cells of the sheet: a condition on those cells holds for every list name -/
theorem list_names_from_cells (key : Str) (rows : List Cells) (P : Str → Prop)
    (h : ∀ r ∈ rows, ∀ v, lookup key r = some v → P v) : ∀ l ∈ Spec.listNames key rows, P l := by
  have hsub : ∀ gs : List Str, ∀ l ∈ Spec.dedup gs, l ∈ gs := by
    intro gs
    induction gs with
    | nil => intro l hl; simp [Spec.dedup] at hl
    | cons g rest ih =>
      intro l hl
      simp only [Spec.dedup, List.mem_cons, List.mem_filter] at hl
      rcases hl with rfl | ⟨hl, _⟩
      · simp
      · exact List.mem_cons_of_mem _ (ih l hl)
  intro l hl
  have := hsub _ l hl
  obtain ⟨r, hr, hv⟩ := List.mem_filterMap.mp this
  exact h r hr l hv

/-- `document_ids_unique` with its well-formedness guard discharged for the instance elements from the data
    (`instOk` of every emitted instance); what remains is the well-formedness of the *other* children of `<model>`. -/
theorem document_ids_unique_data (is out : List Inst) (h : emitInsts [] is = some out)
    (attrs : List (Str × Str)) (pre post : List Node)
    (hpre : ∀ k ∈ pre, isElem k = true) (hpost : ∀ k ∈ post, isElem k = true)
    (npre : pre.filterMap instanceId = []) (npost : post.filterMap instanceId = [])
    (hattrs : attrsWF attrs = true) (wpre : WFKids pre = true) (wpost : WFKids post = true)
    (hok : ∀ i ∈ out, instOk i = true) :
    ∃ doc, parseDoc (renderDoc false (.elem c!"model" attrs (pre ++ out.map instNode ++ post))) = some doc ∧
      instanceIds doc = out.map (·.name) ∧ (instanceIds doc).Nodup := by
  apply document_ids_unique is out h attrs pre post hpre hpost npre npost
  have hm : isName c!"model" = true := by decide
  simp only [Node.WF, hm, hattrs, WFKids_append, wpre, wpost, Bool.true_and, Bool.and_true]
  exact WFKids_map _ _ (fun i hi => wf_instNode i (hok i hi))

example : instOk (staticInst c!"l" [choiceOf [] [(c!"name", c!"a"), (c!"label", c!"A  & b"), (c!"x", c!"1")]]) = true := by
  decide +kernel
example : instOk (staticInst c!"a\tb" []) = false := by decide +kernel

end

/-! ## search(): inline items only -/

/-- A list gets a static instance exactly when no `search()` select consumes it. -/
theorem search_inline_only (search : List Str) (lists : List (Str × List Choice)) :
    (∀ i ∈ staticInsts search lists, ¬ search.contains i.name) ∧
    (∀ g ∈ lists, ¬ search.contains g.1 → staticInst g.1 g.2 ∈ staticInsts search lists) := by
  constructor
  · intro i hi
    simp only [staticInsts, List.mem_map, List.mem_filter] at hi
    obtain ⟨g, ⟨_, hg⟩, rfl⟩ := hi
    simpa [staticInst] using hg
  · intro g hg hn
    simp only [staticInsts, List.mem_map, List.mem_filter]
    exact ⟨g, ⟨hg, by simpa using hn⟩, rfl⟩

example : (staticInsts [c!"s"] [(c!"s", []), (c!"t", [])]).map (·.name) = [c!"t"] := by decide +kernel

/-! ## the itemset decision table -/

/-- `randomize(… [, seed])` is applied exactly when `randomize=true`, with the seed verbatim or substituted -/
theorem wrap_eq (q : SelIn) (n : Str) : wrapRandomize q.params q.seedSub n =
    if lookup c!"randomize" q.params = some c!"true" then c!"randomize(" ++ n ++ Spec.seedArg q ++ c!")" else n := by
  unfold wrapRandomize Spec.seedArg
  by_cases hr : lookup c!"randomize" q.params = some c!"true"
  · have he : q.params.isEmpty = false := by
      cases hp : q.params with
      | nil => rw [hp] at hr; simp [lookup] at hr
      | cons _ _ => rfl
    cases hs : lookup c!"seed" q.params with
    | none => simp [he, hr]
    | some s => by_cases hd : startsWith s c!"${" <;> simp [he, hr, hd, List.append_assoc]
  · simp [hr]

/-- For every itemset / filter / seed / parameter strings: the nodeset that `build_xml` assembles is the
    decision table's. -/
theorem itemset_nodeset (q : SelIn) : (itemsetOf q).nodeset = Spec.nodeset q := by
  unfold itemsetOf Spec.nodeset Spec.sourceOf
  simp only [wrap_eq]
  by_cases hp : hasBraceRef q.itemset
  · by_cases hf : q.filter.isEmpty <;> simp [hp, hf, Spec.base, Spec.pred]
  · by_cases hx : isFileExt (splitext q.itemset).2 <;> simp [hp, hx, Spec.base, Spec.pred]

/-- … and so is the value ref. -/
theorem itemset_value (q : SelIn) : (itemsetOf q).value = Spec.valueRef q := by
  unfold itemsetOf Spec.valueRef Spec.sourceOf
  by_cases hp : hasBraceRef q.itemset
  · simp [hp]
  · by_cases hx : isFileExt (splitext q.itemset).2
    · simp [hp, hx]
    · have hg : (splitext q.itemset).2 ≠ c!".geojson" := by
        intro h; apply hx; rw [h]; decide
      simp [hp, hx, hg]

/-- … and so is the label ref: `jr:itext(itextId)` exactly when the list named in the type cell keeps its
    labels in itext (`q.choicesItext` is that flag: since commit 2ee52f9 the list is looked up on the survey,
    so randomized selects see it too — the former finding F39 and its guard are gone). -/
theorem itemset_label (q : SelIn) : (itemsetOf q).label = Spec.labelRef q q.choicesItext := by
  unfold itemsetOf Spec.labelRef Spec.sourceOf
  by_cases hp : hasBraceRef q.itemset
  · simp [hp]
  · by_cases hx : isFileExt (splitext q.itemset).2
    · simp [hp, hx]
    · have hg : (splitext q.itemset).2 ≠ c!".geojson" := by
        intro h; apply hx; rw [h]; decide
      by_cases hc : q.choicesItext <;> simp [hp, hx, hg, hc]

/-- a randomized select on an itext list -/
example : (itemsetOf { itemset := c!"sizes", filter := [], params := [(c!"randomize", c!"true")], seedSub := [],
                       prevSub := [], choicesItext := true }).label = c!"jr:itext(itextId)" := by decide +kernel

example : itemsetOf { itemset := c!"colors", filter := c!"x= /data/c1 ", params := [(c!"randomize", c!"true"), (c!"seed", c!"4")],
                      seedSub := [], prevSub := [], choicesItext := false }
    = { nodeset := c!"randomize(instance('colors')/root/item[x= /data/c1 ], 4)", value := c!"name", label := c!"label" } := by decide +kernel
example : itemsetOf { itemset := c!"g.geojson", filter := [], params := [], seedSub := [], prevSub := [], choicesItext := false }
    = { nodeset := c!"instance('g')/root/item", value := c!"id", label := c!"title" } := by decide +kernel
example : itemsetOf { itemset := c!"${rq}", filter := [], params := [], seedSub := [], prevSub := c!"/data/r/rq", choicesItext := false }
    = { nodeset := c!"/data/r[./rq != '']", value := c!"rq", label := c!"rq" } := by decide +kernel

/-! ## or_other -/

/-- or_other leaves a list that already has a choice `other` alone and otherwise appends exactly one. -/
theorem or_other_adds_one (cs : List Choice) :
    (hasOther cs = true → addOtherTo cs = cs) ∧
    (hasOther cs = false → ∃ c, addOtherTo cs = cs ++ [c] ∧ c.name = otherName ∧ c.extras = [] ∧ c.media = false) ∧
    hasOther (addOtherTo cs) = true ∧ addOtherTo (addOtherTo cs) = addOtherTo cs := by
  by_cases h : hasOther cs
  · simp [addOtherTo, h]
  · have h' : hasOther cs = false := by simpa using h
    have hh : hasOther (cs ++ [otherChoice (cs.any fun c => isDictLbl c.label)]) = true := by
      simp [hasOther, otherChoice]
    refine ⟨by simp [h'], fun _ => ⟨otherChoice (cs.any fun c => isDictLbl c.label), by simp [addOtherTo, h'], rfl, rfl, rfl⟩, ?_, ?_⟩
    · simp [addOtherTo, h', hh]
    · simp [addOtherTo, h', hh]

/-- or_other touches only the list named by the select. -/
theorem or_other_only_own_list (l l' : Str) (lists : List (Str × List Choice)) :
    lookup l' (addOther l lists) = if l' = l then (lookup l' lists).map addOtherTo else lookup l' lists := by
  induction lists with
  | nil => simp [addOther, lookup]
  | cons p rest ih =>
    obtain ⟨k, cs⟩ := p
    by_cases hk : k = l
    · subst hk
      by_cases h : l' = k <;> simp [addOther, lookup, h]
    · by_cases h : l' = k
      · subst h
        have : ¬ l' = l := hk
        simp [addOther, lookup, hk]
      · simp [addOther, lookup, hk, h, ih]

example : (addOtherTo [choiceOf [] [(c!"name", c!"a"), (c!"label", c!"A")]]).map (·.name) = [c!"a", c!"other"] := by decide +kernel

/-- the companion question of an or_other select -/
example : ((walk [] [[(c!"type", c!"select_one l or_other"), (c!"name", c!"c")]]).toOption.map fun p => p.2.map (·.name))
    = some [c!"c", c!"c_other"] := by decide +kernel

/-! ## itemsets CSV -/

/-- Reading back what the writer wrote gives the rows, for all cell strings (quotes, commas, newlines). -/
theorem csv_roundtrip (rows : List (List Str)) : parseCsv (csvText rows) = rows := parse_csvText rows

/-- The itemsets CSV reproduces the external_choices sheet cell for cell under its column headers:
    first the header, then one row per sheet row with the cell of each header (empty when absent). -/
theorem csv_cells (header : List Str) (rows : List Cells) :
    parseCsv (itemsetsCsv header rows) = header :: rows.map (fun r => header.map fun h => (lookup h r).getD []) := by
  simp [itemsetsCsv, parse_csvText, rowByHeader]

example : parseCsv (itemsetsCsv [c!"list_name", c!"name", c!"a"]
    [[(c!"list_name", c!"e"), (c!"a", c!"x\"y,\nz")], [(c!"name", c!"n"), (c!"list_name", c!"e")]])
    = [[c!"list_name", c!"name", c!"a"], [c!"e", [], c!"x\"y,\nz"], [c!"e", c!"n", []]] := by decide +kernel

/-! ## from the raw cells: `parameters` parsing and header dealiasing inside the model -/

theorem startsWith_append (p k : Str) : startsWith (p ++ k) p = true := by
  induction p with
  | nil => cases k <;> simp [startsWith]
  | cons c cs ih => simp [startsWith, ih]

theorem paramsOf_append (a b : Cells) : paramsOf (a ++ b) = paramsOf a ++ paramsOf b := by
  simp [paramsOf, List.filterMap_append]

theorem paramsOf_prefixed (ps : Cells) :
    paramsOf (ps.map fun kv => (c!"parameters::" ++ kv.1, kv.2)) = ps := by
  induction ps with
  | nil => rfl
  | cons kv rest ih =>
    have h := startsWith_append c!"parameters::" kv.1
    simp only [paramsOf, List.map_cons, List.filterMap_cons] at ih ⊢
    rw [h]
    simp only [if_true]
    rw [ih]
    simp

/-- The parameters a select sees are exactly `parameters_generic.parse` of the raw `parameters` cell
    (`Pyxv.Controls.parseParams`), in the order of the cell. -/
theorem params_from_raw_cell (r r' : Cells) (raw : Str) (ps : Cells)
    (h1 : lookup c!"parameters" r = some raw) (hA : Controls.isAscii raw = true)
    (h2 : Controls.parseParams raw = some ps) (h3 : expandParams r = some r')
    (h4 : paramsOf (r.filter fun kv => kv.1 ≠ c!"parameters") = []) :
    paramsOf r' = ps := by
  simp only [expandParams, h1, hA, h2] at h3
  simp at h3
  subst h3
  simp at h4
  have hp := paramsOf_prefixed ps
  simp at hp
  rw [paramsOf_append, h4, hp]
  rfl

/-- The itemset nodeset stated from the raw `parameters` cell: for every raw cell that parses, the nodeset is
    the decision table's for the parsed parameters. -/
theorem itemset_nodeset_raw (r r' : Cells) (raw : Str) (ps : Cells) (q : SelIn)
    (h1 : lookup c!"parameters" r = some raw) (hA : Controls.isAscii raw = true)
    (h2 : Controls.parseParams raw = some ps) (h3 : expandParams r = some r')
    (h4 : paramsOf (r.filter fun kv => kv.1 ≠ c!"parameters") = [])
    (hq : q.params = paramsOf r') :
    (itemsetOf q).nodeset = Spec.nodeset { q with params := ps } := by
  have := params_from_raw_cell r r' raw ps h1 hA h2 h3 h4
  rw [itemset_nodeset]
  congr 1
  cases q; simp_all

example : (expandParams [(c!"type", c!"select_one l"), (c!"parameters", c!"randomize=true, seed=4")]).map paramsOf
    = some [(c!"randomize", c!"true"), (c!"seed", c!"4")] := by decide +kernel

/-! header dealiasing of the columns this slice reads (alias tables regenerated from the source) -/
theorem choices_headers_canon :
    canonKey false Headers.listAliases Headers.listColumns c!"list_name" = some c!"list name" ∧
    canonKey false Headers.listAliases Headers.listColumns c!"list name" = some c!"list name" ∧
    canonKey false Headers.listAliases Headers.listColumns c!"image" = some c!"media::image" ∧
    canonKey true Headers.listAliases Headers.listColumns c!"label::en" = some c!"label::en" ∧
    canonKey false Headers.listAliases Headers.listColumns c!"my_col" = some c!"my_col" := by decide +kernel

theorem survey_headers_canon :
    canonKey false Headers.surveyAliases Headers.surveyColumns c!"relevant" = some c!"bind::relevant" ∧
    canonKey false Headers.surveyAliases Headers.surveyColumns c!"calculation" = some c!"bind::calculate" ∧
    canonKey false Headers.surveyAliases Headers.surveyColumns c!"read_only" = some c!"bind::readonly" ∧
    canonKey false Headers.surveyAliases Headers.surveyColumns c!"appearance" = some c!"control::appearance" ∧
    canonKey false Headers.surveyAliases Headers.surveyColumns c!"choice_filter" = some c!"choice_filter" ∧
    canonKey false Headers.surveyAliases Headers.surveyColumns c!"parameters" = some c!"parameters" := by decide +kernel

/-! ## cleaning of the choices / external_choices cells -/

theorem smart_quotes_table :
    Pyxv.Gen.smartQuotes = [("‘", "'"), ("’", "'"), ("“", "\""), ("”", "\"")] := by decide

/-- Cleaning keeps every column where it is and touches no character other than the four smart quotes:
    whitespace inside a cell (runs of spaces, tabs, newlines, leading / trailing blanks) is preserved. -/
theorem clean_preserves (s : Str) (h : ∀ c ∈ s, smartTable.find? (fun p => p.1 = c) = none) : cleanCell s = s := by
  induction s with
  | nil => rfl
  | cons c cs ih =>
    have hc := h c (by simp)
    have := ih (fun d hd => h d (by simp [hd]))
    simp [cleanCell, cleanChar, hc] at this ⊢
    exact this

theorem clean_keys (r : Cells) : (cleanRow r).map (·.1) = r.map (·.1) := by
  simp [cleanRow]

theorem clean_length (s : Str) : (cleanCell s).length = s.length := by simp [cleanCell]

example : cleanCell c!"a  b\t\n c " = c!"a  b\t\n c " := by decide +kernel
example : cleanCell ['“', 'x', '”'] = c!"\"x\"" := by decide +kernel

end Pyxv.C09
