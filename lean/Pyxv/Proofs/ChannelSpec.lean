import Pyxv.Model.Channel
import Pyxv.Proofs.XmlSpec
/-!
# Specification-level definitions for the text channels (C06)

Only definitions; the theorems are in `C06.lean`, helper lemmas in `ChannelLemmas.lean`.
-/
namespace Pyxv.Chan
open Pyxv.Xml

/-! ## Specification side: what an XML reader must find -/

/-- a cell seen as literal text chunks interleaved with references:
    `t0 ${n1} t1 ${n2} t2 …` = `Cell.mk t0 [(n1, t1), (n2, t2), …]` -/
structure Cell where
  head : Str
  tail : List (Str × Str)
deriving Repr

def refMarkup (n : Str) : Str := '$' :: '{' :: n ++ ['}']

def Cell.tailText : List (Str × Str) → Str
  | [] => []
  | (n, t) :: rest => refMarkup n ++ t ++ Cell.tailText rest

/-- the string typed into the sheet -/
def Cell.text (c : Cell) : Str := c.head ++ Cell.tailText c.tail

def outputNode (v : Str) : Node := .elem "output".toList [("value".toList, v)] []

/-- a text chunk as the reader reports it: absent when empty -/
def chunk (stock : Bool) (s : Str) : List Node := if s.isEmpty then [] else [.text stock s]

/-- `_var_repl_function` applied to what stands between `${` and `}`: a leading `last-saved#` is the
    marker of `BRACKETED_TAG_REGEX`'s first group, the rest is the name -/
def varReplName (refs : List (Str × Str)) (n : Str) : Option Str :=
  if startsWith n lastSavedTag then varRepl refs true (n.drop lastSavedTag.length) else varRepl refs false n

/-- the references of a cell resolved through `_var_repl_function`: `(value of the output, text after it)` -/
def resolve (refs : List (Str × Str)) : List (Str × Str) → Option (List (Str × Str))
  | [] => some []
  | (n, t) :: rest =>
    match varReplName refs n, resolve refs rest with
    | some v, some items => some ((v, t) :: items)
    | _, _ => none

/-- the string `insert_output_values` must hand to the re-parse: text escaped, references as markup -/
def itemsMarkup : List (Str × Str) → Str
  | [] => []
  | (v, t) :: rest => outputMarkup v ++ (escText t ++ itemsMarkup rest)

/-- the DOM children prescribed by a cell: text chunks (as data; line ends normalised by the re-parse)
    interleaved with exactly one `output` per reference, nothing else -/
def itemsKids (stock : Bool) : List (Str × Str) → List Node
  | [] => []
  | (v, t) :: rest => outputNode v :: (chunk stock (normEol t) ++ itemsKids stock rest)

def cellKids (stock : Bool) (head : Str) (items : List (Str × Str)) : List Node :=
  chunk stock (normEol head) ++ itemsKids stock items

/-- an attribute value after `insert_xpaths`: the literal chunks with each reference's xpath in its place -/
def itemsAttr : List (Str × Str) → Str
  | [] => []
  | (v, t) :: rest => v ++ (t ++ itemsAttr rest)

/-- `${` occurs in the string -/
def hasDollarBrace : Str → Bool
  | '$' :: '{' :: _ => true
  | _ :: r => hasDollarBrace r
  | [] => false

/-- literal text of a cell: XML characters, no `${` -/
def TextOk (t : Str) : Prop := hasDollarBrace t = false ∧ ∀ c ∈ t, isXmlChar c = true

/-- what stands between `${` and `}`, as `BRACKETED_TAG_REGEX` delimits it and `escape_text_for_xml`
    leaves it alone: no `}`, LF, `&`, `<`, `>` (every XML name, with or without `last-saved#`, qualifies) -/
def NameOk (n : Str) : Prop :=
  ∀ c ∈ n, c ≠ '}' ∧ c ≠ '\n' ∧ c ≠ '&' ∧ c ≠ '<' ∧ c ≠ '>'

/-- an xpath as pyxform builds it from validated names: no markup characters, no TAB/LF/CR -/
def ValOk (v : Str) : Prop :=
  ∀ c ∈ v, attrCharOk c = true ∧ c ≠ '&' ∧ c ≠ '<' ∧ c ≠ '>' ∧ c ≠ '"'

/-- the children of a text-bearing element written as ONE string: text as it is, an element as
    `\x00 attribute-values \x00` (for an `output`: its `value`); the check's oracle uses the same encoding -/
def flatKids : List Node → Str
  | [] => []
  | .text _ s :: r => s ++ flatKids r
  | .elem _ a _ :: r => Char.ofNat 0 :: ((a.map (·.2)).flatten ++ Char.ofNat 0 :: flatKids r)

/-- a cell written the same way: literal chunks (line ends normalised) and `\x00 xpath \x00` per reference -/
def flatItems : List (Str × Str) → Str
  | [] => []
  | (v, t) :: rest => Char.ofNat 0 :: (v ++ Char.ofNat 0 :: (normEol t ++ flatItems rest))

def flatCell (head : Str) (items : List (Str × Str)) : Str := normEol head ++ flatItems items

mutual
/-- tags and attribute names, nothing else -/
inductive Shape where
  | mk (tag : Str) (attrNames : List Str) (kids : List Shape)
end

mutual
def shape : Node → List Shape
  | .text _ _ => []
  | .elem t a ks => [.mk t (a.map (·.1)) (shapes ks)]
def shapes : List Node → List Shape
  | [] => []
  | k :: ks => shape k ++ shapes ks
end

end Pyxv.Chan
