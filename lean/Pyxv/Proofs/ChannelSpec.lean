import Pyxv.Model.Channel
import Pyxv.Proofs.XmlSpec
/-!
# Specification-level definitions for the text channels (C06)

Only definitions; the theorems are in `C06.lean`, helper lemmas in `ChannelLemmas.lean`.
-/
namespace Pyxv.Chan
open Pyxv.Xml

/-! ## Specification side: what an XML reader must find -/

/-- a cell seen as literal text chunks interleaved with references:
    `t0 ${n1} t1 ${n2} t2 …` = `Cell.mk t0 [(n1, t1), (n2, t2), …]` -/
structure Cell where
  head : Str
  tail : List (Str × Str)
deriving Repr

def refMarkup (n : Str) : Str := '$' :: '{' :: n ++ ['}']

def Cell.tailText : List (Str × Str) → Str
  | [] => []
  | (n, t) :: rest => refMarkup n ++ t ++ Cell.tailText rest

/-- the string typed into the sheet -/
def Cell.text (c : Cell) : Str := c.head ++ Cell.tailText c.tail

def outputNode (v : Str) : Node := .elem "output".toList [("value".toList, v)] []

/-- a text chunk as the reader reports it: absent when empty -/
def chunk (stock : Bool) (s : Str) : List Node := if s.isEmpty then [] else [.text stock s]

def Cell.tailKids (refs : List (Str × Str)) : List (Str × Str) → Option (List Node)
  | [] => some []
  | (n, t) :: rest =>
    match varRepl refs false n, Cell.tailKids refs rest with
    | some v, some ks => some (outputNode v :: chunk true (normEol t) ++ ks)
    | _, _ => none

/-- the DOM children the mixed channel must produce: the text chunks (as data, stock text nodes)
    interleaved with exactly one `output` per reference -/
def Cell.kids (refs : List (Str × Str)) (c : Cell) : Option (List Node) :=
  match Cell.tailKids refs c.tail with
  | some ks => some (chunk true (normEol c.head) ++ ks)
  | none => none

mutual
/-- tags and attribute names, nothing else -/
inductive Shape where
  | mk (tag : Str) (attrNames : List Str) (kids : List Shape)
end

mutual
def shape : Node → List Shape
  | .text _ _ => []
  | .elem t a ks => [.mk t (a.map (·.1)) (shapes ks)]
def shapes : List Node → List Shape
  | [] => []
  | k :: ks => shape k ++ shapes ks
end

end Pyxv.Chan
