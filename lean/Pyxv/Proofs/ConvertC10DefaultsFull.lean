import Pyxv.Proofs.ConvertC10DefaultsText
import Pyxv.Proofs.C10Form
/-!
# C10 for the end-to-end composition: the instance text of static defaults, no hypothesis left

`convertDoc` runs `Rows17.validate17` on the erased tree; `convertDoc_trace_val` keeps that step, `trace_paths_nodup`
turns it (through `C10F.paths_nodup`, proved for the C10 slice's own trees) into pairwise different question paths of
the mapped tree, which discharges the hypothesis of `convert_c10_defaults_text_partial`.
-/
namespace Pyxv.ConvertP
open Pyxv Pyxv.Form Pyxv.Rows Pyxv.Xml Pyxv.Asm Pyxv.Convert Pyxv.C01

/-- `convertDoc_trace` with the validation step kept -/
theorem convertDoc_trace_val (wb : Workbook) (doc : Node) (h : convertDoc wb = .ok doc) :
    ∃ f lists rows drows o ditems, Trace wb doc f lists rows drows o ditems ∧
      Rows17.validate17 f.name (withMeta rows [] o.items) = .ok () := by
  unfold convertDoc at h
  split at h
  · simp at h
  · rename_i f hf
    simp only [] at h
    split at h
    · simp at h
    · split at h
      · simp at h
      · rename_i ch hch
        split at h
        · simp at h
        · split at h
          · simp at h
          · split at h
            · simp at h
            · split at h
              · simp at h
              · simp at h
              · rename_i key hkey
                split at h
                · simp at h
                · rename_i rows hrows
                  split at h
                  · simp at h
                  · rename_i drows hdrows
                    split at h
                    · simp at h
                    · simp at h
                    · simp at h
                    · rename_i o ho
                      split at h
                      · simp at h
                      · rename_i hval
                        split at h
                        · simp at h
                        · rename_i ditems hdi
                          split at h
                          · simp at h
                          · rename_i hs
                            split at h
                            · simp at h
                            · rename_i hb
                              split at h
                              · simp at h
                              · rename_i hc
                                split at h
                                · simp at h
                                · rename_i htx
                                  split at h
                                  · rename_i hv
                                    simp only [Except.ok.injEq] at h
                                    refine ⟨f, _, rows, drows, o, ditems, ⟨hf, ⟨key, hkey, hrows⟩, hdrows, ho, hdi, ?_, ?_, htx, h.symm, ?_⟩, hval⟩
                                    · simpa using hb
                                    · simpa using hc
                                    · rw [← h]; exact hv
                                  · simp at h

#print axioms convertDoc_trace_val

open Pyxv.Rows17 in
theorem validate17_parts' (root : Str) (kids : List Item) (h : validate17 root kids = .ok ()) :
    validateEach17 kids = .ok () ∧ liftDup root kids = .ok () := by
  unfold validate17 at h
  cases kids with
  | nil => simp at h
  | cons k ks =>
    simp only [] at h
    cases he : validateEach17 (k :: ks) with
    | error e => rw [he] at h; simp at h
    | ok u =>
      rw [he] at h
      simp only [] at h
      cases hl : liftDup root (k :: ks) with
      | error e => rw [hl] at h; simp at h
      | ok u' => exact ⟨rfl, rfl⟩

theorem shape_toDefL_names : ∀ (ds : List DItem),
    (C10.shape (toDefL ds)).map Item.name = (Convert.eraseL ds).map Item.name
  | [] => by simp [toDefL, C10.shape, Convert.eraseL]
  | .q d p :: rest => by
    simp [toDefL, toDef, toQ, C10.shape, Convert.eraseL, Convert.erase, Item.name, shape_toDefL_names rest]
  | .sec .rep n b p ks :: rest => by
    simp [toDefL, toDef, C10.shape, Convert.eraseL, Convert.erase, Item.name, shape_toDefL_names rest]
  | .sec .group n b p ks :: rest => by
    simp [toDefL, toDef, C10.shape, Convert.eraseL, Convert.erase, Item.name, shape_toDefL_names rest]
  | .sec .loop n b p ks :: rest => by
    simp [toDefL, toDef, C10.shape, Convert.eraseL, Convert.erase, Item.name, shape_toDefL_names rest]

theorem firstDup_congr : ∀ (l l' : List Item) (seen : List Str), l.map Item.name = l'.map Item.name →
    firstDup seen l = firstDup seen l'
  | [], [], _, _ => rfl
  | [], _ :: _, _, h => by simp at h
  | _ :: _, [], _, h => by simp at h
  | a :: as, b :: bs, seen, h => by
    simp only [List.map_cons, List.cons.injEq] at h
    simp only [firstDup, h.1]
    split
    · rfl
    · exact firstDup_congr as bs _ h.2

theorem liftDup_congr (parent : Str) (l l' : List Item) (h : l.map Item.name = l'.map Item.name) :
    Rows17.liftDup parent l = Rows17.liftDup parent l' := by
  unfold Rows17.liftDup dupCheck
  rw [firstDup_congr l l' [] h]

open Pyxv.Rows17 in
theorem validateItem17_sec (ct : Ctl) (n : Str) (b : Bool) (kids : List Item) (hne : kids ≠ []) :
    validateItem17 (.sec ct n b kids) =
      (match validateEach17 kids with | .error e => .error e | .ok () => liftDup n kids) := by
  cases kids with
  | nil => exact absurd rfl hne
  | cons k ks => rfl

theorem shape_cons_sec (ct : Ctl) (n : Str) (b : Bool) (p : Pay) (ks rest : List DItem) :
    ∃ ct', C10.shape (toDefL (.sec ct n b p ks :: rest)) =
      Item.sec ct' n false (C10.shape (toDefL ks)) :: C10.shape (toDefL rest) := by
  cases ct
  · exact ⟨.group, by simp only [toDefL, toDef, C10.shape]⟩
  · exact ⟨.rep, by simp only [toDefL, toDef, C10.shape]⟩
  · exact ⟨.group, by simp only [toDefL, toDef, C10.shape]⟩

theorem shape_toDefL_ne (k : DItem) (ks : List DItem) : C10.shape (toDefL (k :: ks)) ≠ [] := by
  cases k with
  | q d p => simp [toDefL, toDef, C10.shape]
  | sec ct n b p kk =>
    obtain ⟨ct', h⟩ := shape_cons_sec ct n b p kk ks
    rw [h]; simp

open Pyxv.Rows17 in
/-- the repaired validation sees only names and nesting: the same verdict on the `Defaults` slice's shape -/
theorem validateEach17_shape : ∀ (ds : List DItem),
    validateEach17 (C10.shape (toDefL ds)) = validateEach17 (Convert.eraseL ds)
  | [] => by simp [toDefL, C10.shape, Convert.eraseL]
  | .q d p :: rest => by
    simp only [toDefL, toDef, C10.shape, Convert.eraseL, Convert.erase, validateEach17, validateItem17]
    exact validateEach17_shape rest
  | .sec ct n b p [] :: rest => by
    obtain ⟨ct', hs⟩ := shape_cons_sec ct n b p [] rest
    have h0 : C10.shape (toDefL []) = [] := by simp only [toDefL, C10.shape]
    have he : Convert.eraseL (.sec ct n b p [] :: rest) = Item.sec ct n b [] :: Convert.eraseL rest := by
      simp only [Convert.eraseL, Convert.erase]
    rw [hs, h0, he]
    simp only [validateEach17, validateItem17]
  | .sec ct n b p (k :: ks) :: rest => by
    have ih1 := validateEach17_shape (k :: ks)
    have ih2 := validateEach17_shape rest
    have hl : liftDup n (C10.shape (toDefL (k :: ks))) = liftDup n (Convert.eraseL (k :: ks)) :=
      liftDup_congr _ _ _ (shape_toDefL_names _)
    have e1 : Convert.eraseL (k :: ks) ≠ [] := by simp [Convert.eraseL]
    obtain ⟨ct', hs⟩ := shape_cons_sec ct n b p (k :: ks) rest
    have he : Convert.eraseL (.sec ct n b p (k :: ks) :: rest) =
        Item.sec ct n b (Convert.eraseL (k :: ks)) :: Convert.eraseL rest := by
      rw [Convert.eraseL, Convert.erase]
    rw [hs, he]
    simp only [validateEach17]
    rw [validateItem17_sec _ _ _ _ (shape_toDefL_ne k ks), validateItem17_sec _ _ _ _ e1, ih1, ih2, hl]

theorem toDefL_append (a b : List DItem) : toDefL (a ++ b) = toDefL a ++ toDefL b := by
  induction a with
  | nil => simp [toDefL]
  | cons x xs ih => simp [toDefL, ih]

theorem qwp_append (pre : List Str) (a b : List Defaults.El) :
    Defaults.qwp pre (a ++ b) = Defaults.qwp pre a ++ Defaults.qwp pre b := by
  induction a with
  | nil => simp [Defaults.qwp]
  | cons x xs ih => rw [List.cons_append, qwp_cons, ih, qwp_cons pre x xs, List.append_assoc]

theorem dWithMeta_prefix (root : Str) (rows : List Cells) (ds : List DItem) :
    ∃ tail, dWithMeta root rows ds = ds ++ tail := by
  unfold dWithMeta
  simp only []
  split
  · exact ⟨[], by simp⟩
  · exact ⟨_, rfl⟩

/-- **the question paths of a converted workbook are pairwise different** (from the `validate17` step) -/
theorem trace_paths_nodup {wb : Workbook} {doc : Node} {f : Fields} {lists : List (Str × List Choices.Choice)}
    {rows : List Cells} {drows : List ((Nat × RowK) × Pay)} {o : FormOut} {ditems : List DItem}
    (T : Trace wb doc f lists rows drows o ditems)
    (hval : Rows17.validate17 f.name (withMeta rows [] o.items) = .ok ()) :
    ((Defaults.qwp [f.name] (toDefL ditems)).map (·.1)).Nodup := by
  have he : Convert.eraseL (dWithMeta f.name rows ditems) = withMeta rows [] o.items := by
    rw [erase_dWithMeta, (trace_items T).1]
  rw [← he] at hval
  obtain ⟨h1, h2⟩ := validate17_parts' _ _ hval
  rw [← validateEach17_shape] at h1
  rw [← liftDup_congr _ _ _ (shape_toDefL_names _)] at h2
  have hn := C10.paths_nodup (toDefL (dWithMeta f.name rows ditems)) [f.name] none h1
    (C10.names_nodup_of_dupCheck _ _ h2)
  have hq : ((Defaults.qwp [f.name] (toDefL (dWithMeta f.name rows ditems))).map (·.1)).Nodup := by
    rw [← Defaults.qwn_forget _ _ none, List.map_map]
    exact hn
  obtain ⟨tail, ht⟩ := dWithMeta_prefix f.name rows ditems
  rw [ht, toDefL_append, qwp_append, List.map_append] at hq
  exact (List.nodup_append.1 hq).1

#print axioms trace_paths_nodup

/-- **C10, instance text of the converted document** (full: every workbook the model converts).  The children of
    the primary instance root are `instNodes defs [root] nts`, `nts` their own name tree (`convert_c04`'s);
    `instNode` gives every childless node at path `p` — instance and `jr:template` copies alike — the text
    `lookupPath p defs` (`instNode_leaf`); the question paths of the mapped tree are pairwise different, and at the
    path of every question that text (absent = empty) is `Defaults.instText dynQ`: the stored default iff the lexer
    classifies it static, nothing for a dynamic or absent default. -/
theorem convert_c10_defaults (wb : Workbook) (doc : Node) (h : convertDoc wb = .ok doc) :
    ∃ (root : Str) (ditems : List DItem) (defs : List (List Str × Str)) (nts : List NT) (rt : Node),
      primaryRoot doc = some rt ∧ kidsOf rt = instNodes defs [root] nts ∧ ntOfL (kidsOf rt) = nts ∧
      ((Defaults.qwp [root] (toDefL ditems)).map (·.1)).Nodup ∧
      ∀ x ∈ Defaults.qwp [root] (toDefL ditems),
        (lookupPath x.1 defs).getD [] = Defaults.instText dynQ x.2 := by
  obtain ⟨f, lists, rows, drows, o, ditems, T, hval⟩ := convertDoc_trace_val wb doc h
  have hu := trace_paths_nodup T hval
  refine ⟨f.name, ditems, defaultsOfL [f.name] ditems, ntKids o.inst,
    .elem f.name (rootAttrs f) (instNodes (defaultsOfL [f.name] ditems) [f.name] (ntKids o.inst)), ?_, rfl,
    by simp only [kidsOf, ntOfL_instNodes], hu, fun x hx => lookup_instText _ _ hu x hx⟩
  rw [T.hdoc]; exact primaryRoot_assemble ..

#print axioms convert_c10_defaults

/-! ## Non-vacuity -/

-- the theorem applied to the workbook whose text `ex_convert` pins
example : ∃ doc, convertDoc exWb = .ok doc ∧ ∃ root ditems defs nts rt,
    primaryRoot doc = some rt ∧ kidsOf rt = instNodes defs [root] nts ∧ ntOfL (kidsOf rt) = nts ∧
    ((Defaults.qwp [root] (toDefL ditems)).map (·.1)).Nodup ∧
    ∀ x ∈ Defaults.qwp [root] (toDefL ditems),
      (lookupPath x.1 defs).getD [] = Defaults.instText dynQ x.2 := by
  obtain ⟨doc, hd, -⟩ := convert_ok exWb false exText ex_convert
  exact ⟨doc, hd, convert_c10_defaults exWb doc hd⟩

end Pyxv.ConvertP
