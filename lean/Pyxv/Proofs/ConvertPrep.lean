import Pyxv.Model.Convert
import Pyxv.Proofs.C04Controls
import Pyxv.Proofs.ConvertControls
/-!
# On Convert's fragment the row preparation is the identity

`Controls.prep` (take the `parameters` cell out, de-alias the type, read a `save_to` cell as a plain bind cell)
changes nothing on a row that `Convert.rowOutside` admits: such a row has no `parameters` / `save_to` column and its
type is none of the aliases of `aliases._type_alias_map`.  So the statements of `Pyxv.Proofs.Convert` about prepared
rows are statements about the typed rows, and the two classifications in `decorate_controls` coincide.
-/
namespace Pyxv.C04
open Pyxv Pyxv.Form Pyxv.Rows Pyxv.Controls

/-- the types the fragment admits (the type branch of `Convert.rowOutside`) -/
def typeOk (t : Str) : Bool :=
  Convert.plainTypes.contains t || t = k!"audit" || (matchSelect t).isSome ||
  (matchControl "begin" true t).isSome || (matchControl "end" false t).isSome

/-- no alias of `aliases._type_alias_map` is a type of the fragment (re-checked against the regenerated table) -/
theorem aliases_outside_fragment : Pyxv.Gen.typeAliasMap.all (fun p => !typeOk p.1.toList) = true := by
  decide +kernel

/-- no column of the fragment is `parameters` or `save_to` -/
theorem fragment_keys_plain :
    Convert.fragmentKeys.all (fun k => k != k!"parameters" && k != "bind::entities:saveto".toList) = true := by
  decide +kernel

theorem type_lit : "type".toList = k!"type" := by decide

theorem dealias_typeOk (t : Str) (h : typeOk t = true) : dealias t = t := by
  unfold dealias
  cases hf : Pyxv.Gen.typeAliasMap.find? (fun p => p.1.toList = t) with
  | none => rfl
  | some p =>
    exfalso
    have hm := List.mem_of_find?_eq_some hf
    have hp := List.find?_some hf
    have := List.all_eq_true.mp aliases_outside_fragment p hm
    simp only [decide_eq_true_eq] at hp
    rw [hp, h] at this
    cases this

theorem rowOutside_type (r : Cells) (h : Convert.rowOutside r = none) :
    match get r "type" with
    | some t => typeOk t = true
    | none => True := by
  unfold Convert.rowOutside at h
  split at h
  · cases h
  · split at h
    · cases h
    · split at h
      · cases h
      · cases hg : get r "type" with
        | none => trivial
        | some t =>
          rw [hg] at h
          simp only [] at h ⊢
          unfold typeOk
          split at h
          · rename_i hp; simp only [hp, Bool.true_or]
          · split at h
            · rename_i ha; simp [ha]
            · split at h
              · rename_i hm; simp [hm]
              · rename_i hm
                split at h
                · rename_i hb; simp [hb]
                · split at h
                  · rename_i he; simp [he]
                  · cases h

theorem rowOutside_keys (r : Cells) (h : Convert.rowOutside r = none) :
    (r.all fun kv => Convert.fragmentKeys.contains kv.1) = true ∧ Convert.keysNodup r = true := by
  unfold Convert.rowOutside at h
  split at h
  · cases h
  · rename_i h1
    split at h
    · cases h
    · rename_i h2
      exact ⟨by simpa using h1, by simpa using h2⟩

theorem mem_of_lookup_cells (k : Str) : ∀ (l : Cells) (v : Str), lookup k l = some v → (k, v) ∈ l
  | [], v => by intro h; simp [lookup] at h
  | (a, b) :: rest, v => by
    intro h
    simp only [lookup] at h
    split at h
    · rename_i hk; injection h with h; subst h; subst hk; simp
    · exact List.mem_cons_of_mem _ (mem_of_lookup_cells k rest v h)

theorem parameters_lit : "parameters".toList = k!"parameters" := by decide

theorem lookup_of_mem_nodup : ∀ (r : Cells) (k v : Str), Convert.keysNodup r = true → (k, v) ∈ r → lookup k r = some v
  | [], _, _, _, hm => by cases hm
  | (a, b) :: rest, k, v, hn, hm => by
    simp only [Convert.keysNodup, Bool.and_eq_true, Bool.not_eq_true'] at hn
    simp only [List.mem_cons, Prod.mk.injEq] at hm
    simp only [lookup]
    rcases hm with ⟨rfl, rfl⟩ | hm
    · simp
    · have hne : ¬ k = a := by
        intro e; subst e
        have := List.any_eq_false.mp hn.1 (k, v) hm
        simp at this
      simp only [hne, if_false]
      exact lookup_of_mem_nodup rest k v hn.2 hm

/-- **On Convert's fragment `prep` is the identity**: a canonical row that `Convert.rowOutside` admits is its own
    prepared row (and has no `parameters` cell). -/
theorem prep_id_on_fragment (r : Cells) (h : Convert.rowOutside r = none) :
    (prep r).1 = r ∧ (prep r).2 = none := by
  obtain ⟨hkeys, hnodup⟩ := rowOutside_keys r h
  have htype := rowOutside_type r h
  have hk : ∀ kv ∈ r, kv.1 ≠ k!"parameters" ∧ kv.1 ≠ "bind::entities:saveto".toList := by
    intro kv hm
    have h1 := List.all_eq_true.mp hkeys kv hm
    have h2 := List.all_eq_true.mp fragment_keys_plain kv.1 (by simpa using h1)
    obtain ⟨a, b⟩ := (Bool.and_eq_true _ _).mp h2
    exact ⟨bne_iff_ne.mp a, bne_iff_ne.mp b⟩
  have hfilter : r.filter (fun kv => kv.1 ≠ (k!"parameters")) = r := by
    apply List.filter_eq_self.mpr
    intro kv hm; simpa using (hk kv hm).1
  have hmap : r.map (fun kv => if kv.1 = (k!"type") then (kv.1, dealias kv.2) else kv) = r := by
    conv => rhs; rw [← List.map_id r]
    apply List.map_congr_left
    intro kv hm
    by_cases ht : kv.1 = k!"type"
    · have hl := lookup_of_mem_nodup r kv.1 kv.2 hnodup (by cases kv; exact hm)
      have hg : get r "type" = some kv.2 := by
        unfold Rows.get; rw [type_lit, ← ht]; exact hl
      rw [hg] at htype
      simp only [ht, if_true, id]
      rw [dealias_typeOk kv.2 htype]
      cases kv; simp_all
    · simp [ht]
  have hsave : plainSaveto r = r := by
    unfold plainSaveto
    conv => rhs; rw [← List.map_id r]
    apply List.map_congr_left
    intro kv hm
    rw [if_neg (hk kv hm).2]; rfl
  constructor
  · unfold prep; simp only [hfilter, hmap, hsave]
  · unfold prep
    simp only []
    unfold Rows.get
    cases hl : lookup "parameters".toList r with
    | none => rfl
    | some v =>
      exfalso
      have hm := mem_of_lookup_cells _ _ _ hl
      exact (hk _ hm).1 parameters_lit

theorem decorate_inside (lists : List Str) (n : Nat) (r : Cells) (k : RowK) (p : Convert.Pay)
    (h : Convert.decorate lists n r = .ok (k, p)) : Convert.rowOutside r = none := by
  unfold Convert.decorate at h
  split at h
  · cases h
  · assumption

/-- **Convert's decoration and the structural walk classify the same row**: with `prep` the identity on the
    fragment, `decorate_controls` loses its second classification — whenever `Convert.decorate` accepts a row that is
    not a row-level error, `Controls.rowControls` answers for it with exactly `emitOut` of the classification `k` that
    Convert's stack machine consumes, its element names are `rowTags k`, and the decoration's attributes are
    `ownAttrs k` of that answer. -/
theorem decorate_controls_fragment (lists : List Str) (n : Nat) (r : Cells) (k : RowK) (p : Convert.Pay)
    (h : Convert.decorate lists n r = .ok (k, p)) :
    (∃ e, k = .bad e) ∨
    ∃ cs ps, rowControls lists n r = .ok cs ∧ classify lists n r = .row k ∧ cs = emitOut k r ps ∧
      cs.map (·.1) = rowTags k ∧ p.attrs = Convert.ownAttrs k cs := by
  have hid := (prep_id_on_fragment r (decorate_inside lists n r k p h)).1
  rcases decorate_controls lists n r k p h with hb | ⟨cs, k', ps, h1, h2, _, h4, h5, h6, h7⟩
  · exact Or.inl hb
  · rw [hid] at h5 h6
    rw [h4] at h5; injection h5 with h5; subst h5
    exact Or.inr ⟨cs, ps, h1, h4, h6, h7, h2⟩

-- non-vacuity: rows of the fragment (a select, a begin repeat with a count, a text row with an appearance)
example : Convert.rowOutside [(k!"type", k!"select_one yn"), (k!"name", k!"s"), (k!"label", k!"S")] = none ∧
    Convert.rowOutside [(k!"type", k!"begin repeat"), (k!"name", k!"r"), (k!"control::jr:count", k!"3")] = none ∧
    (prep [(k!"type", k!"text"), (k!"name", k!"a"), (k!"control::appearance", k!"multiline")]).1 =
      [(k!"type", k!"text"), (k!"name", k!"a"), (k!"control::appearance", k!"multiline")] := by decide +kernel
-- … while outside the fragment `prep` does change rows (an aliased type, a parameters cell)
example : (prep [(k!"type", k!"image"), (k!"name", k!"a"), (k!"parameters", k!"max-pixels=3")]).1 =
    [(k!"type", k!"photo"), (k!"name", k!"a")] := by decide +kernel

end Pyxv.C04
