import Pyxv.Model.Refs
/-! Lemmas for C03: Python string operations on `/`-joined paths vs. segment lists; the path algebra of
`_get_steps_and_target_xpath`; `is_parent_a_repeat`; the name dictionary. -/
namespace Pyxv.Refs
open Pyxv

/-! ## split / join -/

theorem split_ne_nil (c : Char) (s : Str) : splitOnChar c s ≠ [] := by
  induction s with
  | nil => simp [splitOnChar]
  | cons x xs ih =>
    rw [splitOnChar]
    split
    · simp
    · split <;> simp

theorem split_noSep (c : Char) (s : Str) (h : c ∉ s) : splitOnChar c s = [s] := by
  induction s with
  | nil => simp [splitOnChar]
  | cons x xs ih =>
    have hx : x ≠ c := fun e => h (by simp [e])
    have hxs : c ∉ xs := fun m => h (by simp [m])
    rw [splitOnChar, ih hxs]
    simp [hx]

/-- Python: `(x + c + r).split(c) == x.split(c) + r.split(c)` -/
theorem split_append_sep (c : Char) (x r : Str) :
    splitOnChar c (x ++ c :: r) = splitOnChar c x ++ splitOnChar c r := by
  induction x with
  | nil =>
    have := split_ne_nil c r
    rw [List.nil_append]
    cases hs : splitOnChar c r with
    | nil => contradiction
    | cons f fs => simp [splitOnChar, hs]
  | cons a as ih =>
    rw [List.cons_append, splitOnChar, ih]
    have h1 := split_ne_nil c as
    cases hs : splitOnChar c as with
    | nil => contradiction
    | cons f fs =>
      rw [splitOnChar, hs]
      by_cases hac : a = c <;> simp [hac]

theorem GoodNames.tail {a : Str} {p : List Str} (h : GoodNames (a :: p)) : GoodNames p :=
  fun s hs => h s (by simp [hs])

theorem GoodNames.take {p : List Str} (h : GoodNames p) (n : Nat) : GoodNames (p.take n) :=
  fun s hs => h s (List.mem_of_mem_take hs)

theorem GoodNames.dropLast {p : List Str} (h : GoodNames p) : GoodNames p.dropLast :=
  fun s hs => h s (List.dropLast_subset p hs)

theorem split_join (p : List Str) (hp : p ≠ []) (hg : ∀ s ∈ p, '/' ∉ s) :
    splitOnChar '/' (joinWith ['/'] p) = p := by
  induction p with
  | nil => contradiction
  | cons a rest ih =>
    cases rest with
    | nil => simpa [joinWith] using split_noSep '/' a (hg a (by simp))
    | cons b rest' =>
      have : joinWith ['/'] (a :: b :: rest') = a ++ '/' :: joinWith ['/'] (b :: rest') := by
        simp [joinWith]
      rw [this, split_append_sep, split_noSep '/' a (hg a (by simp)),
        ih (by simp) (fun s hs => hg s (by simp [hs]))]
      rfl

theorem split_pathStr (p : List Str) (hp : p ≠ []) (hg : GoodNames p) :
    splitOnChar '/' (pathStr p) = [] :: p := by
  have : pathStr p = [] ++ '/' :: joinWith ['/'] p := rfl
  rw [this, split_append_sep, split_join p hp (fun s hs => (hg s hs).1)]
  rfl

theorem pathStr_inj (p q : List Str) (hp : p ≠ []) (hq : q ≠ []) (gp : GoodNames p) (gq : GoodNames q)
    (h : pathStr p = pathStr q) : p = q := by
  have := split_pathStr p hp gp
  rw [h, split_pathStr q hq gq] at this
  simpa using this.symm

theorem joinWith_nil_cons (q : List Str) (hq : q ≠ []) : joinWith ['/'] ([] :: q) = pathStr q := by
  cases q with
  | nil => contradiction
  | cons a r => simp [joinWith, pathStr]

theorem parentXpath_pathStr (p : List Str) (hg : GoodNames p) (h2 : 2 ≤ p.length) :
    parentXpath (pathStr p) = pathStr p.dropLast := by
  have hp : p ≠ [] := by intro e; simp [e] at h2
  unfold parentXpath
  rw [split_pathStr p hp hg]
  have : ([] :: p).dropLast = [] :: p.dropLast := by
    cases p with
    | nil => contradiction
    | cons a r => simp [List.dropLast]
  rw [this, joinWith_nil_cons]
  intro e
  have := congrArg List.length e
  simp [List.length_dropLast] at this
  omega

theorem parentXpath_single (a : Str) (hg : GoodNames [a]) : parentXpath (pathStr [a]) = [] := by
  unfold parentXpath
  rw [split_pathStr [a] (by simp) hg]
  simp [List.dropLast, joinWith]

theorem pathStr_ne_nil (p : List Str) : (pathStr p).isEmpty = false := by simp [pathStr]

/-! ## common prefix -/

theorem lcpLen_le_left (a b : List Str) : lcpLen a b ≤ a.length := by
  induction a generalizing b with
  | nil => simp [lcpLen]
  | cons x xs ih =>
    cases b with
    | nil => simp [lcpLen]
    | cons y ys =>
      simp only [lcpLen]
      split
      · have := ih ys; simp; omega
      · simp

theorem lcpLen_le_right (a b : List Str) : lcpLen a b ≤ b.length := by
  induction a generalizing b with
  | nil => simp [lcpLen]
  | cons x xs ih =>
    cases b with
    | nil => simp [lcpLen]
    | cons y ys =>
      simp only [lcpLen]
      split
      · have := ih ys; simp; omega
      · simp

theorem lcpLen_take (a b : List Str) (k : Nat) (hk : k ≤ lcpLen a b) : a.take k = b.take k := by
  induction a generalizing b k with
  | nil => simp [lcpLen] at hk; simp [hk]
  | cons x xs ih =>
    cases b with
    | nil => simp [lcpLen] at hk; simp [hk]
    | cons y ys =>
      simp only [lcpLen] at hk
      split at hk
      · next e =>
        cases k with
        | zero => simp
        | succ k => simp [e, ih ys k (by omega)]
      · simp at hk; simp [hk]

/-- the arithmetic of `_get_steps_and_target_xpath` after the two `split("/")[split_idx:]` -/
def stepsCore (cs ts : List Str) (inc : Bool) : Nat × List Str :=
  let common := if inc then 0 else lcpLen cs.dropLast ts
  let common := if common = ts.length ∧ common > 0 then common - 1 else common
  (cs.length - common, ts.drop common)

theorem getStepsAndTarget_eq (x cx xp : Str) (inc : Bool) :
    getStepsAndTarget x cx xp inc =
      stepsCore ((splitOnChar '/' cx).drop ((splitOnChar '/' xp).length - (if inc then 1 else 0)))
        ((splitOnChar '/' x).drop ((splitOnChar '/' xp).length - (if inc then 1 else 0))) inc := rfl

/-- Path algebra: whenever the two paths agree on their first `m` segments and both go on below,
the steps/parts computed from the remainders lead from `c` to `t`. -/
theorem stepsCore_resolves (c t : List Str) (m : Nat) (hc : m < c.length) (ht : m < t.length)
    (hpre : c.take m = t.take m) (inc : Bool) :
    let r := stepsCore (c.drop m) (t.drop m) inc
    1 ≤ r.1 ∧ r.1 ≤ c.length ∧ c.take (c.length - r.1) ++ r.2 = t ∧ r.2 ≠ [] ∧ r.2.getLast? = t.getLast? := by
  intro r
  -- `common` of the code
  obtain ⟨common, hr, hle, hlt, htk⟩ : ∃ common, r = ((c.drop m).length - common, (t.drop m).drop common) ∧
      common + 1 ≤ (c.drop m).length ∧ common < (t.drop m).length ∧
      (c.drop m).take common = (t.drop m).take common := by
    have hcs : 0 < (c.drop m).length := by simp; omega
    have hts : 0 < (t.drop m).length := by simp; omega
    cases inc with
    | true =>
      refine ⟨0, ?_, by omega, by omega, by simp⟩
      simp only [r, stepsCore]
      have : ¬ (0 = (t.drop m).length ∧ 0 > 0) := by omega
      simp
    | false =>
      have h1 := lcpLen_le_left (c.drop m).dropLast (t.drop m)
      have h2 := lcpLen_le_right (c.drop m).dropLast (t.drop m)
      have h3 : ∀ k, k ≤ lcpLen (c.drop m).dropLast (t.drop m) → (c.drop m).take k = (t.drop m).take k := by
        intro k hk
        have := lcpLen_take _ _ k hk
        rw [← this, List.dropLast_eq_take, List.take_take]
        congr 1
        rw [List.length_dropLast] at h1
        omega
      rw [List.length_dropLast] at h1
      by_cases hcond : lcpLen (c.drop m).dropLast (t.drop m) = (t.drop m).length ∧ lcpLen (c.drop m).dropLast (t.drop m) > 0
      · refine ⟨lcpLen (c.drop m).dropLast (t.drop m) - 1, ?_, by omega, by omega, h3 _ (by omega)⟩
        simp only [r, stepsCore, Bool.false_eq_true, ↓reduceIte, if_pos hcond]
      · refine ⟨lcpLen (c.drop m).dropLast (t.drop m), ?_, by omega, by omega, h3 _ (by omega)⟩
        simp only [r, stepsCore, Bool.false_eq_true, ↓reduceIte, if_neg hcond]
  rw [hr]
  simp only [List.length_drop] at hle hlt ⊢
  have e1 : c.length - (c.length - m - common) = m + common := by omega
  have hparts : (t.drop m).drop common = t.drop (m + common) := by simp [List.drop_drop]
  refine ⟨by omega, by omega, ?_, ?_, ?_⟩
  · rw [e1, hparts]
    have : c.take (m + common) = t.take (m + common) := by
      rw [List.take_add, List.take_add, hpre, htk]
    rw [this, List.take_append_drop]
  · rw [hparts]
    intro e
    have := congrArg List.length e
    simp at this
    omega
  · rw [hparts]
    rw [List.getLast?_drop]
    simp
    omega

/-! ## startswith / endswith -/

theorem startsWith_iff (a p : Str) : startsWith a p = true ↔ ∃ r, a = p ++ r := by
  induction p generalizing a with
  | nil => cases a <;> simp [startsWith]
  | cons x xs ih =>
    cases a with
    | nil => simp [startsWith]
    | cons y ys =>
      simp only [startsWith, Bool.and_eq_true, beq_iff_eq, ih, List.cons_append, List.cons.injEq]
      constructor
      · rintro ⟨rfl, r, rfl⟩; exact ⟨r, rfl, rfl⟩
      · rintro ⟨r, rfl, rfl⟩; exact ⟨rfl, r, rfl⟩

theorem joinWith_getLast (sep : Str) (p : List Str) (l : Str) (h : p.getLast? = some l) :
    ∃ pre, joinWith sep p = pre ++ l := by
  induction p with
  | nil => simp at h
  | cons a rest ih =>
    cases rest with
    | nil => simp at h; exact ⟨[], by simp [joinWith, h]⟩
    | cons b rest' =>
      have h' : (b :: rest').getLast? = some l := by simpa [List.getLast?_cons_cons] using h
      obtain ⟨pre, hp⟩ := ih h'
      exact ⟨a ++ sep ++ pre, by simp [joinWith, hp]⟩

/-- `ref_path.endswith(ref_name)` holds when the last part is the name -/
theorem endsWith_pathStr (parts : List Str) (name : Str) (h : parts.getLast? = some name) :
    endsWith (pathStr parts) name = true := by
  obtain ⟨pre, hp⟩ := joinWith_getLast ['/'] parts name h
  unfold endsWith
  rw [startsWith_iff]
  refine ⟨(('/' :: pre)).reverse, ?_⟩
  simp [pathStr, hp]

/-- `f"{a}/".startswith(f"{b}/")` on joined paths is the segment-prefix test -/
theorem startsWith_pathStr (a b : List Str) (ha : a ≠ []) (hb : b ≠ []) (ga : GoodNames a) (gb : GoodNames b)
    (h : startsWith (pathStr a ++ ['/']) (pathStr b ++ ['/']) = true) : b <+: a := by
  obtain ⟨r, hr⟩ := (startsWith_iff _ _).1 h
  have h1 : splitOnChar '/' (pathStr a ++ ['/']) = ([] :: a) ++ [[]] := by
    rw [split_append_sep, split_pathStr a ha ga]; rfl
  have h2 : splitOnChar '/' (pathStr b ++ ['/'] ++ r) = ([] :: b) ++ splitOnChar '/' r := by
    rw [List.append_assoc, List.singleton_append, split_append_sep, split_pathStr b hb gb]
  rw [hr, h2] at h1
  have h3 : b ++ splitOnChar '/' r = a ++ [[]] := by simpa using h1
  have hne := split_ne_nil '/' r
  rw [← List.dropLast_concat_getLast hne, ← List.append_assoc] at h3
  have := (List.append_inj' h3 (by simp)).1
  exact ⟨_, this⟩

/-! ## `is_parent_a_repeat` -/

theorem length_joinWith_ge (p : List Str) : p.length ≤ (joinWith ['/'] p).length + 1 := by
  induction p with
  | nil => simp
  | cons a rest ih =>
    cases rest with
    | nil => simp
    | cons b r => simp [joinWith] at ih ⊢; omega

theorem length_pathStr_ge (p : List Str) : p.length ≤ (pathStr p).length := by
  have := length_joinWith_ge p
  simp [pathStr]; omega

theorem take_dropLast {α} (l : List α) (i : Nat) (h : i + 1 ≤ l.length) : l.dropLast.take i = l.take i := by
  rw [List.dropLast_eq_take, List.take_take]; congr 1; omega

/-- What `is_parent_a_repeat` returns on the xpath of a path `p`: the xpath of the longest proper, non-empty
prefix of `p` that is the xpath of a repeat — or `False` when there is none. -/
def IsNearestRep (reps : List Str) (p : List Str) : Option Str → Prop
  | some x => ∃ i, 0 < i ∧ i < p.length ∧ x = pathStr (p.take i) ∧ x ∈ reps ∧
      ∀ j, i < j → j < p.length → pathStr (p.take j) ∉ reps
  | none => ∀ j, 0 < j → j < p.length → pathStr (p.take j) ∉ reps

theorem isParentARepeatF_spec (reps : List Str) : ∀ (fuel : Nat) (p : List Str), GoodNames p → p.length ≤ fuel →
    IsNearestRep reps p (isParentARepeatF reps fuel (pathStr p)) := by
  intro fuel
  induction fuel with
  | zero =>
    intro p _ hl
    simp only [isParentARepeatF, IsNearestRep]
    intro j _ h2; omega
  | succ fuel ih =>
    intro p hg hl
    rw [isParentARepeatF]
    by_cases h2 : 2 ≤ p.length
    · have hpar := parentXpath_pathStr p hg h2
      simp only [hpar, pathStr_ne_nil, Bool.false_eq_true, ↓reduceIte]
      have hd : p.dropLast = p.take (p.length - 1) := List.dropLast_eq_take
      by_cases hin : reps.contains (pathStr p.dropLast) = true
      · simp only [hin, ↓reduceIte, IsNearestRep]
        refine ⟨p.length - 1, by omega, by omega, by rw [hd], by simpa using hin, ?_⟩
        intro j h1 h2; omega
      · simp only [hin, Bool.false_eq_true, ↓reduceIte]
        have := ih p.dropLast hg.dropLast (by rw [List.length_dropLast]; omega)
        have hnin : pathStr (p.take (p.length - 1)) ∉ reps := by rw [← hd]; simpa using hin
        cases hres : isParentARepeatF reps fuel (pathStr p.dropLast) with
        | none =>
          rw [hres] at this
          simp only [IsNearestRep, List.length_dropLast] at this ⊢
          intro j h1 hj
          by_cases e : j = p.length - 1
          · rw [e]; exact hnin
          · have := this j h1 (by omega)
            rwa [take_dropLast p j (by omega)] at this
        | some x =>
          rw [hres] at this
          simp only [IsNearestRep, List.length_dropLast] at this ⊢
          obtain ⟨i, hi0, hil, hx, hxin, hall⟩ := this
          refine ⟨i, hi0, by omega, by rw [hx, take_dropLast p i (by omega)], hxin, ?_⟩
          intro j h1 hj
          by_cases e : j = p.length - 1
          · rw [e]; exact hnin
          · have := hall j h1 (by omega)
            rwa [take_dropLast p j (by omega)] at this
    · -- fewer than two segments: the parent xpath is empty
      have hemp : parentXpath (pathStr p) = [] := by
        match p, hg with
        | [], _ => decide
        | [a], hg => exact parentXpath_single a hg
        | _ :: _ :: _, _ => simp at h2
      simp only [hemp, List.isEmpty_nil, ↓reduceIte, IsNearestRep]
      intro j h1 hj; omega

theorem isParentARepeat_spec (reps : List Str) (p : List Str) (hg : GoodNames p) :
    IsNearestRep reps p (isParentARepeat reps (pathStr p)) :=
  isParentARepeatF_spec reps _ p hg (by have := length_pathStr_ge p; omega)

/-! ## `share_same_repeat_parent` -/

theorem take_ne_nil {α} (l : List α) (n : Nat) (h0 : 0 < n) (hl : 0 < l.length) : l.take n ≠ [] := by
  intro e
  have := congrArg List.length e
  rw [List.length_take, List.length_nil] at this
  omega

/-- what the caller needs from `(steps, parts)`: at least one step up, not above the document node, and the
path lands on `t`; the last part is `t`'s own name. -/
def Reaches (c t : List Str) (r : Nat × List Str) : Prop :=
  1 ≤ r.1 ∧ r.1 ≤ c.length ∧ c.take (c.length - r.1) ++ r.2 = t ∧ r.2 ≠ [] ∧ r.2.getLast? = t.getLast?

theorem gst_resolves (c t : List Str) (gc : GoodNames c) (gt : GoodNames t) (j : Nat) (hj0 : 0 < j)
    (hjc : j < c.length) (hjt : j < t.length) (hpre : c.take j = t.take j) (inc : Bool) :
    Reaches c t (getStepsAndTarget (pathStr t) (pathStr c) (pathStr (t.take j)) inc) := by
  have hc0 : c ≠ [] := by intro e; simp [e] at hjc
  have ht0 : t ≠ [] := by intro e; simp [e] at hjt
  have htj : t.take j ≠ [] := take_ne_nil t j hj0 (by omega)
  rw [getStepsAndTarget_eq, split_pathStr c hc0 gc, split_pathStr t ht0 gt, split_pathStr _ htj (gt.take j)]
  simp only [List.length_cons, List.length_take]
  have hmin : min j t.length = j := by omega
  rw [hmin]
  cases inc with
  | false =>
    simp only [Bool.false_eq_true, ↓reduceIte, Nat.sub_zero, List.drop_succ_cons]
    exact stepsCore_resolves c t j hjc hjt hpre false
  | true =>
    simp only [↓reduceIte, Nat.add_sub_cancel]
    obtain ⟨k, rfl⟩ : ∃ k, j = k + 1 := ⟨j - 1, by omega⟩
    simp only [List.drop_succ_cons]
    have hpre' : c.take k = t.take k := by
      have := congrArg (List.take k) hpre
      simpa [List.take_take, Nat.min_eq_left (Nat.le_succ k)] using this
    exact stepsCore_resolves c t k (by omega) (by omega) hpre' true

theorem take_eq_of_prefix {α} (a b : List α) (j : Nat) (hj : j ≤ b.length) (h : b.take j <+: a) : a.take j = b.take j := by
  obtain ⟨r, hr⟩ := h
  rw [← hr, List.take_append_of_le_length (by simp; omega)]
  simp [List.take_take]

theorem ssrp_resolves (reps : List Str) (c t : List Str) (gc : GoodNames c) (gt : GoodNames t) (rp : Bool)
    (r : Nat × List Str) (h : shareSameRepeatParent reps (pathStr t) (pathStr c) rp = some r) : Reaches c t r := by
  have hc := isParentARepeat_spec reps c gc
  have ht := isParentARepeat_spec reps t gt
  unfold shareSameRepeatParent at h
  cases hcp : isParentARepeat reps (pathStr c) with
  | none => simp [hcp] at h
  | some cp =>
    cases hxp : isParentARepeat reps (pathStr t) with
    | none => simp [hcp, hxp] at h
    | some xp =>
      rw [hcp] at hc; rw [hxp] at ht
      obtain ⟨i, hi0, hil, rfl, -, -⟩ := hc
      obtain ⟨j, hj0, hjl, rfl, -, -⟩ := ht
      simp only [hcp, hxp] at h
      have hci : c.take i ≠ [] := take_ne_nil c i hi0 (by omega)
      have htj : t.take j ≠ [] := take_ne_nil t j hj0 (by omega)
      by_cases hsw : startsWith (pathStr (c.take i) ++ ['/']) (pathStr (t.take j) ++ ['/']) = true
      · -- the target's repeat parent is an ancestor-or-self of the context's repeat parent
        have hpre := startsWith_pathStr _ _ hci htj (gc.take i) (gt.take j) hsw
        have hji : j ≤ i := by
          have := hpre.length_le
          rw [List.length_take, List.length_take] at this; omega
        have hpre2 : t.take j <+: c := hpre.trans (List.take_prefix i c)
        have hcj : c.take j = t.take j := take_eq_of_prefix c t j (by omega) hpre2
        have key : ∀ inc, Reaches c t (getStepsAndTarget (pathStr t) (pathStr c) (pathStr (t.take j)) inc) :=
          fun inc => gst_resolves c t gc gt j hj0 (by omega) hjl hcj inc
        simp only [hsw, ↓reduceIte] at h
        split at h
        · split at h
          · cases h; exact key _
          · split at h <;> (cases h; exact key _)
        · cases h; exact key _
      · -- both have a repeat parent, neither contains the other: a shared repeat further up?
        simp only [hsw, Bool.false_eq_true, ↓reduceIte] at h
        have hc2 := isParentARepeat_spec reps (c.take i) (gc.take i)
        have ht2 := isParentARepeat_spec reps (t.take j) (gt.take j)
        cases hcsa : isParentARepeat reps (pathStr (c.take i)) with
        | none => simp [hcsa] at h
        | some csa =>
          cases hxsa : isParentARepeat reps (pathStr (t.take j)) with
          | none => simp [hcsa, hxsa] at h
          | some xsa =>
            rw [hcsa] at hc2; rw [hxsa] at ht2
            obtain ⟨i', hi'0, hi'l, rfl, -, -⟩ := hc2
            obtain ⟨j', hj'0, hj'l, rfl, -, -⟩ := ht2
            simp only [hcsa, hxsa] at h
            simp only [List.length_take] at hi'l hj'l
            have e1 : (c.take i).take i' = c.take i' := by rw [List.take_take]; congr 1; omega
            have e2 : (t.take j).take j' = t.take j' := by rw [List.take_take]; congr 1; omega
            rw [e1, e2] at h
            split at h
            · next heq =>
              have heq' : pathStr (t.take j') = pathStr (c.take i') := by simpa using heq
              have hne1 : t.take j' ≠ [] := take_ne_nil t j' hj'0 (by omega)
              have hne2 : c.take i' ≠ [] := take_ne_nil c i' hi'0 (by omega)
              have hseg := pathStr_inj _ _ hne1 hne2 (gt.take j') (gc.take i') heq'
              have hlen : j' = i' := by
                have := congrArg List.length hseg
                rw [List.length_take, List.length_take] at this; omega
              subst hlen
              cases h
              exact gst_resolves c t gc gt j' hj'0 (by omega) (by omega) hseg.symm false
            · simp at h

/-! ## the name dictionary (`_setup_xpath_dictionary`) -/

def named (n : Str) (c : Chain) : Bool := c.getLast?.map (·.1) == some n

def upd (s : Option (Option Chain)) (c : Chain) : Option (Option Chain) :=
  match s with
  | none => some (some c)
  | some _ => some none

theorem lookup_append_single {β} (k k' : Str) (v : β) (d : List (Str × β)) :
    lookup k (d ++ [(k', v)]) = match lookup k d with
      | some x => some x
      | none => if k = k' then some v else none := by
  induction d with
  | nil => simp [lookup]
  | cons a rest ih =>
    obtain ⟨ka, va⟩ := a
    simp only [List.cons_append, lookup]
    split <;> simp_all

theorem lookup_map_none (k n : Str) (d : List (Str × Option Chain)) :
    lookup k (d.map fun (k', v) => if k' = n then (k', none) else (k', v)) =
      if k = n then (lookup k d).map (fun _ => none) else lookup k d := by
  induction d with
  | nil => simp [lookup]
  | cons a rest ih =>
    obtain ⟨ka, va⟩ := a
    simp only [List.map_cons, lookup]
    by_cases h1 : ka = n <;> by_cases h2 : k = ka <;> by_cases h3 : k = n <;> simp_all [lookup]

theorem lookup_dictInsert (n : Str) (d : List (Str × Option Chain)) (c : Chain) :
    lookup n (dictInsert d c) = if named n c then upd (lookup n d) c else lookup n d := by
  unfold dictInsert named
  cases hl : c.getLast? with
  | none => simp
  | some seg =>
    obtain ⟨m, k⟩ := seg
    simp only [Option.map_some]
    by_cases hmn : m = n
    · subst hmn
      simp only [beq_self_eq_true, ↓reduceIte]
      cases hd : lookup m d with
      | none => simp [hd, lookup_append_single, upd]
      | some v => simp [hd, lookup_map_none, upd]
    · have hnm : ¬ (n = m) := fun e => hmn e.symm
      have : (some m == some n) = false := by simp [hmn]
      simp only [this, Bool.false_eq_true, ↓reduceIte]
      split
      · rw [lookup_map_none]; simp [hnm]
      · rw [lookup_append_single]; cases lookup n d <;> simp [hnm]

theorem lookup_foldl_dictInsert (n : Str) (els : List Chain) (d : List (Str × Option Chain)) :
    lookup n (els.foldl dictInsert d) = (els.filter (named n)).foldl upd (lookup n d) := by
  induction els generalizing d with
  | nil => simp
  | cons c rest ih =>
    simp only [List.foldl_cons, ih, lookup_dictInsert, List.filter_cons]
    split <;> simp

theorem foldl_upd_some (v : Option Chain) (l : List Chain) (h : l ≠ []) : l.foldl upd (some v) = some none := by
  induction l generalizing v with
  | nil => contradiction
  | cons a r ih =>
    cases r with
    | nil => simp [upd]
    | cons b r' => simpa [upd] using ih none (by simp)

/-- the three outcomes of looking a name up -/
theorem lookup_setup (n : Str) (els : List Chain) :
    lookup n (setupXpathDict els) =
      match els.filter (named n) with
      | [] => none
      | [t] => some (some t)
      | _ :: _ :: _ => some none := by
  unfold setupXpathDict
  rw [lookup_foldl_dictInsert]
  cases els.filter (named n) with
  | nil => simp [lookup]
  | cons a r =>
    cases r with
    | nil => simp [lookup, upd]
    | cons b r' =>
      simp only [lookup, List.foldl_cons, upd]
      cases r' with
      | nil => simp
      | cons x y => exact foldl_upd_some _ _ (by simp)

end Pyxv.Refs
