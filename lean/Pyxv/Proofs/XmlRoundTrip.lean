import Pyxv.Proofs.XmlLemmas
/-!
# XML writer/reader round trip: property theorems

Definitions used in the statements (`Node.WF`, `expected`, `expectedPretty`, `textCharOk`,
`attrCharOk`) are in `XmlSpec.lean`; helper lemmas in `XmlLemmas.lean`.
-/
namespace Pyxv.Xml

/-! ## 1. Escaping is inverted by the reader -/

/-- normalising form: text of XML characters, possibly containing CR (written raw by both
    writers), followed by markup or the end of input, is read back with CR LF and lone CR turned
    into LF. -/
theorem escText_takeText_norm (s rest : Str) (fuel : Nat)
    (hs : ∀ c ∈ s, isXmlChar c = true)
    (hrest : rest = [] ∨ ∃ r, rest = '<' :: r)
    (hfuel : (escText s).length < fuel) :
    takeText fuel (escText s ++ rest) = some (normEol s, rest) := by
  have hr : startsLt rest := by
    rcases hrest with rfl | ⟨r, rfl⟩ <;> simp [startsLt]
  exact takeText_enc (Enc.escText (List.all_eq_true.mpr hs)) rest fuel hr hfuel

#print axioms escText_takeText_norm

theorem escAttr_takeText_norm (s rest : Str) (fuel : Nat)
    (hs : ∀ c ∈ s, isXmlChar c = true)
    (hrest : rest = [] ∨ ∃ r, rest = '<' :: r)
    (hfuel : (escAttr s).length < fuel) :
    takeText fuel (escAttr s ++ rest) = some (normEol s, rest) := by
  have hr : startsLt rest := by
    rcases hrest with rfl | ⟨r, rfl⟩ <;> simp [startsLt]
  exact takeText_enc (Enc.escAttr (List.all_eq_true.mpr hs)) rest fuel hr hfuel

#print axioms escAttr_takeText_norm

/-- `escape_text_for_xml` (pyxform's `PatchedText`) followed by markup or the end of input is read
    back exactly by the character-data reader. -/
theorem escText_takeText (s rest : Str) (fuel : Nat)
    (hs : ∀ c ∈ s, isXmlChar c = true ∧ c ≠ '\r')
    (hrest : rest = [] ∨ ∃ r, rest = '<' :: r)
    (hfuel : (escText s).length < fuel) :
    takeText fuel (escText s ++ rest) = some (s, rest) := by
  rw [escText_takeText_norm s rest fuel (fun c hc => (hs c hc).1) hrest hfuel,
    normEol_of_noCR s (fun c hc => (hs c hc).2)]

#print axioms escText_takeText

/-- the same for a stock `minidom.Text` (written with `_write_data`, which also escapes `"`). -/
theorem escAttr_takeText (s rest : Str) (fuel : Nat)
    (hs : ∀ c ∈ s, isXmlChar c = true ∧ c ≠ '\r')
    (hrest : rest = [] ∨ ∃ r, rest = '<' :: r)
    (hfuel : (escAttr s).length < fuel) :
    takeText fuel (escAttr s ++ rest) = some (s, rest) := by
  rw [escAttr_takeText_norm s rest fuel (fun c hc => (hs c hc).1) hrest hfuel,
    normEol_of_noCR s (fun c hc => (hs c hc).2)]

#print axioms escAttr_takeText

/-- an attribute value written by `_write_data` between double quotes is read back exactly
    (values without TAB/LF/CR, which attribute-value normalisation would turn into spaces). -/
theorem escAttr_takeAttrVal (v rest : Str) (fuel : Nat)
    (hv : ∀ c ∈ v, isXmlChar c = true ∧ c ≠ '\t' ∧ c ≠ '\n' ∧ c ≠ '\r')
    (hfuel : (escAttr v).length < fuel) :
    takeAttrVal '"' fuel (escAttr v ++ '"' :: rest) = some (v, rest) := by
  have hv' : v.all attrCharOk = true := by
    simp only [List.all_eq_true, attrCharOk, Bool.and_eq_true, bne_iff_ne]
    intro c hc; have := hv c hc; exact ⟨⟨⟨this.1, this.2.1⟩, this.2.2.1⟩, this.2.2.2⟩
  exact takeAttrVal_escAttr v hv' rest fuel hfuel

#print axioms escAttr_takeAttrVal

/-- normalising form: an arbitrary attribute value (XML characters) is read back with TAB, LF, CR
    and CR LF replaced by one space each. -/
theorem escAttr_takeAttrVal_norm (v rest : Str) (fuel : Nat)
    (hv : ∀ c ∈ v, isXmlChar c = true) (hfuel : (escAttr v).length < fuel) :
    takeAttrVal '"' fuel (escAttr v ++ '"' :: rest) = some (normAttrVal v, rest) :=
  takeAttrVal_escAttr_norm v.length v (Nat.le_refl _) (List.all_eq_true.mpr hv) rest fuel hfuel

#print axioms escAttr_takeAttrVal_norm

/-! ## 2./3. The reader inverts the writer -/

/-- **Compact output, normalising form.**  Attribute values may contain TAB/LF/CR and text may
    contain CR (minidom and pyxform write them raw); an XML reader then reports the normalised
    tree `expectedLax t`. -/
theorem render_parses_compact_lax (t : Node) (hwf : t.WFLax = true) (helem : isElem t = true) :
    parseDoc (renderDoc false t) = some (expectedLax t) := by
  have := parseDoc_render t hwf helem [] [] [] padOk_nil padOk_nil padOk_nil
  simpa [renderDoc, expectedLax, expected, norm_layout_compact] using this

#print axioms render_parses_compact_lax

/-- **Pretty output, normalising form.** -/
theorem render_parses_pretty_lax (t : Node) (hwf : t.WFLax = true) (helem : isElem t = true) :
    parseDoc (renderDoc true t) = some (expectedPrettyLax t) := by
  have := parseDoc_render t hwf helem ['\n'] [' ', ' '] ['\n'] (by decide) (by decide) (by decide)
  simpa [renderDoc, expectedPrettyLax, expectedPretty] using this

#print axioms render_parses_pretty_lax

/-- for a tree without CR in text only the attribute values are normalised -/
theorem expectedLax_of_noCR (t : Node) (h : noCR t = true) : expectedLax t = expected (normAttrs t) := by
  rw [expectedLax, expected, ← norm_layout_compact]
  exact normText_norm_layout _ [] [] [] padOk_nil padOk_nil padOk_nil (by rw [noCR_normAttrs]; exact h)

theorem expectedPrettyLax_of_noCR (t : Node) (h : noCR t = true) :
    expectedPrettyLax t = expectedPretty (normAttrs t) := by
  rw [expectedPrettyLax, expectedPretty]
  exact normText_norm_layout _ [] [' ', ' '] ['\n'] padOk_nil (by decide) (by decide)
    (by rw [noCR_normAttrs]; exact h)

/-- for a strictly well-formed tree nothing is normalised -/
theorem expectedLax_of_WF (t : Node) (h : t.WF = true) : expectedLax t = expected t := by
  rw [expectedLax_of_noCR t (noCR_of_WF t h), normAttrs_of_WF t h]

theorem expectedPrettyLax_of_WF (t : Node) (h : t.WF = true) : expectedPrettyLax t = expectedPretty t := by
  rw [expectedPrettyLax_of_noCR t (noCR_of_WF t h), normAttrs_of_WF t h]

/-- **Compact output.**  For every well-formed element `t`, an XML reader applied to
    `Survey._to_ugly_xml` output reports exactly `expected t`: the tree with the boundary spaces of
    the mixed-content rule, adjacent text merged and empty text dropped. -/
theorem render_parses_compact (t : Node) (hwf : t.WF = true) (helem : isElem t = true) :
    parseDoc (renderDoc false t) = some (expected t) := by
  rw [render_parses_compact_lax t (WFLax_of_WF t hwf) helem, expectedLax_of_WF t hwf]

#print axioms render_parses_compact

/-- **Pretty output.**  The same for `_to_pretty_xml` (indent two spaces, newline `\n`):
    the reader reports `expectedPretty t`, the tree with all indentation text made explicit. -/
theorem render_parses_pretty (t : Node) (hwf : t.WF = true) (helem : isElem t = true) :
    parseDoc (renderDoc true t) = some (expectedPretty t) := by
  rw [render_parses_pretty_lax t (WFLax_of_WF t hwf) helem, expectedPrettyLax_of_WF t hwf]

#print axioms render_parses_pretty

/-! ## 4. Pretty printing is cosmetic -/

/-- the pretty and the compact output of a (lax) well-formed element parse to trees that differ
    only in white-space-only text between elements (`stripWs`), and both parse. -/
theorem pretty_cosmetic_lax (t : Node) (hwf : t.WFLax = true) (helem : isElem t = true) :
    Option.map stripWs (parseDoc (renderDoc true t)) = Option.map stripWs (parseDoc (renderDoc false t)) ∧
    (parseDoc (renderDoc true t)).isSome = true ∧ (parseDoc (renderDoc false t)).isSome = true := by
  rw [render_parses_pretty_lax t hwf helem, render_parses_compact_lax t hwf helem]
  refine ⟨?_, rfl, rfl⟩
  simp only [Option.map_some, expectedPrettyLax, expectedLax, expectedPretty, expected,
    ← norm_layout_compact, stripWs_normText]
  rw [strip_layout (normAttrs t) [] [' ', ' '] ['\n'] (by decide) (by decide) (by decide)]

#print axioms pretty_cosmetic_lax

theorem pretty_cosmetic (t : Node) (hwf : t.WF = true) (helem : isElem t = true) :
    Option.map stripWs (parseDoc (renderDoc true t)) = Option.map stripWs (parseDoc (renderDoc false t)) ∧
    (parseDoc (renderDoc true t)).isSome = true ∧ (parseDoc (renderDoc false t)).isSome = true :=
  pretty_cosmetic_lax t (WFLax_of_WF t hwf) helem

#print axioms pretty_cosmetic

/-! ## 5. Namespace prefixes survive the round trip -/

theorem prefixesBound_expected (t : Node) (scope : List Str) :
    prefixesBound scope (expected t) = prefixesBound scope t := by
  rw [expected, ← norm_layout_compact, pb_normNode, pb_layout]

theorem prefixesBound_expectedPretty (t : Node) (scope : List Str) :
    prefixesBound scope (expectedPretty t) = prefixesBound scope t := by
  rw [expectedPretty, pb_normNode, pb_layout]

/-- the document an XML reader sees (either output mode) has all its prefixes bound exactly when
    the DOM tree has -/
theorem prefixesBound_roundtrip (t : Node) (hwf : t.WFLax = true) (helem : isElem t = true) (pretty : Bool) :
    ∃ u, parseDoc (renderDoc pretty t) = some u ∧ prefixesBound [] u = prefixesBound [] t := by
  cases pretty with
  | false =>
    exact ⟨_, render_parses_compact_lax t hwf helem,
      by rw [expectedLax, pb_normText, prefixesBound_expected, pb_normAttrs]⟩
  | true =>
    exact ⟨_, render_parses_pretty_lax t hwf helem,
      by rw [expectedPrettyLax, pb_normText, prefixesBound_expectedPretty, pb_normAttrs]⟩

#print axioms prefixesBound_roundtrip

/-! ## 6. Non-vacuity -/

/-- a non-trivial tree: namespaced tags, attributes containing `& " < > '`, mixed content with
    two `output` elements, nested element-only content, an empty text child, adjacent text nodes,
    a stock text node containing `"`, text containing `]]>`, white-space-only text next to an element -/
def exTree : Node :=
  .elem "h:html".toList [("xmlns:h".toList, "http://www.w3.org/1999/xhtml".toList), ("a".toList, "x & \"y\" <z> 'w'".toList)]
    [ .elem "h:head".toList []
        [ .elem "h:title".toList [] [.text false "T & ]]> <t>".toList],
          .elem "model".toList []
            [ .elem "instance".toList [] [ .elem "data".toList [("id".toList, "d".toList)] [.elem "q".toList [] [], .elem "r".toList [] []] ] ] ],
      .elem "h:body".toList []
        [ .elem "input".toList [("ref".toList, "/d/q".toList)]
            [ .elem "label".toList []
                [ .text false "A ".toList, .elem "output".toList [("value".toList, " /d/r ".toList)] [],
                  .text false " and ".toList, .text true "\"B\"".toList,
                  .elem "output".toList [("value".toList, "1 < 2".toList)] [] ] ],
          .elem "input".toList [] [ .elem "label".toList [] [.text false []] ],
          .elem "hint".toList [] [ .elem "output".toList [] [.elem "x".toList [] []], .text false "  ".toList ] ] ]


theorem exTree_WF : exTree.WF = true := by decide
example : isElem exTree = true := rfl

-- the theorems instantiated at `exTree`
example : parseDoc (renderDoc false exTree) = some (expected exTree) :=
  render_parses_compact exTree exTree_WF rfl
example : parseDoc (renderDoc true exTree) = some (expectedPretty exTree) :=
  render_parses_pretty exTree exTree_WF rfl

-- ... and their conclusions checked independently by kernel evaluation of the reader
theorem exTree_compact : parseDoc (renderDoc false exTree) = some (expected exTree) := by decide +kernel
theorem exTree_pretty : parseDoc (renderDoc true exTree) = some (expectedPretty exTree) := by decide +kernel
theorem exTree_cosmetic :
    Option.map stripWs (parseDoc (renderDoc true exTree)) = Option.map stripWs (parseDoc (renderDoc false exTree)) := by
  decide +kernel
-- the pretty and compact parses really differ before `stripWs`
theorem exTree_differs : parseDoc (renderDoc true exTree) ≠ parseDoc (renderDoc false exTree) := by decide +kernel
#print axioms exTree_compact

-- what `expected` looks like on the mixed-content label (boundary spaces, merged text):
example :
    expected (.elem "label".toList []
      [ .text false "A ".toList, .elem "output".toList [("value".toList, " /d/r ".toList)] [],
        .text false " and ".toList, .text true "\"B\"".toList,
        .elem "output".toList [("value".toList, "1 < 2".toList)] [] ]) =
    .elem "label".toList []
      [ .text false " A ".toList, .elem "output".toList [("value".toList, " /d/r ".toList)] [],
        .text false " and \"B\"".toList,
        .elem "output".toList [("value".toList, "1 < 2".toList)] [], .text false " ".toList ] := by
  decide +kernel
-- an empty text child disappears, `<label></label>` parses as an element without children:
example : renderDoc false (.elem "label".toList [] [.text false []]) = "<?xml version=\"1.0\"?><label></label>".toList := by
  decide +kernel
example : expected (.elem "label".toList [] [.text false []]) = .elem "label".toList [] [] := by decide +kernel
-- the hypotheses are needed: a CR in text is not read back, neither is a TAB in an attribute value
example : parseDoc (renderDoc false (.elem "a".toList [] [.text false "x\ry".toList])) ≠
    some (expected (.elem "a".toList [] [.text false "x\ry".toList])) := by decide +kernel
example : parseDoc (renderDoc false (.elem "a".toList [("k".toList, "x\ty".toList)] [])) ≠
    some (expected (.elem "a".toList [("k".toList, "x\ty".toList)] [])) := by decide +kernel

-- ... but the lax theorem says what is read instead (multi-line `jr:constraintMsg`):
def exLax : Node :=
  .elem "bind".toList [("nodeset".toList, "/d/q".toList), ("jr:constraintMsg".toList, "line 1\r\nline 2\n\tline 3\r".toList)] []
example : exLax.WF = false := by decide
theorem exLax_WFLax : exLax.WFLax = true := by decide
example : parseDoc (renderDoc false exLax) = some (expectedLax exLax) :=
  render_parses_compact_lax exLax exLax_WFLax rfl
example : expectedLax exLax = normAttrs exLax := by decide +kernel
example : normAttrs exLax =
    .elem "bind".toList [("nodeset".toList, "/d/q".toList), ("jr:constraintMsg".toList, "line 1 line 2  line 3 ".toList)] [] := by
  decide +kernel
example : parseDoc (renderDoc true exLax) = some (normAttrs exLax) := by decide +kernel

-- CR in text: adjacent text nodes `"a\r"`, `"\nb"` are read as one text `"a\nb"`; a lone CR becomes LF
def exCR : Node := .elem "label".toList [] [.text false "a\r".toList, .text true "\nb\rc".toList]
theorem exCR_WFLax : exCR.WFLax = true := by decide
example : parseDoc (renderDoc false exCR) = some (expectedLax exCR) :=
  render_parses_compact_lax exCR exCR_WFLax rfl
example : expectedLax exCR = .elem "label".toList [] [.text false " a\nb\nc ".toList] := by decide +kernel
example : parseDoc (renderDoc true exCR) = some (.elem "label".toList [] [.text false " a\nb\nc ".toList]) := by
  decide +kernel

#eval String.ofList (renderDoc true exTree)

end Pyxv.Xml
