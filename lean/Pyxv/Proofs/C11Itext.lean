import Pyxv.Proofs.C11
import Pyxv.Proofs.C07
/-!
# C11 ∘ C07: the `default_language` setting / argument reaches the itext block

Composition of this slice's `default_language_slot` (settings sheet, else the `default_language`
argument, else `default`) with the itext model's `Pyxv.C07.default_mark`: for any survey whose
`default_language` slot is the one the settings produce, a `<translation>` carries `default="true()"`
exactly when its language is the documented default language.
-/
namespace Pyxv.C11
open Pyxv Pyxv.Settings

/-- **default_translation**: exactly the translation(s) whose language equals the settings sheet's
    `default_language` (else the argument, else `default`) are marked as default; no other setting and
    no other argument can move the mark. -/
theorem default_translation {st : Dict} (hn : (keys st).Nodup) (a : Args) (x : Pyxv.Itext.Survey)
    (hx : x.defaultLanguage = defaultLanguageOf st a) :
    ∀ t ∈ (Pyxv.Itext.out x).translations,
      t.isDefault = (t.lang == Spec.defaultLanguage (sig st) a) := by
  rw [← default_language_slot hn a, ← hx]
  exact Pyxv.C07.default_mark x

/-- and when that language is among the translations, exactly one translation is marked -/
theorem default_translation_unique {st : Dict} (hn : (keys st).Nodup) (a : Args) (x : Pyxv.Itext.Survey)
    (hx : x.defaultLanguage = defaultLanguageOf st a)
    (hd : Spec.defaultLanguage (sig st) a ∈ (Pyxv.Itext.out x).translations.map (·.lang)) :
    ∃ pre t post, (Pyxv.Itext.out x).translations = pre ++ t :: post ∧
      t.lang = Spec.defaultLanguage (sig st) a ∧ t.isDefault = true ∧ ∀ u ∈ pre ++ post, u.isDefault = false := by
  rw [← default_language_slot hn a, ← hx] at hd ⊢
  exact Pyxv.C07.default_unique x hd

/-- non-vacuity: the argument `fr` with no `default_language` column; the column wins over the argument -/
example :
    Spec.defaultLanguage (sig []) { defaultLanguage := some (S "fr") } = S "fr" ∧
    defaultLanguageOf [(S "default_language", .s (S "en"))] { defaultLanguage := some (S "fr") } = S "en" ∧
    defaultLanguageOf [] {} = S "default" := by decide +kernel

end Pyxv.C11
