import Pyxv.Model.Headers
import Pyxv.Model.TextSpec
/-!
# C08 — header parsing: the model of `process_header` agrees with the spec's header reader

`Pyxv.Headers.processHeader` (the model of `sheet_headers.process_header` the driver runs) and
`Pyxv.TextSpec.readHeader` (the spec's own reading of a translatable column header) tokenise a header with the same
string primitives; what differs is how the first token is interpreted (alias / expected-column tables of the code vs the
spec's own spelling table).  `process_header_agrees_partial` proves that they agree on every header — any string, both
delimiter styles, any whitespace, any language — except when `process_header`'s second early exit fires.
-/
namespace Pyxv.C08
open Pyxv Pyxv.Headers

/-- the grouped-header tokens the text layer reads for a kind -/
def kindTokens (k : Str) : List Str :=
  if k = "constraint_message".toList then ["bind".toList, "jr:constraintMsg".toList]
  else if k = "required_message".toList then ["bind".toList, "jr:requiredMsg".toList]
  else if k = "image".toList ∨ k = "audio".toList ∨ k = "video".toList ∨ k = "big-image".toList then ["media".toList, k]
  else [k]

/-- what `process_header` makes of a first token `f` (already snake-cased): alias tokens, or the column itself -/
def headOf (al : List (Str × List Str)) (cols : List Str) (f : Str) : Option (List Str) :=
  match lookup f al with
  | some (a :: as) => some (a :: as)
  | _ => if cols.contains f then some [f] else none

/-- after tokenisation, `process_header` (no early exit) prepends `headOf` of the first token to the remaining tokens -/
theorem processHeader_of_tokens (h : Str) (d : Bool) (al : List (Str × List Str)) (cols : List Str) (t0 : Str) (rest hd : List Str)
    (hx1 : (cols.contains h && (lookup h al).isNone) = false)
    (hx2 : (cols.contains (toSnakeCase h) && (lookup (toSnakeCase h) al).isNone) = false)
    (ht : TextSpec.tokens d h = some (t0 :: rest)) (hh : headOf al cols (toSnakeCase t0) = some hd) :
    ∃ nh, processHeader h d al cols = .ok (nh, hd ++ rest) := by
  have htoks : (if d || isInfix "::".toList h then (Except.ok ((splitDC h).map strip) : Except Err (List Str))
      else fixJr ((splitOnChar ':' h).map strip)) = .ok (t0 :: rest) := by
    unfold TextSpec.tokens at ht
    by_cases hc : (d || isInfix "::".toList h) = true
    · have hc' : (d || isInfix (TextSpec.s "::") h) = true := hc
      simp only [hc', if_true, Option.some.injEq] at ht
      simp only [hc, if_true, ht]
    · have hc' : ¬ (d || isInfix (TextSpec.s "::") h) = true := hc
      rw [if_neg hc'] at ht
      rw [if_neg hc]
      cases hf : fixJr ((splitOnChar ':' h).map strip) with
      | ok t => rw [hf] at ht; simp only [Option.some.injEq] at ht; rw [ht]
      | error e => rw [hf] at ht; cases ht
  unfold processHeader
  simp only [hx1, hx2, Bool.false_eq_true, if_false, htoks]
  unfold headOf at hh
  cases hl : lookup (toSnakeCase t0) al with
  | none =>
    simp only [hl] at hh ⊢
    by_cases hc : cols.contains (toSnakeCase t0) = true
    · rw [if_pos hc] at hh ⊢
      simp only [Option.some.injEq] at hh
      subst hh
      exact ⟨_, rfl⟩
    · rw [if_neg hc] at hh; cases hh
  | some as =>
    cases as with
    | nil =>
      simp only [hl] at hh ⊢
      by_cases hc : cols.contains (toSnakeCase t0) = true
      · rw [if_pos hc] at hh ⊢
        simp only [Option.some.injEq] at hh
        subst hh
        exact ⟨_, rfl⟩
      · rw [if_neg hc] at hh; cases hh
    | cons a as' =>
      simp only [hl, Option.some.injEq] at hh ⊢
      subst hh
      exact ⟨_, rfl⟩

theorem mem_of_lookup' {β} : ∀ {l : List (Str × β)} {k : Str} {v : β}, lookup k l = some v → (k, v) ∈ l
  | [], _, _, h => by simp [lookup] at h
  | (k', v') :: rest, k, v, h => by
    by_cases hk : k = k'
    · subst hk; simp only [lookup, if_true, Option.some.injEq] at h; subst h; simp
    · simp only [lookup, hk, if_false] at h
      exact List.mem_cons_of_mem _ (mem_of_lookup' h)

/-- what a successful `readHeader` says about the tokens: a first token, then either a `media`/`bind` sub-column token
found in the spec's grouped table or a first token found in its spelling table, then at most one language token -/
theorem readHeader_some (d : Bool) (h k : Str) (lopt : Option Str) (hr : TextSpec.readHeader d h = some (k, lopt)) :
    ∃ t0 rest, TextSpec.tokens d h = some (t0 :: rest) ∧
      ((∃ t1 g, rest = t1 :: lopt.toList ∧ g ∈ TextSpec.groupedKindOf ∧ g.1 = toSnakeCase t0 ∧ g.2.1 = t1 ∧ g.2.2 = k) ∨
       (rest = lopt.toList ∧ (toSnakeCase t0, k) ∈ TextSpec.kindOf)) := by
  unfold TextSpec.readHeader at hr
  cases ht : TextSpec.tokens d h with
  | none => simp [ht] at hr
  | some toks =>
    cases toks with
    | nil => simp [ht] at hr
    | cons t0 rest =>
      refine ⟨t0, rest, rfl, ?_⟩
      simp only [ht] at hr
      -- the grouped reading first
      cases rest with
      | nil =>
        simp only at hr
        cases hl : lookup (toSnakeCase t0) TextSpec.kindOf with
        | none => simp [hl] at hr
        | some k' =>
          simp only [hl, Option.map_some, Option.some.injEq, Prod.mk.injEq] at hr
          obtain ⟨rfl, rfl⟩ := hr
          exact Or.inr ⟨rfl, mem_of_lookup' hl⟩
      | cons t1 rest' =>
        simp only at hr
        cases hf : (TextSpec.groupedKindOf.find? fun g => decide (g.1 = toSnakeCase t0 ∧ g.2.1 = t1)) with
        | some g =>
          have hg := List.find?_some hf
          have hmem := List.mem_of_find?_eq_some hf
          simp only [decide_eq_true_eq] at hg
          simp only [hf, Option.map_some] at hr
          cases rest' with
          | nil =>
            simp only [Option.some.injEq, Prod.mk.injEq] at hr
            obtain ⟨rfl, rfl⟩ := hr
            exact Or.inl ⟨t1, g, rfl, hmem, hg.1, hg.2, rfl⟩
          | cons l rest'' =>
            cases rest'' with
            | nil =>
              simp only [Option.some.injEq, Prod.mk.injEq] at hr
              obtain ⟨rfl, rfl⟩ := hr
              exact Or.inl ⟨t1, g, rfl, hmem, hg.1, hg.2, rfl⟩
            | cons _ _ => simp at hr
        | none =>
          simp only [hf, Option.map_none] at hr
          cases hl : lookup (toSnakeCase t0) TextSpec.kindOf with
          | none => simp [hl] at hr
          | some k' =>
            simp only [hl, Option.map_some] at hr
            cases rest' with
            | nil =>
              simp only [Option.some.injEq, Prod.mk.injEq] at hr
              obtain ⟨rfl, rfl⟩ := hr
              exact Or.inr ⟨rfl, mem_of_lookup' hl⟩
            | cons _ _ => simp at hr

/-- table facts (re-checked against the regenerated alias / column tables on every run): for the survey sheet the code's
reading of every first token in the spec's spelling tables is the token list the text layer reads for that kind -/
theorem survey_heads_agree :
    (TextSpec.groupedKindOf.all fun g =>
      decide (headOf surveyAliases surveyColumns g.1 = some [g.1]) && decide (kindTokens g.2.2 = [g.1, g.2.1])) = true ∧
    (TextSpec.kindOf.all fun e => decide (headOf surveyAliases surveyColumns e.1 = some (kindTokens e.2))) = true := by
  decide +kernel

/-- **header parsing equivalence** (survey sheet): for every header string `h` — both delimiter styles, arbitrary whitespace
around tokens, the `jr:` case, any language — that the spec reads as (kind, optional language), the model of `process_header`
returns exactly the tokens the text layer reads for that kind, followed by the language.  `_partial`: the hypothesis `hx2`
excludes `process_header`'s second early exit (the snake-cased *whole* header is itself an un-aliased expected column: the
case/space variants `Label`, `Hint`, `Guidance Hint` of the three plain columns, covered by `process_header_shapes` and by the
function-level correspondence run); `hx1` is the first early exit (the header is literally an expected column), for which
`process_header_plain_columns` gives the same conclusion. -/
theorem process_header_agrees_partial (d : Bool) (h k : Str) (lopt : Option Str)
    (hx1 : (surveyColumns.contains h && (lookup h surveyAliases).isNone) = false)
    (hx2 : (surveyColumns.contains (toSnakeCase h) && (lookup (toSnakeCase h) surveyAliases).isNone) = false)
    (hr : TextSpec.readHeader d h = some (k, lopt)) :
    ∃ nh, processHeader h d surveyAliases surveyColumns = .ok (nh, kindTokens k ++ lopt.toList) := by
  obtain ⟨t0, rest, ht, hcase⟩ := readHeader_some d h k lopt hr
  have hF := survey_heads_agree
  rcases hcase with ⟨t1, g, hrest, hmem, hg1, hg2, hg3⟩ | ⟨hrest, hmem⟩
  · have := (List.all_eq_true.mp hF.1) g hmem
    simp only [Bool.and_eq_true, decide_eq_true_eq] at this
    obtain ⟨nh, hp⟩ := processHeader_of_tokens h d _ _ t0 rest [g.1] hx1 hx2 ht (hg1 ▸ this.1)
    refine ⟨nh, ?_⟩
    rw [hp, hrest, ← hg3, this.2, ← hg2]
    simp
  · have := (List.all_eq_true.mp hF.2) _ hmem
    simp only [decide_eq_true_eq] at this
    obtain ⟨nh, hp⟩ := processHeader_of_tokens h d _ _ t0 rest _ hx1 hx2 ht this
    exact ⟨nh, by rw [hp, hrest]⟩

/-- the first early exit: a header that is literally an un-aliased expected column and that the spec reads as a kind is that
kind's (single) token — checked over the regenerated column table -/
theorem process_header_plain_columns :
    (surveyColumns.all fun c => [true, false].all fun d =>
      match TextSpec.readHeader d c with
      | some (k, lopt) => !(lookup c surveyAliases).isNone || decide ([c] = kindTokens k ++ lopt.toList)
      | none => true) = true := by
  decide +kernel

/-- non-vacuity: `constraint message : French (fr)` (single colon, spaces, alias spelling) -/
example : ∃ nh, processHeader "constraint message : French (fr)".toList false surveyAliases surveyColumns =
    .ok (nh, ["bind".toList, "jr:constraintMsg".toList, "French (fr)".toList]) :=
  process_header_agrees_partial false _ "constraint_message".toList (some "French (fr)".toList)
    (by decide +kernel) (by decide +kernel) (by decide +kernel)

example : ∃ nh, processHeader "media::image :: fr".toList true surveyAliases surveyColumns =
    .ok (nh, ["media".toList, "image".toList, "fr".toList]) :=
  process_header_agrees_partial true _ "image".toList (some "fr".toList) (by decide +kernel) (by decide +kernel) (by decide +kernel)

end Pyxv.C08
