import Pyxv.Proofs.WarningsLemmas
import Pyxv.Model.WarningsItext
import Pyxv.Proofs.C07
/-!
# C20 — advisory warnings fire exactly when their trigger is present

Theorems about `Pyxv.Warn` (the model of the warning mechanisms) against `Pyxv.Warn.Spec` (the trigger
predicates), for all inputs.  Facts about table contents are `decide` theorems, re-checked against the
tables regenerated from the source on every run.
-/
namespace Pyxv.C20
open Pyxv Pyxv.Warn Pyxv.Warn.Spec

/-! ## Levenshtein -/

/-- **Flagship.** The two-row programme of `utils.levenshtein_distance` computes the textbook edit distance,
    for all strings. -/
theorem lev_correct (a b : Str) : levenshtein a b = lev a b := by
  rw [levenshtein_eq_lev_reverse, lev_reverse]

example : levenshtein "kitten".toList "sitting".toList = 3 := by decide
example : lev "abc".toList "bca".toList = 2 := by decide
example : levenshtein "Settings".toList "settings".toList = 1 := by decide

theorem lev_self (a : Str) : lev a a = 0 := by
  induction a with
  | nil => rfl
  | cons x a ih => rw [lev_cons_cons]; simp [min3, ih]

/-! ## Sheet misspellings -/

/-- table fact: supported sheet names are lower case … -/
theorem supported_lower : ∀ s ∈ supported, lowerAscii s = s := by decide
/-- … and pairwise further than 2 edits apart (so a name close to one is close to no other) -/
theorem supported_far : ∀ s ∈ supported, ∀ t ∈ supported, s ≠ t → 2 < levenshtein s t := by decide +kernel
theorem settings_entities_supported : "settings".toList ∈ supported ∧ "entities".toList ∈ supported := by decide

/-- **misspelling_iff** (unguarded since F28 was repaired: the membership test lower-cases the name).
    Sheet `s` is named in the warning for `key` iff it is present and is a misspelling of `key` in the sense of
    the specification: within edit distance 2, not a spelling (in any letter case) of a supported sheet name, not
    underscore-prefixed. -/
theorem misspelling_iff (lower : Str → Str) (sup : List Str) (key : Str) (keys : List Str) (s : Str) :
    s ∈ misspellCands lower sup key keys ↔ s ∈ keys ∧ isMisspelling lev lower sup key s = true := by
  simp [misspellCands, isMisspelling, lev_correct, List.mem_filter]

/-- a case variant of a supported name is never reported (the former F28 shape), for the current tables -/
theorem case_variant_not_reported (key : Str) (keys : List Str) (s : Str)
    (h : lowerAscii s ∈ supported) : s ∉ misspellCands lowerAscii supported key keys := by
  rw [misspelling_iff]
  simp [isMisspelling, h]

/-- the hypotheses of the two theorems hold for the tables of the current source -/
theorem misspelling_tables_ok :
    (∀ t ∈ supported, lowerAscii t = t) ∧
    (∀ key ∈ supported, ∀ t ∈ supported, t ≠ key → 2 < lev t key) :=
  ⟨supported_lower, fun key hk t ht hne => by rw [← lev_correct]; exact supported_far t ht key hk hne⟩

example : misspellCands lowerAscii supported "settings".toList
    ["survey".toList, "Settings".toList, "setting".toList, "_setting".toList, "choices".toList]
    = ["setting".toList] := by decide

/-! ## Missing translations -/

/-- **missing_translation_iff.**  On a sheet whose translatable headers have the shape `col` or `col::lang`
    (guard `trShort`), language `lang` is reported as missing column `col` iff — module docstring of
    `translations_checks.Translations` — `lang` is used by some translatable column, `col` is used in some
    language, and there is no `col` in `lang` ("default" being the unspecified language).  Holds for both
    sheets (`tbl` = the survey or the choices table). -/
theorem missing_translation_iff (tbl : Aliases) (hs : List (List Str)) (hsh : trShort tbl hs = true)
    (lang col : Str) :
    (∃ cols, (lang, cols) ∈ findMissing (findTranslations tbl hs) ∧ col ∈ cols) ↔
      trMissing (trPairs tbl hs) lang col = true := by
  have inv := findTranslations_inv tbl hs hsh
  generalize findTranslations tbl hs = t at inv
  generalize trPairs tbl hs = ps at inv
  have hspec : trMissing ps lang col = true ↔
      (∃ c, (c, lang) ∈ ps) ∧ (∃ l, (col, l) ∈ ps) ∧ (col, lang) ∉ ps := by
    simp only [trMissing, Bool.and_eq_true, List.any_eq_true, decide_eq_true_eq, Bool.not_eq_true',
      List.contains_eq_mem, decide_eq_false_iff_not, and_assoc]
    constructor
    · rintro ⟨⟨p, hp, rfl⟩, ⟨q, hq, rfl⟩, hn⟩
      exact ⟨⟨p.1, hp⟩, ⟨q.2, hq⟩, hn⟩
    · rintro ⟨⟨c, hc⟩, ⟨l, hl⟩, hn⟩
      exact ⟨⟨(c, lang), hc, rfl⟩, ⟨(col, l), hl, rfl⟩, hn⟩
  rw [hspec]
  unfold findMissing
  by_cases hdo : seenDefaultOnly t = true
  · simp only [hdo, if_true, List.not_mem_nil, false_and, exists_false, false_iff]
    rintro ⟨⟨c, hc⟩, ⟨l, hl⟩, hn⟩
    simp only [seenDefaultOnly, Bool.or_eq_true, List.isEmpty_iff, Bool.and_eq_true, List.any_eq_true,
      decide_eq_true_eq, beq_iff_eq] at hdo
    rcases hdo with hnil | ⟨⟨e, he, hk⟩, hlen⟩
    · obtain ⟨e', he', _⟩ := (inv.keys lang).mpr ⟨c, hc⟩
      rw [hnil] at he'; cases he'
    · -- exactly one entry, keyed `default`: every language in the pairs is `default`
      have hone : ∀ e' ∈ t.seen, e' = e := by
        intro e' he'
        match hseen : t.seen, hlen, he, he' with
        | [x], _, he, he' =>
          simp only [List.mem_singleton] at he he'
          rw [he, he']
      have hl1 : lang = defaultLang := by
        obtain ⟨e', he', hk'⟩ := (inv.keys lang).mpr ⟨c, hc⟩
        rw [← hk', hone e' he', hk]
      have hl2 : l = defaultLang := by
        obtain ⟨e', he', hk'⟩ := (inv.keys l).mpr ⟨col, hl⟩
        rw [← hk', hone e' he', hk]
      exact hn (hl1 ▸ hl2 ▸ hl)
  · simp only [hdo, if_false, Bool.false_eq_true]
    constructor
    · rintro ⟨cols, hmem, hcol⟩
      rw [List.mem_filterMap] at hmem
      obtain ⟨e, he, hval⟩ := hmem
      split at hval
      · cases hval
      · rename_i m hm
        simp only [Option.some.injEq, Prod.mk.injEq] at hval
        obtain ⟨rfl, rfl⟩ := hval
        have : col ∈ t.cols ∧ col ∉ e.2 := by simpa [List.mem_filter] using hcol
        refine ⟨?_, (inv.cols col).mp this.1, ?_⟩
        · exact (inv.keys e.1).mp ⟨e, he, rfl⟩
        · intro h; exact this.2 ((inv.seen e he col).mpr h)
    · rintro ⟨hc, hl, hn⟩
      obtain ⟨e, he, rfl⟩ := (inv.keys lang).mpr hc
      have hin : col ∈ t.cols.filter (fun c => !e.2.contains c) := by
        simp only [List.mem_filter, Bool.not_eq_true', List.contains_eq_mem, decide_eq_false_iff_not]
        exact ⟨(inv.cols col).mpr hl, fun h => hn ((inv.seen e he col).mp h)⟩
      refine ⟨t.cols.filter (fun c => !e.2.contains c), ?_, hin⟩
      rw [List.mem_filterMap]
      refine ⟨e, he, ?_⟩
      split
      · rename_i heq; rw [heq] at hin; cases hin
      · rfl


example : findMissing (findTranslations surveyTrTable
    [["type".toList], ["label".toList], ["hint".toList, "fr".toList], ["media".toList, "image".toList, "fr".toList]])
    = [(defaultLang, ["hint".toList, "image".toList]), ("fr".toList, ["label".toList])] := by decide
example : trShort surveyTrTable
    [["type".toList], ["label".toList], ["hint".toList, "fr".toList], ["media".toList, "image".toList, "fr".toList]] = true := by decide

/-! ## IANA language codes -/

/-- **iana_iff.**  A language of at least 3 characters is listed iff it is due (not `default`, no valid
    `(code)`); subtag membership is a parameter. -/
theorem iana_iff (isTag : Str → Bool) (langs : List Str) (l : Str) (hlen : 3 ≤ l.length) :
    l ∈ languagesWithBadTags isTag langs ↔ l ∈ langs ∧ ianaDue isTag l = true := by
  have h3 : ¬ l.length < 3 := by omega
  simp only [languagesWithBadTags, List.mem_filter, badTag, ianaDue, hasValidCode, h3, decide_false,
    Bool.or_false]
  by_cases hd : l = defaultLang
  · simp [hd]
  · cases hc : langCode l <;> simp [hd]

/-- **F39, exactly.**  Shorter labels are never listed, whatever they are. -/
theorem iana_short_never (isTag : Str → Bool) (langs : List Str) (l : Str) (hlen : l.length < 3) :
    l ∉ languagesWithBadTags isTag langs := by
  simp [languagesWithBadTags, List.mem_filter, badTag, hlen]

example : languagesWithBadTags (fun c => c = "en".toList)
    ["English (en)".toList, "French".toList, "Bosnian (bos)".toList, "fr".toList, "default".toList]
    = ["French".toList, "Bosnian (bos)".toList] := by decide
example : ianaDue (fun c => c = "en".toList) "fr".toList = true := by decide


/-! ## Row-level warnings -/

/-- **Row-level warnings, all kinds at once.**  After a successful row loop a warning is in the list iff it was
    there before or it is due for some row (numbered from `n`). -/
theorem row_warning_iff (rows : List PRow) (n : Nat) (st st' : St) (h : rowLoop n rows st = .ok st') (w : W) :
    w ∈ st'.warnings ↔ w ∈ st.warnings ∨ ∃ i r, rows[i]? = some r ∧ w ∈ rowDue (n + i) r := by
  rw [(rowLoop_ok rows n st st' h).1, List.mem_append, mem_rowsDue]

theorem or_other_flag (rows : List PRow) (n : Nat) (st st' : St) (h : rowLoop n rows st = .ok st') :
    st'.orOther = (st.orOther || rows.any orOtherRow) := (rowLoop_ok rows n st st' h).2

/-! per kind: when is a warning of that kind due for row `n` -/

theorem disabled_iff (n m : Nat) (r : PRow) : W.disabled m ∈ rowDue n r ↔ m = n ∧ disabledTrig r = true := by
  simp only [rowDue, disabledTrig, List.mem_append]
  constructor
  · rintro (((((h | h) | h) | h) | h) | h) <;> (try (split at h)) <;> (try (split at h)) <;> (try (split at h)) <;> simp_all
  · rintro ⟨rfl, h⟩; simp [h]

theorem skipped_iff (n m : Nat) (r : PRow) : W.skipped m ∈ rowDue n r ↔ m = n ∧ skippedTrig r = true := by
  simp only [rowDue, List.mem_append]
  constructor
  · rintro (((((h | h) | h) | h) | h) | h) <;> (try (split at h)) <;> (try (split at h)) <;> (try (split at h)) <;> simp_all
  · rintro ⟨rfl, h⟩; simp [h]

theorem deprecated_iff (n m : Nat) (r : PRow) (t : Str) :
    W.deprecated m t ∈ rowDue n r ↔ m = n ∧ deprecatedTrig r t = true := by
  simp only [rowDue, List.mem_append]
  constructor
  · rintro (((((h | h) | h) | h) | h) | h) <;> (try (split at h)) <;> (try (split at h)) <;> (try (split at h)) <;> simp_all
  · rintro ⟨rfl, h⟩
    have hty : rowType r = some t := by
      simp only [deprecatedTrig, Bool.and_eq_true, decide_eq_true_eq] at h
      exact h.1.1.2
    simp [hty, h]

theorem no_label_iff (n m : Nat) (r : PRow) (ct : Str) :
    W.noLabel m ct ∈ rowDue n r ↔ m = n ∧ noLabelTrig r ct = true := by
  simp only [rowDue, List.mem_append]
  constructor
  · rintro (((((h | h) | h) | h) | h) | h) <;> (try (split at h)) <;> (try (split at h)) <;> (try (split at h)) <;> simp_all
  · rintro ⟨rfl, h⟩
    have h' := h
    simp only [noLabelTrig, Bool.and_eq_true] at h'
    cases hty : rowType r with
    | none => simp [hty] at h'
    | some t =>
      simp only [hty, Bool.and_eq_true, decide_eq_true_eq] at h'
      simp [hty, h'.1.2.2, h]

theorem ext_no_filter_iff (n m : Nat) (r : PRow) :
    W.extNoFilter m ∈ rowDue n r ↔ m = n ∧ extNoFilterTrig r = true := by
  simp only [rowDue, List.mem_append]
  constructor
  · rintro (((((h | h) | h) | h) | h) | h) <;> (try (split at h)) <;> (try (split at h)) <;> (try (split at h)) <;> simp_all
  · rintro ⟨rfl, h⟩; simp [h]

theorem no_max_pixels_iff (n m : Nat) (r : PRow) :
    W.noMaxPixels m ∈ rowDue n r ↔ m = n ∧ noMaxPixelsTrig r = true := by
  simp only [rowDue, List.mem_append]
  constructor
  · rintro (((((h | h) | h) | h) | h) | h) <;> (try (split at h)) <;> (try (split at h)) <;> (try (split at h)) <;> simp_all
  · rintro ⟨rfl, h⟩; simp [h]


example : (rowOut 3 [(["type".toList], "image".toList), (["name".toList], "p".toList)]).toOption.map (·.ws)
    = some [W.noMaxPixels 3] := by decide +kernel
example : (rowOut 4 [(["type".toList], "begin group".toList), (["name".toList], "g".toList),
      (["disabled".toList], "no".toList)]).toOption.map (·.ws)
    = some [W.disabled 4, W.noLabel 4 "group".toList] := by decide +kernel
example : noMaxPixelsTrig [(["type".toList], "image".toList), (["name".toList], "p".toList)] = true := by decide +kernel


/-! ## Choices sheet, or_other -/

/-- **choice_no_label_iff.**  When the choices sheet is accepted, the warnings of `validate_choice_list` (run per
    list, lists in first-seen order) are exactly: one `[row : n]` warning for every numbered choice row that has a
    list name and no label. -/
theorem choice_no_label_iff (rows : List (Nat × PRow)) (ws : List W)
    (h : choicesWarnings (groupChoices rows) = .ok ws) (w : W) : w ∈ ws ↔ w ∈ choiceDue rows := by
  rw [choicesWarnings_mem _ ws h w]
  simp only [choiceDue, List.mem_filterMap]
  constructor
  · rintro ⟨g, hg, nr, hnr, hl, rfl⟩
    have := (foldl_gstep_mem rows [] nr).mp ⟨g, by rw [← groupChoices_eq]; exact hg, hnr⟩
    simp only [List.not_mem_nil, false_and, exists_false, false_or] at this
    exact ⟨nr, this.1, by simp [this.2, hl]⟩
  · rintro ⟨nr, hnr, hval⟩
    split at hval
    · rename_i hc
      simp only [Bool.and_eq_true, Bool.not_eq_true'] at hc
      simp only [Option.some.injEq] at hval
      obtain ⟨g, hg, hx⟩ := (foldl_gstep_mem rows [] nr).mpr (Or.inr ⟨hnr, hc.1⟩)
      exact ⟨g, by rw [groupChoices_eq]; exact hg, nr, hx, hc.2, hval.symm⟩
    · cases hval

example : (choicesWarnings (groupChoices (numberFrom 2
    [[(["list name".toList], "l".toList), (["name".toList], "a".toList), (["label".toList], "A".toList)],
     [(["list name".toList], "m".toList), (["name".toList], "x".toList)],
     [(["list name".toList], "l".toList), (["name".toList], "a".toList)]]))).toOption
    = some [W.choiceNoLabel 4, W.choiceNoLabel 3] := by decide +kernel

/-- **or_other_iff.**  `or_other_check` emits its warning iff some select row was spelled with or_other (`flag`,
    characterised by `or_other_flag`) and some translatable column on either sheet carries a language. -/
theorem or_other_iff (svh chh : List (List Str)) (hsv : trShort surveyTrTable svh = true)
    (hch : trShort choicesTrTable chh = true) (flag : Bool) :
    orOtherCheck flag (findTranslations surveyTrTable svh) (findTranslations choicesTrTable chh) =
      if flag && (translated (trPairs surveyTrTable svh) || translated (trPairs choicesTrTable chh))
      then [W.orOther] else [] := by
  unfold orOtherCheck
  rw [seenDefaultOnly_iff _ _ (findTranslations_inv _ _ hsv) (findTranslations_keys_nodup _ _),
    seenDefaultOnly_iff _ _ (findTranslations_inv _ _ hch) (findTranslations_keys_nodup _ _)]
  simp

example : orOtherCheck true (findTranslations surveyTrTable [["label".toList, "fr".toList]])
    (findTranslations choicesTrTable [["label".toList]]) = [W.orOther] := by decide +kernel

/-! ## Advisory only -/

/-- **warnings_advisory.**  The conversion result does not depend on the warnings list passed in, and that list is
    only appended to. -/
theorem warnings_advisory (lower : Str → Str) (wb : WB) (v : View) (w0 : List W) :
    convertOn lower wb v w0 = (convertOn lower wb v []).map (fun p => (p.1, w0 ++ p.2)) := by
  rw [convertOn_eq, convertOn_eq lower wb v []]
  cases choicesWarnings (groupChoices (numberFrom 2 v.chRows)) with
  | error e => rfl
  | ok chW =>
    simp only [List.nil_append]
    have h := rowLoop_frame w0 v.svRows 2 { warnings := preRows lower wb v chW }
    simp only at h
    rw [h]
    cases rowLoop 2 v.svRows { warnings := preRows lower wb v chW } with
    | error e => rfl
    | ok st => simp [Except.map, List.append_assoc]

example : (convertOn lowerAscii
    { sheetNames := ["survey".toList, "setting".toList], surveyHeader := [], survey := [], choicesHeader := [], choices := [],
      settingsHeader := [], settingsRows := 0, hasEntities := false }
    { chHeaders := [], chRows := [], svHeaders := [["type".toList], ["name".toList]],
      svRows := [[(["type".toList], "simserial".toList), (["name".toList], "s".toList)]] } [W.orOther]).toOption.map (·.2)
    = some [W.orOther, W.misspell "settings".toList ["setting".toList], W.deprecated 2 "simserial".toList] := by decide +kernel

/-! ## The whole workbook: model = specification -/

theorem misspell_eq (lower : Str → Str) (key : String) (names : List Str) :
    misspellW lower key names = misspellDue lev lower key names := by
  have hf : misspellCands lower supported key.toList names
      = names.filter (isMisspelling lev lower supported key.toList) := by
    unfold misspellCands
    apply List.filter_congr
    intro s _
    simp [isMisspelling, lev_correct]
  unfold misspellW findSheetMisspellings misspellDue
  rw [hf]
  cases names.filter (isMisspelling lev lower supported key.toList) <;> rfl

theorem mem_missingToW (sheet : String) (m : List (Str × List Str)) (w : W) :
    w ∈ missingToW sheet m ↔ ∃ l c, w = W.missingTr sheet.toList l c ∧ ∃ cols, (l, cols) ∈ m ∧ c ∈ cols := by
  simp only [missingToW, List.mem_flatMap, List.mem_map]
  constructor
  · rintro ⟨e, he, c, hc, rfl⟩; exact ⟨e.1, c, rfl, e.2, he, hc⟩
  · rintro ⟨l, c, rfl, cols, he, hc⟩; exact ⟨(l, cols), he, c, hc, rfl⟩

theorem mem_missingDue (sheet : String) (ps : List (Str × Str)) (w : W) :
    w ∈ missingDue sheet ps ↔ ∃ l c, w = W.missingTr sheet.toList l c ∧ trMissing ps l c = true := by
  simp only [missingDue, List.mem_flatMap, List.mem_map, List.mem_filter, mem_dedup]
  constructor
  · rintro ⟨l, _, c, ⟨_, h⟩, rfl⟩; exact ⟨l, c, rfl, h⟩
  · rintro ⟨l, c, rfl, h⟩
    have h' := h
    simp only [trMissing, Bool.and_eq_true, List.any_eq_true, decide_eq_true_eq] at h'
    obtain ⟨⟨⟨p, hp, rfl⟩, ⟨q, hq, rfl⟩⟩, _⟩ := h'
    exact ⟨p.2, ⟨p, hp, rfl⟩, q.1, ⟨⟨q, hq, rfl⟩, h⟩, rfl⟩

theorem missing_eq (sheet : String) (tbl : Aliases) (hs : List (List Str)) (hsh : trShort tbl hs = true) (w : W) :
    w ∈ missingToW sheet (findMissing (findTranslations tbl hs)) ↔ w ∈ missingDue sheet (trPairs tbl hs) := by
  rw [mem_missingToW, mem_missingDue]
  constructor
  · rintro ⟨l, c, rfl, h⟩; exact ⟨l, c, rfl, (missing_translation_iff tbl hs hsh l c).mp h⟩
  · rintro ⟨l, c, rfl, h⟩; exact ⟨l, c, rfl, (missing_translation_iff tbl hs hsh l c).mpr h⟩

/-- **Capstone.**  Whenever the model converts a workbook (header shapes `col` / `col::lang` for the translatable
    columns), the warnings it emits are — as a set, every kind and subject — exactly the warnings due by the trigger
    predicates of the specification. -/
theorem model_meets_spec (lower : Str → Str) (wb : WB) (v : View) (res : Res) (ws : List W)
    (hsv : trShort surveyTrTable v.svHeaders = true) (hch : trShort choicesTrTable v.chHeaders = true)
    (h : convertOn lower wb v [] = .ok (res, ws)) (w : W) :
    w ∈ ws ↔ w ∈ dueOn lev lower wb v := by
  rw [convertOn_eq] at h
  cases hcw : choicesWarnings (groupChoices (numberFrom 2 v.chRows)) with
  | error e => simp [hcw] at h
  | ok chW =>
    simp only [hcw, List.nil_append] at h
    cases hrl : rowLoop 2 v.svRows { warnings := preRows lower wb v chW } with
    | error e => simp [hrl] at h
    | ok st =>
      simp only [hrl, Except.ok.injEq, Prod.mk.injEq] at h
      obtain ⟨_, rfl⟩ := h
      obtain ⟨hw, ho⟩ := rowLoop_ok _ _ _ _ hrl
      simp only [Bool.false_or] at ho
      rw [hw, ho, or_other_iff _ _ hsv hch]
      have hchoice := choice_no_label_iff (numberFrom 2 v.chRows) chW hcw w
      unfold preRows dueOn missingCheck
      rw [misspell_eq, misspell_eq]
      simp only [List.mem_append, missing_eq "survey" _ _ hsv, missing_eq "choices" _ _ hch]
      by_cases hce : wb.choices.isEmpty = true
      · simp only [hce, if_true, List.mem_append, or_assoc]
      · have hce' : wb.choices.isEmpty = false := by simpa using hce
        simp only [hce', Bool.false_eq_true, if_false, List.mem_append, hchoice, or_assoc]

/-- the same at the level of `workbook_to_json` (header processing included): warnings of the model = warnings due -/
theorem workbook_meets_spec (lower : Str → Str) (wb : WB) (res : Res) (ws : List W)
    (h : workbookToJson lower wb [] = .ok (res, ws)) :
    ∃ v, view wb = .ok v ∧ workbookDue lev lower wb = .ok (dueOn lev lower wb v) ∧
      (trShort surveyTrTable v.svHeaders = true → trShort choicesTrTable v.chHeaders = true →
        ∀ w, w ∈ ws ↔ w ∈ dueOn lev lower wb v) := by
  unfold workbookToJson at h
  cases hv : view wb with
  | error e => simp [hv] at h
  | ok v =>
    simp only [hv] at h
    refine ⟨v, rfl, by simp [workbookDue, hv], fun hsv hch w => model_meets_spec lower wb v res ws hsv hch h w⟩

example : (convertOn lowerAscii
    { sheetNames := ["survey".toList, "setting".toList], surveyHeader := [], survey := [], choicesHeader := [], choices := [],
      settingsHeader := [], settingsRows := 0, hasEntities := false }
    { chHeaders := [], chRows := [], svHeaders := [["type".toList], ["name".toList]],
      svRows := [[(["type".toList], "simserial".toList), (["name".toList], "s".toList)]] } []).toOption.map (·.2)
    = some [W.misspell "settings".toList ["setting".toList], W.deprecated 2 "simserial".toList] := by decide +kernel


section Multiset
open List

theorem missing_perm (sheet : String) (tbl : Aliases) (hs : List (List Str)) (hsh : trShort tbl hs = true) :
    missingToW sheet (findMissing (findTranslations tbl hs)) ~ missingDue sheet (trPairs tbl hs) :=
  (List.perm_ext_iff_of_nodup
    (nodup_missingToW sheet _ (findTranslations_keys_nodup tbl hs) (findTranslations_cols_nodup tbl hs))
    (nodup_missingDue sheet _)).mpr (fun w => missing_eq sheet tbl hs hsh w)

/-- **Capstone with multiplicities.**  Whenever the model converts a workbook, the list of warnings it emits is a
    permutation of the list due by the specification: same warnings, same number of times each. -/
theorem model_meets_spec_perm (lower : Str → Str) (wb : WB) (v : View) (res : Res) (ws : List W)
    (hsv : trShort surveyTrTable v.svHeaders = true) (hch : trShort choicesTrTable v.chHeaders = true)
    (h : convertOn lower wb v [] = .ok (res, ws)) : ws ~ dueOn lev lower wb v := by
  rw [convertOn_eq] at h
  cases hcw : choicesWarnings (groupChoices (numberFrom 2 v.chRows)) with
  | error e => simp [hcw] at h
  | ok chW =>
    simp only [hcw, List.nil_append] at h
    cases hrl : rowLoop 2 v.svRows { warnings := preRows lower wb v chW } with
    | error e => simp [hrl] at h
    | ok st =>
      simp only [hrl, Except.ok.injEq, Prod.mk.injEq] at h
      obtain ⟨_, rfl⟩ := h
      obtain ⟨hw, ho⟩ := rowLoop_ok _ _ _ _ hrl
      simp only [Bool.false_or] at ho
      rw [hw, ho, or_other_iff _ _ hsv hch]
      have hchoice := choice_no_label_perm (numberFrom 2 v.chRows) chW hcw
      unfold preRows dueOn missingCheck
      rw [misspell_eq, misspell_eq]
      refine List.Perm.append_right _ (List.Perm.append_right _ ?_)
      rw [← List.append_assoc]
      refine List.Perm.append (List.Perm.append (List.Perm.append_right _ (List.Perm.append_left _ ?_))
        (missing_perm "survey" _ _ hsv)) (missing_perm "choices" _ _ hch)
      by_cases hce : wb.choices.isEmpty = true
      · simp [hce]
      · have hce' : wb.choices.isEmpty = false := by simpa using hce
        simp only [hce', Bool.false_eq_true, if_false]
        exact List.Perm.append_left _ hchoice

/-- the same at the level of `workbook_to_json` -/
theorem workbook_meets_spec_perm (lower : Str → Str) (wb : WB) (res : Res) (ws : List W)
    (h : workbookToJson lower wb [] = .ok (res, ws)) :
    ∃ v, view wb = .ok v ∧ workbookDue lev lower wb = .ok (dueOn lev lower wb v) ∧
      (trShort surveyTrTable v.svHeaders = true → trShort choicesTrTable v.chHeaders = true →
        ws ~ dueOn lev lower wb v) := by
  unfold workbookToJson at h
  cases hv : view wb with
  | error e => simp [hv] at h
  | ok v =>
    simp only [hv] at h
    exact ⟨v, rfl, by simp [workbookDue, hv], fun hsv hch => model_meets_spec_perm lower wb v res ws hsv hch h⟩

end Multiset


/-! ## IANA on the model's language set -/

/-- **iana_survey_iff.**  For a built survey inside the itext model's fragment, a language of ≥ 3 characters is
    named in the IANA warning iff it is the language of one of the `<translation>` blocks the itext model (C07)
    generates, is not `default`, and carries no registered `(code)`. -/
theorem iana_survey_iff (isTag : Str → Bool) (x : Itext.Survey) (o : Itext.Out) (h : Itext.run x = .ok o)
    (l : Str) (hlen : 3 ≤ l.length) :
    (∃ bad, W.iana bad ∈ ianaOfSurvey isTag x ∧ l ∈ bad) ↔
      (∃ t ∈ o.translations, t.lang = l) ∧ ianaDue isTag l = true := by
  have hl : surveyLanguages x = some (o.translations.map (·.lang)) := by simp [surveyLanguages, h]
  simp only [ianaOfSurvey, hl, ianaWarning]
  have hi := iana_iff isTag (o.translations.map (·.lang)) l hlen
  simp only [List.mem_map] at hi
  cases hb : languagesWithBadTags isTag (o.translations.map (·.lang)) with
  | nil =>
    rw [hb] at hi
    simp only [List.not_mem_nil, false_and, exists_false, false_iff]
    intro hc; exact (List.not_mem_nil (hi.mpr hc))
  | cons b bs =>
    rw [hb] at hi
    simp only [List.mem_singleton, W.iana.injEq]
    constructor
    · rintro ⟨bad, rfl, hm⟩; exact hi.mp hm
    · intro hc; exact ⟨_, rfl, hi.mpr hc⟩

/-- non-vacuity: C07's example survey with a second choice labelled in "French" — inside the itext model's fragment,
    the uncoded language is reported -/
example : (match Itext.run (Pyxv.C07.ex1 (Pyxv.C07.tr [("French", "B")])) with | .ok _ => true | _ => false) = true ∧
    ianaOfSurvey (fun c => c = "en".toList) (Pyxv.C07.ex1 (Pyxv.C07.tr [("French", "B")])) = [W.iana ["French".toList]] := by
  decide +kernel

/-! ## Everything the conversion emits: workbook warnings and the IANA warning -/

/-- when every form language has at least 3 characters (the complement of open finding F39) the IANA warning of the
    model is literally the one due -/
theorem iana_survey_eq (isTag : Str → Bool) (x : Itext.Survey)
    (hlen : ∀ langs, surveyLanguages x = some langs → ∀ l ∈ langs, 3 ≤ l.length) :
    ianaOfSurvey isTag x = Spec.ianaDueOfSurvey isTag x := by
  unfold ianaOfSurvey Spec.ianaDueOfSurvey
  cases hl : surveyLanguages x with
  | none => rfl
  | some langs =>
    have h3 := hlen langs hl
    have : languagesWithBadTags isTag langs = langs.filter (ianaDue isTag) := by
      unfold languagesWithBadTags
      apply List.filter_congr
      intro l hmem
      have hl3 : ¬ l.length < 3 := by have := h3 l hmem; omega
      simp only [badTag, ianaDue, hasValidCode, hl3, decide_false, Bool.or_false]
      by_cases hd : l = defaultLang
      · simp [hd]
      · cases langCode l <;> simp [hd]
    simp only [ianaWarning, Spec.ianaDueW, this]

section Multiset
open List
/-- **The oracle's statement on the model.**  Workbook warnings followed by the IANA warning of the built survey are a
    permutation of everything due (`Spec.dueOn` and `Spec.ianaDueOfSurvey`), for every workbook the model converts whose
    translatable headers are `col` / `col::lang` and whose form languages have at least 3 characters. -/
theorem all_warnings_perm (lower : Str → Str) (isTag : Str → Bool) (wb : WB) (v : View) (x : Itext.Survey)
    (res : Res) (ws : List W)
    (hsv : trShort surveyTrTable v.svHeaders = true) (hch : trShort choicesTrTable v.chHeaders = true)
    (hlen : ∀ langs, surveyLanguages x = some langs → ∀ l ∈ langs, 3 ≤ l.length)
    (h : convertOn lower wb v [] = .ok (res, ws)) :
    ws ++ ianaOfSurvey isTag x ~ dueOn lev lower wb v ++ Spec.ianaDueOfSurvey isTag x := by
  rw [iana_survey_eq isTag x hlen]
  exact List.Perm.append_right _ (model_meets_spec_perm lower wb v res ws hsv hch h)
end Multiset

/-- non-vacuity: a survey whose languages are `French` and `English (en)` meets the length hypothesis; C07's `ex1`
    (languages `en`, `fr`, `es`) does not — there model and specification differ, which is open finding F39 -/
def exLangs : Itext.Survey :=
  { defaultLanguage := "default".toList
    lists := []
    root := .node (Pyxv.C07.q .group "data" .none .none .none) [
      .node (Pyxv.C07.q .control "a" (Pyxv.C07.tr [("French", "A"), ("English (en)", "B")]) .none .none) []] }

example : surveyLanguages exLangs = some ["French".toList, "English (en)".toList] ∧
    ianaOfSurvey (fun c => c = "en".toList) exLangs = [W.iana ["French".toList]] ∧
    ianaOfSurvey (fun c => c = "en".toList) exLangs = Spec.ianaDueOfSurvey (fun c => c = "en".toList) exLangs ∧
    ianaOfSurvey (fun c => c = "en".toList) (Pyxv.C07.ex1 (Pyxv.C07.tr [("French", "B")]))
      ≠ Spec.ianaDueOfSurvey (fun c => c = "en".toList) (Pyxv.C07.ex1 (Pyxv.C07.tr [("French", "B")])) := by
  decide +kernel

/-! ## the tables the triggers are read from (pinned: the documented sets) -/

/-- the implementation's subtag reader (`read_tags`) agrees with a plain reading of the two IANA files (split on
    newlines, strip) at the table boundaries — first / last / shortest / longest entries and their near misses — and
    on the number of entries.  Regenerated by the translator from the files and the reader of the current source. -/
theorem iana_reader_agrees : ∀ e ∈ Pyxv.Gen.ianaBoundary, e.2.2.1 = e.2.2.2 := by decide +kernel
example : 20 ≤ Pyxv.Gen.ianaBoundary.length ∧ (Pyxv.Gen.ianaBoundary.any fun e => e.2.2.1) = true ∧
    (Pyxv.Gen.ianaBoundary.any fun e => !e.2.2.1) = true := by decide +kernel

/-- the deprecated metadata types of the documentation -/
theorem deprecated_pinned : deprecatedTypes = documentedDeprecated := deprecated_pinned'
/-- the translatable columns of the two sheets -/
theorem translatable_pinned :
    surveyTrTable.map (·.1) = ["label", "hint", "guidance_hint", "image", "big-image", "audio", "video",
      "jr:constraintMsg", "jr:requiredMsg"].map String.toList ∧
    choicesTrTable.map (·.1) = ["label", "image", "big-image", "audio", "video"].map String.toList := by decide
/-- spelling checks are made for sheets that are supported names -/
theorem default_language_pinned : defaultLang = "default".toList := by decide

end Pyxv.C20
