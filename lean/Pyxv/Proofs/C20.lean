import Pyxv.Proofs.WarningsLemmas
/-!
# C20 — advisory warnings fire exactly when their trigger is present

Theorems about `Pyxv.Warn` (the model of the warning mechanisms) against `Pyxv.Warn.Spec` (the trigger
predicates), for all inputs.  Facts about table contents are `decide` theorems, re-checked against the
tables regenerated from the source on every run.
-/
namespace Pyxv.C20
open Pyxv Pyxv.Warn Pyxv.Warn.Spec

/-! ## Levenshtein -/

/-- **Flagship.** The two-row programme of `utils.levenshtein_distance` computes the textbook edit distance,
    for all strings. -/
theorem lev_correct (a b : Str) : levenshtein a b = lev a b := by
  rw [levenshtein_eq_lev_reverse, lev_reverse]

example : levenshtein "kitten".toList "sitting".toList = 3 := by decide
example : lev "abc".toList "bca".toList = 2 := by decide
example : levenshtein "Settings".toList "settings".toList = 1 := by decide

theorem lev_self (a : Str) : lev a a = 0 := by
  induction a with
  | nil => rfl
  | cons x a ih => rw [lev_cons_cons]; simp [min3, ih]

/-! ## Sheet misspellings -/

/-- table fact: supported sheet names are lower case … -/
theorem supported_lower : ∀ s ∈ supported, lowerAscii s = s := by decide
/-- … and pairwise further than 2 edits apart (so a name close to one is close to no other) -/
theorem supported_far : ∀ s ∈ supported, ∀ t ∈ supported, s ≠ t → 2 < levenshtein s t := by decide +kernel
theorem settings_entities_supported : "settings".toList ∈ supported ∧ "entities".toList ∈ supported := by decide

/-- what the code computes, with the edit distance in place of the programme -/
theorem misspelling_model (lower : Str → Str) (sup : List Str) (key : Str) (keys : List Str) (s : Str) :
    s ∈ misspellCands lower sup key keys ↔
      s ∈ keys ∧ lev (lower s) key ≤ 2 ∧ s ∉ sup ∧ startsWith s ['_'] = false := by
  simp [misspellCands, lev_correct, List.mem_filter, and_assoc]

/-- **misspelling_iff.**  If no present sheet differs from a supported name only by letter case (guard = the
    complement of F28), sheet `s` is named in the warning for `key` iff it is a misspelling of `key` in the
    sense of the specification. -/
theorem misspelling_iff (lower : Str → Str) (sup : List Str) (key : Str) (keys : List Str)
    (hlow : ∀ t ∈ sup, lower t = t)
    (guard : ∀ s ∈ keys, lower s ∈ sup → s ∈ sup) (s : Str) :
    s ∈ misspellCands lower sup key keys ↔ s ∈ keys ∧ isMisspelling lev lower sup key s = true := by
  rw [misspelling_model]
  simp only [isMisspelling, Bool.and_eq_true, decide_eq_true_eq, Bool.not_eq_true', List.contains_eq_mem,
    decide_eq_false_iff_not]
  constructor
  · rintro ⟨hk, hd, hs, hu⟩
    exact ⟨hk, ⟨hd, fun h => hs (guard s hk h)⟩, hu⟩
  · rintro ⟨hk, ⟨hd, hs⟩, hu⟩
    exact ⟨hk, hd, fun h => hs (by rw [hlow s h]; exact h), hu⟩

/-- **F28, exactly.**  Without the guard the code reports, besides the misspellings, precisely the case
    variants of `key` itself. -/
theorem misspelling_f28_exact (lower : Str → Str) (sup : List Str) (key : Str) (keys : List Str)
    (hlow : ∀ t ∈ sup, lower t = t) (hkey : key ∈ sup)
    (hfar : ∀ t ∈ sup, t ≠ key → 2 < lev t key) (s : Str) :
    s ∈ misspellCands lower sup key keys ↔
      s ∈ keys ∧ (isMisspelling lev lower sup key s = true ∨
                  (lower s = key ∧ s ≠ key ∧ startsWith s ['_'] = false)) := by
  rw [misspelling_model]
  simp only [isMisspelling, Bool.and_eq_true, decide_eq_true_eq, Bool.not_eq_true', List.contains_eq_mem,
    decide_eq_false_iff_not]
  constructor
  · rintro ⟨hk, hd, hs, hu⟩
    refine ⟨hk, ?_⟩
    by_cases hm : lower s ∈ sup
    · right
      have : lower s = key := by
        by_cases hne : lower s = key
        · exact hne
        · have := hfar _ hm hne
          omega
      exact ⟨this, fun h => hs (h ▸ hkey), hu⟩
    · left; exact ⟨⟨hd, hm⟩, hu⟩
  · rintro ⟨hk, h | ⟨h1, h2, hu⟩⟩
    · obtain ⟨⟨hd, hs⟩, hu⟩ := h
      exact ⟨hk, hd, fun h => hs (by rw [hlow s h]; exact h), hu⟩
    · refine ⟨hk, ?_, ?_, hu⟩
      · rw [h1, lev_self]; omega
      · intro h; exact h2 (by rw [← hlow s h]; exact h1)

/-- the hypotheses of the two theorems hold for the tables of the current source -/
theorem misspelling_tables_ok :
    (∀ t ∈ supported, lowerAscii t = t) ∧
    (∀ key ∈ supported, ∀ t ∈ supported, t ≠ key → 2 < lev t key) :=
  ⟨supported_lower, fun key hk t ht hne => by rw [← lev_correct]; exact supported_far t ht key hk hne⟩

example : misspellCands lowerAscii supported "settings".toList
    ["survey".toList, "Settings".toList, "setting".toList, "_setting".toList, "choices".toList]
    = ["Settings".toList, "setting".toList] := by decide

/-! ## IANA language codes -/

/-- **iana_iff.**  A language of at least 3 characters is listed iff it is due (not `default`, no valid
    `(code)`); subtag membership is a parameter. -/
theorem iana_iff (isTag : Str → Bool) (langs : List Str) (l : Str) (hlen : 3 ≤ l.length) :
    l ∈ languagesWithBadTags isTag langs ↔ l ∈ langs ∧ ianaDue isTag l = true := by
  have h3 : ¬ l.length < 3 := by omega
  simp only [languagesWithBadTags, List.mem_filter, badTag, ianaDue, hasValidCode, h3, decide_false,
    Bool.or_false]
  by_cases hd : l = defaultLang
  · simp [hd]
  · cases hc : langCode l <;> simp [hd]

/-- **F39, exactly.**  Shorter labels are never listed, whatever they are. -/
theorem iana_short_never (isTag : Str → Bool) (langs : List Str) (l : Str) (hlen : l.length < 3) :
    l ∉ languagesWithBadTags isTag langs := by
  simp [languagesWithBadTags, List.mem_filter, badTag, hlen]

example : languagesWithBadTags (fun c => c = "en".toList)
    ["English (en)".toList, "French".toList, "Bosnian (bos)".toList, "fr".toList, "default".toList]
    = ["French".toList, "Bosnian (bos)".toList] := by decide
example : ianaDue (fun c => c = "en".toList) "fr".toList = true := by decide

/-! ## the tables the triggers are read from (pinned: the documented sets) -/

/-- the deprecated metadata types of the documentation -/
theorem deprecated_pinned : deprecatedTypes = documentedDeprecated := by decide
/-- the translatable columns of the two sheets -/
theorem translatable_pinned :
    surveyTrTable.map (·.1) = ["label", "hint", "guidance_hint", "image", "big-image", "audio", "video",
      "jr:constraintMsg", "jr:requiredMsg"].map String.toList ∧
    choicesTrTable.map (·.1) = ["label", "image", "big-image", "audio", "video"].map String.toList := by decide
/-- spelling checks are made for sheets that are supported names -/
theorem default_language_pinned : defaultLang = "default".toList := by decide

end Pyxv.C20
