import Pyxv.Proofs.ItextLemmas
import Pyxv.Proofs.ItextIds
import Pyxv.Proofs.ItextValues
/-!
# C07 — every itext reference resolves in every language

Theorems about the translation-table pipeline `Pyxv.Itext` (model of `Survey._setup_translations`,
`_setup_media`, `_add_empty_translations`, `itext()`, and of the references emitted by
`xml_label` / `xml_hint` / `xml_bindings` / search() items / `itextId`s), for **all** surveys:
any element tree, any number of languages, any sparse pattern of translated slots.

* `langs_nodup`, `ids_nodup`, `pad_uniform`, `default_unique` hold without any hypothesis.
* `refs_exist` carries one guard: `wf` (a shape invariant of the builder's output: no empty dict in
  a translatable slot, bind-message keys unique — evaluated by the check on every generated input; proved
  from the header layer in `Proofs/C07Rows.lean`).  The guards for the defects F6 and F45 are gone with their
  repairs (`f6_repaired`, `f45_repaired`).
  The former guard `choicesLabeled` (defect F6) is gone: `_add_empty_translations` now pads the ids of
  every choice of an itext-requiring list (`f6_repaired` is the former witness, now satisfying the
  property).
* `holds_out` packages the four statements as the decidable predicate `Itext.holds`, which is the
  oracle the check evaluates on the implementation's XForm.
-/
namespace Pyxv.C07
open Pyxv Pyxv.Itext

/-- all itext ids referenced by the XForm: body refs, bind-message refs, choice `itextId`s -/
def refs (x : Survey) : List Str := (out x).bodyRefs ++ (out x).bindRefs ++ (out x).itemIds

/-- the leaf assignments of survey `x` -/
def ents (x : Survey) : List Ent := entries x.defaultLanguage x.lists (flats x)

/-- whenever the model accepts, its result is `out x` (the theorems below are stated about `out x`
and therefore hold for every accepted survey) -/
theorem run_ok {x : Survey} {o : Out} (h : run x = .ok o) : o = out x := by
  simp only [run] at h
  split at h
  · cases h
  · split at h
    · cases h
    · split at h
      · cases h; rfl
      · cases h

theorem out_translations (x : Survey) :
    (out x).translations = itext x.defaultLanguage (pad x.lists (setup (ents x))) := rfl

theorem langs_itext (dl : Str) (T : Table) : (itext dl T).map (·.lang) = keys T := by
  simp [itext, keys, List.map_map, Function.comp_def]

theorem mem_itext {dl : Str} {T : Table} {t : Tr} (h : t ∈ itext dl T) :
    ∃ lps ∈ T, t.lang = lps.1 ∧ t.isDefault = (lps.1 == dl) ∧ t.ids = keys lps.2 := by
  unfold itext at h
  obtain ⟨lps, hl, rfl⟩ := List.mem_map.mp h
  exact ⟨lps, hl, rfl, rfl, by simp [Tr.ids, keys, List.map_map, Function.comp_def]⟩

theorem tableOk (x : Survey) : TableOk (pad x.lists (setup (ents x))) := tableOk_pad (tableOk_setup _)

/-- **No language appears twice** in the itext block. -/
theorem langs_nodup (x : Survey) : ((out x).translations.map (·.lang)).Nodup := by
  rw [out_translations, langs_itext]
  exact (tableOk x).1

/-- **No text id appears twice** within a translation. -/
theorem ids_nodup (x : Survey) : ∀ t ∈ (out x).translations, t.ids.Nodup := by
  intro t ht
  rw [out_translations] at ht
  obtain ⟨lps, hl, _, _, hi⟩ := mem_itext ht
  rw [hi]
  exact (tableOk x).2 lps hl

/-- **All translations contain the same set of text ids** (as sets; the order of ids differs between
languages in the implementation, and the model reproduces that order). -/
theorem pad_uniform (x : Survey) :
    ∀ t₁ ∈ (out x).translations, ∀ t₂ ∈ (out x).translations, ∀ i, i ∈ t₁.ids ↔ i ∈ t₂.ids := by
  intro t₁ h₁ t₂ h₂ i
  rw [out_translations] at h₁ h₂
  obtain ⟨l₁, hl₁, _, _, hi₁⟩ := mem_itext h₁
  obtain ⟨l₂, hl₂, _, _, hi₂⟩ := mem_itext h₂
  rw [hi₁, hi₂, mem_keys_pad hl₁, mem_keys_pad hl₂]

theorem default_split (dl : Str) (T : Table) (hn : (keys T).Nodup) (hd : dl ∈ keys T) :
    ∃ pre t post, itext dl T = pre ++ t :: post ∧ t.lang = dl ∧ t.isDefault = true ∧
      ∀ u ∈ pre ++ post, u.isDefault = false := by
  obtain ⟨lps, hl, hk⟩ := List.mem_map.mp hd
  obtain ⟨A, B, rfl⟩ := List.append_of_mem hl
  refine ⟨itext dl A, ⟨lps.1, lps.1 == dl, lps.2.map fun pf => (pf.1, valueForms pf.1 pf.2)⟩, itext dl B,
    by simp [itext], hk, by simp [hk], ?_⟩
  have hn' : (keys A ++ lps.1 :: keys B).Nodup := by simpa [keys] using hn
  rw [List.nodup_append] at hn'
  obtain ⟨_, hB, hAB⟩ := hn'
  rw [List.nodup_cons] at hB
  intro u hu
  rcases List.mem_append.mp hu with hu | hu
  · obtain ⟨l', hl', hlang, hdef, _⟩ := mem_itext hu
    rw [hdef]
    have : l'.1 ≠ dl := by
      intro e
      exact hAB l'.1 (List.mem_map.mpr ⟨l', hl', rfl⟩) lps.1 List.mem_cons_self (by rw [e, hk])
    simpa using this
  · obtain ⟨l', hl', hlang, hdef, _⟩ := mem_itext hu
    rw [hdef]
    have : l'.1 ≠ dl := by
      intro e
      exact hB.1 (by rw [hk, ← e]; exact List.mem_map.mpr ⟨l', hl', rfl⟩)
    simpa using this

/-- **When the default language is one of the translations, exactly that translation carries
`default="true()"`**: the block splits as `pre ++ t :: post` with `t` the default language's
translation, marked, and nothing in `pre ++ post` marked. -/
theorem default_unique (x : Survey)
    (hd : x.defaultLanguage ∈ (out x).translations.map (·.lang)) :
    ∃ pre t post, (out x).translations = pre ++ t :: post ∧ t.lang = x.defaultLanguage ∧
      t.isDefault = true ∧ ∀ u ∈ pre ++ post, u.isDefault = false := by
  rw [out_translations] at hd ⊢
  rw [langs_itext] at hd
  exact default_split _ _ (tableOk x).1 hd

/-- the mark is `lang == default_language` on every translation (also when the default language is
not among them: then nothing is marked) -/
theorem default_mark (x : Survey) :
    ∀ t ∈ (out x).translations, t.isDefault = (t.lang == x.defaultLanguage) := by
  intro t ht
  rw [out_translations] at ht
  obtain ⟨lps, _, hlang, hdef, _⟩ := mem_itext ht
  rw [hdef, hlang]

/-! ### references -/

theorem mem_ents_of_elem {x : Survey} {f : Flat} (hf : f ∈ flats x) (hv : visited f = true) {e : Ent}
    (he : e ∈ elemEntries x.defaultLanguage f ++ mediaEntries x.defaultLanguage f) : e ∈ ents x := by
  have hf' : f ∈ (flats x).filter visited := List.mem_filter.mpr ⟨hf, hv⟩
  unfold ents entries
  rcases List.mem_append.mp he with he | he
  · exact List.mem_append.mpr (Or.inl (List.mem_append.mpr (Or.inr (List.mem_flatMap.mpr ⟨f, hf', he⟩))))
  · exact List.mem_append.mpr (Or.inr (List.mem_flatMap.mpr ⟨f, hf', he⟩))

theorem mem_ents_of_choice {x : Survey} {e : Ent} (he : e ∈ choiceEntries x.defaultLanguage x.lists) :
    e ∈ ents x := by
  unfold ents entries
  exact List.mem_append.mpr (Or.inl (List.mem_append.mpr (Or.inl he)))

theorem wf_elem {x : Survey} (hw : wf x = true) {f : Flat} (hf : f ∈ flats x) : elemWf f.d = true := by
  simp only [wf, Bool.and_eq_true, List.all_eq_true] at hw
  exact hw.1 f hf

/-- `r` is the id of a choice of an itext-requiring list, and some language exists -/
def ChoiceRef (x : Survey) (r : Str) : Prop := r ∈ x.lists.flatMap listIds ∧ ∃ e, e ∈ ents x

theorem listIds_choiceRef {x : Survey} (hw : wf x = true) {l : CList} (hl : l ∈ x.lists) {r : Str}
    (hr : r ∈ listIds l) : ChoiceRef x r := by
  refine ⟨List.mem_flatMap.mpr ⟨l, hl, hr⟩, ?_⟩
  have hreq : requiresItext l = true := by
    unfold listIds at hr
    split at hr
    next h => exact h
    next => cases hr
  simp only [wf, Bool.and_eq_true, List.all_eq_true] at hw
  obtain ⟨e, he⟩ := requires_entry x.defaultLanguage hl (hw.2 l hl) hreq
  exact ⟨e, mem_ents_of_choice he⟩

theorem labelAndHint_sub {f : Flat} {r : Str} (h : r ∈ labelAndHint f) : r ∈ labelRef f ∨ r ∈ hintRef f := by
  unfold labelAndHint at h
  rcases List.mem_append.mp h with h | h
  · split at h
    · exact Or.inl h
    · cases h
  · split at h
    · exact Or.inr h
    · cases h

theorem label_or_hint_entry {x : Survey} (hw : wf x = true) {f : Flat} (hf : f ∈ flats x)
    (hv : visited f = true) {r : Str} (h : r ∈ labelRef f ∨ r ∈ hintRef f) :
    ∃ e ∈ ents x, e.path = r := by
  rcases h with h | h
  · obtain ⟨e, he, hp⟩ := labelRef_entry x.defaultLanguage (wf_elem hw hf) h
    exact ⟨e, mem_ents_of_elem hf hv he, hp⟩
  · obtain ⟨e, he, hp⟩ := hintRef_entry x.defaultLanguage (wf_elem hw hf) h
    exact ⟨e, mem_ents_of_elem hf hv (List.mem_append.mpr (Or.inl he)), hp⟩

theorem searchItemRefs_entry {x : Survey} (hw : wf x = true) {n r : Str}
    (h : r ∈ searchItemRefs x.lists n) : ChoiceRef x r := by
  unfold searchItemRefs at h
  split at h
  next l hfind => exact listIds_choiceRef hw (List.mem_of_find?_eq_some hfind) h
  next => cases h

mutual
theorem tag_mem_flatten (pre : Str) (hid : Bool) : ∀ (e : Elem), ∀ f ∈ flatten pre hid e, ∀ nl ∈ f.d.tags,
    (⟨f.xpath ++ '/' :: nl.1, tagD nl, f.hidden⟩ : Flat) ∈ flatten pre hid e
  | .node d kids, f, hf, nl, hnl => by
    simp only [flatten, List.mem_cons, List.mem_append] at hf ⊢
    rcases hf with rfl | hf | hf
    · exact Or.inr (Or.inl (List.mem_map.mpr ⟨nl, hnl, rfl⟩))
    · obtain ⟨nl', _, rfl⟩ := List.mem_map.mp hf
      simp [tagD] at hnl
    · exact Or.inr (Or.inr (tag_mem_flattenL _ _ kids f hf nl hnl))
theorem tag_mem_flattenL (pre : Str) (hid : Bool) : ∀ (es : List Elem), ∀ f ∈ flattenL pre hid es, ∀ nl ∈ f.d.tags,
    (⟨f.xpath ++ '/' :: nl.1, tagD nl, f.hidden⟩ : Flat) ∈ flattenL pre hid es
  | [], f, hf, _, _ => by simp [flattenL] at hf
  | e :: es, f, hf, nl, hnl => by
    simp only [flattenL, List.mem_append] at hf ⊢
    rcases hf with hf | hf
    · exact Or.inl (tag_mem_flatten pre hid e f hf nl hnl)
    · exact Or.inr (tag_mem_flattenL pre hid es f hf nl hnl)
end

/-- the label ref of an osm tag is filed by the tag's own visit in `_setup_translations` (eb9b6f4) -/
theorem tagRefs_entry {x : Survey} (hw : wf x = true) {f : Flat} (hf : f ∈ flats x) {r : Str}
    (h : r ∈ tagRefs f) : ∃ e ∈ ents x, e.path = r := by
  unfold tagRefs at h
  obtain ⟨nl, hnl, hin⟩ := List.mem_flatMap.mp h
  split at hin
  next hd =>
    simp only [List.mem_singleton] at hin
    have hf' : (⟨f.xpath ++ '/' :: nl.1, tagD nl, f.hidden⟩ : Flat) ∈ flats x :=
      tag_mem_flattenL _ _ _ f hf nl hnl
    apply label_or_hint_entry hw hf' (by simp [visited, tagD])
    left
    simp [labelRef, needsItextRef, tagD, hd, hin]
  next => cases hin

theorem bodyRefs_entry {x : Survey} (hw : wf x = true) {f : Flat}
    (hf : f ∈ flats x) {r : Str} (h : r ∈ bodyRefs x.lists f) :
    (∃ e ∈ ents x, e.path = r) ∨ ChoiceRef x r := by
  unfold bodyRefs at h
  split at h
  · cases h
  · split at h
    next hcls =>
      have hv : visited f = true := by simp [visited, hcls]
      split at h
      · exact Or.inl (label_or_hint_entry hw hf hv (Or.inl h))
      · cases h
    next hcls =>
      have hv : visited f = true := by simp [visited, hcls]
      exact Or.inl (label_or_hint_entry hw hf hv (Or.inl h))
    next hcls =>
      have hv : visited f = true := by simp [visited, hcls]
      split at h
      · exact Or.inl (label_or_hint_entry hw hf hv (labelAndHint_sub h))
      · cases h
    next hcls =>
      have hv : visited f = true := by simp [visited, hcls]
      split at h
      · rcases List.mem_append.mp h with h | h
        · exact Or.inl (label_or_hint_entry hw hf hv (labelAndHint_sub h))
        · exact Or.inl (tagRefs_entry hw hf h)
      · cases h
    next hcls =>
      have hv : visited f = true := by simp [visited, hcls]
      split at h
      · rcases List.mem_append.mp h with h | h
        · exact Or.inl (label_or_hint_entry hw hf hv (labelAndHint_sub h))
        · split at h
          · exact Or.inr (searchItemRefs_entry hw h)
          · cases h
      · cases h
    next => cases h

/-- every reference was filed under some language by `_setup_translations` / `_setup_media`, or is a
choice id that `_add_empty_translations` pads into every language -/
theorem ref_entry {x : Survey} (hw : wf x = true) {r : Str}
    (h : r ∈ refs x) : (∃ e ∈ ents x, e.path = r) ∨ ChoiceRef x r := by
  unfold refs out at h
  simp only [List.mem_append] at h
  rcases h with (h | h) | h
  · obtain ⟨f, hf, hr⟩ := List.mem_flatMap.mp h
    exact bodyRefs_entry hw hf hr
  · obtain ⟨f, hf, hr⟩ := List.mem_flatMap.mp h
    obtain ⟨hv, e, he, hp⟩ := bindRefs_entry x.defaultLanguage (wf_elem hw hf) hr
    exact Or.inl ⟨e, mem_ents_of_elem hf hv (List.mem_append.mpr (Or.inl he)), hp⟩
  · unfold itemIds at h
    obtain ⟨l, hl, hr⟩ := List.mem_flatMap.mp h
    exact Or.inr (listIds_choiceRef hw (List.mem_filter.mp hl).1 hr)

theorem nonempty_of_ent {x : Survey} {e : Ent} (he : e ∈ ents x) :
    itext x.defaultLanguage (pad x.lists (setup (ents x))) ≠ [] := by
  have h1 : e.path ∈ pathsIn (setup (ents x)) e.lang := (mem_pathsIn_setup _ _ _).mpr ⟨e, he, rfl, rfl⟩
  obtain ⟨lps, hl, _, _⟩ := mem_table_of_pathsIn h1
  intro hnil
  have : (itext x.defaultLanguage (pad x.lists (setup (ents x)))).map (·.lang) = [] := by rw [hnil]; rfl
  rw [langs_itext, keys_pad] at this
  have hm : lps.1 ∈ keys (setup (ents x)) := List.mem_map.mpr ⟨lps, hl, rfl⟩
  rw [this] at hm
  cases hm

/-- **Every `jr:itext('id')` reference in the body or in bind messages, and every `itextId` of a choice
item, names a text entry that exists in every translation** (and an itext block exists).
Guard: `wf` (builder-output shape; derived from the header layer in `Proofs/C07Rows.lean`). -/
theorem refs_exist (x : Survey) (hw : wf x = true) :
    ∀ r ∈ refs x, (out x).translations ≠ [] ∧ ∀ t ∈ (out x).translations, r ∈ t.ids := by
  intro r hr
  rw [out_translations]
  rcases ref_entry hw hr with ⟨e, he, hp⟩ | ⟨hc, e, he⟩
  · have h1 : e.path ∈ pathsIn (setup (ents x)) e.lang := (mem_pathsIn_setup _ _ _).mpr ⟨e, he, rfl, rfl⟩
    obtain ⟨lps, hl, _, hk⟩ := mem_table_of_pathsIn h1
    refine ⟨nonempty_of_ent he, ?_⟩
    intro t ht
    obtain ⟨lps', hl', _, _, hi⟩ := mem_itext ht
    rw [hi, mem_keys_pad hl', ← hp]
    exact Or.inl ⟨lps, hl, hk⟩
  · refine ⟨nonempty_of_ent he, ?_⟩
    intro t ht
    obtain ⟨lps', hl', _, _, hi⟩ := mem_itext ht
    rw [hi, mem_keys_pad hl']
    exact Or.inr hc

/-! ### the oracle predicate on the model's output -/

theorem contains_iff {l : List Str} {a : Str} : l.contains a = true ↔ a ∈ l := by
  simp

theorem defaultOk_out (x : Survey) : defaultOk (obsOf x.defaultLanguage (out x)) = true := by
  simp only [defaultOk, obsOf, List.all_eq_true, beq_iff_eq]
  exact default_mark x

/-- at most one translation is marked default, whatever the default language is -/
theorem default_at_most_one (x : Survey) :
    ((out x).translations.filter (·.isDefault)).length ≤ 1 := by
  by_cases hd : x.defaultLanguage ∈ (out x).translations.map (·.lang)
  · obtain ⟨pre, t, post, heq, _, ht, hrest⟩ := default_unique x hd
    rw [heq, List.filter_append, List.filter_cons, ht]
    have h1 : pre.filter (·.isDefault) = [] := by
      rw [List.filter_eq_nil_iff]; intro u hu; simp [hrest u (List.mem_append.mpr (Or.inl hu))]
    have h2 : post.filter (·.isDefault) = [] := by
      rw [List.filter_eq_nil_iff]; intro u hu; simp [hrest u (List.mem_append.mpr (Or.inr hu))]
    simp [h1, h2]
  · have : (out x).translations.filter (·.isDefault) = [] := by
      rw [List.filter_eq_nil_iff]
      intro t ht
      have hm := default_mark x t ht
      have hne : t.lang ≠ x.defaultLanguage := fun e => hd (e ▸ List.mem_map.mpr ⟨t, ht, rfl⟩)
      simp [hm, hne]
    simp [this]

/-- The decidable predicate `Itext.holds` — the oracle evaluated by the check on the implementation's
XForm — is true of the model's output for every survey satisfying the guard. -/
theorem holds_out (x : Survey) (hw : wf x = true) :
    holds (obsOf x.defaultLanguage (out x)) = true := by
  have hre := refs_exist x hw
  unfold holds
  simp only [Bool.and_eq_true]
  refine ⟨⟨⟨?_, ?_⟩, ?_⟩, ?_⟩
  · simp only [refsExist, obsOf, List.all_eq_true, Bool.and_eq_true, Bool.not_eq_true',
      List.isEmpty_eq_false_iff, contains_iff]
    intro r hr
    exact hre r hr
  · simp only [uniform, obsOf, List.all_eq_true, contains_iff]
    intro t₁ h₁ t₂ h₂ i hi
    exact (pad_uniform x t₁ h₁ t₂ h₂ i).mp hi
  · simp only [noDup, obsOf, Bool.and_eq_true, List.all_eq_true, nodupB_iff]
    exact ⟨langs_nodup x, ids_nodup x⟩
  · exact defaultOk_out x

/-- the three guard-free statements as the oracle's components -/
theorem holds_unconditional (x : Survey) :
    uniform (obsOf x.defaultLanguage (out x)) = true ∧ noDup (obsOf x.defaultLanguage (out x)) = true ∧
      defaultOk (obsOf x.defaultLanguage (out x)) = true := by
  refine ⟨?_, ?_, ?_⟩
  · simp only [uniform, obsOf, List.all_eq_true, contains_iff]
    intro t₁ h₁ t₂ h₂ i hi
    exact (pad_uniform x t₁ h₁ t₂ h₂ i).mp hi
  · simp only [noDup, obsOf, Bool.and_eq_true, List.all_eq_true, nodupB_iff]
    exact ⟨langs_nodup x, ids_nodup x⟩
  · exact defaultOk_out x

/-! ### rendered ids (injectivity lemmas in `Proofs/ItextIds.lean`) -/

/-- **No two choice items share an `itextId`**: the ids `list-idx` written into the choice instances are
pairwise distinct strings whenever the list names are (they are dict keys of `Survey.choices`) — for any
list names, including ones that contain `-` or end in digits (`a-1` item 0 vs `a` item 10). -/
theorem itemIds_nodup (x : Survey) (h : (x.lists.map (·.name)).Nodup) : (out x).itemIds.Nodup := by
  unfold out itemIds
  apply nodup_flatMap_listIds
  exact List.Nodup.sublist (List.Sublist.map _ List.filter_sublist) h

/-- **An id names one source**: a text id referenced by a choice item is never the id of an element's label,
hint or bind message, two element ids coincide only for the same xpath and display element, two choice ids
only for the same list and index. -/
theorem rendered_ids_injective :
    (∀ (n m : Str) (i j : Nat), choiceId n i = choiceId m j → n = m ∧ i = j) ∧
    (∀ (x y : Str) (d e : String), d ∈ displays → e ∈ displays → path x d = path y e → x = y ∧ d = e) ∧
    (∀ (n : Str) (i : Nat) (x : Str) (d : String), d ∈ displays → choiceId n i ≠ path x d) :=
  ⟨fun _ _ _ _ h => choiceId_inj h, fun _ _ _ _ hd he h => path_inj hd he h,
   fun n i x _ hd => choiceId_ne_path n i x hd⟩

/-- non-vacuity: adversarial names (`a-1` item 0 / `a` item 10; a question named `q:jr` has
`/data/q:jr:label`, not a message id of `q`) -/
example : choiceId "a-1".toList 0 ≠ choiceId "a".toList 10 ∧
    path "/data/q:jr".toList "label" ≠ path "/data/q".toList "jr:constraintMsg" ∧
    "jr:noAppErrorString" ∈ displays := by
  refine ⟨?_, ?_, by decide⟩
  · intro h; have := (choiceId_inj h).2; omega
  · intro h
    have := (path_inj (by decide) (by decide) h).2
    exact absurd this (by decide)

/-! ### value level (lemmas in `Proofs/ItextValues.lean`) -/

/-- **A text written for a language is what that language's translation holds**: the last leaf assignment
`_translations[lang][id][form] = text` made by `_setup_translations` / `_setup_media` is the value in the
final table — later assignments to other keys do not disturb it and `_add_empty_translations` never
overwrites it. -/
theorem value_written (x : Survey) {pre post : List Ent} {e : Ent} (h : ents x = pre ++ e :: post)
    (hlast : ∀ e' ∈ post, ¬ sameKey e e') :
    valueAt (table x) e.lang e.path e.form = some e.text := by
  have : table x = pad x.lists (setup (ents x)) := rfl
  rw [this, h]
  exact valueAt_pad _ _ _ _ _ _ (valueAt_setup_last pre post e hlast)

/-- **No language ever shows a text written for something else**: every value in the final table is
either the padding `-` or the text of a leaf assignment made for exactly this language, this id and this
content type. -/
theorem value_sound (x : Survey) :
    ∀ lps ∈ table x, ∀ pf ∈ lps.2, ∀ ft ∈ pf.2,
      ft.2 = dashStr ∨ (⟨lps.1, pf.1, ft.1, ft.2⟩ : Ent) ∈ ents x :=
  sound_pad x.lists (sound_setup (ents x))

/-! ### non-vacuity, the F6 witness, and facts about the regenerated tables -/

def q (cls : Cls) (name : String) (label hint guidance : Txt) : ElemD :=
  { cls := cls, name := name.toList, type := "text".toList, label := label, hint := hint,
    guidance := guidance, media := none, msgs := [], hasCalc := false, trigger := false,
    bodyless := false, flat := false, appearance := none, itemset := none, list := [],
    hasChoices := false }

def tr (l : List (String × String)) : Txt := .dict (l.map fun ab => (ab.1.toList, ab.2.toList))

/-- four languages (en, fr from the choices; `default` from the plain hint that accompanies a
guidance hint; es from the image), a translated constraint message, a shared translated list -/
def ex1 (secondLabel : Txt) : Survey :=
  { defaultLanguage := "default".toList
    lists := [⟨"c".toList, [⟨tr [("en", "A"), ("fr", "Af")], none⟩, ⟨secondLabel, none⟩]⟩]
    root := .node (q .group "data" .none .none .none) [
      .node { q .control "a" (tr [("en", "A")]) (.str "h".toList) (tr [("fr", "g")]) with
                media := some [("image".toList, tr [("es", "a.png")])]
                msgs := [("jr:constraintMsg".toList, tr [("fr", "m")])] } [],
      .node (q .group "g" (.str "G".toList) .none .none) [
        .node { q .select "s" (.str "S".toList) .none .none with
                  itemset := some "c".toList, list := "c".toList, hasChoices := true } []] ] }

/-- the guards of `refs_exist` / `holds_out` are satisfiable by a survey with 5 references and
4 translations; the hypothesis of `default_unique` holds for it as well -/
example :
    let x := ex1 (tr [("en", "B")])
    wf x = true ∧ choicesLabeled x = true ∧ (refs x).length = 5 ∧ (out x).translations.length = 4 ∧
      ((out x).translations.map (·.lang)).contains x.defaultLanguage = true ∧
      (match run x with | .ok _ => true | _ => false) = true ∧
      holds (obsOf x.defaultLanguage (out x)) = true := by decide +kernel

/-- non-vacuity of `itemIds_nodup` -/
example : (out (ex1 (tr [("en", "B")]))).itemIds.length = 2 ∧
    ((ex1 (tr [("en", "B")])).lists.map (·.name)).Nodup := by
  refine ⟨by decide +kernel, by decide +kernel⟩

/-- non-vacuity of the value-level statements: the French constraint message is shown in French, English is
padded with `-`, the Spanish image is filed under `image` -/
example :
    let T := table (ex1 (tr [("en", "B")]))
    valueAt T "fr".toList "/data/a:jr:constraintMsg".toList "long".toList = some "m".toList ∧
    valueAt T "en".toList "/data/a:jr:constraintMsg".toList "long".toList = some dashStr ∧
    valueAt T "es".toList "/data/a:label".toList "image".toList = some "a.png".toList ∧
    valueAt T "default".toList "/data/a:hint".toList "guidance".toList = some dashStr := by decide +kernel

/-- **F6 repaired**: the same survey with the second choice unlabeled (the former witness of the
defect) now satisfies the property: `c-1` is padded into every translation. -/
theorem f6_repaired :
    let x := ex1 .none
    wf x = true ∧ choicesLabeled x = false ∧ (match run x with | .ok _ => true | _ => false) = true ∧
      holds (obsOf x.defaultLanguage (out x)) = true := by decide +kernel

/-- an osm question with two tags, the first with a translated label -/
def exOsm (tagLabel : Txt) : Survey :=
  { defaultLanguage := "default".toList
    lists := []
    root := .node (q .group "data" .none .none .none) [
      .node { q .osm "b" (tr [("en", "B")]) .none .none with
                tags := [("name".toList, tagLabel), ("addr".toList, .str "Addr".toList)] } [] ] }

/-- **F45 repaired**: an osm tag with a translated label (the former witness of the defect) now satisfies the
property: `/data/b/name:label` is filed in `en` and `fr` by the tag's own visit and padded elsewhere. -/
theorem f45_repaired :
    let x := exOsm (tr [("en", "Name"), ("fr", "Nom")])
    wf x = true ∧ (match run x with | .ok _ => true | _ => false) = true ∧
      (refs x).contains "/data/b/name:label".toList = true ∧
      holds (obsOf x.defaultLanguage (out x)) = true := by decide +kernel

/-- the languages' id lists differ in order but not as sets (why `pad_uniform` is stated on membership) -/
example :
    let ts := (out (ex1 (tr [("en", "B")]))).translations
    (ts.map (·.ids)).eraseDups.length > 1 := by decide +kernel

/-- table facts the model's lookups rely on, re-checked against the current source on every run -/
theorem tables_media : Pyxv.Gen.supportedMediaTypes = ["audio", "big-image", "image", "video"] := by
  decide +kernel

theorem tables_external_ext : Pyxv.Gen.externalInstanceExtensions = [".csv", ".geojson", ".xml"] := by
  decide +kernel

theorem tables_regex :
    Pyxv.Gen.regexSources.lookup "survey.SEARCH_FUNCTION_REGEX" = some "search\\(.*?\\)" ∧
    Pyxv.Gen.regexSources.lookup "survey.BRACKETED_TAG_REGEX" = some "\\${(last-saved#)?(.*?)}" ∧
    Pyxv.Gen.defaultLanguageValue = "default" := by decide +kernel

end Pyxv.C07
