import Pyxv.Model.Form
/-! Lemmas about the begin/end stack machine and the recursive-descent reading (C04, C17). -/
namespace Pyxv.Form

def pushAll (ts : List Item) (st : St) : St := ts.foldl (fun s t => push t s) st

@[simp] theorem pushAll_nil (st : St) : pushAll [] st = st := rfl
@[simp] theorem pushAll_cons (t : Item) (ts : List Item) (st : St) :
    pushAll (t :: ts) st = pushAll ts (push t st) := rfl

theorem pushAll_append (a b : List Item) (st : St) :
    pushAll (a ++ b) st = pushAll b (pushAll a st) := by
  simp [pushAll, List.foldl_append]

theorem pushAll_frame (ts : List Item) (root : List Item) (f : Frame) (fs : List Frame) :
    pushAll ts (root, f :: fs) = (root, { f with kids := f.kids ++ ts } :: fs) := by
  induction ts generalizing f with
  | nil => simp
  | cons t ts ih => simp only [pushAll_cons, push]; rw [ih]; simp

theorem pushAll_root (ts root : List Item) : pushAll ts (root, []) = (root ++ ts, []) := by
  induction ts generalizing root with
  | nil => simp
  | cons t ts ih => simp only [pushAll_cons, push]; rw [ih]; simp

theorem pushOpt_eq (o : Option QData) (st : St) : pushOpt o st = pushAll (optItem o) st := by
  cases o <;> rfl

/-- the remaining input after `items` is empty or starts with an `end` row -/
def EndOrNil : List (Nat × RowK) → Prop
  | [] => True
  | (_, .end_ _) :: _ => True
  | _ => False

/-- how a result of `items` relates to the stack machine started in state `st` -/
def Agrees (st : St) (rows : List (Nat × RowK)) :
    Except Err (List Item × List (Nat × RowK)) → Prop
  | .ok (ts, rest) =>
      run st rows = run (pushAll ts st) rest ∧ EndOrNil rest ∧ rest.length ≤ rows.length
  | .error (.unmatchedBegin ct name) =>
      ∃ root f fs, run st rows = .ok (root, f :: fs) ∧ f.ct = ct ∧ f.name = name
  | .error e => run st rows = .error e

theorem agrees_error_of (st : St) (rows) (e : Err) (h : run st rows = .error e)
    (hne : ∀ ct name, e ≠ .unmatchedBegin ct name) : Agrees st rows (.error e) := by
  cases e <;> simp_all [Agrees]

theorem run_items : ∀ (fuel : Nat) (rows : List (Nat × RowK)) (st : St),
    rows.length < fuel → Agrees st rows (items fuel rows) := by
  intro fuel
  induction fuel with
  | zero => intro rows st h; omega
  | succ f ih =>
    intro rows st hlen
    match rows with
    | [] => simp [items, Agrees, EndOrNil]
    | (n, .end_ ct) :: rs => simp [items, Agrees, EndOrNil]
    | (n, .skip) :: rs =>
      have hl : rs.length < f := by simp at hlen; omega
      have := ih rs st hl
      simp only [items]
      cases hres : items f rs with
      | ok p =>
        obtain ⟨ts, rest⟩ := p
        rw [hres] at this
        simp only [Agrees] at this ⊢
        refine ⟨?_, this.2.1, ?_⟩
        · simp only [run, step]; exact this.1
        · simp; omega
      | error e =>
        rw [hres] at this
        cases e <;> simp_all [Agrees, run, step]
    | (n, .bad e) :: rs => simp [items, Agrees, run, step]
    | (n, .q d other) :: rs =>
      have hl : rs.length < f := by simp at hlen; omega
      have := ih rs (pushOpt other (push (.q d) st)) hl
      simp only [items]
      cases hres : items f rs with
      | ok p =>
        obtain ⟨ts, rest⟩ := p
        rw [hres] at this
        simp only [Agrees] at this ⊢
        refine ⟨?_, this.2.1, ?_⟩
        · simp only [run, step]
          rw [this.1, pushOpt_eq]
          simp [pushAll_append]
        · simp; omega
      | error e =>
        rw [hres] at this
        cases e <;> simp_all [Agrees, run, step]
    | (n, .begin_ ct name bind helper) :: rs =>
      have hl : rs.length < f := by simp at hlen; omega
      obtain ⟨root0, fs0⟩ := st
      -- state after the begin row
      have hstep : step (root0, fs0) n (.begin_ ct name bind helper) =
          .ok ((pushOpt helper (root0, fs0)).1, ⟨ct, name, bind, []⟩ :: (pushOpt helper (root0, fs0)).2) := by
        simp [step]
      generalize hst1 : pushOpt helper (root0, fs0) = st1 at hstep
      obtain ⟨root1, fs1⟩ := st1
      have hrun : run (root0, fs0) ((n, .begin_ ct name bind helper) :: rs) =
          run (root1, ⟨ct, name, bind, []⟩ :: fs1) rs := by
        simp only [run, hstep]
      have := ih rs (root1, ⟨ct, name, bind, []⟩ :: fs1) hl
      simp only [items]
      cases hres : items f rs with
      | error e =>
        rw [hres] at this
        cases e <;> simp_all [Agrees]
      | ok p =>
        obtain ⟨kids, rest⟩ := p
        rw [hres] at this
        simp only [Agrees] at this
        obtain ⟨hr, hend, hle⟩ := this
        rw [pushAll_frame] at hr
        match rest, hend with
        | [], _ =>
          simp only [Agrees]
          refine ⟨root1, ⟨ct, name, bind, [] ++ kids⟩, fs1, ?_, rfl, rfl⟩
          rw [hrun, hr]; simp [run]
        | (n', .end_ ct') :: rest', _ =>
          simp only
          by_cases hct : ct = ct'
          · subst hct
            simp only [if_true]
            have hl2 : rest'.length < f := by simp at hle; omega
            have h2 := ih rest' (push (.sec ct name bind kids) (root1, fs1)) hl2
            have hrun2 : run (root0, fs0) ((n, .begin_ ct name bind helper) :: rs) =
                run (push (.sec ct name bind kids) (root1, fs1)) rest' := by
              rw [hrun, hr]; simp [run, step]
            cases hres2 : items f rest' with
            | error e =>
              rw [hres2] at h2
              cases e <;> simp_all [Agrees]
            | ok p2 =>
              obtain ⟨ts, rest''⟩ := p2
              rw [hres2] at h2
              simp only [Agrees] at h2 ⊢
              refine ⟨?_, h2.2.1, ?_⟩
              · rw [hrun2, h2.1, pushAll_append, ← hst1, pushOpt_eq]
                simp
              · simp at hle ⊢; omega
          · simp only [hct, if_false, Agrees]
            rw [hrun, hr]
            simp [run, step, hct]

/-- **Refinement**: the explicit begin/end stack of `workbook_to_json` computes exactly the
    recursive-descent reading of the rows — same tree on success, same error otherwise. -/
theorem parseRows_eq_nest (rows : List (Nat × RowK)) : parseRows rows = nest rows := by
  have h := run_items (rows.length + 1) rows ([], []) (by omega)
  unfold parseRows nest
  cases hres : items (rows.length + 1) rows with
  | ok p =>
    obtain ⟨ts, rest⟩ := p
    rw [hres] at h
    simp only [Agrees] at h
    obtain ⟨hr, hend, _⟩ := h
    rw [pushAll_root] at hr
    match rest, hend with
    | [], _ => rw [hr]; simp [run]
    | (n, .end_ ct) :: rs, _ => rw [hr]; simp [run, step]
  | error e =>
    rw [hres] at h
    cases e with
    | unmatchedBegin ct name =>
      simp only [Agrees] at h
      obtain ⟨root, fr, fs, hr, h1, h2⟩ := h
      rw [hr]; simp [h1, h2]
    | row n e => simp only [Agrees] at h; rw [h]
    | unmatchedEnd n => simp only [Agrees] at h; rw [h]
    | dupSibling a b => simp only [Agrees] at h; rw [h]
    | dupSection a => simp only [Agrees] at h; rw [h]
    | ambiguousRef a => simp only [Agrees] at h; rw [h]

end Pyxv.Form

namespace Pyxv.Form

/-! ## Reference closure (C02) -/

def QData.wf (d : QData) : Bool := (!d.bind || d.node) && (!d.control || d.node)

mutual
def Item.wf : Item → Bool
  | .q d => d.wf
  | .sec _ _ _ ks => wfL ks
def wfL : List Item → Bool
  | [] => true
  | k :: ks => k.wf && wfL ks
end

theorem resolvesIn_append_left (a b : List NT) (p : List Str) (h : resolvesIn a p = true) :
    resolvesIn (a ++ b) p = true := by
  cases p with
  | nil => cases a <;> cases b <;> simp [resolvesIn]
  | cons s rest =>
    induction a with
    | nil => simp [resolvesIn] at h
    | cons t ts ih =>
      simp only [resolvesIn, List.cons_append, Bool.or_eq_true] at h ⊢
      rcases h with h | h
      · exact Or.inl h
      · exact Or.inr (ih h)

theorem resolvesIn_append_right (a b : List NT) (p : List Str) (h : resolvesIn b p = true) :
    resolvesIn (a ++ b) p = true := by
  cases p with
  | nil => cases a <;> cases b <;> simp [resolvesIn]
  | cons s rest =>
    induction a with
    | nil => simpa using h
    | cons t ts ih => simp only [resolvesIn, List.cons_append, Bool.or_eq_true]; exact Or.inr ih

theorem resolvesIn_cons_tail (t : NT) (ts : List NT) (p : List Str) (h : resolvesIn ts p = true) :
    resolvesIn (t :: ts) p = true := resolvesIn_append_right [t] ts p h

theorem resolvesIn_head (n : Str) (tm : Bool) (ks ts : List NT) (rest : List Str)
    (h : resolvesIn ks rest = true) : resolvesIn (NT.node n tm ks :: ts) (n :: rest) = true := by
  simp [resolvesIn, resolvesNode, h]

mutual
theorem bindPaths_prefix (pre : List Str) (it : Item) :
    bindPaths pre it = (bindPaths [] it).map (pre ++ ·) := by
  cases it with
  | q d => simp only [bindPaths]; split <;> simp
  | sec ct n b ks =>
    simp only [bindPaths, List.map_append, List.nil_append]
    rw [bindPathsL_prefix (pre ++ [n]) ks, bindPathsL_prefix [n] ks]
    split <;> simp [List.map_map, Function.comp_def, List.append_assoc]
theorem bindPathsL_prefix (pre : List Str) (its : List Item) :
    bindPathsL pre its = (bindPathsL [] its).map (pre ++ ·) := by
  cases its with
  | nil => simp [bindPathsL]
  | cons k ks =>
    simp only [bindPathsL, List.map_append]
    rw [bindPaths_prefix pre k, bindPathsL_prefix pre ks]
end

mutual
theorem bodyPaths_prefix (pre : List Str) (it : Item) :
    bodyPaths pre it = (bodyPaths [] it).map (pre ++ ·) := by
  cases it with
  | q d => simp only [bodyPaths]; split <;> simp
  | sec ct n b ks =>
    cases ct <;>
    · simp only [bodyPaths, List.map_cons, List.nil_append]
      rw [bodyPathsL_prefix (pre ++ [n]) ks, bodyPathsL_prefix [n] ks]
      simp [List.map_map, Function.comp_def, List.append_assoc]
theorem bodyPathsL_prefix (pre : List Str) (its : List Item) :
    bodyPathsL pre its = (bodyPathsL [] its).map (pre ++ ·) := by
  cases its with
  | nil => simp [bodyPathsL]
  | cons k ks =>
    simp only [bodyPathsL, List.map_append]
    rw [bodyPaths_prefix pre k, bodyPathsL_prefix pre ks]
end

end Pyxv.Form

namespace Pyxv.Form

def Item.hasNode : Item → Bool
  | .q d => d.node
  | .sec _ _ _ _ => true

/-- `p` names an element of the forest `its` that contributes an instance node -/
inductive Reach : List Item → List Str → Prop
  | here (its : List Item) (it : Item) : it ∈ its → it.hasNode = true → Reach its [it.name]
  | deeper (its : List Item) (ct : Ctl) (n : Str) (b : Bool) (ks : List Item) (p : List Str) :
      Item.sec ct n b ks ∈ its → Reach ks p → Reach its (n :: p)

theorem instKids_unfold_q (app : Bool) (d : QData) (rest : List Item) :
    instKids app (.q d :: rest) = (if d.node then [NT.node d.name false []] else []) ++ instKids app rest := by
  simp [instKids]

theorem resolves_mem_q (d : QData) (hn : d.node = true) :
    ∀ (its : List Item) (app : Bool), Item.q d ∈ its → resolvesIn (instKids app its) [d.name] = true := by
  intro its
  induction its with
  | nil => intro app h; simp at h
  | cons it rest ih =>
    intro app h
    rcases List.mem_cons.mp h with hm | hm
    · subst hm
      rw [instKids_unfold_q]; simp [hn, resolvesIn, resolvesNode]
    · cases it with
      | q d' =>
        rw [instKids_unfold_q]
        exact resolvesIn_append_right _ _ _ (ih app hm)
      | sec ct n b ks =>
        cases ct <;> cases app <;> simp only [instKids, Bool.false_eq_true, if_false, if_true] <;>
          first
          | exact resolvesIn_cons_tail _ _ _ (ih _ hm)
          | exact resolvesIn_cons_tail _ _ _ (resolvesIn_cons_tail _ _ _ (ih _ hm))

theorem resolves_mem_sec (ct : Ctl) (n : Str) (b : Bool) (ks : List Item) (p : List Str)
    (hk : ∀ app, resolvesIn (instKids app ks) p = true) :
    ∀ (its : List Item) (app : Bool), Item.sec ct n b ks ∈ its →
      resolvesIn (instKids app its) (n :: p) = true := by
  intro its
  induction its with
  | nil => intro app h; simp at h
  | cons it rest ih =>
    intro app h
    rcases List.mem_cons.mp h with hm | hm
    · subst hm
      cases ct <;> cases app <;> simp only [instKids, Bool.false_eq_true, if_false, if_true] <;>
        first
        | exact resolvesIn_head _ _ _ _ _ (hk _)
        | exact resolvesIn_cons_tail _ _ _ (resolvesIn_head _ _ _ _ _ (hk _))
    · cases it with
      | q d' =>
        rw [instKids_unfold_q]
        exact resolvesIn_append_right _ _ _ (ih app hm)
      | sec ct' n' b' ks' =>
        cases ct' <;> cases app <;> simp only [instKids, Bool.false_eq_true, if_false, if_true] <;>
          first
          | exact resolvesIn_cons_tail _ _ _ (ih _ hm)
          | exact resolvesIn_cons_tail _ _ _ (resolvesIn_cons_tail _ _ _ (ih _ hm))

/-- every reachable element path resolves in the instance forest, whatever the template flag -/
theorem reach_resolves {its : List Item} {p : List Str} (h : Reach its p) :
    ∀ app, resolvesIn (instKids app its) p = true := by
  induction h with
  | here its it hm hn =>
    intro app
    cases it with
    | q d => exact resolves_mem_q d hn its app hm
    | sec ct n b ks => exact resolves_mem_sec ct n b ks [] (fun a => by cases instKids a ks <;> simp [resolvesIn]) its app hm
  | deeper its ct n b ks p hm _ ih =>
    intro app
    exact resolves_mem_sec ct n b ks p ih its app hm

theorem Reach.mono {its : List Item} {p : List Str} (it : Item) (h : Reach its p) : Reach (it :: its) p := by
  cases h with
  | here _ it' hm hn => exact Reach.here _ it' (List.mem_cons_of_mem _ hm) hn
  | deeper _ ct n b ks p hm hr => exact Reach.deeper _ ct n b ks p (List.mem_cons_of_mem _ hm) hr

mutual
theorem bind_reach_item (it : Item) (rest : List Item) (hw : it.wf = true) :
    ∀ p ∈ bindPaths [] it, Reach (it :: rest) p := by
  cases it with
  | q d =>
    intro p hp
    simp only [bindPaths] at hp
    split at hp
    · rename_i hb
      simp at hp; subst hp
      have : d.node = true := by
        simp only [Item.wf, QData.wf, Bool.and_eq_true, Bool.or_eq_true, Bool.not_eq_eq_eq_not,
          Bool.not_true] at hw
        rcases hw.1 with h | h
        · simp_all
        · exact h
      exact Reach.here _ (.q d) (by simp) this
    · simp at hp
  | sec ct n b ks =>
    intro p hp
    simp only [bindPaths, List.nil_append, List.mem_append] at hp
    rcases hp with hp | hp
    · split at hp
      · simp at hp; subst hp
        exact Reach.here _ (.sec ct n b ks) (by simp) rfl
      · simp at hp
    · rw [bindPathsL_prefix] at hp
      simp only [List.mem_map] at hp
      obtain ⟨q, hq, rfl⟩ := hp
      have hwk : wfL ks = true := by simpa [Item.wf] using hw
      exact Reach.deeper _ ct n b ks q (by simp) (bind_reach_list ks hwk q hq)
theorem bind_reach_list (its : List Item) (hw : wfL its = true) :
    ∀ p ∈ bindPathsL [] its, Reach its p := by
  cases its with
  | nil => intro p hp; simp [bindPathsL] at hp
  | cons k ks =>
    intro p hp
    simp only [wfL, Bool.and_eq_true] at hw
    simp only [bindPathsL, List.mem_append] at hp
    rcases hp with hp | hp
    · exact bind_reach_item k ks hw.1 p hp
    · exact Reach.mono k (bind_reach_list ks hw.2 p hp)
end

mutual
theorem body_reach_item (it : Item) (rest : List Item) (hw : it.wf = true) :
    ∀ p ∈ bodyPaths [] it, Reach (it :: rest) p := by
  cases it with
  | q d =>
    intro p hp
    simp only [bodyPaths] at hp
    split at hp
    · rename_i hb
      simp at hp; subst hp
      have : d.node = true := by
        simp only [Item.wf, QData.wf, Bool.and_eq_true, Bool.or_eq_true, Bool.not_eq_eq_eq_not,
          Bool.not_true] at hw
        rcases hw.2 with h | h
        · simp_all
        · exact h
      exact Reach.here _ (.q d) (by simp) this
    · simp at hp
  | sec ct n b ks =>
    intro p hp
    have hwk : wfL ks = true := by simpa [Item.wf] using hw
    have key : p = [n] ∨ p ∈ (bodyPathsL [] ks).map ([n] ++ ·) := by
      cases ct <;> simp only [bodyPaths, List.nil_append, List.mem_cons] at hp <;>
        rw [bodyPathsL_prefix] at hp <;> simp only [List.mem_map] at hp ⊢ <;>
        rcases hp with hp | hp <;> first
          | exact Or.inl hp
          | exact Or.inr hp
          | (rcases hp with hp | hp
             · exact Or.inl hp
             · exact Or.inr hp)
    rcases key with hp | hp
    · subst hp
      exact Reach.here _ (.sec ct n b ks) (by simp) rfl
    · simp only [List.mem_map] at hp
      obtain ⟨q, hq, rfl⟩ := hp
      exact Reach.deeper _ ct n b ks q (by simp) (body_reach_list ks hwk q hq)
theorem body_reach_list (its : List Item) (hw : wfL its = true) :
    ∀ p ∈ bodyPathsL [] its, Reach its p := by
  cases its with
  | nil => intro p hp; simp [bodyPathsL] at hp
  | cons k ks =>
    intro p hp
    simp only [wfL, Bool.and_eq_true] at hw
    simp only [bodyPathsL, List.mem_append] at hp
    rcases hp with hp | hp
    · exact body_reach_item k ks hw.1 p hp
    · exact Reach.mono k (body_reach_list ks hw.2 p hp)
end

end Pyxv.Form

namespace Pyxv.Form

/-! ## Shape of the instance (C04) -/

mutual
/-- the instance forest an item tree denotes when templates are ignored -/
def plain : Item → List NT
  | .q d => if d.node then [NT.node d.name false []] else []
  | .sec _ n _ ks => [NT.node n false (plainL ks)]
def plainL : List Item → List NT
  | [] => []
  | k :: ks => plain k ++ plainL ks
end

mutual
/-- drop `jr:template` nodes -/
def erase : NT → List NT
  | .node n tm ks => if tm then [] else [NT.node n false (eraseL ks)]
def eraseL : List NT → List NT
  | [] => []
  | t :: ts => erase t ++ eraseL ts
end

theorem eraseL_append (a b : List NT) : eraseL (a ++ b) = eraseL a ++ eraseL b := by
  induction a with
  | nil => simp [eraseL]
  | cons t ts ih => simp [eraseL, ih, List.append_assoc]

mutual
theorem erase_instKids (its : List Item) : ∀ app, eraseL (instKids app its) = plainL its := by
  cases its with
  | nil => intro app; simp [instKids, eraseL, plainL]
  | cons it rest =>
    intro app
    cases it with
    | q d =>
      rw [instKids_unfold_q, eraseL_append, erase_instKids rest app]
      by_cases h : d.node = true <;> simp [h, eraseL, erase, plainL, plain]
    | sec ct n b ks =>
      cases ct <;> cases app <;>
        simp only [instKids, Bool.false_eq_true, if_false, if_true, eraseL, erase, tmpl, plainL, plain,
          List.nil_append, List.cons_append, List.singleton_append] <;>
        simp [erase_instKids ks, erase_instKids rest]
end

/-- the `skip` rows (disabled, blank, comment, settings rows) leave no trace in the tree -/
theorem run_skip_irrelevant (rows : List (Nat × RowK)) :
    ∀ st, run st (rows.filter notSkip) = run st rows := by
  induction rows with
  | nil => intro st; rfl
  | cons r rs ih =>
    intro st
    obtain ⟨n, k⟩ := r
    cases k with
    | skip => simp [List.filter, notSkip, run, step, ih]
    | begin_ ct name b h =>
      simp only [List.filter, notSkip, run]
      cases step st n (.begin_ ct name b h) <;> simp [ih]
    | end_ ct =>
      simp only [List.filter, notSkip, run]
      cases step st n (.end_ ct) <;> simp [ih]
    | q d o =>
      simp only [List.filter, notSkip, run]
      cases step st n (.q d o) <;> simp [ih]
    | bad e => simp [List.filter, notSkip, run, step]

/-! ## Error location (C17) -/

theorem run_error_located (rows : List (Nat × RowK)) :
    ∀ st e, run st rows = .error e →
      (∃ n re, e = .row n re ∧ (n, RowK.bad re) ∈ rows) ∨
      (∃ n ct, e = .unmatchedEnd n ∧ (n, RowK.end_ ct) ∈ rows) := by
  induction rows with
  | nil => intro st e h; simp [run] at h
  | cons r rs ih =>
    intro st e h
    obtain ⟨n, k⟩ := r
    simp only [run] at h
    cases hs : step st n k with
    | ok st' =>
      rw [hs] at h
      rcases ih st' e h with ⟨n', re, h1, h2⟩ | ⟨n', ct, h1, h2⟩
      · exact Or.inl ⟨n', re, h1, List.mem_cons_of_mem _ h2⟩
      · exact Or.inr ⟨n', ct, h1, List.mem_cons_of_mem _ h2⟩
    | error e' =>
      rw [hs] at h
      simp at h; subst h
      cases k with
      | skip => simp [step] at hs
      | q d o => simp [step] at hs
      | begin_ ct name b hp => simp [step] at hs
      | bad re =>
        simp [step] at hs; subst hs
        exact Or.inl ⟨n, re, rfl, by simp⟩
      | end_ ct =>
        obtain ⟨root, fs⟩ := st
        cases fs with
        | nil => simp [step] at hs; subst hs; exact Or.inr ⟨n, ct, rfl, by simp⟩
        | cons f fs =>
          simp only [step] at hs
          split at hs
          · simp at hs
          · simp at hs; subst hs; exact Or.inr ⟨n, ct, rfl, by simp⟩

/-! ## Name validation (C02) -/

def lname (it : Item) : Str := lowerAscii it.name

theorem firstDup_none_iff (its : List Item) :
    ∀ seen, firstDup seen its = none ↔
      ((its.map lname).Nodup ∧ ∀ x ∈ its.map lname, x ∉ seen) := by
  induction its with
  | nil => intro seen; simp [firstDup]
  | cons it rest ih =>
    intro seen
    simp only [firstDup, List.map_cons, List.nodup_cons, List.mem_cons, forall_eq_or_imp]
    by_cases hc : seen.contains (lowerAscii it.name) = true
    · simp only [hc, if_true]
      constructor
      · intro h; cases h
      · intro ⟨_, h2, _⟩
        exact absurd (List.contains_iff_mem.mp hc) (by simpa [lname] using h2)
    · simp only [hc, Bool.false_eq_true, if_false]
      rw [ih]
      have hns : lname it ∉ seen := by
        intro hm; exact hc (List.contains_iff_mem.mpr (by simpa [lname] using hm))
      constructor
      · intro ⟨hnd, hall⟩
        refine ⟨⟨?_, hnd⟩, hns, ?_⟩
        · intro hm
          have := hall _ hm
          simp [lname] at this
        · intro x hx hs
          have := hall x hx
          simp [hs] at this
      · intro ⟨⟨hni, hnd⟩, _, hall⟩
        refine ⟨hnd, ?_⟩
        intro x hx hm
        simp only [List.mem_cons] at hm
        rcases hm with hm | hm
        · subst hm; exact hni (by simpa [lname] using hx)
        · exact hall x hx hm

mutual
/-- sibling names are pairwise different ignoring case, at every level below -/
def sibsItem : Item → Bool
  | .q _ => true
  | .sec _ _ _ ks => decide ((ks.map lname).Nodup) && sibsEach ks
def sibsEach : List Item → Bool
  | [] => true
  | k :: rest => sibsItem k && sibsEach rest
end

/-- sibling names are pairwise different ignoring case, at every level -/
def sibsOK (its : List Item) : Bool := decide ((its.map lname).Nodup) && sibsEach its

theorem dupCheck_ok_iff (parent : Str) (kids : List Item) :
    dupCheck parent kids = .ok () ↔ (kids.map lname).Nodup := by
  unfold dupCheck
  have hfd := firstDup_none_iff kids []
  cases hf : firstDup [] kids with
  | none => simp [(hfd.mp hf).1]
  | some l =>
    have : ¬ (kids.map lname).Nodup := by
      intro hn
      have := hfd.mpr ⟨hn, by simp⟩
      rw [hf] at this; cases this
    simp [this]

mutual
theorem validateItem_ok_iff (it : Item) : validateItem it = .ok () ↔ sibsItem it = true := by
  cases it with
  | q d => simp [validateItem, sibsItem]
  | sec ct n b ks =>
    simp only [validateItem, sibsItem, Bool.and_eq_true, decide_eq_true_eq]
    have h1 := validateEach_ok_iff ks
    cases hv : validateEach ks with
    | error e =>
      have : sibsEach ks ≠ true := by intro h; rw [← h1, hv] at h; cases h
      simp [this]
    | ok u =>
      have : sibsEach ks = true := by rw [← h1, hv]
      simp [this, dupCheck_ok_iff]
theorem validateEach_ok_iff (its : List Item) :
    validateEach its = .ok () ↔ sibsEach its = true := by
  cases its with
  | nil => simp [validateEach, sibsEach]
  | cons it rest =>
    simp only [validateEach, sibsEach, Bool.and_eq_true]
    have h1 := validateItem_ok_iff it
    have h2 := validateEach_ok_iff rest
    cases hv : validateItem it with
    | error e =>
      have : sibsItem it ≠ true := by intro h; rw [← h1, hv] at h; cases h
      simp [this]
    | ok u =>
      have : sibsItem it = true := by rw [← h1, hv]
      simp [this, h2]
end

theorem validateKids_ok_iff (parent : Str) (kids : List Item) :
    validateKids parent kids = .ok () ↔ sibsOK kids = true := by
  unfold validateKids sibsOK
  have he := validateEach_ok_iff kids
  cases hv : validateEach kids with
  | error e =>
    have : sibsEach kids ≠ true := by intro h; rw [← he, hv] at h; cases h
    simp [this]
  | ok u =>
    have hse : sibsEach kids = true := by rw [← he, hv]
    simp [hse, dupCheck_ok_iff]

end Pyxv.Form
