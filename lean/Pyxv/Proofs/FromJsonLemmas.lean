import Pyxv.Model.FromJson
import Pyxv.Proofs.ToJsonLemmas
import Pyxv.Proofs.JValLemmas
/-! # dump / load / dump on whole element trees: helper lemmas -/
namespace Pyxv.ToJson
open Pyxv Pyxv.JV

/-! ## association lists -/

theorem lookup_append_none (k : Str) (a b : Dict) (h : lookup k a = none) : lookup k (a ++ b) = lookup k b := by
  induction a with
  | nil => rfl
  | cons kv a ih =>
    cases kv with
    | mk k' v' =>
      simp only [lookup] at h
      by_cases e : k = k'
      · simp [e] at h
      · simp only [e, if_false] at h
        simp [lookup, e, ih h]

theorem lookup_append_some (k : Str) (a b : Dict) (v : J) (h : lookup k a = some v) : lookup k (a ++ b) = some v := by
  induction a with
  | nil => simp [lookup] at h
  | cons kv a ih =>
    cases kv with
    | mk k' v' =>
      simp only [lookup] at h
      by_cases e : k = k'
      · simp only [e, if_true] at h; simp [lookup, e, h]
      · simp only [e, if_false] at h; simp [lookup, e, ih h]

theorem mem_keys_of_lookup (k : Str) (d : Dict) (v : J) (h : lookup k d = some v) : k ∈ d.map Prod.fst := by
  induction d with
  | nil => simp [lookup] at h
  | cons kv d ih =>
    cases kv with
    | mk k' v' =>
      simp only [lookup] at h
      by_cases e : k = k'
      · simp [e]
      · simp only [e, if_false] at h; simp [ih h]

theorem lookup_dictInsert_ne (n k : Str) (v : J) (d : Dict) (h : n ≠ k) :
    lookup n (dictInsert k v d) = lookup n d := by
  induction d with
  | nil => simp [dictInsert, lookup, h]
  | cons kv d ih =>
    cases kv with
    | mk k' v' =>
      by_cases e : k = k'
      · subst e; simp [dictInsert, lookup, h]
      · by_cases e2 : n = k'
        · simp [dictInsert, e, lookup, e2]
        · simp [dictInsert, e, lookup, e2, ih]

theorem dictInsert_same (k : Str) (v : J) (d : Dict) (h : lookup k d = some v) : dictInsert k v d = d := by
  induction d with
  | nil => simp [lookup] at h
  | cons kv d ih =>
    cases kv with
    | mk k' v' =>
      simp only [lookup] at h
      by_cases e : k = k'
      · subst e; simp only [if_true, Option.some.injEq] at h; subst h; simp [dictInsert]
      · simp only [e, if_false] at h; simp [dictInsert, e, ih h]

/-! ## own dump of reloaded slots -/

theorem lookup_ownDump_map (del names : List Str) (f : Str → J) (hn : names.Nodup) (n : Str) :
    lookup n (ownDump del (names.map fun m => (m, f m))) =
      if n ∈ names ∧ keeps del (n, f n) = true then some (f n) else none := by
  have hk : (names.map fun m => (m, f m)).map Prod.fst = names := by simp [List.map_map, Function.comp_def]
  rw [ownDump_eq_filter]
  by_cases hm : n ∈ names
  · have hmem : (n, f n) ∈ names.map fun m => (m, f m) := List.mem_map.mpr ⟨n, hm, rfl⟩
    rw [lookup_filter (keeps del) _ (by rw [hk]; exact hn) n (f n) hmem]
    simp [hm]
  · have : n ∉ ((names.map fun m => (m, f m)).filter (keeps del)).map Prod.fst :=
      not_mem_keys_filter n _ _ (by rw [hk]; exact hm)
    rw [lookup_none_of_not_mem n _ this]
    simp [hm]

theorem ownDump_congr (del names : List Str) (f g : Str → J)
    (h : ∀ n ∈ names, n ∉ del →
      (if truthy (f n) then f n else J.null) = (if truthy (g n) then g n else J.null)) :
    ownDump del (names.map fun n => (n, f n)) = ownDump del (names.map fun n => (n, g n)) := by
  rw [ownDump_eq_filter, ownDump_eq_filter]
  induction names with
  | nil => rfl
  | cons n ns ih =>
    have ih' := ih (fun m hm => h m (by simp [hm]))
    simp only [List.map_cons, List.filter]
    by_cases hd : n ∈ del
    · simp [keeps, hd, ih']
    · have hc : True := trivial
      have hh := h n (by simp) hd
      by_cases tf : truthy (f n) = true <;> by_cases tg : truthy (g n) = true
      · simp only [tf, tg, if_true] at hh; simp [keeps, hd, tf, tg, hh, ih']
      · simp only [tf, tg, if_true] at hh
        rw [hh] at tf; simp at tf; simp [truthy] at tf
      · simp only [tf, tg, if_true] at hh
        rw [← hh] at tg; simp at tg; simp [truthy] at tg
      · simp [keeps, hd, tf, tg, ih']

theorem overrideSlot_map (k : Str) (v : J) (names : List Str) (f : Str → J) :
    overrideSlot k v (names.map fun n => (n, f n)) = names.map fun n => (n, if n = k then v else f n) := by
  simp only [overrideSlot, List.map_map]
  apply List.map_congr_left
  intro n _
  by_cases e : n = k <;> simp [e]

/-- an `extra` list of keys that are not slot names deletes nothing more. -/
theorem ownDump_extra (cls : Cls) (names qk x : List Str) (slots : Dict) (hs : slots.map Prod.fst = names)
    (hx : ∀ k ∈ x, k ∉ names) :
    ownDump (allDelete cls names qk x) slots = ownDump (allDelete cls names qk []) slots := by
  rw [ownDump_eq_filter, ownDump_eq_filter]
  apply List.filter_congr
  intro kv hkv
  have hin : kv.1 ∈ names := by rw [← hs]; exact List.mem_map.mpr ⟨kv, hkv, rfl⟩
  have : kv.1 ∉ x := fun hc => hx _ hc hin
  simp [keeps, allDelete, this]


theorem lookup_own_append (del names : List Str) (f : Str → J) (hn : names.Nodup) (C : Dict) (n : Str)
    (hC : lookup n C = none) :
    lookup n (ownDump del (names.map fun m => (m, f m)) ++ C) =
      if n ∈ names ∧ keeps del (n, f n) = true then some (f n) else none := by
  rw [← lookup_ownDump_map del names f hn n]
  cases h : lookup n (ownDump del (names.map fun m => (m, f m))) with
  | none => rw [lookup_append_none _ _ _ h, hC]
  | some v => rw [lookup_append_some _ _ _ v h]

/-- slots rebuilt from (own dump ++ tree part), with some slots assigned afterwards, dump like the original. -/
theorem ownDump_reload_again (del names : List Str) (hn : names.Nodup) (f : Str → J) (C : Dict)
    (hC : ∀ n ∈ names, lookup n C = none) (ov : Str → Option J) (hov : ∀ n v, ov n = some v → f n = v) :
    ownDump del (names.map fun n => (n, match ov n with
        | some v => v
        | none => (lookup n (ownDump del (names.map fun m => (m, f m)) ++ C)).getD .null)) =
      ownDump del (names.map fun n => (n, f n)) := by
  apply ownDump_congr
  intro n hm hd
  cases ho : ov n with
  | some v => simp [hov n v ho]
  | none =>
    simp only []
    rw [lookup_own_append del names f hn C n (hC n hm)]
    have hk : keeps del (n, f n) = truthy (f n) := by simp [keeps, hd]
    have tn : truthy J.null = false := rfl
    by_cases t : truthy (f n) = true
    · simp only [hm, hk, t, true_and, if_true, Option.getD_some]
    · simp only [hm, hk, t, true_and, if_false, Option.getD_none, tn, Bool.false_eq_true]

theorem toJsonL_isEmpty (kids : List El) : (toJsonL kids).isEmpty = kids.isEmpty := by
  cases kids <;> simp [toJsonL]

/-- the tree part of a section's dump -/
def childPart (kids : List El) : Dict :=
  if kids.isEmpty then [] else [(k!"children", .arr (toJsonL kids))]

theorem toJson_section (cls : Cls) (hc : cls ≠ .question) (slots : Dict) (kids : List El) (x : List Str) :
    toJson (.mk cls slots [] [] [] kids none []) x =
      .obj ((if cls = .group then setKey k!"type" (.str k!"group") else id)
        (ownDump (allDelete cls (slots.map Prod.fst) [] x) slots ++ childPart kids)) := by
  by_cases hg : cls = .group
  · cases kids with
    | nil => simp [toJson, hc, childPart, ownDump, hg]
    | cons k ks =>
      simp [toJson, hc, childPart, ownDump, dropFalsy, toJsonL, truthy, List.filter_append, List.filter, hg]
  · cases kids with
    | nil => simp [toJson, hc, childPart, ownDump, hg]
    | cons k ks =>
      simp [toJson, hc, childPart, ownDump, dropFalsy, toJsonL, truthy, List.filter_append, List.filter, hg]


theorem lookup_childPart_ne (kids : List El) (k : Str) (h : k ≠ k!"children") :
    lookup k (childPart kids) = none := by
  unfold childPart
  split
  · rfl
  · simp [lookup, h]

/-- lookups in (own dump ++ tree part) -/
theorem lookup_dumpD (del names : List Str) (f : Str → J) (hn : names.Nodup) (kids : List El) (k : Str)
    (h : k ≠ k!"children") :
    lookup k (ownDump del (names.map fun m => (m, f m)) ++ childPart kids) =
      if k ∈ names ∧ keeps del (k, f k) = true then some (f k) else none :=
  lookup_own_append del names f hn _ k (lookup_childPart_ne kids k h)

theorem lookup_dumpD_children (del names : List Str) (f : Str → J) (hn : names.Nodup) (kids : List El)
    (hc : k!"children" ∉ names) :
    lookup k!"children" (ownDump del (names.map fun m => (m, f m)) ++ childPart kids) =
      if kids.isEmpty then none else some (.arr (toJsonL kids)) := by
  have h0 : lookup k!"children" (ownDump del (names.map fun m => (m, f m))) = none := by
    rw [lookup_ownDump_map del names f hn]; simp [hc]
  rw [lookup_append_none _ _ _ h0]
  unfold childPart
  split <;> simp [lookup]

/-- what is known about the tables for sections -/
structure SecOk (cfg : Cfg) : Prop where
  sN : cfg.surveyNames.Nodup
  gN : cfg.sectionNames.Nodup
  sType : k!"type" ∈ cfg.surveyNames
  sName : k!"name" ∈ cfg.surveyNames
  sTitle : k!"title" ∈ cfg.surveyNames
  gType : k!"type" ∈ cfg.sectionNames
  gName : k!"name" ∈ cfg.sectionNames
  sChildren : k!"children" ∉ cfg.surveyNames
  gChildren : k!"children" ∉ cfg.sectionNames
  sChoices : k!"choices" ∉ cfg.surveyNames
  gChoices : k!"choices" ∉ cfg.sectionNames
  sParent : k!"parent" ∉ cfg.surveyNames
  gParent : k!"parent" ∉ cfg.sectionNames
  sKeepType : k!"type" ∉ allDelete .survey cfg.surveyNames [] []
  sKeepName : k!"name" ∉ allDelete .survey cfg.surveyNames [] []
  sKeepTitle : k!"title" ∉ allDelete .survey cfg.surveyNames [] []
  sGeo : k!"setgeopoint_by_triggering_ref" ≠ k!"setvalues_by_triggering_ref"

/-- keys of the literal strings that differ -/
theorem keys_ne : k!"type" ≠ k!"children" ∧ k!"name" ≠ k!"children" ∧
    k!"title" ≠ k!"children" ∧ k!"choices" ≠ k!"children" ∧
    k!"add_none_option" ≠ k!"children" ∧ k!"trigger" ≠ k!"children" := by decide

/-- dump, load, dump again on every list of children, given it for each child -/
def StableAt (cfg : Cfg) (f : Nat) : Prop :=
  ∀ d e, fromJson cfg f d = some e → ∀ x, (∀ k ∈ x, k = k!"parent") →
    ∃ e', fromJson cfg f (toJson e x) = some e' ∧ ∀ y, (∀ k ∈ y, k = k!"parent") → toJson e' y = toJson e y

theorem mapOpt_stable (cfg : Cfg) (f : Nat) (ih : StableAt cfg f) :
    ∀ cs kids, mapOpt (fromJson cfg f) cs = some kids →
      ∃ kids', mapOpt (fromJson cfg f) (toJsonL kids) = some kids' ∧ toJsonL kids' = toJsonL kids := by
  intro cs
  induction cs with
  | nil => intro kids h; simp [mapOpt] at h; subst h; exact ⟨[], by simp [toJsonL, mapOpt], rfl⟩
  | cons c cs ihc =>
    intro kids h
    simp only [mapOpt] at h
    cases hc : fromJson cfg f c with
    | none => simp [hc] at h
    | some e =>
      simp only [hc] at h
      cases hcs : mapOpt (fromJson cfg f) cs with
      | none => simp [hcs] at h
      | some es =>
        simp only [hcs, Option.some.injEq] at h
        subst h
        obtain ⟨e', he', heq⟩ := ih c e hc [k!"parent"] (by simp)
        obtain ⟨es', hes', heqs⟩ := ihc es hcs
        refine ⟨e' :: es', ?_, ?_⟩
        · simp [toJsonL, mapOpt, he', hes']
        · simp [toJsonL, heq [k!"parent"] (by simp), heqs]


/-- own-level stability of questions: the part of the tree theorem that is about `Question.__init__`'s
    type-table merge (see `question_stable`) -/
def QStable (cfg : Cfg) : Prop :=
  ∀ t kvs e, lookup k!"type" kvs = some (.str t) → questionFromJson cfg t kvs = some e →
    ∀ x, (∀ k ∈ x, k = k!"parent") →
    ∃ kvs' e', toJson e x = .obj kvs' ∧ lookup k!"type" kvs' = some (.str t) ∧
      questionFromJson cfg t kvs' = some e' ∧ ∀ y, (∀ k ∈ y, k = k!"parent") → toJson e' y = toJson e y

theorem truthy_getD_of_keeps {del : List Str} {k : Str} {v : J} (h : keeps del (k, v) = true) : truthy v = true := by
  simp [keeps] at h; exact h.2

/-- group / repeat -/
theorem group_reload (cfg : Cfg) (ok : SecOk cfg) (f : Nat) (t : Str)
    (ht : t = k!"group" ∨ t = k!"repeat") (kvs : Dict) (kids kids' : List El)
    (hty : lookup k!"type" kvs = some (.str t))
    (hname : nameOk kvs = true) (hnone : isTruthyAt k!"add_none_option" kvs = false)
    (hk : mapOpt (fromJson cfg f) (toJsonL kids) = some kids') (hk2 : toJsonL kids' = toJsonL kids)
    (x : List Str) (hx : ∀ k ∈ x, k = k!"parent") :
    ∃ e', fromJson cfg (f + 1)
        (toJson (.mk (if t = k!"group" then .group else .repeat) (reloadSlots cfg.sectionNames kvs) [] [] [] kids none []) x)
          = some e' ∧
      ∀ y, (∀ k ∈ y, k = k!"parent") → toJson e' y =
        toJson (.mk (if t = k!"group" then .group else .repeat) (reloadSlots cfg.sectionNames kvs) [] [] [] kids none []) y := by
  let cls : Cls := if t = k!"group" then .group else .repeat
  have hcq : cls ≠ .question := by
    show (if t = k!"group" then Cls.group else Cls.repeat) ≠ .question
    split <;> simp
  let fn : Str → J := fun n => (lookup n kvs).getD .null
  have hslots : reloadSlots cfg.sectionNames kvs = cfg.sectionNames.map fun n => (n, fn n) := rfl
  have hkeys : (reloadSlots cfg.sectionNames kvs).map Prod.fst = cfg.sectionNames := by
    simp [reloadSlots, List.map_map, Function.comp_def]
  have hdel : ∀ z, (∀ k ∈ z, k = k!"parent") →
      ownDump (allDelete cls cfg.sectionNames [] z) (reloadSlots cfg.sectionNames kvs) =
      ownDump (allDelete cls cfg.sectionNames [] []) (reloadSlots cfg.sectionNames kvs) := by
    intro z hz
    exact ownDump_extra cls _ [] z _ hkeys (fun k hk => by rw [hz k hk]; exact ok.gParent)
  have hdelEq : allDelete cls cfg.sectionNames [] [] = [k!"_survey_element_xpath", k!"extra_data"] := by
    show allDelete (if t = k!"group" then Cls.group else Cls.repeat) _ _ _ = _
    split <;> simp [allDelete, clsDelete]
  let del := allDelete cls cfg.sectionNames [] []
  let D : Dict := ownDump del (cfg.sectionNames.map fun n => (n, fn n)) ++ childPart kids
  have keep : ∀ k v, k ≠ k!"_survey_element_xpath" → k ≠ k!"extra_data" → keeps del (k, v) = truthy v := by
    intro k v h1 h2
    show keeps (allDelete cls cfg.sectionNames [] []) (k, v) = truthy v
    rw [hdelEq]; simp [keeps, h1, h2]
  -- lookups in D
  have lty : lookup k!"type" D = some (.str t) := by
    rw [lookup_dumpD del _ fn ok.gN kids _ keys_ne.1]
    have : fn k!"type" = .str t := by simp [fn, hty]
    have tt : truthy (J.str t) = true := by rcases ht with h | h <;> subst h <;> rfl
    rw [this, keep _ _ (by decide) (by decide), tt]; simp [ok.gType]
  have lname : nameOk D = true := by
    unfold nameOk at hname ⊢
    rw [lookup_dumpD del _ fn ok.gN kids _ keys_ne.2.1]
    cases hn : lookup k!"name" kvs with
    | none => simp [hn] at hname
    | some v =>
      cases v with
      | str s =>
        simp only [hn] at hname
        have : fn k!"name" = .str s := by simp [fn, hn]
        have tt : truthy (J.str s) = true := by simpa [truthy] using hname
        rw [this, keep _ _ (by decide) (by decide), tt]; simp [ok.gName, hname]
      | _ => simp [hn] at hname
  have lchoices : hasKey k!"choices" D = false := by
    unfold hasKey
    rw [lookup_dumpD del _ fn ok.gN kids _ keys_ne.2.2.2.1]; simp [ok.gChoices]
  have lsome : ∀ k v, k ≠ k!"children" → lookup k D = some v → truthy v = true ∧ v = fn k := by
    intro k v hk hl
    rw [lookup_dumpD del _ fn ok.gN kids _ hk] at hl
    split at hl
    · next hc => cases hl; exact ⟨truthy_getD_of_keeps hc.2, rfl⟩
    · cases hl
  have lnone : isTruthyAt k!"add_none_option" D = false := by
    unfold isTruthyAt
    cases hl : lookup k!"add_none_option" D with
    | none => rfl
    | some v =>
      exfalso
      obtain ⟨tv, ev⟩ := lsome _ v keys_ne.2.2.2.2.1 hl
      have : isTruthyAt k!"add_none_option" kvs = true := by
        unfold isTruthyAt
        cases hk : lookup k!"add_none_option" kvs with
        | none => simp [ev, fn, hk, truthy] at tv
        | some w => simp [ev, fn, hk] at tv; exact tv
      exact absurd this (by simpa using hnone)
  have ltitle : ¬ (hasKey k!"title" D = true ∧ (!isTruthyAt k!"title" D) = true) := by
    intro ⟨h1, h2⟩
    unfold hasKey at h1; unfold isTruthyAt at h2
    cases hl : lookup k!"title" D with
    | none => simp [hl] at h1
    | some v => simp [hl, (lsome _ v keys_ne.2.2.1 hl).1] at h2
  have lchildren := lookup_dumpD_children del _ fn ok.gN kids ok.gChildren
  -- the dump is D
  have hT : (if cls = .group then setKey k!"type" (.str k!"group") else id) D = D := by
    by_cases hg : cls = .group
    · have tg : t = k!"group" := by
        by_cases e : t = k!"group"
        · exact e
        · exfalso
          have : cls = .repeat := by show (if t = k!"group" then Cls.group else Cls.repeat) = _; simp [e]
          rw [this] at hg; cases hg
      rw [if_pos hg]
      exact dictInsert_same _ _ _ (by rw [← tg]; exact lty)
    · rw [if_neg hg]; rfl
  have hdump : ∀ z, (∀ k ∈ z, k = k!"parent") →
      toJson (.mk cls (reloadSlots cfg.sectionNames kvs) [] [] [] kids none []) z = .obj D := by
    intro z hz
    rw [toJson_section cls hcq, hkeys, hdel z hz, hslots]
    exact congrArg J.obj hT
  have hsec : (t = k!"survey" ∨ t = k!"group" ∨ t = k!"repeat") := Or.inr ht
  have hnsurvey : ¬ t = k!"survey" := by rcases ht with h | h <;> subst h <;> decide
  refine ⟨.mk cls (reloadSlots cfg.sectionNames D) [] [] [] kids' none [], ?_, ?_⟩
  · rw [hdump x hx]
    simp only [fromJson, lty, hsec, if_true, lchoices, lnone, lname, ltitle, Bool.false_eq_true, false_or,
      Bool.not_true, or_self, if_false, hnsurvey]
    rw [if_pos ht, lchildren]
    cases hke : kids with
    | nil =>
      subst hke
      simp only [toJsonL, mapOpt, Option.some.injEq] at hk
      subst hk
      simp [mapOpt]; rfl
    | cons a as =>
      rw [← hke]
      have hne : kids.isEmpty = false := by rw [hke]; rfl
      simp only [hne, Bool.false_eq_true, if_false, hk]
      rfl
  · intro y hy
    rw [hdump y hy, toJson_section cls hcq]
    have hkeys' : (reloadSlots cfg.sectionNames D).map Prod.fst = cfg.sectionNames := by
      simp [reloadSlots, List.map_map, Function.comp_def]
    rw [hkeys', ownDump_extra cls _ [] y _ hkeys' (fun k hk => by rw [hy k hk]; exact ok.gParent)]
    have hre := ownDump_reload_again del cfg.sectionNames ok.gN fn (childPart kids)
      (fun n hn => lookup_childPart_ne kids n (fun e => ok.gChildren (e ▸ hn))) (fun _ => none) (by intro n v h; cases h)
    have hcp : childPart kids' = childPart kids := by
      unfold childPart; rw [← toJsonL_isEmpty kids', ← toJsonL_isEmpty kids, hk2]
    have hr2 : reloadSlots cfg.sectionNames D = cfg.sectionNames.map fun n => (n, (lookup n D).getD .null) := rfl
    rw [hr2, hcp]
    simp only [] at hre
    rw [hre]
    exact congrArg J.obj hT


theorem keys_ne2 : k!"type" ≠ k!"setgeopoint_by_triggering_ref" ∧ k!"type" ≠ k!"setvalues_by_triggering_ref" ∧
    k!"name" ≠ k!"setgeopoint_by_triggering_ref" ∧ k!"name" ≠ k!"setvalues_by_triggering_ref" ∧
    k!"title" ≠ k!"setgeopoint_by_triggering_ref" ∧ k!"title" ≠ k!"setvalues_by_triggering_ref" ∧
    k!"add_none_option" ≠ k!"setgeopoint_by_triggering_ref" ∧ k!"add_none_option" ≠ k!"setvalues_by_triggering_ref" := by
  decide

/-- the slot function of a survey built by the builder from `kvs'` -/
def surveyFn (kvs' : Dict) : Str → J := fun n =>
  if n = k!"setgeopoint_by_triggering_ref" then .obj []
  else if n = k!"setvalues_by_triggering_ref" then .obj []
  else (lookup n kvs').getD .null

theorem surveySlots_eq (names : List Str) (kvs' : Dict) :
    overrideSlot k!"setgeopoint_by_triggering_ref" (.obj [])
      (overrideSlot k!"setvalues_by_triggering_ref" (.obj []) (reloadSlots names kvs')) =
    names.map fun n => (n, surveyFn kvs' n) := by
  simp only [reloadSlots, overrideSlot_map]
  apply List.map_congr_left
  intro n _
  simp [surveyFn]

/-- survey -/
theorem survey_reload (cfg : Cfg) (ok : SecOk cfg) (f : Nat) (kvs : Dict) (kids kids' : List El) (nm : J)
    (hty : lookup k!"type" kvs = some (.str k!"survey"))
    (hname : nameOk kvs = true) (hnm : lookup k!"name" kvs = some nm)
    (hnone : isTruthyAt k!"add_none_option" kvs = false)
    (htitle : ¬ (hasKey k!"title" kvs = true ∧ (!isTruthyAt k!"title" kvs) = true))
    (hk : mapOpt (fromJson cfg f) (toJsonL kids) = some kids') (hk2 : toJsonL kids' = toJsonL kids)
    (x : List Str) (hx : ∀ k ∈ x, k = k!"parent") :
    let kvs' := if hasKey k!"title" kvs then kvs else kvs ++ [(k!"title", nm)]
    ∃ e', fromJson cfg (f + 1)
        (toJson (.mk .survey (cfg.surveyNames.map fun n => (n, surveyFn kvs' n)) [] [] [] kids none []) x) = some e' ∧
      ∀ y, (∀ k ∈ y, k = k!"parent") → toJson e' y =
        toJson (.mk .survey (cfg.surveyNames.map fun n => (n, surveyFn kvs' n)) [] [] [] kids none []) y := by
  intro kvs'
  let fn := surveyFn kvs'
  have hkeys : (cfg.surveyNames.map fun n => (n, fn n)).map Prod.fst = cfg.surveyNames := by
    simp [List.map_map, Function.comp_def]
  let del := allDelete .survey cfg.surveyNames [] []
  let D : Dict := ownDump del (cfg.surveyNames.map fun n => (n, fn n)) ++ childPart kids
  have hdump : ∀ z, (∀ k ∈ z, k = k!"parent") →
      toJson (.mk .survey (cfg.surveyNames.map fun n => (n, fn n)) [] [] [] kids none []) z = .obj D := by
    intro z hz
    rw [toJson_section .survey (by decide), hkeys,
      ownDump_extra .survey _ [] z _ hkeys (fun k hk => by rw [hz k hk]; exact ok.sParent)]
    rfl
  -- the name is a truthy string; so is the title of kvs'
  obtain ⟨ns, hns, hnsne⟩ : ∃ s, nm = .str s ∧ s.isEmpty = false := by
    unfold nameOk at hname
    rw [hnm] at hname
    cases nm with
    | str s => exact ⟨s, rfl, by simpa using hname⟩
    | _ => simp at hname
  have lk' : ∀ k, k ≠ k!"title" → lookup k kvs' = lookup k kvs := by
    intro k hk
    show lookup k (if hasKey k!"title" kvs then kvs else kvs ++ [(k!"title", nm)]) = _
    split
    · rfl
    · cases hl : lookup k kvs with
      | none => rw [lookup_append_none _ _ _ hl]; simp [lookup, hk]
      | some v => rw [lookup_append_some _ _ _ v hl]
  have ltitle' : ∃ tv, lookup k!"title" kvs' = some tv ∧ truthy tv = true := by
    show ∃ tv, lookup k!"title" (if hasKey k!"title" kvs then kvs else kvs ++ [(k!"title", nm)]) = some tv ∧ _
    by_cases hh : hasKey k!"title" kvs = true
    · rw [if_pos hh]
      unfold hasKey at hh
      cases hl : lookup k!"title" kvs with
      | none => simp [hl] at hh
      | some v =>
        refine ⟨v, rfl, ?_⟩
        by_cases hv : truthy v = true
        · exact hv
        · exact absurd ⟨by simp [hasKey, hl], by simp [isTruthyAt, hl, hv]⟩ htitle
    · rw [if_neg hh]
      have : lookup k!"title" kvs = none := by
        unfold hasKey at hh; cases hl : lookup k!"title" kvs <;> simp [hl] at hh ⊢
      refine ⟨nm, ?_, by rw [hns]; simp [truthy, hnsne]⟩
      rw [lookup_append_none _ _ _ this]; simp [lookup]
  have keepK : ∀ k v, k ∉ del → keeps del (k, v) = truthy v := by
    intro k v h; simp [keeps, h]
  have lD := fun k (h : k ≠ k!"children") => lookup_dumpD del cfg.surveyNames fn ok.sN kids k h
  have fnType : fn k!"type" = .str k!"survey" := by
    show surveyFn kvs' _ = _
    simp only [surveyFn, keys_ne2.1, keys_ne2.2.1, if_false, lk' k!"type" (by decide), hty, Option.getD_some]
  have fnName : fn k!"name" = nm := by
    show surveyFn kvs' _ = _
    simp only [surveyFn, keys_ne2.2.2.1, keys_ne2.2.2.2.1, if_false, lk' k!"name" (by decide), hnm, Option.getD_some]
  obtain ⟨tv, htv, htvt⟩ := ltitle'
  have fnTitle : fn k!"title" = tv := by
    show surveyFn kvs' _ = _
    simp only [surveyFn, keys_ne2.2.2.2.2.1, keys_ne2.2.2.2.2.2.1, if_false, htv, Option.getD_some]
  have lty : lookup k!"type" D = some (.str k!"survey") := by
    rw [lD _ keys_ne.1, fnType, keepK _ _ ok.sKeepType]; simp [ok.sType, truthy]
  have lnm : lookup k!"name" D = some nm := by
    rw [lD _ keys_ne.2.1, fnName, keepK _ _ ok.sKeepName, hns]; simp [ok.sName, truthy, hnsne]
  have lname : nameOk D = true := by unfold nameOk; rw [lnm, hns]; simp [hnsne]
  have ltitle : lookup k!"title" D = some tv := by
    rw [lD _ keys_ne.2.2.1, fnTitle, keepK _ _ ok.sKeepTitle, htvt]; simp [ok.sTitle]
  have lchoices : hasKey k!"choices" D = false := by
    unfold hasKey; rw [lD _ keys_ne.2.2.2.1]; simp [ok.sChoices]
  have lnone : isTruthyAt k!"add_none_option" D = false := by
    unfold isTruthyAt
    cases hl : lookup k!"add_none_option" D with
    | none => rfl
    | some v =>
      exfalso
      rw [lD _ keys_ne.2.2.2.2.1] at hl
      split at hl
      · next hc =>
        cases hl
        have tv' := truthy_getD_of_keeps hc.2
        have e : fn k!"add_none_option" = (lookup k!"add_none_option" kvs).getD .null := by
          show surveyFn kvs' _ = _
          simp only [surveyFn, keys_ne2.2.2.2.2.2.2.1, keys_ne2.2.2.2.2.2.2.2, if_false, lk' k!"add_none_option" (by decide)]
        rw [e] at tv'
        unfold isTruthyAt at hnone
        cases hk : lookup k!"add_none_option" kvs with
        | none => simp [hk, truthy] at tv'
        | some w => simp [hk] at tv' hnone; rw [tv'] at hnone; cases hnone
      · cases hl
  have lhasT : hasKey k!"title" D = true := by simp [hasKey, ltitle]
  have ltT : isTruthyAt k!"title" D = true := by simp [isTruthyAt, ltitle, htvt]
  have lchildren := lookup_dumpD_children del _ fn ok.sN kids ok.sChildren
  refine ⟨.mk .survey (cfg.surveyNames.map fun n => (n, surveyFn D n)) [] [] [] kids' none [], ?_, ?_⟩
  · rw [hdump x hx]
    simp only [fromJson, lty, true_or, if_true, lchoices, lnone, lname, lhasT, ltT, Bool.false_eq_true,
      Bool.not_true, or_self, and_false, if_false, lnm, surveySlots_eq]
    rw [lchildren]
    cases hke : kids with
    | nil =>
      subst hke
      simp only [toJsonL, mapOpt, Option.some.injEq] at hk
      subst hk
      simp [mapOpt]
    | cons a as =>
      rw [← hke]
      have hne : kids.isEmpty = false := by rw [hke]; rfl
      simp only [hne, Bool.false_eq_true, if_false, hk]
  · intro y hy
    rw [hdump y hy, toJson_section .survey (by decide)]
    have hkeys' : (cfg.surveyNames.map fun n => (n, surveyFn D n)).map Prod.fst = cfg.surveyNames := by
      simp [List.map_map, Function.comp_def]
    rw [hkeys', ownDump_extra .survey _ [] y _ hkeys' (fun k hk => by rw [hy k hk]; exact ok.sParent)]
    have hre := ownDump_reload_again del cfg.surveyNames ok.sN fn (childPart kids)
      (fun n hn => lookup_childPart_ne kids n (fun e => ok.sChildren (e ▸ hn)))
      (fun n => if n = k!"setgeopoint_by_triggering_ref" then some (.obj [])
        else if n = k!"setvalues_by_triggering_ref" then some (.obj []) else none)
      (by
        intro n v h
        show surveyFn kvs' n = v
        by_cases e1 : n = k!"setgeopoint_by_triggering_ref"
        · simp [e1] at h; simp [surveyFn, e1, h]
        · by_cases e2 : n = k!"setvalues_by_triggering_ref"
          · simp [e1, e2] at h; simp [surveyFn, e1, e2, h]
          · simp [e1, e2] at h)
    have hcp : childPart kids' = childPart kids := by
      unfold childPart; rw [← toJsonL_isEmpty kids', ← toJsonL_isEmpty kids, hk2]
    have hfun : (cfg.surveyNames.map fun n => (n, surveyFn D n)) =
        cfg.surveyNames.map fun n => (n, match (if n = k!"setgeopoint_by_triggering_ref" then some (J.obj [])
          else if n = k!"setvalues_by_triggering_ref" then some (J.obj []) else none) with
          | some v => v
          | none => (lookup n D).getD .null) := by
      apply List.map_congr_left
      intro n _
      by_cases e1 : n = k!"setgeopoint_by_triggering_ref"
      · simp [surveyFn, e1]
      · by_cases e2 : n = k!"setvalues_by_triggering_ref"
        · simp [surveyFn, e1, e2]
        · simp [surveyFn, e1, e2]
    rw [hfun, hcp]
    simp only [] at hre
    rw [hre]
    rfl


theorem stable_all (cfg : Cfg) (ok : SecOk cfg) (hq : QStable cfg) : ∀ f, StableAt cfg f := by
  intro f
  induction f with
  | zero => intro d e h; simp [fromJson] at h
  | succ f ih =>
    intro d e h x hx
    cases d with
    | obj kvs =>
      simp only [fromJson] at h
      split at h
      · next t hty =>
        split at h
        · next hsec =>
          split at h
          · cases h
          · next hg =>
            simp only [not_or, Bool.not_eq_true, Bool.not_eq_true', not_and] at hg
            split at h
            · cases h
            · next cs hcs =>
              split at h
              · cases h
              · next kids hkids =>
                obtain ⟨kids', hk1, hk2⟩ := mapOpt_stable cfg f ih cs kids hkids
                have hname : nameOk kvs = true := by
                  have := hg.2.2.1; revert this; cases nameOk kvs <;> simp
                have hnone : isTruthyAt k!"add_none_option" kvs = false := by
                  have := hg.2.1; revert this; cases isTruthyAt k!"add_none_option" kvs <;> simp
                have htitle : ¬ (hasKey k!"title" kvs = true ∧ (!isTruthyAt k!"title" kvs) = true) := by
                  intro ⟨a, b⟩
                  have := hg.2.2.2 a
                  revert this b; cases isTruthyAt k!"title" kvs <;> simp
                split at h
                · next hs =>
                  subst hs
                  split at h
                  · cases h
                  · next nm hnm =>
                    simp only [Option.some.injEq, surveySlots_eq] at h
                    subst h
                    exact survey_reload cfg ok f kvs kids kids' nm hty hname hnm hnone htitle hk1 hk2 x hx
                · next hs =>
                  simp only [Option.some.injEq] at h
                  subst h
                  have ht : t = k!"group" ∨ t = k!"repeat" := by
                    rcases hsec with h1 | h1 | h1
                    · exact absurd h1 hs
                    · exact Or.inl h1
                    · exact Or.inr h1
                  exact group_reload cfg ok f t ht kvs kids kids' hty hname hnone hk1 hk2 x hx
        · next hsec =>
          obtain ⟨kvs', e', hd, hty', hq', heq⟩ := hq t kvs e hty h x hx
          refine ⟨e', ?_, heq⟩
          rw [hd]
          simp only [fromJson, hty', hsec, if_false, hq']
      · cases h
    | _ => simp [fromJson] at h

end Pyxv.ToJson
