import Pyxv.Model.Warnings
/-!
# Lemmas for C20: the two-row Levenshtein programme computes the textbook edit distance

`specRow ra pre bs` is the row of the distance matrix that belongs to the (reversed) prefix `ra` of `a`:
its `k`-th entry is `lev ra (reverse (take k bs) ++ pre)`.  The inner loop `rowGo` maps the row of `ra` to
the row of `c :: ra` (`rowGo_spec`), the outer loop iterates that (`levRows_spec`), the initial row
`range (n+1)` is the row of `[]`; the last entry of the final row is `lev a.reverse b.reverse`, and the
textbook recursion is invariant under reversing both strings (`lev_reverse`, via `lev_snoc`).
-/
namespace Pyxv.Warn
open Pyxv Pyxv.Warn.Spec

/-! ### the textbook equations hold for `lev` -/

@[simp] theorem lev_nil_left (b : Str) : lev [] b = b.length := rfl

@[simp] theorem lev_nil_right (a : Str) : lev a [] = a.length := by
  cases a <;> simp [lev, levInner]

theorem lev_cons_cons (x y : Char) (a b : Str) :
    lev (x :: a) (y :: b)
      = min3 (lev a (y :: b) + 1) (lev (x :: a) b + 1) (if x = y then lev a b else lev a b + 1) := rfl

attribute [local irreducible] lev

/-! ### rows of the matrix -/

def specRow (ra : Str) : Str → Str → List Nat
  | pre, [] => [lev ra pre]
  | pre, bj :: bs => lev ra pre :: specRow ra (bj :: pre) bs

theorem specRow_head (ra pre bs : Str) : ∃ t, specRow ra pre bs = lev ra pre :: t := by
  cases bs <;> simp [specRow]

theorem rowGo_spec (c : Char) (ra : Str) : ∀ (bs pre : Str),
    lev (c :: ra) pre :: rowGo c bs (specRow ra pre bs) (lev (c :: ra) pre) = specRow (c :: ra) pre bs
  | [], pre => by simp [specRow, rowGo]
  | bj :: bs, pre => by
    obtain ⟨t, ht⟩ := specRow_head ra (bj :: pre) bs
    have ih := rowGo_spec c ra bs (bj :: pre)
    rw [ht] at ih
    simp only [specRow, ht, rowGo]
    rw [← lev_cons_cons, ih]

theorem specRow_nil (bs : Str) : ∀ pre : Str, specRow [] pre bs = List.range' pre.length (bs.length + 1) := by
  induction bs with
  | nil => intro pre; simp [specRow]
  | cons bj bs ih => intro pre; simp [specRow, ih, List.range'_succ]

theorem levRows_spec (b : Str) : ∀ (cs ra : Str),
    levRows b cs (specRow ra [] b) ra.length = specRow (cs.reverse ++ ra) [] b
  | [], ra => by simp [levRows]
  | c :: cs, ra => by
    have h := rowGo_spec c ra b []
    simp only [lev_nil_right, List.length_cons] at h
    have ih := levRows_spec b cs (c :: ra)
    simp only [List.length_cons] at ih
    simp only [levRows, nextRow, h, ih, List.reverse_cons, List.append_assoc, List.singleton_append]

theorem specRow_last (ra : Str) : ∀ (bs pre : Str),
    (specRow ra pre bs)[bs.length]? = some (lev ra (bs.reverse ++ pre))
  | [], pre => by simp [specRow]
  | bj :: bs, pre => by
    have ih := specRow_last ra bs (bj :: pre)
    simp [specRow, ih]

/-- the programme computes the distance of the reversed strings … -/
theorem levenshtein_eq_lev_reverse (a b : Str) : levenshtein a b = lev a.reverse b.reverse := by
  unfold levenshtein
  have h0 : List.range (b.length + 1) = specRow [] [] b := by
    rw [specRow_nil]; simp [List.range_eq_range']
  have h1 := levRows_spec b a []
  simp only [List.length_nil, List.append_nil] at h1
  rw [h0, h1, specRow_last]
  simp

/-! ### … and the textbook recursion does not care about the direction -/

theorem lev_snoc : ∀ (a b : Str) (x y : Char),
    lev (a ++ [x]) (b ++ [y])
      = min3 (lev a (b ++ [y]) + 1) (lev (a ++ [x]) b + 1) (if x = y then lev a b else lev a b + 1) := by
  intro a
  induction a with
  | nil =>
    intro b
    induction b with
    | nil => intro x y; simp [lev_cons_cons, min3]
    | cons b0 bs ihb =>
      intro x y
      have h := ihb x y
      simp only [List.nil_append, List.cons_append, lev_cons_cons, lev_nil_left, List.length_cons,
        List.length_append, List.length_nil, min3] at h ⊢
      rw [h]
      split <;> split <;> omega
  | cons a0 a1 iha =>
    intro b
    induction b with
    | nil =>
      intro x y
      have h := iha [] x y
      simp only [List.nil_append, List.cons_append, lev_cons_cons, lev_nil_right, List.length_cons,
        List.length_append, List.length_nil, min3] at h ⊢
      rw [h]
      split <;> split <;> omega
    | cons b0 bs ihb =>
      intro x y
      have h1 := iha (b0 :: bs) x y
      have h2 := ihb x y
      have h3 := iha bs x y
      simp only [List.cons_append] at h1 h2 h3 ⊢
      rw [lev_cons_cons, h1, h2, h3]
      simp only [lev_cons_cons, min3]
      generalize lev a1 (b0 :: (bs ++ [y])) = A1
      generalize lev (a1 ++ [x]) (b0 :: bs) = A2
      generalize lev a1 (b0 :: bs) = A3
      generalize lev (a0 :: a1) (bs ++ [y]) = B1
      generalize lev (a0 :: (a1 ++ [x])) bs = B2
      generalize lev (a0 :: a1) bs = B3
      generalize lev a1 (bs ++ [y]) = C1
      generalize lev (a1 ++ [x]) bs = C2
      generalize lev a1 bs = C3
      split <;> split <;> simp only [← Nat.add_min_add_right] <;> ac_rfl

theorem lev_reverse : ∀ (a b : Str), lev a.reverse b.reverse = lev a b := by
  intro a
  induction a with
  | nil => intro b; simp
  | cons a0 a1 iha =>
    intro b
    induction b with
    | nil => simp
    | cons b0 bs ihb =>
      have h1 := iha (b0 :: bs)
      have h3 := iha bs
      simp only [List.reverse_cons] at h1 ihb ⊢
      rw [lev_snoc, h1, ihb, h3, lev_cons_cons]

end Pyxv.Warn
