import Pyxv.Model.Warnings
/-!
# Lemmas for C20: the two-row Levenshtein programme computes the textbook edit distance

`specRow ra pre bs` is the row of the distance matrix that belongs to the (reversed) prefix `ra` of `a`:
its `k`-th entry is `lev ra (reverse (take k bs) ++ pre)`.  The inner loop `rowGo` maps the row of `ra` to
the row of `c :: ra` (`rowGo_spec`), the outer loop iterates that (`levRows_spec`), the initial row
`range (n+1)` is the row of `[]`; the last entry of the final row is `lev a.reverse b.reverse`, and the
textbook recursion is invariant under reversing both strings (`lev_reverse`, via `lev_snoc`).
-/
namespace Pyxv.Warn
open Pyxv Pyxv.Warn.Spec

/-! ### the textbook equations hold for `lev` -/

@[simp] theorem lev_nil_left (b : Str) : lev [] b = b.length := rfl

@[simp] theorem lev_nil_right (a : Str) : lev a [] = a.length := by
  cases a <;> simp [lev, levInner]

theorem lev_cons_cons (x y : Char) (a b : Str) :
    lev (x :: a) (y :: b)
      = min3 (lev a (y :: b) + 1) (lev (x :: a) b + 1) (if x = y then lev a b else lev a b + 1) := rfl

attribute [local irreducible] lev

/-! ### rows of the matrix -/

def specRow (ra : Str) : Str → Str → List Nat
  | pre, [] => [lev ra pre]
  | pre, bj :: bs => lev ra pre :: specRow ra (bj :: pre) bs

theorem specRow_head (ra pre bs : Str) : ∃ t, specRow ra pre bs = lev ra pre :: t := by
  cases bs <;> simp [specRow]

theorem rowGo_spec (c : Char) (ra : Str) : ∀ (bs pre : Str),
    lev (c :: ra) pre :: rowGo c bs (specRow ra pre bs) (lev (c :: ra) pre) = specRow (c :: ra) pre bs
  | [], pre => by simp [specRow, rowGo]
  | bj :: bs, pre => by
    obtain ⟨t, ht⟩ := specRow_head ra (bj :: pre) bs
    have ih := rowGo_spec c ra bs (bj :: pre)
    rw [ht] at ih
    simp only [specRow, ht, rowGo]
    rw [← lev_cons_cons, ih]

theorem specRow_nil (bs : Str) : ∀ pre : Str, specRow [] pre bs = List.range' pre.length (bs.length + 1) := by
  induction bs with
  | nil => intro pre; simp [specRow]
  | cons bj bs ih => intro pre; simp [specRow, ih, List.range'_succ]

theorem levRows_spec (b : Str) : ∀ (cs ra : Str),
    levRows b cs (specRow ra [] b) ra.length = specRow (cs.reverse ++ ra) [] b
  | [], ra => by simp [levRows]
  | c :: cs, ra => by
    have h := rowGo_spec c ra b []
    simp only [lev_nil_right, List.length_cons] at h
    have ih := levRows_spec b cs (c :: ra)
    simp only [List.length_cons] at ih
    simp only [levRows, nextRow, h, ih, List.reverse_cons, List.append_assoc, List.singleton_append]

theorem specRow_last (ra : Str) : ∀ (bs pre : Str),
    (specRow ra pre bs)[bs.length]? = some (lev ra (bs.reverse ++ pre))
  | [], pre => by simp [specRow]
  | bj :: bs, pre => by
    have ih := specRow_last ra bs (bj :: pre)
    simp [specRow, ih]

/-- the programme computes the distance of the reversed strings … -/
theorem levenshtein_eq_lev_reverse (a b : Str) : levenshtein a b = lev a.reverse b.reverse := by
  unfold levenshtein
  have h0 : List.range (b.length + 1) = specRow [] [] b := by
    rw [specRow_nil]; simp [List.range_eq_range']
  have h1 := levRows_spec b a []
  simp only [List.length_nil, List.append_nil] at h1
  rw [h0, h1, specRow_last]
  simp

/-! ### … and the textbook recursion does not care about the direction -/

theorem lev_snoc : ∀ (a b : Str) (x y : Char),
    lev (a ++ [x]) (b ++ [y])
      = min3 (lev a (b ++ [y]) + 1) (lev (a ++ [x]) b + 1) (if x = y then lev a b else lev a b + 1) := by
  intro a
  induction a with
  | nil =>
    intro b
    induction b with
    | nil => intro x y; simp [lev_cons_cons, min3]
    | cons b0 bs ihb =>
      intro x y
      have h := ihb x y
      simp only [List.nil_append, List.cons_append, lev_cons_cons, lev_nil_left, List.length_cons,
        List.length_append, List.length_nil, min3] at h ⊢
      rw [h]
      split <;> split <;> omega
  | cons a0 a1 iha =>
    intro b
    induction b with
    | nil =>
      intro x y
      have h := iha [] x y
      simp only [List.nil_append, List.cons_append, lev_cons_cons, lev_nil_right, List.length_cons,
        List.length_append, List.length_nil, min3] at h ⊢
      rw [h]
      split <;> split <;> omega
    | cons b0 bs ihb =>
      intro x y
      have h1 := iha (b0 :: bs) x y
      have h2 := ihb x y
      have h3 := iha bs x y
      simp only [List.cons_append] at h1 h2 h3 ⊢
      rw [lev_cons_cons, h1, h2, h3]
      simp only [lev_cons_cons, min3]
      generalize lev a1 (b0 :: (bs ++ [y])) = A1
      generalize lev (a1 ++ [x]) (b0 :: bs) = A2
      generalize lev a1 (b0 :: bs) = A3
      generalize lev (a0 :: a1) (bs ++ [y]) = B1
      generalize lev (a0 :: (a1 ++ [x])) bs = B2
      generalize lev (a0 :: a1) bs = B3
      generalize lev a1 (bs ++ [y]) = C1
      generalize lev (a1 ++ [x]) bs = C2
      generalize lev a1 bs = C3
      split <;> split <;> simp only [← Nat.add_min_add_right] <;> ac_rfl

theorem lev_reverse : ∀ (a b : Str), lev a.reverse b.reverse = lev a b := by
  intro a
  induction a with
  | nil => intro b; simp
  | cons a0 a1 iha =>
    intro b
    induction b with
    | nil => simp
    | cons b0 bs ihb =>
      have h1 := iha (b0 :: bs)
      have h3 := iha bs
      simp only [List.reverse_cons] at h1 ihb ⊢
      rw [lev_snoc, h1, ihb, h3, lev_cons_cons]

/-! ### translations: the record kept by `findTranslations` -/

/-- what `findTranslations` has recorded agrees with the (column, language) pairs read so far -/
structure TrInv (t : Tr) (ps : List (Str × Str)) : Prop where
  seen : ∀ e ∈ t.seen, ∀ c, c ∈ e.2 ↔ (c, e.1) ∈ ps
  keys : ∀ l, (∃ e ∈ t.seen, e.1 = l) ↔ ∃ c, (c, l) ∈ ps
  cols : ∀ c, c ∈ t.cols ↔ ∃ l, (c, l) ∈ ps

theorem addSeen_seen (seen : List (Str × List Str)) (ps : List (Str × Str)) (l n : Str)
    (h1 : ∀ e ∈ seen, ∀ c, c ∈ e.2 ↔ (c, e.1) ∈ ps)
    (h2 : ∀ l, (∃ e ∈ seen, e.1 = l) ↔ ∃ c, (c, l) ∈ ps) :
    ∀ e ∈ addSeen seen l n, ∀ c, c ∈ e.2 ↔ (c, e.1) ∈ ps ++ [(n, l)] := by
  intro e he c
  unfold addSeen at he
  split at he
  · rw [List.mem_map] at he
    obtain ⟨e0, he0, rfl⟩ := he
    by_cases hk : e0.1 = l
    · simp only [hk, if_true, List.mem_append, List.mem_singleton, Prod.mk.injEq, and_true]
      rw [h1 e0 he0 c, hk]
    · simp [hk, h1 e0 he0 c]
  · rename_i hany
    rw [List.mem_append, List.mem_singleton] at he
    rcases he with he | rfl
    · have hk : e.1 ≠ l := by
        intro hk; apply hany
        simp only [List.any_eq_true, decide_eq_true_eq]
        exact ⟨e, he, hk⟩
      simp only [List.mem_append, List.mem_singleton, Prod.mk.injEq]
      rw [h1 e he c]
      constructor
      · intro h; exact Or.inl h
      · rintro (h | ⟨_, h⟩)
        · exact h
        · exact absurd h hk
    · simp only [List.mem_singleton, List.mem_append, Prod.mk.injEq, and_true]
      constructor
      · intro h; exact Or.inr h
      · rintro (h | h)
        · exfalso; apply hany
          obtain ⟨e, he, hk⟩ := (h2 l).mpr ⟨c, h⟩
          simp only [List.any_eq_true, decide_eq_true_eq]
          exact ⟨e, he, hk⟩
        · exact h

theorem addSeen_keys (seen : List (Str × List Str)) (ps : List (Str × Str)) (l n : Str)
    (h2 : ∀ l, (∃ e ∈ seen, e.1 = l) ↔ ∃ c, (c, l) ∈ ps) :
    ∀ l', (∃ e ∈ addSeen seen l n, e.1 = l') ↔ ∃ c, (c, l') ∈ ps ++ [(n, l)] := by
  intro l'
  have hkeys : (∃ e ∈ addSeen seen l n, e.1 = l') ↔ ((∃ e ∈ seen, e.1 = l') ∨ l' = l) := by
    unfold addSeen
    split
    · rename_i hany
      simp only [List.any_eq_true, decide_eq_true_eq] at hany
      constructor
      · rintro ⟨e, he, hk⟩
        rw [List.mem_map] at he
        obtain ⟨e0, he0, rfl⟩ := he
        left; refine ⟨e0, he0, ?_⟩
        split at hk <;> exact hk
      · rintro (⟨e, he, hk⟩ | rfl)
        · refine ⟨_, List.mem_map.mpr ⟨e, he, rfl⟩, ?_⟩
          split <;> exact hk
        · obtain ⟨e, he, hk⟩ := hany
          exact ⟨_, List.mem_map.mpr ⟨e, he, rfl⟩, by simp [hk]⟩
    · constructor
      · rintro ⟨e, he, hk⟩
        rw [List.mem_append, List.mem_singleton] at he
        rcases he with he | rfl
        · exact Or.inl ⟨e, he, hk⟩
        · exact Or.inr hk.symm
      · rintro (⟨e, he, hk⟩ | rfl)
        · exact ⟨e, List.mem_append_left _ he, hk⟩
        · exact ⟨(l', [n]), by simp, rfl⟩
  rw [hkeys, h2 l']
  simp only [List.mem_append, List.mem_singleton, Prod.mk.injEq]
  constructor
  · rintro (⟨c, h⟩ | rfl)
    · exact ⟨c, Or.inl h⟩
    · exact ⟨n, Or.inr ⟨rfl, rfl⟩⟩
  · rintro ⟨c, h | ⟨_, h⟩⟩
    · exact Or.inl ⟨c, h⟩
    · exact Or.inr h


theorem TrInv.add {t : Tr} {ps : List (Str × Str)} (h : TrInv t ps) (l n : Str) :
    TrInv { seen := addSeen t.seen l n, cols := if t.cols.contains n then t.cols else t.cols ++ [n] }
      (ps ++ [(n, l)]) where
  seen := addSeen_seen t.seen ps l n h.seen h.keys
  keys := addSeen_keys t.seen ps l n h.keys
  cols := by
    intro c
    have hc := h.cols c
    by_cases hn : t.cols.contains n = true
    · simp only [hn, if_true, hc, List.mem_append, List.mem_singleton, Prod.mk.injEq]
      constructor
      · rintro ⟨l', h'⟩; exact ⟨l', Or.inl h'⟩
      · rintro ⟨l', h' | ⟨rfl, _⟩⟩
        · exact ⟨l', h'⟩
        · exact (h.cols c).mp (by simpa using hn)
    · have hn' : t.cols.contains n = false := by simpa using hn
      simp only [hn', Bool.false_eq_true, if_false, List.mem_append, List.mem_singleton, hc, Prod.mk.injEq]
      constructor
      · rintro (⟨l', h'⟩ | rfl)
        · exact ⟨l', Or.inl h'⟩
        · exact ⟨l, Or.inr ⟨rfl, rfl⟩⟩
      · rintro ⟨l', h' | ⟨rfl, _⟩⟩
        · exact Or.inl ⟨l', h'⟩
        · exact Or.inr rfl

/-- one header: the record grows by exactly the pair the header stands for -/
theorem TrInv.step (tbl : Aliases) {t : Tr} {ps : List (Str × Str)} (h : TrInv t ps) (hd : List Str)
    (hshort : (match trStrip hd with | h0 :: _ :: _ :: _ => (trName tbl h0).isNone | _ => true) = true) :
    TrInv (trHead tbl t (trStrip hd)) (ps ++ (trPair tbl hd).toList) := by
  unfold trPair trHead
  cases hs : trStrip hd with
  | nil => simpa using h
  | cons h0 rest =>
    rw [hs] at hshort
    cases hn : trName tbl h0 with
    | none => cases rest with
      | nil => simpa [hn] using h
      | cons l r2 => cases r2 <;> simpa [hn] using h
    | some n =>
      cases rest with
      | nil => simpa [hn] using h.add defaultLang n
      | cons l r2 =>
        cases r2 with
        | nil => simpa [hn] using h.add l n
        | cons x y => simp [hn] at hshort

theorem TrInv.fold (tbl : Aliases) : ∀ (hs : List (List Str)) (t : Tr) (ps : List (Str × Str)),
    TrInv t ps → trShort tbl hs = true →
    TrInv (hs.foldl (fun t h => trHead tbl t (trStrip h)) t) (ps ++ trPairs tbl hs)
  | [], t, ps, h, _ => by simpa [trPairs] using h
  | hd :: hs, t, ps, h, hsh => by
    simp only [trShort, List.all_cons, Bool.and_eq_true] at hsh
    have h1 := h.step tbl hd hsh.1
    have h2 := TrInv.fold tbl hs _ _ h1 (by simpa [trShort] using hsh.2)
    simp only [List.foldl_cons]
    have : ps ++ trPairs tbl (hd :: hs) = ps ++ (trPair tbl hd).toList ++ trPairs tbl hs := by
      simp only [trPairs, List.filterMap_cons]
      cases trPair tbl hd <;> simp
    rw [this]; exact h2

theorem TrInv.init : TrInv {} [] where
  seen := by intro e he; cases he
  keys := by intro l; simp
  cols := by intro c; simp

theorem findTranslations_inv (tbl : Aliases) (hs : List (List Str)) (hsh : trShort tbl hs = true) :
    TrInv (findTranslations tbl hs) (trPairs tbl hs) := by
  have := TrInv.fold tbl hs {} [] TrInv.init hsh
  simpa [findTranslations] using this


/-! ### the row loop: what one row appends is what is due for it -/

theorem deprecated_pinned' : deprecatedTypes = documentedDeprecated := by decide

/-- the part of `rowDue` that belongs to a typed, active row -/
def typedDue (n : Nat) (rb : PRow) (t : Str) (pkeys : List Str) : List W :=
  (if documentedDeprecated.contains t && t ≠ "audit".toList then [W.deprecated n t] else []) ++
  (match Rows.matchControl "begin" true t with
   | some ct => if !settingsTypes.contains t && t ≠ "audit".toList && (Rows.matchControl "end" false t).isNone
                   && noLabelCond rb ct then [W.noLabel n ct] else []
   | none => []) ++
  (if plainQuestion t && isSelectExternal t && !keyIn rb "choice_filter" then [W.extNoFilter n] else []) ++
  (if plainQuestion t && (Rows.matchSelect t).isNone && t = "photo".toList && !pkeys.contains "max-pixels".toList
   then [W.noMaxPixels n] else [])

theorem rowDue_typed (n : Nat) (r0 : PRow) (t : Str) (pkeys : List Str)
    (hact : active r0 = true) (hne : t ≠ []) (hty : rowType r0 = some t)
    (hpk : paramKeys ((val1 (body r0) "parameters").getD []) = some pkeys) :
    rowDue n r0 = (if keyIn r0 "disabled" then [W.disabled n] else []) ++ typedDue n (body r0) t pkeys := by
  have htyped : typed r0 = true := by
    cases t with
    | nil => exact absurd rfl hne
    | cons c cs => simp [typed, hty]
  simp only [rowDue, typedDue, skippedTrig, deprecatedTrig, noLabelTrig, extNoFilterTrig, noMaxPixelsTrig,
    hact, htyped, hty, hpk, Bool.true_and, Bool.not_true, Bool.false_and, Option.getD_some, List.append_assoc]
  congr 1
  simp
  cases hb : Rows.matchControl "begin" true t <;> simp

/-- the or_other flag of a typed row -/
def typedOther (t : Str) : Bool :=
  plainQuestion t && (match Rows.matchSelect t with | some (_, _, o) => o | none => false)

theorem typedOut_eq (n : Nat) (rb : PRow) (t : Str) (pkeys : List Str) (o : RowOut)
    (h : typedOut n rb t pkeys = .ok o) :
    o.ws = typedDue n rb t pkeys ∧ o.orOther = typedOther t := by
  unfold typedOut at h
  rw [deprecated_pinned'] at h
  unfold typedDue typedOther plainQuestion isSelectExternal
  generalize "audit".toList = A at *
  generalize "photo".toList = P at *
  generalize "loop".toList = L at *
  generalize "select one external".toList = E at *
  generalize "max-pixels".toList = M at *
  by_cases ha : t = A
  · simp only [ha, if_true] at h
    cases h
    subst ha
    simp
    split <;> simp
  · simp only [ha, if_false] at h
    by_cases hs : settingsTypes.contains t = true
    · simp only [hs, if_true] at h
      cases h
      have hsm : t ∈ settingsTypes := by simpa using hs
      simp [ha, hsm]
      split <;> rfl
    · simp only [hs] at h
      have hs' : t ∉ settingsTypes := by simpa using hs
      cases he : Rows.matchControl "end" false t with
      | some e =>
        simp only [he, Option.isSome_some, if_true] at h
        cases h
        simp [ha, hs', he]
        split <;> simp
      | none =>
        simp only [he, Option.isSome_none, Bool.false_eq_true, if_false] at h
        cases hb : Rows.matchControl "begin" true t with
        | some ct =>
          simp only [hb] at h
          split at h
          · cases h
          · split at h
            · cases h
            · cases h
              simp [ha, hs', he, hb]
        | none =>
          simp only [hb] at h
          cases hm : Rows.matchSelect t with
          | some x =>
            obtain ⟨sel, ln, other⟩ := x
            simp only [hm] at h
            cases h
            simp [ha, hs', he, hb, hm]
          | none =>
            simp only [hm] at h
            cases h
            simp [ha, hs', he, hb, hm]

theorem orOtherRow_typed (r0 : PRow) (t : Str) (hact : active r0 = true) (hne : t ≠ []) (hty : rowType r0 = some t) :
    orOtherRow r0 = typedOther t := by
  have htyped : typed r0 = true := by
    cases t with
    | nil => exact absurd rfl hne
    | cons c cs => simp [typed, hty]
  simp only [orOtherRow, typedOther, hact, htyped, hty, Bool.true_and]
  rfl

/-- **One row.**  What the loop body appends for row `n` is exactly what is due for it. -/
theorem rowOut_ok (n : Nat) (r0 : PRow) (o : RowOut) (h : rowOut n r0 = .ok o) :
    o.ws = rowDue n r0 ∧ o.orOther = orOtherRow r0 := by
  unfold rowOut at h
  split at h
  · cases h
  · simp only at h
    by_cases hd : disabledYes r0 = true
    · simp only [hd, if_true] at h
      cases h
      simp [rowDue, skippedTrig, deprecatedTrig, noLabelTrig, extNoFilterTrig, noMaxPixelsTrig,
        orOtherRow, active, hd]
      split <;> simp
      split <;> rfl
    · have hd' : disabledYes r0 = false := by simpa using hd
      simp only [hd', Bool.false_eq_true, if_false] at h
      by_cases hempty : (body r0).isEmpty = true
      · simp only [hempty, if_true] at h
        cases h
        simp [rowDue, skippedTrig, deprecatedTrig, noLabelTrig, extNoFilterTrig, noMaxPixelsTrig,
          orOtherRow, active, hd', hempty]
        split <;> simp
        split <;> rfl
      · have hne' : (body r0).isEmpty = false := by simpa using hempty
        have hact : active r0 = true := by simp [active, hd', hne']
        simp only [hne', Bool.false_eq_true, if_false] at h
        split at h
        · cases h
        · split at h
          · -- no type cell
            rename_i hty
            split at h
            · cases h
              rename_i hnl
              simp [rowDue, skippedTrig, deprecatedTrig, noLabelTrig, extNoFilterTrig, noMaxPixelsTrig,
                orOtherRow, hact, typed, hty, hnl]
            · cases h
          · rename_i hty
            split at h
            · cases h
              rename_i hnl
              simp [rowDue, skippedTrig, deprecatedTrig, noLabelTrig, extNoFilterTrig, noMaxPixelsTrig,
                orOtherRow, hact, typed, hty, hnl]
              exact ⟨by decide, by split <;> rfl⟩
            · cases h
          · rename_i c cs hty
            split at h
            · cases h
            · split at h
              · cases h
              · rename_i pkeys hpk
                split at h
                · rename_i o' ho'
                  cases h
                  obtain ⟨h1, h2⟩ := typedOut_eq n (body r0) (c :: cs) pkeys o' ho'
                  rw [rowDue_typed n r0 (c :: cs) pkeys hact (by simp) hty hpk,
                    orOtherRow_typed r0 (c :: cs) hact (by simp) hty]
                  exact ⟨by simp [h1], h2⟩
                · cases h

theorem rowLoop_ok : ∀ (rs : List PRow) (n : Nat) (st st' : St), rowLoop n rs st = .ok st' →
    st'.warnings = st.warnings ++ rowsDue n rs ∧ st'.orOther = (st.orOther || rs.any orOtherRow)
  | [], n, st, st', h => by
    simp only [rowLoop, Except.ok.injEq] at h
    subst h; simp [rowsDue]
  | r :: rs, n, st, st', h => by
    simp only [rowLoop, rowStep] at h
    cases ho : rowOut n r with
    | error e => simp [ho] at h
    | ok o =>
      simp only [ho] at h
      obtain ⟨h1, h2⟩ := rowOut_ok n r o ho
      obtain ⟨h3, h4⟩ := rowLoop_ok rs (n + 1) _ st' h
      simp [h3, h4, h1, h2, rowsDue, Bool.or_assoc]

theorem mem_rowsDue (w : W) : ∀ (rs : List PRow) (n : Nat),
    w ∈ rowsDue n rs ↔ ∃ i r, rs[i]? = some r ∧ w ∈ rowDue (n + i) r
  | [], n => by simp [rowsDue]
  | r :: rs, n => by
    simp only [rowsDue, List.mem_append, mem_rowsDue w rs (n + 1)]
    constructor
    · rintro (h | ⟨i, r', hi, hw⟩)
      · exact ⟨0, r, by simp, by simpa using h⟩
      · exact ⟨i + 1, r', by simpa using hi, by rw [show n + (i + 1) = n + 1 + i by omega]; exact hw⟩
    · rintro ⟨i, r', hi, hw⟩
      cases i with
      | zero => simp at hi; subst hi; left; simpa using hw
      | succ j =>
        right
        exact ⟨j, r', by simpa using hi, by rw [show n + 1 + j = n + (j + 1) by omega]; exact hw⟩


/-- the rows loop is a writer: a prefix of the warnings list is carried along untouched -/
theorem rowLoop_frame (w0 : List W) : ∀ (rs : List PRow) (n : Nat) (st : St),
    rowLoop n rs { st with warnings := w0 ++ st.warnings } =
      (rowLoop n rs st).map (fun s => { s with warnings := w0 ++ s.warnings })
  | [], n, st => by simp [rowLoop, Except.map]
  | r :: rs, n, st => by
    simp only [rowLoop, rowStep]
    cases ho : rowOut n r with
    | error e => simp [Except.map]
    | ok o =>
      simp only []
      have := rowLoop_frame w0 rs (n + 1) { warnings := st.warnings ++ o.ws, orOther := st.orOther || o.orOther, kept := st.kept ++ o.kept }
      simp only [List.append_assoc] at this ⊢
      exact this

/-- the spelling check for one sheet name: the warning, if any -/
def misspellW (lower : Str → Str) (key : String) (names : List Str) : List W :=
  match findSheetMisspellings lower supported key.toList names with
  | some c => [W.misspell key.toList c]
  | none => []

/-- the warnings emitted before the row loop, from an empty list -/
def preRows (lower : Str → Str) (wb : WB) (v : View) (chW : List W) : List W :=
  (if wb.settingsRows > 0 then
      (if wb.settingsHeader.contains "id_string".toList && wb.settingsHeader.contains "form_id".toList
       then [W.dupId] else [])
    else misspellW lower "settings" wb.sheetNames) ++
  (if wb.choices.isEmpty then [] else choiceHeaderWarnings v.chHeaders ++ chW) ++
  (if wb.hasEntities then [] else misspellW lower "entities" wb.sheetNames) ++
  missingCheck (findTranslations surveyTrTable v.svHeaders) (findTranslations choicesTrTable v.chHeaders)

/-- `convertOn` in writer form -/
theorem convertOn_eq (lower : Str → Str) (wb : WB) (v : View) (w0 : List W) :
    convertOn lower wb v w0 =
      match choicesWarnings (groupChoices (numberFrom 2 v.chRows)) with
      | .error e => .error e
      | .ok chW =>
        match rowLoop 2 v.svRows { warnings := w0 ++ preRows lower wb v chW } with
        | .error e => .error e
        | .ok st => .ok ({ kept := st.kept, orOther := st.orOther },
            st.warnings ++ orOtherCheck st.orOther (findTranslations surveyTrTable v.svHeaders)
              (findTranslations choicesTrTable v.chHeaders)) := by
  unfold convertOn preRows misspellW
  cases choicesWarnings (groupChoices (numberFrom 2 v.chRows)) with
  | error e => rfl
  | ok chW =>
    simp only []
    have key : ∀ X Y : List W, X = Y →
        (match rowLoop 2 v.svRows { warnings := X } with
          | .error e => (.error e : Except Stop (Res × List W))
          | .ok st => .ok ({ kept := st.kept, orOther := st.orOther },
              st.warnings ++ orOtherCheck st.orOther (findTranslations surveyTrTable v.svHeaders)
                (findTranslations choicesTrTable v.chHeaders))) =
        (match rowLoop 2 v.svRows { warnings := Y } with
          | .error e => .error e
          | .ok st => .ok ({ kept := st.kept, orOther := st.orOther },
              st.warnings ++ orOtherCheck st.orOther (findTranslations surveyTrTable v.svHeaders)
                (findTranslations choicesTrTable v.chHeaders))) := by
      intro X Y h; rw [h]
    apply key
    by_cases h1 : wb.settingsRows > 0 <;>
    by_cases h2 : (wb.settingsHeader.contains "id_string".toList && wb.settingsHeader.contains "form_id".toList) = true <;>
    by_cases h3 : wb.choices.isEmpty = true <;>
    by_cases h4 : wb.hasEntities = true <;>
    cases h5 : findSheetMisspellings lower supported "settings".toList wb.sheetNames <;>
    cases h6 : findSheetMisspellings lower supported "entities".toList wb.sheetNames <;>
    simp only [h1, h2, h3, h4, if_true, if_false, List.append_assoc, List.nil_append, List.append_nil,
      Bool.false_eq_true]


/-! ### unlabeled choices -/

theorem choiceListWarnings_mem : ∀ (opts : List (Nat × PRow)) (ws : List W), choiceListWarnings opts = .ok ws →
    ∀ w, w ∈ ws ↔ ∃ nr ∈ opts, keyIn nr.2 "label" = false ∧ w = W.choiceNoLabel nr.1
  | [], ws, h, w => by simp [choiceListWarnings] at h; subst h; simp
  | (n, r) :: rest, ws, h, w => by
    unfold choiceListWarnings at h
    split at h
    · cases h
    · cases hr : choiceListWarnings rest with
      | error e => simp [hr] at h
      | ok ws' =>
        simp only [hr, Except.ok.injEq] at h
        have ih := choiceListWarnings_mem rest ws' hr w
        subst h
        by_cases hl : keyIn r "label" = true
        · simp [hl, ih]
        · have hl' : keyIn r "label" = false := by simpa using hl
          simp [hl', ih]

theorem choicesWarnings_mem : ∀ (gs : List (Str × List (Nat × PRow))) (ws : List W), choicesWarnings gs = .ok ws →
    ∀ w, w ∈ ws ↔ ∃ g ∈ gs, ∃ nr ∈ g.2, keyIn nr.2 "label" = false ∧ w = W.choiceNoLabel nr.1
  | [], ws, h, w => by simp [choicesWarnings] at h; subst h; simp
  | (ln, opts) :: rest, ws, h, w => by
    unfold choicesWarnings at h
    cases h1 : choiceListWarnings opts with
    | error e => simp [h1] at h
    | ok w1 =>
      cases h2 : choicesWarnings rest with
      | error e => simp [h1, h2] at h
      | ok w2 =>
        simp only [h1, h2, Except.ok.injEq] at h
        subst h
        simp [choiceListWarnings_mem opts w1 h1 w, choicesWarnings_mem rest w2 h2 w]

def gstep (acc : List (Str × List (Nat × PRow))) (nr : Nat × PRow) : List (Str × List (Nat × PRow)) :=
  match val1 nr.2 "list name" with
  | none => acc
  | some ln =>
    if acc.any (fun e => e.1 = ln) then acc.map fun e => if e.1 = ln then (e.1, e.2 ++ [nr]) else e
    else acc ++ [(ln, [nr])]

theorem groupChoices_eq (rows : List (Nat × PRow)) : groupChoices rows = rows.foldl gstep [] := rfl

theorem gstep_mem (acc : List (Str × List (Nat × PRow))) (nr x : Nat × PRow) :
    (∃ g ∈ gstep acc nr, x ∈ g.2) ↔ (∃ g ∈ acc, x ∈ g.2) ∨ (x = nr ∧ (val1 nr.2 "list name").isSome = true) := by
  unfold gstep
  cases hln : val1 nr.2 "list name" with
  | none => simp
  | some ln =>
    simp only [Option.isSome_some, and_true]
    split
    · rename_i hany
      simp only [List.any_eq_true, decide_eq_true_eq] at hany
      obtain ⟨e0, he0, hk0⟩ := hany
      constructor
      · rintro ⟨g, hg, hx⟩
        rw [List.mem_map] at hg
        obtain ⟨e, he, rfl⟩ := hg
        by_cases hk : e.1 = ln
        · simp only [hk, if_true, List.mem_append, List.mem_singleton] at hx
          rcases hx with hx | hx
          · exact Or.inl ⟨e, he, hx⟩
          · exact Or.inr hx
        · simp only [hk, if_false] at hx
          exact Or.inl ⟨e, he, hx⟩
      · rintro (⟨g, hg, hx⟩ | rfl)
        · refine ⟨_, List.mem_map.mpr ⟨g, hg, rfl⟩, ?_⟩
          by_cases hk : g.1 = ln
          · simp [hk, hx]
          · simp [hk, hx]
        · exact ⟨_, List.mem_map.mpr ⟨e0, he0, rfl⟩, by simp [hk0]⟩
    · constructor
      · rintro ⟨g, hg, hx⟩
        rw [List.mem_append, List.mem_singleton] at hg
        rcases hg with hg | rfl
        · exact Or.inl ⟨g, hg, hx⟩
        · exact Or.inr (by simpa using hx)
      · rintro (⟨g, hg, hx⟩ | rfl)
        · exact ⟨g, List.mem_append_left _ hg, hx⟩
        · exact ⟨(ln, [x]), by simp, by simp⟩

theorem foldl_gstep_mem : ∀ (rows : List (Nat × PRow)) (acc : List (Str × List (Nat × PRow))) (x : Nat × PRow),
    (∃ g ∈ rows.foldl gstep acc, x ∈ g.2) ↔
      (∃ g ∈ acc, x ∈ g.2) ∨ (x ∈ rows ∧ (val1 x.2 "list name").isSome = true)
  | [], acc, x => by simp
  | nr :: rows, acc, x => by
    simp only [List.foldl_cons, foldl_gstep_mem rows (gstep acc nr) x, gstep_mem, List.mem_cons]
    constructor
    · rintro ((h | ⟨rfl, h⟩) | ⟨h1, h2⟩)
      · exact Or.inl h
      · exact Or.inr ⟨Or.inl rfl, h⟩
      · exact Or.inr ⟨Or.inr h1, h2⟩
    · rintro (h | ⟨rfl | h1, h2⟩)
      · exact Or.inl (Or.inl h)
      · exact Or.inl (Or.inr ⟨rfl, h2⟩)
      · exact Or.inr ⟨h1, h2⟩


/-! ### or_other × translations -/

theorem addSeen_keys_nodup (seen : List (Str × List Str)) (l n : Str) (h : (seen.map (·.1)).Nodup) :
    ((addSeen seen l n).map (·.1)).Nodup := by
  unfold addSeen
  split
  · have : (seen.map fun e => if e.1 = l then (e.1, e.2 ++ [n]) else e).map (·.1) = seen.map (·.1) := by
      rw [List.map_map]; apply List.map_congr_left; intro e _; simp only [Function.comp]; split <;> rfl
    rw [this]; exact h
  · rename_i hany
    simp only [List.any_eq_true, decide_eq_true_eq, not_exists, not_and] at hany
    rw [List.map_append, List.nodup_append]
    refine ⟨h, by simp, ?_⟩
    intro a ha b hb
    simp only [List.map_cons, List.map_nil, List.mem_singleton] at hb
    rw [List.mem_map] at ha
    obtain ⟨e, he, rfl⟩ := ha
    rw [hb]; exact hany e he

theorem trHead_keys_nodup (tbl : Aliases) (t : Tr) (hd : List Str) (h : (t.seen.map (·.1)).Nodup) :
    ((trHead tbl t hd).seen.map (·.1)).Nodup := by
  unfold trHead
  split
  · exact h
  · split
    · exact h
    · simp only
      split
      · exact addSeen_keys_nodup _ _ _ h
      · exact addSeen_keys_nodup _ _ _ h
      · exact h

theorem findTranslations_keys_nodup (tbl : Aliases) (hs : List (List Str)) :
    ((findTranslations tbl hs).seen.map (·.1)).Nodup := by
  unfold findTranslations
  have : ∀ (hs : List (List Str)) (t : Tr), (t.seen.map (·.1)).Nodup →
      ((hs.foldl (fun t h => trHead tbl t (trStrip h)) t).seen.map (·.1)).Nodup := by
    intro hs
    induction hs with
    | nil => intro t h; exact h
    | cons hd tl ih => intro t h; exact ih _ (trHead_keys_nodup tbl t _ h)
  exact this hs {} (by simp)

/-- `seen_default_only()` says exactly that no translatable column carries a language -/
theorem seenDefaultOnly_iff (t : Tr) (ps : List (Str × Str)) (inv : TrInv t ps)
    (hnd : (t.seen.map (·.1)).Nodup) : seenDefaultOnly t = !translated ps := by
  have hkeys := inv.keys
  cases hseen : t.seen with
  | nil =>
    have : ∀ p ∈ ps, False := by
      intro p hp
      obtain ⟨e, he, _⟩ := (hkeys p.2).mpr ⟨p.1, hp⟩
      rw [hseen] at he; cases he
    have hps : ps = [] := by
      cases ps with
      | nil => rfl
      | cons p _ => exact (this p (by simp)).elim
    simp [seenDefaultOnly, hseen, translated, hps]
  | cons e rest =>
    by_cases htr : translated ps = true
    · -- some language other than default is used: either the head key or a second key
      simp only [translated, List.any_eq_true, decide_eq_true_eq] at htr
      obtain ⟨p, hp, hne⟩ := htr
      obtain ⟨e', he', hk'⟩ := (hkeys p.2).mpr ⟨p.1, hp⟩
      have : seenDefaultOnly t = false := by
        simp only [seenDefaultOnly, hseen, List.isEmpty_cons, Bool.false_or, Bool.and_eq_false_iff]
        by_cases hlen : rest = []
        · left
          subst hlen
          rw [hseen] at he'
          simp only [List.mem_singleton] at he'
          subst he'
          simp [hk', hne]
        · right
          cases rest with
          | nil => exact absurd rfl hlen
          | cons _ _ => simp
      simp [this, translated, List.any_eq_true]
      exact ⟨p.1, p.2, hp, hne⟩
    · have htr' : translated ps = false := by simpa using htr
      -- every key is `default`, keys are distinct: exactly one entry
      have hall : ∀ e' ∈ t.seen, e'.1 = defaultLang := by
        intro e' he'
        obtain ⟨c, hc⟩ := (hkeys e'.1).mp ⟨e', he', rfl⟩
        simp only [translated, List.any_eq_false, decide_eq_true_eq] at htr'
        exact Classical.byContradiction fun hne => htr' _ hc hne
      have hrest : rest = [] := by
        cases rest with
        | nil => rfl
        | cons e2 r2 =>
          rw [hseen] at hnd hall
          simp only [List.map_cons, List.nodup_cons, List.mem_cons, not_or] at hnd
          have h1 := hall e (by simp)
          have h2 := hall e2 (by simp)
          exact absurd (h1.trans h2.symm) hnd.1.1
      have he := hall e (by rw [hseen]; simp)
      simp [seenDefaultOnly, hseen, hrest, he, htr']


/-! ### `dedup` -/

theorem mem_dedup (a : Str) : ∀ l : List Str, a ∈ dedup l ↔ a ∈ l
  | [] => by simp [dedup]
  | x :: xs => by
    unfold dedup
    by_cases hx : xs.contains x = true
    · simp only [hx, if_true, mem_dedup a xs, List.mem_cons]
      constructor
      · exact Or.inr
      · rintro (rfl | h)
        · simpa using hx
        · exact h
    · have hx' : xs.contains x = false := by simpa using hx
      simp only [hx', Bool.false_eq_true, if_false, List.mem_cons, mem_dedup a xs]

theorem nodup_dedup : ∀ l : List Str, (dedup l).Nodup
  | [] => by simp [dedup]
  | x :: xs => by
    unfold dedup
    by_cases hx : xs.contains x = true
    · simp only [hx, if_true]; exact nodup_dedup xs
    · have hx' : xs.contains x = false := by simpa using hx
      simp only [hx', Bool.false_eq_true, if_false, List.nodup_cons, mem_dedup]
      exact ⟨by simpa using hx, nodup_dedup xs⟩

section Multiset
open List

/-! ### unlabeled choices, with multiplicities -/

def noLabelW (nr : Nat × PRow) : Option W := if !keyIn nr.2 "label" then some (W.choiceNoLabel nr.1) else none

theorem choiceListWarnings_eq : ∀ (opts : List (Nat × PRow)) (ws : List W), choiceListWarnings opts = .ok ws →
    ws = opts.filterMap noLabelW
  | [], ws, h => by simp [choiceListWarnings] at h; subst h; rfl
  | (n, r) :: rest, ws, h => by
    unfold choiceListWarnings at h
    split at h
    · cases h
    · cases hr : choiceListWarnings rest with
      | error e => simp [hr] at h
      | ok ws' =>
        simp only [hr, Except.ok.injEq] at h
        have ih := choiceListWarnings_eq rest ws' hr
        subst h
        by_cases hl : keyIn r "label" = true
        · simp [hl, ih, noLabelW, List.filterMap_cons]
        · have hl' : keyIn r "label" = false := by simpa using hl
          simp [hl', ih, noLabelW, List.filterMap_cons]

theorem choicesWarnings_eq : ∀ (gs : List (Str × List (Nat × PRow))) (ws : List W), choicesWarnings gs = .ok ws →
    ws = (gs.flatMap (·.2)).filterMap noLabelW
  | [], ws, h => by simp [choicesWarnings] at h; subst h; rfl
  | (ln, opts) :: rest, ws, h => by
    unfold choicesWarnings at h
    cases h1 : choiceListWarnings opts with
    | error e => simp [h1] at h
    | ok w1 =>
      cases h2 : choicesWarnings rest with
      | error e => simp [h1, h2] at h
      | ok w2 =>
        simp only [h1, h2, Except.ok.injEq] at h
        subst h
        simp [choiceListWarnings_eq opts w1 h1, choicesWarnings_eq rest w2 h2, List.flatMap_cons, List.filterMap_append]

def hasList (nr : Nat × PRow) : Bool := (val1 nr.2 "list name").isSome

theorem choiceDue_eq (rows : List (Nat × PRow)) : choiceDue rows = (rows.filter hasList).filterMap noLabelW := by
  unfold choiceDue
  induction rows with
  | nil => rfl
  | cons nr rows ih =>
    by_cases hh : hasList nr = true
    · have : (val1 nr.2 "list name").isSome = true := hh
      simp only [List.filterMap_cons, List.filter_cons, hh, if_true, this, Bool.true_and, noLabelW, ih]
    · have hh' : hasList nr = false := by simpa using hh
      have : (val1 nr.2 "list name").isSome = false := hh'
      simp only [List.filterMap_cons, List.filter_cons, hh', this, Bool.false_and, Bool.false_eq_true, if_false, ih]

theorem gupd_perm (ln : Str) (nr : Nat × PRow) : ∀ acc : List (Str × List (Nat × PRow)),
    (acc.map (·.1)).Nodup → (∃ e ∈ acc, e.1 = ln) →
    (acc.map fun e => if e.1 = ln then (e.1, e.2 ++ [nr]) else e).flatMap (·.2) ~ acc.flatMap (·.2) ++ [nr]
  | [], _, h => by obtain ⟨e, he, _⟩ := h; cases he
  | e :: rest, hnd, h => by
    simp only [List.map_cons, List.nodup_cons] at hnd
    by_cases hk : e.1 = ln
    · have hrest : (rest.map fun e => if e.1 = ln then (e.1, e.2 ++ [nr]) else e) = rest := by
        conv => rhs; rw [← List.map_id rest]
        apply List.map_congr_left
        intro e' he'
        have : e'.1 ≠ ln := by
          intro h'; apply hnd.1; rw [hk, ← h']; exact List.mem_map.mpr ⟨e', he', rfl⟩
        simp [this]
      simp only [List.map_cons, hk, if_true, List.flatMap_cons, hrest]
      rw [List.append_assoc, List.append_assoc]
      exact List.Perm.append_left _ List.perm_append_comm
    · obtain ⟨e0, he0, hk0⟩ := h
      have hin : ∃ e ∈ rest, e.1 = ln := by
        rcases List.mem_cons.mp he0 with rfl | h'
        · exact absurd hk0 hk
        · exact ⟨e0, h', hk0⟩
      have ih := gupd_perm ln nr rest hnd.2 hin
      simp only [List.map_cons, hk, if_false, List.flatMap_cons, List.append_assoc]
      exact List.Perm.append_left _ ih

theorem gstep_perm (acc : List (Str × List (Nat × PRow))) (nr : Nat × PRow) (hnd : (acc.map (·.1)).Nodup) :
    (gstep acc nr).flatMap (·.2) ~ acc.flatMap (·.2) ++ (if hasList nr then [nr] else []) ∧
      ((gstep acc nr).map (·.1)).Nodup := by
  unfold gstep hasList
  cases hln : val1 nr.2 "list name" with
  | none => simp [hnd]
  | some ln =>
    simp only [Option.isSome_some, if_true]
    split
    · rename_i hany
      simp only [List.any_eq_true, decide_eq_true_eq] at hany
      refine ⟨gupd_perm ln nr acc hnd hany, ?_⟩
      have : (acc.map fun e => if e.1 = ln then (e.1, e.2 ++ [nr]) else e).map (·.1) = acc.map (·.1) := by
        rw [List.map_map]; apply List.map_congr_left; intro e _; simp only [Function.comp]; split <;> rfl
      rw [this]; exact hnd
    · rename_i hany
      simp only [List.any_eq_true, decide_eq_true_eq, not_exists, not_and] at hany
      refine ⟨by simp, ?_⟩
      rw [List.map_append, List.nodup_append]
      refine ⟨hnd, by simp, ?_⟩
      intro a ha b hb
      simp only [List.map_cons, List.map_nil, List.mem_singleton] at hb
      rw [List.mem_map] at ha
      obtain ⟨e, he, rfl⟩ := ha
      rw [hb]; exact hany e he

theorem foldl_gstep_perm : ∀ (rows : List (Nat × PRow)) (acc : List (Str × List (Nat × PRow))),
    (acc.map (·.1)).Nodup → (rows.foldl gstep acc).flatMap (·.2) ~ acc.flatMap (·.2) ++ rows.filter hasList
  | [], acc, _ => by simp
  | nr :: rows, acc, hnd => by
    obtain ⟨h1, h2⟩ := gstep_perm acc nr hnd
    have ih := foldl_gstep_perm rows (gstep acc nr) h2
    simp only [List.foldl_cons]
    refine ih.trans ?_
    refine (List.Perm.append_right _ h1).trans ?_
    by_cases hh : hasList nr = true
    · simp [hh, List.filter_cons]
    · have hh' : hasList nr = false := by simpa using hh
      simp [hh', List.filter_cons]

/-- unlabeled-choice warnings, as a multiset -/
theorem choice_no_label_perm (rows : List (Nat × PRow)) (ws : List W)
    (h : choicesWarnings (groupChoices rows) = .ok ws) : ws ~ choiceDue rows := by
  rw [choicesWarnings_eq _ ws h, choiceDue_eq, groupChoices_eq]
  apply List.Perm.filterMap
  have := foldl_gstep_perm rows [] (by simp)
  simpa using this

/-! ### missing translations, with multiplicities -/

theorem trHead_cols_nodup (tbl : Aliases) (t : Tr) (hd : List Str) (h : t.cols.Nodup) : (trHead tbl t hd).cols.Nodup := by
  unfold trHead
  split
  · exact h
  · split
    · exact h
    · rename_i name _
      simp only
      by_cases hc : t.cols.contains name = true
      · simp only [hc, if_true]; exact h
      · have hc' : t.cols.contains name = false := by simpa using hc
        simp only [hc', Bool.false_eq_true, if_false]
        rw [List.nodup_append]
        refine ⟨h, by simp, ?_⟩
        intro a ha b hb
        simp only [List.mem_singleton] at hb
        subst hb
        intro hab; subst hab
        simp at hc'; exact hc' ha

theorem findTranslations_cols_nodup (tbl : Aliases) (hs : List (List Str)) : (findTranslations tbl hs).cols.Nodup := by
  unfold findTranslations
  have : ∀ (hs : List (List Str)) (t : Tr), t.cols.Nodup →
      (hs.foldl (fun t h => trHead tbl t (trStrip h)) t).cols.Nodup := by
    intro hs
    induction hs with
    | nil => intro t h; exact h
    | cons hd tl ih => intro t h; exact ih _ (trHead_cols_nodup tbl t _ h)
  exact this hs {} (by simp)

/-- a family of (language, columns) entries with distinct languages and duplicate-free columns yields distinct triples -/
theorem nodup_missing_flatMap (sheet : String) (cols : Str → List Str) : ∀ (ls : List Str), ls.Nodup →
    (∀ l, (cols l).Nodup) → (ls.flatMap fun l => (cols l).map fun c => W.missingTr sheet.toList l c).Nodup := by
  intro ls hls hc
  unfold List.Nodup
  rw [List.pairwise_flatMap]
  constructor
  · intro l _
    exact List.Pairwise.map _ (fun a b hab h => hab (by injection h)) (hc l)
  · exact List.Pairwise.imp (fun {a b} hab x hx y hy => by
      simp only [List.mem_map] at hx hy
      obtain ⟨c1, _, rfl⟩ := hx
      obtain ⟨c2, _, rfl⟩ := hy
      intro h; injection h with _ h2 _; exact hab h2) hls

theorem nodup_missingDue (sheet : String) (ps : List (Str × Str)) : (missingDue sheet ps).Nodup := by
  unfold missingDue
  exact nodup_missing_flatMap sheet (fun l => (dedup (ps.map (·.1))).filter fun c => trMissing ps l c) _
    (nodup_dedup _) (fun l => List.Nodup.sublist List.filter_sublist (nodup_dedup _))

theorem missingToW_filterMap (sheet : String) (g : Str × List Str → Option (Str × List Str))
    (F : Str × List Str → List Str)
    (hg : ∀ e, (F e = [] ∧ g e = none) ∨ g e = some (e.1, F e)) : ∀ (seen : List (Str × List Str)),
    missingToW sheet (seen.filterMap g) =
      seen.flatMap fun e => (F e).map fun c => W.missingTr sheet.toList e.1 c
  | [] => rfl
  | e :: rest => by
    have ih := missingToW_filterMap sheet g F hg rest
    unfold missingToW at ih ⊢
    rcases hg e with ⟨h1, h2⟩ | h2
    · rw [List.filterMap_cons, h2, List.flatMap_cons, h1, ih]; rfl
    · rw [List.filterMap_cons, h2, List.flatMap_cons, List.flatMap_cons, ih]

theorem nodup_missingToW (sheet : String) (t : Tr) (hk : (t.seen.map (·.1)).Nodup) (hc : t.cols.Nodup) :
    (missingToW sheet (findMissing t)).Nodup := by
  unfold findMissing
  split
  · simp [missingToW]
  · rw [missingToW_filterMap sheet _ (fun e => t.cols.filter (fun c => !e.2.contains c))
      (by
        intro e
        cases h : t.cols.filter (fun c => !e.2.contains c) with
        | nil => left; exact ⟨rfl, by simp only [h]⟩
        | cons a m => right; simp only [h])]
    unfold List.Nodup
    rw [List.pairwise_flatMap]
    constructor
    · intro e _
      exact List.Pairwise.map _ (fun a b hab h => hab (by injection h))
        (List.Nodup.sublist List.filter_sublist hc)
    · have hk' : t.seen.Pairwise (fun a b => a.1 ≠ b.1) := by
        unfold List.Nodup at hk; rwa [List.pairwise_map] at hk
      exact List.Pairwise.imp (fun {a b} hab x hx y hy => by
        simp only [List.mem_map] at hx hy
        obtain ⟨c1, _, rfl⟩ := hx
        obtain ⟨c2, _, rfl⟩ := hy
        intro h; injection h with _ h2 _; exact hab h2) hk'


end Multiset

end Pyxv.Warn
