import Pyxv.Model.RefsSites
import Pyxv.Proofs.C03Flags
/-!
# C03: the call sites of `insert_xpaths`, pinned to the source

`Pyxv.Gen.insertXpathsSites` / `varReplSites` / `insertOutputValuesSites` are regenerated from the Python AST of the
package on every run.  The facts below are `decide` facts about them: a call site that is added, removed, moved to
another function, or passes another context / `use_current` / `reference_parent` breaks one of them, so the flags the
check hands to the model (`cellFlags`, through the driver op `refs.cellflags`) cannot silently drift from the code.
The last two theorems compose `cellFlags` with the for-all-inputs theorems of `C03Flags` / `C03`.
-/
namespace Pyxv.Refs
open Pyxv

/-- every call site of `insert_xpaths` in the package, without the name of the text argument -/
theorem insert_xpaths_sites_pinned :
    Pyxv.Gen.insertXpathsSites.map siteKey =
      [("entities/entity_declaration.py", "EntityDeclaration._get_id_bind_node", "self", "False", "False"),
       ("entities/entity_declaration.py", "EntityDeclaration._get_bind_node", "self", "False", "False"),
       ("question.py", "Question.xml_instance", "self", "False", "False"),
       ("question.py", "Question.nest_set_nodes", "survey", "False", "False"),
       ("question.py", "Question.nest_set_nodes", "target if target is not None else self", "False", "False"),
       ("question.py", "Question._build_xml", "self", "False", "False"),
       ("question.py", "InputQuestion.build_xml", "self", "True", "False"),
       ("question.py", "MultipleChoiceQuestion.build_xml", "self", "True", "is_previous_question"),
       ("question.py", "MultipleChoiceQuestion.build_xml", "self", "False", "True"),
       ("question.py", "MultipleChoiceQuestion.build_xml", "self", "False", "False"),
       ("section.py", "Section.xml_instance", "self", "False", "False"),
       ("section.py", "RepeatingSection.xml_control", "self", "False", "False"),
       ("section.py", "GroupedSection.xml_control", "self", "False", "False"),
       ("survey.py", "Survey.xml", "self", "False", "False"),
       ("survey_element.py", "SurveyElement.get_setvalue_node_for_dynamic_default", "self", "False", "False"),
       ("survey_element.py", "SurveyElement.xml_bindings", "self", "False", "False")] := by decide +kernel

/-- is the cell kind tied: it has a call site, each of its call sites is in the regenerated table and passes what
`cellFlags` says -/
def cellTied (cell : String) : Bool :=
  !(cellSites cell).isEmpty &&
  (cellSites cell).all fun k => (Pyxv.Gen.insertXpathsSites.map siteKey).contains k && siteAgrees k (cellFlags cell)

/-- every cell kind that reaches `insert_xpaths` goes through call sites of the current source that pass the context
and the flags the model uses for it -/
theorem cell_flags_tied : ∀ cell ∈ siteCells, cellTied cell = true := by decide +kernel

/-- every call site of the current source is the site of a cell kind of the check or one of the listed outside ones -/
theorem sites_accounted :
    ∀ k ∈ Pyxv.Gen.insertXpathsSites.map siteKey, (siteCells.any fun c => (cellSites c).contains k) || outsideSites.contains k := by
  decide +kernel

/-- `use_current` is passed as `True` by the choice-filter sites and by no other; `reference_parent` is something else
than `False` only at the select's choice filter (the variable `is_previous_question`) and at the select-from-repeat
itemset -/
theorem use_current_only_choice_filter :
    ∀ k ∈ Pyxv.Gen.insertXpathsSites.map siteKey,
      (k.2.2.2.1 = "True" ↔ k ∈ cellSites "choice_filter") ∧
      (k.2.2.2.1 = "True" ∨ k.2.2.2.1 = "False") ∧
      (k.2.2.2.2 = "False" ∨ k = ("question.py", "MultipleChoiceQuestion.build_xml", "self", "True", "is_previous_question") ∨
                              k = ("question.py", "MultipleChoiceQuestion.build_xml", "self", "False", "True")) := by
  rw [insert_xpaths_sites_pinned]
  decide +kernel

/-- the defaults of the signature the table was bound with: a call that leaves a flag out passes `False`
(visible in the table as "False" at sites that pass two arguments), and the inner closure of `insert_xpaths` hands
its own parameters on unchanged; the label side (`replace_with_output`, `_var_repl_output_function`) passes the
context and leaves both flags at their defaults -/
theorem var_repl_sites_pinned :
    Pyxv.Gen.varReplSites =
      [("parsing/instance_expression.py", "replace_with_output", ["m", "context", "False", "False"]),
       ("survey.py", "Survey.insert_xpaths._var_repl_function", ["matchobj", "context", "use_current", "reference_parent"]),
       ("survey.py", "Survey._var_repl_output_function", ["matchobj", "context", "False", "False"])] := by decide +kernel

/-- the contexts of the label-type cells: the element itself for label and hint, the translation's recorded
`output_context` for itext, the choice for an inline choice label, none for the context-free fallback -/
theorem insert_output_values_sites_pinned :
    Pyxv.Gen.insertOutputValuesSites.map (fun s => (s.1, s.2.1, s.2.2.getD 1 "?")) =
      [("question.py", "MultipleChoiceQuestion.build_xml", "option"),
       ("survey.py", "Survey.itext", "media_value['output_context']"),
       ("survey.py", "Survey.itext", "None"),
       ("survey_element.py", "SurveyElement.xml_label", "self"),
       ("survey_element.py", "SurveyElement.xml_hint", "self")] := by decide +kernel

/-- the label-type cells use the flags of the label side -/
theorem text_cells_flags : ∀ cell ∈ textCells, cellFlags cell = ⟨.owner, false, false⟩ := by decide

/-! ### the for-all-inputs theorems, per cell kind -/

/-- For every cell kind resolved from its own element (all but `trigger`), every well-formed tree, referrer and
uniquely named target whose innermost repeat encloses the referrer, and every occurrence outside `indexed-repeat(`:
the replacement computed with the flags of that cell kind is relative, and anchored with `current()` exactly when the
cell is a choice filter or the occurrence sits in an instance predicate. -/
theorem cell_relative_when_enclosed (cell : String) (hcell : cell ≠ "trigger")
    (tree : El) (hwf : tree.WF) (hroot : tree.kind ≠ .rep)
    (c t : Chain) (hc : c ∈ tree.chains []) (name : Str)
    (hlook : (tree.chains []).filter (named name) = [t])
    (r : Nat) (hrt : r < t.length) (hrc : r < c.length)
    (hrep : Chain.isRep (t.take r) = true)
    (hinner : ∀ j, r < j → j < t.length → Chain.isRep (t.take j) = false)
    (henc : c.take r = t.take r)
    (whole atStart rest : Str) (hir : isInfix indexedTag whole = false) :
    ∃ k d, replAt (tree.chains []) (match (cellFlags cell).ctx with | .owner => some c | .survey => none)
        (cellFlags cell).useCurrent (cellFlags cell).referenceParent whole atStart rest false name =
      some (.ok (decide (cell = "choice_filter") ||
                 inPredicateAt whole (whole.length - atStart.length) (whole.length - rest.length)) (.rel k d)) := by
  have hctx : (cellFlags cell).ctx = .owner := by
    by_cases h1 : cell = "choice_filter" <;> simp [cellFlags, h1, hcell]
  have huc : (cellFlags cell).useCurrent = decide (cell = "choice_filter") := by
    by_cases h1 : cell = "choice_filter" <;> simp [cellFlags, h1, hcell]
  rw [hctx, huc]
  exact relative_when_enclosed_text tree hwf hroot c t hc name hlook r hrt hrc hrep hinner henc _ _ whole atStart rest hir

/-- The target of a trigger is resolved from the survey: whatever the tree, if the model answers at all the answer
is the absolute path of the unique element of that name, never anchored ("trigger targets are absolute by design"). -/
theorem trigger_ref_absolute (els : List Chain) (owner : Chain) (name : Str) (fl : Flags) (hls : fl.lastSaved = false)
    (cur : Bool) (e : Emitted)
    (h : refFor els (match (cellFlags "trigger").ctx with | .owner => some owner | .survey => none) name fl = .ok cur e) :
    ∃ t, els.filter (named name) = [t] ∧ cur = false ∧ e = .abs t.path := by
  have hctx : (cellFlags "trigger").ctx = .survey := by decide
  rw [hctx] at h
  obtain ⟨t, h1, h2, h3⟩ := ref_no_context_absolute els name fl cur e h
  exact ⟨t, h1, h2, by simpa [hls] using h3⟩

/-! ### non-vacuity -/

example : cellTied "choice_filter" = true ∧ cellTied "trigger" = true ∧ cellTied "label" = false := by decide +kernel
-- a site that passed `use_current=True` for a bind would not agree
example : siteAgrees ("survey_element.py", "SurveyElement.xml_bindings", "self", "True", "False") (cellFlags "relevant") = false := by
  decide
example : siteAgrees ("question.py", "MultipleChoiceQuestion.build_xml", "self", "False", "is_previous_question")
    (cellFlags "choice_filter") = false := by decide
example : siteKey ("a.py", "C.f", ["text", "self", "True", "False"]) = ("a.py", "C.f", "self", "True", "False") := by decide
example : (cellFlags "choice_filter").useCurrent = true ∧ (cellFlags "seed").useCurrent = false := by decide
set_option maxRecDepth 8000 in
example : insertXpathsCell exEls exC "choice_filter" "name = ${t}".toList = some "name =  current()/../../../abcde_r2/t ".toList ∧
    insertXpathsCell exEls exC "relevant" "${t} = 1".toList = some " ../../../abcde_r2/t  = 1".toList ∧
    insertXpathsCell exEls exC "trigger" "${t}".toList = some " /data/R/abcde_r2/t ".toList := by decide

end Pyxv.Refs
