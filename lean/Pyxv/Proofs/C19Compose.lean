import Pyxv.Proofs.C19
import Pyxv.Proofs.C03
import Pyxv.Proofs.C05
import Pyxv.Model.EntitiesRefs
/-!
# C19 composed with its neighbours: C03 (reference substitution) and C05 (bind elements)
-/
set_option linter.unusedSimpArgs false
namespace Pyxv.C19
open Pyxv Pyxv.Entities Pyxv.Refs

/-! ## C03: the `sub` of the entity declaration -/

theorem entityChain_path (root : Str) : (entityChain root).path = [root, metaName, entityName] := rfl

/-- no repeat encloses the declaration: `is_parent_a_repeat(/root/meta/entity)` is `False` as soon as neither
    the survey root nor the generated `meta` group is a repeat -/
theorem entity_no_repeat_parent (reps : List Str) (root : Str) (hg : GoodNames [root, metaName, entityName])
    (h1 : pathStr [root] ∉ reps) (h2 : pathStr [root, metaName] ∉ reps) :
    isParentARepeat reps (entityChain root).xpath = none := by
  have hs := isParentARepeat_spec reps [root, metaName, entityName] hg
  unfold Chain.xpath
  rw [entityChain_path]
  cases hres : isParentARepeat reps (pathStr [root, metaName, entityName]) with
  | none => rfl
  | some x =>
    rw [hres] at hs
    obtain ⟨i, h0, hl, hx, hin, _⟩ := hs
    simp only [List.length_cons, List.length_nil] at hl
    have : i = 1 ∨ i = 2 := by omega
    rcases this with rfl | rfl
    · exact absurd (hx ▸ hin) h1
    · exact absurd (hx ▸ hin) h2

theorem relativePath_entity (reps : List Str) (root : Str) (t : Chain) (name : Str) (rp : Bool)
    (hg : GoodNames [root, metaName, entityName])
    (h1 : pathStr [root] ∉ reps) (h2 : pathStr [root, metaName] ∉ reps) :
    relativePath reps (entityChain root) t name rp = none := by
  have hn := entity_no_repeat_parent reps root hg h1 h2
  unfold relativePath
  simp only [shareSameRepeatParent, hn]
  split
  · split
    · split <;> first | rfl | (split <;> rfl)
    · rfl
  · rfl

/-- **entity_ref_absolute.**  For the entity declaration as context element, `_var_repl_function` behaves as
    without any context: whatever the flags (`indexed-repeat(` argument position, secondary-instance predicate,
    `use_current`, `reference_parent`), the result is the one C03 proves absolute. -/
theorem entity_ref_absolute (els : List Chain) (root name : Str) (fl : Flags)
    (hg : GoodNames [root, metaName, entityName])
    (h1 : pathStr [root] ∉ repeatXpaths els) (h2 : pathStr [root, metaName] ∉ repeatXpaths els) :
    refFor els (some (entityChain root)) name fl = refFor els none name fl := by
  unfold refFor
  cases lookup name (setupXpathDict els) with
  | none => rfl
  | some o =>
    cases o with
    | none => rfl
    | some t =>
      simp only [relativePath_entity _ root t name _ hg h1 h2]
      split <;> rfl

theorem text_abs (p : List Str) : (Out.ok false (.abs p)).text = some (' ' :: ([] ++ pathStr p ++ [' '])) := rfl

theorem text_ls (p : List Str) :
    (Out.ok false (.lastSaved p)).text =
      some (' ' :: ([] ++ ("instance('__last-saved')".toList ++ pathStr p) ++ [' '])) := rfl

/-- **entity_ref_text.**  The text that replaces `${name}` (or `${last-saved#name}`) in an entity expression:
    the absolute xpath of *the* element called `name`, blank-padded (inside `instance('__last-saved')` for a
    last-saved reference); a name carried by no or by several elements has no replacement (PyXFormError). -/
theorem entity_ref_text (els : List Chain) (root name : Str) (ls : Bool)
    (hg : GoodNames [root, metaName, entityName])
    (h1 : pathStr [root] ∉ repeatXpaths els) (h2 : pathStr [root, metaName] ∉ repeatXpaths els) :
    (refFor els (some (entityChain root)) name { lastSaved := ls }).text =
      match els.filter (named name) with
      | [t] => some (' ' :: (if ls then "instance('__last-saved')".toList else []) ++ pathStr t.path ++ [' '])
      | _ => none := by
  rw [entity_ref_absolute els root name _ hg h1 h2]
  have hu := unknown_or_ambiguous_rejected els none name { lastSaved := ls }
  match hm : els.filter (named name) with
  | [] => rw [hu.1 (by rw [hm]; rfl)]; rfl
  | _ :: _ :: _ => rw [hu.2 (by rw [hm]; simp)]; rfl
  | [t] =>
    have h1' : (List.filter (named name) els).length = 1 := by rw [hm]; rfl
    obtain ⟨cur, e, he⟩ := (ok_iff_unique els none name { lastSaved := ls }).2 h1'
    obtain ⟨t', ht', hc, hee⟩ := ref_no_context_absolute els name _ cur e he
    have htt : t' = t := by
      rw [hm] at ht'
      injection ht' with h _
      exact h.symm
    subst htt
    rw [he, hc, hee]
    cases ls
    · have e1 : (if ({ lastSaved := false } : Flags).lastSaved = true then Emitted.lastSaved t'.path else Emitted.abs t'.path)
          = Emitted.abs t'.path := rfl
      rw [e1, text_abs]
      simp only [Bool.false_eq_true, if_false, List.cons_append, List.nil_append]
    · have e1 : (if ({ lastSaved := true } : Flags).lastSaved = true then Emitted.lastSaved t'.path else Emitted.abs t'.path)
          = Emitted.lastSaved t'.path := rfl
      rw [e1, text_ls]
      simp only [if_true, List.cons_append, List.nil_append, List.append_assoc]

theorem takeToBrace_name : ∀ (name rest : Str), (∀ c ∈ name, c ≠ '}' ∧ c ≠ '\n') →
    Chan.takeToBrace (name ++ '}' :: rest) = some (name, rest)
  | [], rest, _ => by simp [Chan.takeToBrace]
  | c :: name, rest, h => by
    have hc := h c (by simp)
    have ih := takeToBrace_name name rest (fun d hd => h d (by simp [hd]))
    simp only [List.cons_append]
    unfold Chan.takeToBrace
    split
    · rename_i heq; cases heq
    · rename_i heq; injection heq with h1 _; exact absurd h1 hc.1
    · rename_i heq; injection heq with h1 _; exact absurd h1 hc.2
    · rename_i c' r' _ _ heq
      injection heq with h1 h2
      subst h1; subst h2
      rw [ih]

/-- **entity_sub_single.**  With the model's own substitution (C03 ∘ the regex): an entity cell that is the
    single reference `${name}` becomes the blank-padded absolute xpath of the one element called `name` — for
    every form tree (repeats included: the target may sit inside any number of repeats). -/
theorem entity_sub_single (els : List Chain) (root name : Str) (t : Chain)
    (hg : GoodNames [root, metaName, entityName])
    (h1 : pathStr [root] ∉ repeatXpaths els) (h2 : pathStr [root, metaName] ∉ repeatXpaths els)
    (hn : ∀ c ∈ name, c ≠ '}' ∧ c ≠ '\n')
    (hls : startsWith (name ++ ['}']) Chan.lastSavedTag = false)
    (hu : els.filter (named name) = [t]) :
    entitySub els root ('$' :: '{' :: (name ++ ['}'])) = ' ' :: pathStr t.path ++ [' '] := by
  have hm : Chan.matchRef (name ++ ['}']) = some (false, name, []) := by
    unfold Chan.matchRef
    rw [if_neg (by rw [hls]; simp), takeToBrace_name name [] hn]
  have ht := entity_ref_text els root name false hg h1 h2
  rw [hu] at ht
  simp only [Bool.false_eq_true, if_false, List.nil_append] at ht
  unfold entitySub
  simp only [List.length_cons, insertXpaths, hm, ht, List.append_nil, Option.getD_some, List.cons_append, List.nil_append]

theorem insertXpaths_verbatim (els : List Chain) (ctx : Chain) : ∀ (s : Str) (f : Nat), '$' ∉ s → s.length < f →
    insertXpaths els ctx f s = some s
  | [], f, _, hf => by
    cases f with
    | zero => cases hf
    | succ f => rfl
  | c :: r, f, h, hf => by
    cases f with
    | zero => cases hf
    | succ f =>
      have hc : c ≠ '$' := fun e => h (by simp [e])
      have ih := insertXpaths_verbatim els ctx r f (fun hm => h (by simp [hm])) (by simpa using hf)
      unfold insertXpaths
      split
      · rename_i heq; cases heq
      · rename_i heq; cases heq
      · rename_i heq; injection heq with h1 _; exact absurd h1 hc
      · rename_i f' c' r' _ hfe heq
        injection heq with h1 h2
        injection hfe with hfe
        subst h1; subst h2; subst hfe
        rw [ih]; rfl

/-- **entity_sub_verbatim.**  An entity cell without `$` — whatever else it contains: `%`, `%s`, `{0}`, braces,
    backslashes, quotes, markup characters — is emitted unchanged by the declaration's substitution, for every
    form.  (With `entity_table_refs`: the version binds then hold literally
    `instance('<dataset>')/root/item[name=<cell>]/__version` etc.: no formatting is applied to the cell.) -/
theorem entity_sub_verbatim (els : List Chain) (root : Str) (s : Str) (h : '$' ∉ s) : entitySub els root s = s := by
  unfold entitySub
  rw [insertXpaths_verbatim els _ s _ h (by omega)]
  rfl

example : entitySub [] "data".toList "translate(x, '%20', '{0}\\')".toList = "translate(x, '%20', '{0}\\')".toList :=
  entity_sub_verbatim _ _ _ (by decide)

/-- `entity_table` with the substitution instantiated: the calculate expressions of the declaration's binds
    are the cells with every reference replaced per C03's model (`entitySub` = regex ∘ `Refs.refFor` with the
    declaration as context element, proved context-free by `entity_ref_absolute`) -/
theorem entity_table_refs (els : List Chain) (root : Str) (row : Cells) (ds : Str)
    (hcols : extraColumns row = []) (hds : lookup "dataset".toList row = some ds)
    (hname : Spec.validDatasetName ds = true) :
    let idE := lookup "entity_id".toList row
    let cE := lookup "create_if".toList row
    let uE := lookup "update_if".toList row
    let lE := lookup "label".toList row
    match Spec.decision (truthy idE) (truthy cE) (truthy uE) (truthy lE) with
    | .error _ => ∃ m, getEntityDeclaration row [] = .error (.msg m)
    | .ok a =>
      ∃ ps, getEntityDeclaration row [] = .ok ps ∧
        instanceNode ps = Spec.entityNode ds (truthy lE) a ∧
        bindings (entityPath root) (entitySub els root) ps =
          .ok (Spec.entityNodes (entityPath root) (entitySub els root) ds (idE.getD []) (cE.getD []) (uE.getD [])
                (lE.getD []) (truthy lE) a) :=
  entity_table root (entitySub els root) row ds hcols hds hname

/-- non-vacuity, end to end: `entity_id = ${b}` with `b` inside a repeat inside a group → always-update
    declaration whose `@id` bind calculates the absolute path ` /data/g/r/b ` -/
example :
    let survey : List Cells :=
      [[("type".toList, "begin group".toList), ("name".toList, "g".toList)],
       [("type".toList, "begin repeat".toList), ("name".toList, "r".toList)],
       [("type".toList, "integer".toList), ("name".toList, "b".toList)],
       [("type".toList, "end repeat".toList)], [("type".toList, "end group".toList)]]
    let els := chainsOfRows "data".toList true survey
    (okVal (convert "data".toList (entitySub els "data".toList) []
        [[("dataset".toList, "trees".toList), ("entity_id".toList, "${b}".toList)]] survey)).map
      (fun o => o.nodes.filterMap fun n => n.attrs.lookup "calculate") =
    some [" /data/g/r/b ".toList,
          "instance('trees')/root/item[name= /data/g/r/b ]/__version".toList,
          "instance('trees')/root/item[name= /data/g/r/b ]/__trunkVersion".toList,
          "instance('trees')/root/item[name= /data/g/r/b ]/__branchId".toList] := by decide

/-! ## C05: the bind that carries `entities:saveto` -/

/-- the nodeset of a saveto pair is the path of the element C05's model builds for that row: `Entities.pathOf`
    and `Binds.mkElem` are the same function of (root, stack of open sections, name) -/
theorem saveto_path_is_elem_path (root : Str) (st : List Frame) (q : Binds.Q) :
    pathOf root st q.name =
      Form.xpathStr (Binds.mkElem root (st.map fun f => (f.name, decide (f.ct = "repeat".toList))) q).path := by
  simp [pathOf, Binds.mkElem, List.map_reverse, Function.comp_def]

theorem nodup_map_inj {α β} (f : α → β) : ∀ (l : List α), (l.map f).Nodup → ∀ a ∈ l, ∀ b ∈ l, f a = f b → a = b
  | [], _, a, ha, _, _, _ => by cases ha
  | x :: l, h, a, ha, b, hb, e => by
    simp only [List.map_cons, List.nodup_cons, List.mem_map, not_exists, not_and] at h
    simp only [List.mem_cons] at ha hb
    rcases ha with rfl | ha <;> rcases hb with rfl | hb
    · rfl
    · exact absurd e.symm (h.1 b hb)
    · exact absurd e (h.1 a ha)
    · exact nodup_map_inj f l h.2 a ha b hb e

/-- **saveto_on_single_bind.**  In every XForm C05's model produces, the bind whose nodeset is the node of a
    question is unique (`Pyxv.C05.one_bind_per_node`): the `entities:saveto` attribute of a saveto pair
    `(pathOf root st name, v)` therefore sits on *the* bind of that node — two binds addressing the element
    `mkElem root st q` are the same bind. -/
theorem saveto_on_single_bind (root : Str) (ks : List Binds.RK) (bs : List Binds.Bind) {extra : List Str}
    {metas : List Binds.Q} (h : Binds.bindsOfRows root ks metas extra = .ok bs) (e : Binds.Elem) (b b' : Binds.Bind)
    (hb : b ∈ bs) (hb' : b' ∈ bs) (hp : b.path = e.path) (hp' : b'.path = e.path) : b = b' := by
  have hn := Pyxv.C05.one_bind_per_node root ks metas bs h
  exact nodup_map_inj (·.path) bs hn b hb b' hb' (hp.trans hp'.symm)

/-! ### carrying the attribute through C05's model -/

section Carry
open Pyxv.Binds

theorem subst_no_dollar (root : Str) (tops : List Str) : ∀ (v : Str), '$' ∉ v → Binds.subst root tops none v = some v
  | [], _ => rfl
  | [c], _ => rfl
  | c1 :: c2 :: cs, h => by
    have h1 : c1 ≠ '$' := fun e => h (by simp [e])
    have ih := subst_no_dollar root tops (c2 :: cs) (fun hm => h (by simp [List.mem_cons] at hm ⊢; right; exact hm))
    unfold Binds.subst
    rw [if_neg (fun hc => h1 hc.1), ih]
    rfl

/-- the element of a walked list that has a bind dict gets a bind with the attributes `attrsOf` computes -/
theorem renderAll_mem (root : Str) (tops : List Str) : ∀ (es : List Elem) (bs : List Bind),
    renderAll root tops es = some bs → ∀ e ∈ es, ∀ bd, elemBind e.q = some bd →
      ∃ attrs, attrsOf root tops (Form.xpathStr e.path) e.q.trigger bd = some attrs ∧
        ({ path := e.path, attrs := attrs } : Bind) ∈ bs := by
  intro es
  induction es with
  | nil => intro bs _ e he; cases he
  | cons x rest ih =>
    intro bs h e he bd hbd
    unfold renderAll at h
    split at h
    · cases h
    · next ob hx =>
      split at h
      · cases h
      · next bs' hr =>
        simp only [Option.some.injEq] at h
        subst h
        simp only [List.mem_cons] at he
        rcases he with rfl | he
        · unfold xmlBind at hx
          rw [hbd] at hx
          simp only at hx
          split at hx
          · cases hx
          · cases ha : attrsOf root tops (Form.xpathStr e.path) e.q.trigger bd with
            | none => simp [ha] at hx
            | some a =>
              simp only [ha, Option.map_some, Option.some.injEq] at hx
              subst hx
              exact ⟨a, rfl, by simp⟩
        · obtain ⟨a, ha, hm⟩ := ih bs' hr e he bd hbd
          refine ⟨a, ha, ?_⟩
          cases ob <;> simp [hm]

/-- table facts: `entities:saveto` is neither the `calculate` key nor convertible nor a message key -/
theorem saveto_attr_plain :
    ("entities:saveto".toList = calcKey) = False ∧ convertible "entities:saveto".toList = false ∧
    msgKeys.contains "entities:saveto".toList = false := by decide

/-- **saveto_carried.**  The attribute travels through C05's model: if the rows (with `entities` declared as an
    extra prefix, as it is when an entity is declared) yield binds, then for every walked element whose bind
    dict holds `entities:saveto = v` (a property name: no `$`), there is exactly one bind addressing that
    element's node, and it carries `entities:saveto="v"`. -/
theorem saveto_carried (root : Str) (ks : List RK) (bs : List Bind) (extra : List Str) (metas : List Q)
    (h : bindsOfRows root ks metas extra = .ok bs) (es : List Elem) (hw : Binds.walk root [] ks = some es)
    (e : Elem) (he : e ∈ es) (v : Str) (hv : '$' ∉ v)
    (hb : lookup "entities:saveto".toList (rawBind e.q) = some (.s v)) :
    ∃ b ∈ bs, b.path = e.path ∧ lookup "entities:saveto".toList b.attrs = some v ∧
      ∀ b' ∈ bs, b'.path = e.path → b' = b := by
  obtain ⟨es', hw', hr⟩ := Pyxv.C05.bindsOfRows_ok root ks metas bs h
  rw [hw] at hw'
  cases hw'
  have hne : elemBind e.q = some (rawBind e.q) := by
    unfold elemBind
    cases hraw : rawBind e.q with
    | nil => rw [hraw] at hb; simp [lookup] at hb
    | cons p r => simp
  obtain ⟨attrs, ha, hm⟩ := renderAll_mem root _ _ bs hr e (by simp [he]) _ hne
  obtain ⟨p1, p2, p3⟩ := saveto_attr_plain
  have hl := Pyxv.C05.lookup_attrsOf root _ _ e.q.trigger _ attrs ha "entities:saveto".toList
  have hd : Pyxv.C05.dropped e.q.trigger "entities:saveto".toList = false := by
    unfold Pyxv.C05.dropped
    simp only [p1, decide_false, Bool.and_false]
  rw [hd, hb] at hl
  simp only [Bool.false_eq_true, if_false, Option.bind_some, Binds.Spec.value, convVal, p2, p3, Bool.false_and,
    if_false, Option.bind_some, subst_no_dollar root _ v hv] at hl
  refine ⟨_, hm, rfl, hl, ?_⟩
  intro b' hb' hp'
  exact saveto_on_single_bind root ks bs h e b' _ hb' hm hp' rfl

/-- non-vacuity of `saveto_carried`: with `entities` declared the rows convert and the bind of `/data/a` carries
    the attribute; without the declaration C05's model refuses the attribute name (as `utils._validate_xml_name` does) -/
example :
    (match bindsOfRows "data".toList
        [.qs [{ name := "a".toList, tt := typeBind "text".toList,
                bind := some [("entities:saveto".toList, .s "p".toList)], visible := true }]] []
        ["entities".toList] with
     | .ok bs => bs.map fun b => (Form.xpathStr b.path, lookup "entities:saveto".toList b.attrs)
     | _ => []) =
    [("/data/a".toList, some "p".toList), ("/data/meta/instanceID".toList, none)] := by decide +kernel
example :
    (match bindsOfRows "data".toList
        [.qs [{ name := "a".toList, tt := typeBind "text".toList,
                bind := some [("entities:saveto".toList, .s "p".toList)], visible := true }]] [] with
     | .ok _ => true
     | _ => false) = false := by decide +kernel

end Carry

/-- non-vacuity of `saveto_on_single_bind`: a form C05's model converts, with the bind of `/data/g/n` -/
example : ∃ bs, Binds.bindsOfRows "data".toList
    [ .qs [{ name := "a".toList, tt := Binds.typeBind "integer".toList, bind := none, visible := true }],
      .begin_ false [] { name := "g".toList, tt := none, bind := some [("relevant".toList, .s "1 = 1".toList)] },
      .qs [{ name := "n".toList, tt := Binds.typeBind "note".toList, bind := none }],
      .end_ false ] [] = .ok bs ∧
    ∃ b ∈ bs, b.path = (Binds.mkElem "data".toList [("g".toList, false)]
        { name := "n".toList, tt := Binds.typeBind "note".toList, bind := none }).path := by
  refine ⟨_, rfl, ?_⟩
  decide +kernel

/-- non-vacuity of the hypotheses of `entity_ref_absolute` / `entity_ref_text` / `entity_sub_single`: the element
    list of a form with a repeat inside a group -/
example :
    let els := chainsOfRows "data".toList true
      [[("type".toList, "begin group".toList), ("name".toList, "g".toList)],
       [("type".toList, "begin repeat".toList), ("name".toList, "r".toList)],
       [("type".toList, "integer".toList), ("name".toList, "b".toList)],
       [("type".toList, "end repeat".toList)], [("type".toList, "end group".toList)]]
    GoodNames ["data".toList, metaName, entityName] ∧
    pathStr ["data".toList] ∉ repeatXpaths els ∧ pathStr ["data".toList, metaName] ∉ repeatXpaths els ∧
    els.filter (named "b".toList) = [[("data".toList, .group), ("g".toList, .group), ("r".toList, .rep), ("b".toList, .q)]] ∧
    (∀ c ∈ "b".toList, c ≠ '}' ∧ c ≠ '\n') ∧ startsWith ("b".toList ++ ['}']) Chan.lastSavedTag = false := by
  decide

/-! ## the hypotheses of the C03 composition, derived from the rows -/

def GoodName (n : Str) : Prop := '/' ∉ n ∧ n ≠ []

instance (n : Str) : Decidable (GoodName n) := by unfold GoodName; exact inferInstance

/-- every named row has an XML-ish name (no `/`, non-empty): what the row loop's `is_xml_tag` check enforces -/
def GoodRows (rows : List Cells) : Prop := ∀ r ∈ rows, ∀ n, Rows.get r "name" = some n → GoodName n

/-- no group / repeat row is called `meta` (such a form is rejected: it would clash with the generated meta group) -/
def NoMetaSection (rows : List Cells) : Prop :=
  ∀ r ∈ rows, ∀ t n, Rows.get r "type" = some t → Rows.get r "name" = some n →
    (Rows.matchControl "begin" true t).isSome = true → n ≠ metaName

def frameKind (f : Frame) : Kind := if f.ct = "repeat".toList then Kind.rep else Kind.group

/-- what `rowChains` guarantees about each chain it emits -/
def RowChainOK (root : Str) (c : Chain) : Prop :=
  (∃ ns last, c.path = root :: ns ++ [last] ∧ (∀ s ∈ ns ++ [last], GoodName s)) ∧
  (c.isRep = true → c.path.getLast? ≠ some metaName)

theorem isRep_snoc (pre : Chain) (n : Str) (k : Kind) : Chain.isRep (pre ++ [(n, k)]) = decide (k = Kind.rep) := by
  unfold Chain.isRep
  simp only [List.getLast?_append, List.getLast?_singleton, Option.or_some, Option.some_or]
  cases k <;> rfl

theorem rowChains_inv (root : Str) : ∀ (rows : List Cells) (st : List Frame), GoodRows rows → NoMetaSection rows →
    (∀ f ∈ st, GoodName f.name) → ∀ c ∈ rowChains root st rows, RowChainOK root c := by
  intro rows
  induction rows with
  | nil => intro st _ _ _ c hc; simp [rowChains] at hc
  | cons r rs ih =>
    intro st hg hm hst c hc
    have hg' : GoodRows rs := fun r' h' => hg r' (by simp [h'])
    have hm' : NoMetaSection rs := fun r' h' => hm r' (by simp [h'])
    have hdrop : ∀ f ∈ st.drop 1, GoodName f.name := fun f hf => hst f (List.mem_of_mem_drop hf)
    have mk : ∀ (name : Str) (k : Kind), GoodName name → (k = Kind.rep → name ≠ metaName) →
        RowChainOK root (((root, Kind.group) :: st.reverse.map fun f => (f.name, frameKind f)) ++ [(name, k)]) := by
      intro name k hn hk
      refine ⟨⟨st.reverse.map (·.name), name, by simp [Chain.path, Function.comp_def], ?_⟩, ?_⟩
      · intro s hs
        simp only [List.mem_append, List.mem_map, List.mem_reverse, List.mem_singleton] at hs
        rcases hs with ⟨f, hf, rfl⟩ | rfl
        · exact hst f hf
        · exact hn
      · intro hrep
        rw [isRep_snoc] at hrep
        have := hk (by simpa using hrep)
        simp only [Chain.path, List.map_cons, List.map_append, List.map_nil]
        rw [List.getLast?_append]
        simp [this]
    unfold rowChains at hc
    simp only at hc
    split at hc
    · next t name ht hn =>
      have hname := hg r (by simp) name hn
      split at hc
      · exact ih _ hg' hm' hdrop c hc
      · split at hc
        · exact ih _ hg' hm' hst c hc
        · split at hc
          · next cc hb =>
            simp only [List.mem_cons] at hc
            rcases hc with rfl | hc
            · exact mk name _ hname (fun _ => hm r (by simp) t name ht hn (by simp [hb]))
            · refine ih _ hg' hm' ?_ c hc
              intro f hf
              simp only [List.mem_cons] at hf
              rcases hf with rfl | hf
              · exact hname
              · exact hst f hf
          · split at hc
            · exact ih _ hg' hm' hst c hc
            · simp only [List.mem_cons] at hc
              rcases hc with rfl | hc
              · exact mk name Kind.q hname (fun h => by cases h)
              · exact ih _ hg' hm' hst c hc
    · split at hc
      · exact ih _ hg' hm' hdrop c hc
      · exact ih _ hg' hm' hst c hc
    · exact ih _ hg' hm' hst c hc

theorem meta_names_good : GoodName metaName ∧ GoodName entityName := by decide

theorem goodNames_of (p : List Str) (h : ∀ s ∈ p, GoodName s) : GoodNames p := h

/-- **chains_entity_hyps.**  The hypotheses of `entity_ref_absolute` / `entity_ref_text` / `entity_sub_single`, derived
    from the rows: for the element list the driver builds from a sheet (`chainsOfRows`), neither the survey root nor
    the generated `meta` group is a repeat — provided names are XML-ish (what the row loop checks) and no group or
    repeat row is called `meta` (such a form is rejected: two sections of that name). -/
theorem chains_entity_hyps (root : Str) (hasEntity : Bool) (survey : List Cells) (metaQs : List Str)
    (hroot : GoodName root) (hg : GoodRows survey) (hm : NoMetaSection survey) :
    GoodNames [root, metaName, entityName] ∧
    pathStr [root] ∉ repeatXpaths (chainsOfRows root hasEntity survey metaQs) ∧
    pathStr [root, metaName] ∉ repeatXpaths (chainsOfRows root hasEntity survey metaQs) := by
  obtain ⟨gm, ge⟩ := meta_names_good
  have g3 : GoodNames [root, metaName, entityName] := by
    intro s hs
    simp only [List.mem_cons, List.mem_nil_iff, or_false] at hs
    rcases hs with rfl | rfl | rfl
    · exact hroot
    · exact gm
    · exact ge
  have key : ∀ x ∈ repeatXpaths (chainsOfRows root hasEntity survey metaQs),
      ∃ c ∈ rowChains root [] survey, c.isRep = true ∧ x = pathStr c.path := by
    intro x hx
    unfold repeatXpaths at hx
    obtain ⟨c, hc, rfl⟩ := List.mem_map.mp hx
    obtain ⟨hmem, hrep⟩ := List.mem_filter.mp hc
    unfold chainsOfRows at hmem
    simp only [List.mem_cons, List.mem_append, List.mem_map] at hmem
    rcases hmem with ((rfl | hrow) | hmeta) | ⟨n, _, rfl⟩
    · simp [Chain.isRep] at hrep
    · exact ⟨c, hrow, hrep, rfl⟩
    · split at hmeta
      · cases hmeta
      · simp only [List.mem_singleton] at hmeta
        subst hmeta
        simp [Chain.isRep] at hrep
    · simp [Chain.isRep] at hrep
  refine ⟨g3, ?_, ?_⟩
  · intro hx
    obtain ⟨c, hc, _, he⟩ := key _ hx
    obtain ⟨⟨ns, last, hp, hgood⟩, _⟩ := rowChains_inv root survey [] hg hm (by simp) c hc
    have gc : GoodNames c.path := by
      rw [hp]; intro s hs
      simp only [List.mem_append, List.mem_cons, List.mem_nil_iff, or_false] at hs
      rcases hs with (rfl | hs) | rfl
      · exact hroot
      · exact hgood s (by simp [hs])
      · exact hgood s (by simp)
    have := pathStr_inj [root] c.path (by simp) (by rw [hp]; simp) (by intro s hs; simp at hs; subst hs; exact hroot) gc he
    rw [hp] at this
    simp at this
  · intro hx
    obtain ⟨c, hc, hrep, he⟩ := key _ hx
    obtain ⟨⟨ns, last, hp, hgood⟩, hlast⟩ := rowChains_inv root survey [] hg hm (by simp) c hc
    have gc : GoodNames c.path := by
      rw [hp]; intro s hs
      simp only [List.mem_append, List.mem_cons, List.mem_nil_iff, or_false] at hs
      rcases hs with (rfl | hs) | rfl
      · exact hroot
      · exact hgood s (by simp [hs])
      · exact hgood s (by simp)
    have g2 : GoodNames [root, metaName] := by
      intro s hs
      simp only [List.mem_cons, List.mem_nil_iff, or_false] at hs
      rcases hs with rfl | rfl
      · exact hroot
      · exact gm
    have := pathStr_inj [root, metaName] c.path (by simp) (by rw [hp]; simp) g2 gc he
    exact hlast hrep (by rw [← this]; rfl)

/-- **entity_ref_absolute_rows.**  `entity_ref_absolute` with its hypotheses discharged from the sheet: for the
    element list of any sheet with XML-ish names and no section called `meta`, a reference in an entity cell is
    resolved exactly as without context (absolute path), whatever the flags. -/
theorem entity_ref_absolute_rows (root : Str) (hasEntity : Bool) (survey : List Cells) (metaQs : List Str) (name : Str)
    (fl : Flags) (hroot : GoodName root) (hg : GoodRows survey) (hm : NoMetaSection survey) :
    refFor (chainsOfRows root hasEntity survey metaQs) (some (entityChain root)) name fl =
      refFor (chainsOfRows root hasEntity survey metaQs) none name fl := by
  obtain ⟨g3, h1, h2⟩ := chains_entity_hyps root hasEntity survey metaQs hroot hg hm
  exact entity_ref_absolute _ root name fl g3 h1 h2

/-- decidable forms of the two row-level hypotheses -/
def goodRowsB (rows : List Cells) : Bool :=
  rows.all fun r => match Rows.get r "name" with | some n => decide (GoodName n) | none => true

def noMetaSectionB (rows : List Cells) : Bool :=
  rows.all fun r => match Rows.get r "type", Rows.get r "name" with
    | some t, some n => !(Rows.matchControl "begin" true t).isSome || decide (n ≠ metaName)
    | _, _ => true

theorem goodRows_of (rows : List Cells) (h : goodRowsB rows = true) : GoodRows rows := by
  intro r hr n hn
  have := List.all_eq_true.mp h r hr
  simp only [hn, decide_eq_true_eq] at this
  exact this

theorem noMetaSection_of (rows : List Cells) (h : noMetaSectionB rows = true) : NoMetaSection rows := by
  intro r hr t n ht hn hb
  have := List.all_eq_true.mp h r hr
  simp only [ht, hn, hb, Bool.not_true, Bool.false_or, decide_eq_true_eq] at this
  exact this

example : GoodName "data".toList ∧
    goodRowsB [[("type".toList, "begin repeat".toList), ("name".toList, "r".toList)],
              [("type".toList, "text".toList), ("name".toList, "q".toList)], [("type".toList, "end repeat".toList)]] = true ∧
    noMetaSectionB [[("type".toList, "begin repeat".toList), ("name".toList, "r".toList)],
              [("type".toList, "text".toList), ("name".toList, "q".toList)], [("type".toList, "end repeat".toList)]] = true := by
  decide


end Pyxv.C19
