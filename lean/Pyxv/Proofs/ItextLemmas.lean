import Pyxv.Model.Itext
/-!
# Lemmas about the translation table (`upd`, `ins`, `setup`, `allPaths`, `padLang`, `pad`)
-/
namespace Pyxv.Itext
open Pyxv

/-! ### insertion-ordered dicts -/

theorem keys_nil {β} : keys ([] : List (Str × β)) = [] := rfl
theorem keys_cons {β} (kv : Str × β) (l : List (Str × β)) : keys (kv :: l) = kv.1 :: keys l := rfl

theorem mem_keys_of_mem {β} {l : List (Str × β)} {k : Str} {v : β} (h : (k, v) ∈ l) : k ∈ keys l :=
  List.mem_map.mpr ⟨(k, v), h, rfl⟩

theorem mem_keys_upd {β} (k : Str) (f : Option β → β) (l : List (Str × β)) (a : Str) :
    a ∈ keys (upd k f l) ↔ a ∈ keys l ∨ a = k := by
  induction l with
  | nil => simp [upd, keys]
  | cons kv rest ih =>
    obtain ⟨k', v⟩ := kv
    unfold upd
    by_cases h : k' = k
    · subst h
      simp only [if_true, keys_cons, List.mem_cons]
      constructor
      · rintro (h1 | h1)
        · exact Or.inl (Or.inl h1)
        · exact Or.inl (Or.inr h1)
      · rintro ((h1 | h1) | h1)
        · exact Or.inl h1
        · exact Or.inr h1
        · exact Or.inl h1
    · simp only [h, if_false, keys_cons, List.mem_cons, ih]
      constructor
      · rintro (h1 | h1 | h1) <;> simp [h1]
      · rintro ((h1 | h1) | h1) <;> simp [h1]

theorem nodup_keys_upd {β} (k : Str) (f : Option β → β) (l : List (Str × β))
    (h : (keys l).Nodup) : (keys (upd k f l)).Nodup := by
  induction l with
  | nil => simp [upd, keys]
  | cons kv rest ih =>
    obtain ⟨k', v⟩ := kv
    unfold upd
    by_cases hk : k' = k
    · subst hk; simpa [keys] using h
    · simp only [hk, if_false, keys_cons, List.nodup_cons] at h ⊢
      refine ⟨?_, ih h.2⟩
      intro hm
      rcases (mem_keys_upd k f rest k').mp hm with h1 | h1
      · exact h.1 h1
      · exact hk h1

theorem lookup_upd {β} (k : Str) (f : Option β → β) (l : List (Str × β)) (a : Str) :
    lookup a (upd k f l) = if a = k then some (f (lookup k l)) else lookup a l := by
  induction l with
  | nil =>
    by_cases h : a = k <;> simp [upd, lookup, h]
  | cons kv rest ih =>
    obtain ⟨k', v⟩ := kv
    unfold upd
    by_cases hk : k' = k
    · subst hk
      by_cases h : a = k' <;> simp [lookup, h]
    · by_cases h : a = k
      · subst h
        have : ¬ a = k' := fun e => hk e.symm
        simp [lookup, this, ih, hk]
      · by_cases h2 : a = k' <;> simp [lookup, h, h2, ih, hk]

theorem lookup_of_mem_nodup {β} {l : List (Str × β)} {k : Str} {v : β}
    (hn : (keys l).Nodup) (h : (k, v) ∈ l) : lookup k l = some v := by
  induction l with
  | nil => cases h
  | cons kv rest ih =>
    obtain ⟨k', v'⟩ := kv
    simp only [keys_cons, List.nodup_cons] at hn
    rcases List.mem_cons.mp h with h1 | h1
    · cases h1; simp [lookup]
    · have : k ≠ k' := fun e => hn.1 (e ▸ mem_keys_of_mem h1)
      simp [lookup, this, ih hn.2 h1]

theorem mem_of_lookup {β} {l : List (Str × β)} {k : Str} {v : β} (h : lookup k l = some v) : (k, v) ∈ l := by
  induction l with
  | nil => simp [lookup] at h
  | cons kv rest ih =>
    obtain ⟨k', v'⟩ := kv
    by_cases hk : k = k'
    · subst hk; simp [lookup] at h; simp [h]
    · simp [lookup, hk] at h; exact List.mem_cons_of_mem _ (ih h)

theorem upd_all {β} {P : β → Prop} (k : Str) (f : Option β → β) (l : List (Str × β))
    (h : ∀ kv ∈ l, P kv.2) (hf : ∀ o, (∀ v, o = some v → P v) → P (f o)) :
    ∀ kv ∈ upd k f l, P kv.2 := by
  induction l with
  | nil =>
    intro kv hkv
    simp [upd] at hkv
    subst hkv
    exact hf none (by simp)
  | cons kv rest ih =>
    obtain ⟨k', v⟩ := kv
    unfold upd
    by_cases hk : k' = k
    · simp only [hk, if_true]
      intro kv hkv
      rcases List.mem_cons.mp hkv with h1 | h1
      · subst h1
        exact hf (some v) (by intro v' hv'; cases hv'; exact h (k', v) (List.mem_cons_self))
      · exact h kv (List.mem_cons_of_mem _ h1)
    · simp only [hk, if_false]
      intro kv hkv
      rcases List.mem_cons.mp hkv with h1 | h1
      · subst h1; exact h (k', v) (List.mem_cons_self)
      · exact ih (fun kv hkv => h kv (List.mem_cons_of_mem _ hkv)) kv h1

/-! ### folds of `upd` -/

theorem mem_keys_foldl_upd {β γ} (g : Str × β → Option γ → γ) (ps : List (Str × β))
    (a : List (Str × γ)) (p : Str) :
    p ∈ keys (ps.foldl (fun a pf => upd pf.1 (g pf) a) a) ↔ p ∈ keys a ∨ p ∈ keys ps := by
  induction ps generalizing a with
  | nil => simp [keys]
  | cons pf rest ih =>
    simp only [List.foldl_cons, ih, mem_keys_upd, keys_cons, List.mem_cons]
    constructor
    · rintro ((h | h) | h)
      · exact Or.inl h
      · exact Or.inr (Or.inl h)
      · exact Or.inr (Or.inr h)
    · rintro (h | h | h)
      · exact Or.inl (Or.inl h)
      · exact Or.inl (Or.inr h)
      · exact Or.inr h

theorem nodup_keys_foldl_upd {β γ} (g : Str × β → Option γ → γ) (ps : List (Str × β))
    (a : List (Str × γ)) (h : (keys a).Nodup) :
    (keys (ps.foldl (fun a pf => upd pf.1 (g pf) a) a)).Nodup := by
  induction ps generalizing a with
  | nil => simpa using h
  | cons pf rest ih =>
    simp only [List.foldl_cons]
    exact ih _ (nodup_keys_upd _ _ _ h)

/-! ### the table -/

/-- paths filed under language `l` -/
def pathsIn (T : Table) (l : Str) : List Str := keys ((lookup l T).getD [])

theorem mem_pathsIn_ins (T : Table) (e : Ent) (l p : Str) :
    p ∈ pathsIn (ins T e) l ↔ p ∈ pathsIn T l ∨ (l = e.lang ∧ p = e.path) := by
  unfold pathsIn ins
  rw [lookup_upd]
  by_cases h : l = e.lang
  · subst h
    simp [mem_keys_upd]
  · simp [h]

theorem mem_pathsIn_foldl (es : List Ent) (T : Table) (l p : Str) :
    p ∈ pathsIn (es.foldl ins T) l ↔ p ∈ pathsIn T l ∨ ∃ e ∈ es, e.lang = l ∧ e.path = p := by
  induction es generalizing T with
  | nil => simp
  | cons e rest ih =>
    simp only [List.foldl_cons, ih, mem_pathsIn_ins, List.mem_cons]
    constructor
    · rintro ((h | ⟨h1, h2⟩) | ⟨e', he', h⟩)
      · exact Or.inl h
      · exact Or.inr ⟨e, Or.inl rfl, h1.symm, h2.symm⟩
      · exact Or.inr ⟨e', Or.inr he', h⟩
    · rintro (h | ⟨e', he' | he', h1, h2⟩)
      · exact Or.inl (Or.inl h)
      · subst he'; exact Or.inl (Or.inr ⟨h1.symm, h2.symm⟩)
      · exact Or.inr ⟨e', he', h1, h2⟩

theorem mem_pathsIn_setup (es : List Ent) (l p : Str) :
    p ∈ pathsIn (setup es) l ↔ ∃ e ∈ es, e.lang = l ∧ e.path = p := by
  unfold setup
  rw [mem_pathsIn_foldl]
  simp [pathsIn, lookup, keys]

/-- both dict levels have unique keys -/
def TableOk (T : Table) : Prop := (keys T).Nodup ∧ ∀ lps ∈ T, (keys lps.2).Nodup

theorem tableOk_ins {T : Table} (e : Ent) (h : TableOk T) : TableOk (ins T e) := by
  refine ⟨nodup_keys_upd _ _ _ h.1, ?_⟩
  unfold ins
  apply upd_all (P := fun ps : Paths => (keys ps).Nodup) _ _ _ h.2
  intro o ho
  apply nodup_keys_upd
  cases o with
  | none => simp [keys]
  | some v => exact ho v rfl

theorem tableOk_foldl (es : List Ent) {T : Table} (h : TableOk T) : TableOk (es.foldl ins T) := by
  induction es generalizing T with
  | nil => exact h
  | cons e rest ih => exact ih (tableOk_ins e h)

theorem tableOk_setup (es : List Ent) : TableOk (setup es) :=
  tableOk_foldl es ⟨by simp [keys], by simp⟩

/-- a path filed under some language is found in the table's entry for that language -/
theorem mem_table_of_pathsIn {T : Table} {l p : Str} (h : p ∈ pathsIn T l) :
    ∃ lps ∈ T, lps.1 = l ∧ p ∈ keys lps.2 := by
  unfold pathsIn at h
  cases hl : lookup l T with
  | none => simp [hl, keys] at h
  | some ps =>
    simp only [hl, Option.getD_some] at h
    exact ⟨(l, ps), mem_of_lookup hl, rfl, h⟩

/-! ### padding -/

theorem mem_keys_allPaths_aux (T : Table) (acc : List (Str × List (Str × Unit))) (p : Str) :
    p ∈ keys (T.foldl (fun acc lps => lps.2.foldl
        (fun a pf => upd pf.1 (fun o => unionForms (o.getD []) pf.2) a) acc) acc)
      ↔ p ∈ keys acc ∨ ∃ lps ∈ T, p ∈ keys lps.2 := by
  induction T generalizing acc with
  | nil => simp
  | cons lps rest ih =>
    simp only [List.foldl_cons, ih, List.mem_cons]
    rw [mem_keys_foldl_upd (fun pf o => unionForms (o.getD []) pf.2)]
    constructor
    · rintro ((h | h) | ⟨x, hx, h⟩)
      · exact Or.inl h
      · exact Or.inr ⟨lps, Or.inl rfl, h⟩
      · exact Or.inr ⟨x, Or.inr hx, h⟩
    · rintro (h | ⟨x, hx | hx, h⟩)
      · exact Or.inl (Or.inl h)
      · subst hx; exact Or.inl (Or.inr h)
      · exact Or.inr ⟨x, hx, h⟩

theorem mem_keys_allPaths (T : Table) (p : Str) :
    p ∈ keys (allPaths T) ↔ ∃ lps ∈ T, p ∈ keys lps.2 := by
  unfold allPaths
  rw [mem_keys_allPaths_aux]
  simp [keys]

theorem mem_keys_padLang (P : List (Str × List (Str × Unit))) (ps : Paths) (p : Str) :
    p ∈ keys (padLang P ps) ↔ p ∈ keys ps ∨ p ∈ keys P := by
  unfold padLang
  exact mem_keys_foldl_upd
    (fun pc o => pc.2.foldl (fun fs c => upd c.1 (fun o3 => o3.getD dashStr) fs) (o.getD [])) P ps p

theorem nodup_keys_padLang (P : List (Str × List (Str × Unit))) (ps : Paths) (h : (keys ps).Nodup) :
    (keys (padLang P ps)).Nodup := by
  unfold padLang
  exact nodup_keys_foldl_upd
    (fun pc o => pc.2.foldl (fun fs c => upd c.1 (fun o3 => o3.getD dashStr) fs) (o.getD [])) P ps h

theorem keys_choicePaths (lists : List CList) : keys (choicePaths lists) = lists.flatMap listIds := by
  simp [choicePaths, keys, List.map_map, Function.comp_def]

theorem mem_keys_allPathsC (lists : List CList) (T : Table) (p : Str) :
    p ∈ keys (allPathsC lists T) ↔ (∃ lps ∈ T, p ∈ keys lps.2) ∨ p ∈ lists.flatMap listIds := by
  unfold allPathsC
  rw [mem_keys_foldl_upd (fun pc o => o.getD pc.2), mem_keys_allPaths, keys_choicePaths]

theorem keys_pad (lists : List CList) (T : Table) : keys (pad lists T) = keys T := by
  simp [pad, keys, List.map_map, Function.comp_def]

theorem mem_pad {lists : List CList} {T : Table} {lps' : Str × Paths} :
    lps' ∈ pad lists T ↔ ∃ lps ∈ T, lps' = (lps.1, padLang (allPathsC lists T) lps.2) := by
  unfold pad
  simp only [List.mem_map]
  constructor
  · rintro ⟨a, ha, h⟩; exact ⟨a, ha, h.symm⟩
  · rintro ⟨a, ha, h⟩; exact ⟨a, ha, h.symm⟩

/-- after padding, every language holds exactly the union of all paths and all choice ids of the
itext-requiring lists -/
theorem mem_keys_pad {lists : List CList} {T : Table} {lps' : Str × Paths} (h : lps' ∈ pad lists T) (p : Str) :
    p ∈ keys lps'.2 ↔ (∃ lps ∈ T, p ∈ keys lps.2) ∨ p ∈ lists.flatMap listIds := by
  obtain ⟨lps, hl, rfl⟩ := mem_pad.mp h
  simp only [mem_keys_padLang, mem_keys_allPathsC]
  constructor
  · rintro (h1 | h1)
    · exact Or.inl ⟨lps, hl, h1⟩
    · exact h1
  · intro h1; exact Or.inr h1

theorem tableOk_pad {lists : List CList} {T : Table} (h : TableOk T) : TableOk (pad lists T) := by
  refine ⟨by rw [keys_pad]; exact h.1, ?_⟩
  intro lps' hl
  obtain ⟨lps, hl2, rfl⟩ := mem_pad.mp hl
  exact nodup_keys_padLang _ _ (h.2 lps hl2)

/-! ### every reference has a leaf assignment with its path -/

theorem path_entsOf {dl p form : Str} {v : Txt} {e : Ent} (h : e ∈ entsOf dl p form v) : e.path = p := by
  unfold entsOf at h
  obtain ⟨lb, _, rfl⟩ := List.mem_map.mp h
  rfl

theorem entsOf_nonempty (dl p form : Str) {v : Txt} (h1 : v ≠ .none) (h2 : v.wf = true) :
    ∃ e ∈ entsOf dl p form v, e.path = p := by
  cases v with
  | none => exact absurd rfl h1
  | str s => exact ⟨⟨dl, p, form, s⟩, by simp [entsOf, langsOf], rfl⟩
  | dict l =>
    cases l with
    | nil => simp [Txt.wf] at h2
    | cons kv rest => exact ⟨⟨kv.1, p, form, kv.2⟩, by simp [entsOf, langsOf], rfl⟩

theorem dict_nonempty_wf {l : List (Str × Str)} (h : (Txt.dict l).wf = true) : Txt.dict l ≠ .none ∧ (Txt.dict l).wf = true :=
  ⟨(by intro h'; cases h'), h⟩

theorem mediaEnts_nonempty (dl p : Str) {m : Media} (ht : mediaTruthy (some m) = true)
    (hw : mediaWf (some m) = true) : ∃ e ∈ mediaEnts dl p m, e.path = p := by
  cases m with
  | nil => simp [mediaTruthy] at ht
  | cons kv rest =>
    simp only [mediaWf, List.all_cons, Bool.and_eq_true, bne_iff_ne, ne_eq] at hw
    obtain ⟨e, he, hp⟩ := entsOf_nonempty dl p kv.1 hw.1.1 hw.1.2
    exact ⟨e, by simp only [mediaEnts, List.flatMap_cons, List.mem_append]; exact Or.inl he, hp⟩

theorem elemWf_parts {d : ElemD} (h : elemWf d = true) :
    d.label.wf = true ∧ d.hint.wf = true ∧ d.guidance.wf = true ∧ mediaWf d.media = true ∧
    nodupB (keys d.msgs) = true ∧ (∀ kv ∈ d.msgs, msgKeys.contains kv.1 = true ∧ kv.2.wf = true) := by
  simp only [elemWf, Bool.and_eq_true, List.all_eq_true] at h
  exact ⟨h.1.1.1.1.1, h.1.1.1.1.2, h.1.1.1.2, h.1.1.2, h.1.2, h.2⟩

theorem nodupB_iff (l : List Str) : nodupB l = true ↔ l.Nodup := by
  induction l with
  | nil => simp [nodupB]
  | cons a rest ih => simp [nodupB, ih, List.nodup_cons]

/-- `labelRef`: the `…:label` id is filed by the label dict or by the media of the element -/
theorem labelRef_entry (dl : Str) {f : Flat} (hw : elemWf f.d = true) {r : Str} (hr : r ∈ labelRef f) :
    ∃ e ∈ elemEntries dl f ++ mediaEntries dl f, e.path = r := by
  obtain ⟨hl, _, _, hm, _, _⟩ := elemWf_parts hw
  unfold labelRef at hr
  split at hr
  next hn =>
    simp only [List.mem_singleton] at hr
    subst hr
    cases hlab : f.d.label with
    | dict l =>
      rw [hlab] at hl
      obtain ⟨e, he, hp⟩ := entsOf_nonempty dl (path f.xpath "label") "long".toList
        (dict_nonempty_wf hl).1 hl
      refine ⟨e, ?_, hp⟩
      simp only [elemEntries, hlab, List.mem_append]
      exact Or.inl (Or.inl (Or.inl (Or.inr he)))
    | none =>
      have hmt : mediaTruthy f.d.media = true := by simpa [needsItextRef, hlab, Txt.isDict] using hn
      cases hmed : f.d.media with
      | none => simp [hmed, mediaTruthy] at hmt
      | some m =>
        rw [hmed] at hmt hm
        obtain ⟨e, he, hp⟩ := mediaEnts_nonempty dl (path f.xpath "label") hmt hm
        refine ⟨e, ?_, hp⟩
        simp only [List.mem_append, mediaEntries, hmed, hmt, if_true]
        exact Or.inr he
    | str s =>
      have hmt : mediaTruthy f.d.media = true := by simpa [needsItextRef, hlab, Txt.isDict] using hn
      cases hmed : f.d.media with
      | none => simp [hmed, mediaTruthy] at hmt
      | some m =>
        rw [hmed] at hmt hm
        obtain ⟨e, he, hp⟩ := mediaEnts_nonempty dl (path f.xpath "label") hmt hm
        refine ⟨e, ?_, hp⟩
        simp only [List.mem_append, mediaEntries, hmed, hmt, if_true]
        exact Or.inr he
  next => cases hr

/-- `hintRef`: the `…:hint` id is filed by the hint dict or by the guidance hint -/
theorem hintRef_entry (dl : Str) {f : Flat} (hw : elemWf f.d = true) {r : Str} (hr : r ∈ hintRef f) :
    ∃ e ∈ elemEntries dl f, e.path = r := by
  obtain ⟨_, hh, hg, _, _, _⟩ := elemWf_parts hw
  unfold hintRef at hr
  split at hr
  next hn =>
    simp only [List.mem_singleton] at hr
    subst hr
    cases hgd : f.d.guidance with
    | dict l =>
      rw [hgd] at hg
      obtain ⟨e, he, hp⟩ := entsOf_nonempty dl (path f.xpath "hint") "guidance".toList
        (dict_nonempty_wf hg).1 hg
      refine ⟨e, ?_, hp⟩
      simp only [elemEntries, hgd, List.mem_append]
      exact Or.inr he
    | str s =>
      by_cases hs : s = []
      · -- empty guidance string: falsy, so the hint must be a dict
        subst hs
        cases hhd : f.d.hint with
        | dict l =>
          rw [hhd] at hh
          obtain ⟨e, he, hp⟩ := entsOf_nonempty dl (path f.xpath "hint") "long".toList
            (dict_nonempty_wf hh).1 hh
          refine ⟨e, ?_, hp⟩
          simp only [elemEntries, hhd, List.mem_append]
          exact Or.inl (Or.inr he)
        | none => simp [hhd, hgd, Txt.isDict, Txt.truthy] at hn
        | str t => simp [hhd, hgd, Txt.isDict, Txt.truthy] at hn
      · obtain ⟨e, he, hp⟩ := entsOf_nonempty dl (path f.xpath "hint") "guidance".toList
          (v := .str s) (by intro h; cases h) rfl
        refine ⟨e, ?_, hp⟩
        have : (!s.isEmpty) = true := by cases s <;> simp_all
        simp only [elemEntries, hgd, this, if_true, List.mem_append]
        exact Or.inr he
    | none =>
      cases hhd : f.d.hint with
      | dict l =>
        rw [hhd] at hh
        obtain ⟨e, he, hp⟩ := entsOf_nonempty dl (path f.xpath "hint") "long".toList
          (dict_nonempty_wf hh).1 hh
        refine ⟨e, ?_, hp⟩
        simp only [elemEntries, hhd, List.mem_append]
        exact Or.inl (Or.inr he)
      | none => simp [hhd, hgd, Txt.isDict, Txt.truthy] at hn
      | str t => simp [hhd, hgd, Txt.isDict, Txt.truthy] at hn
  next => cases hr

theorem msgUsesItext_ne_none {k : Str} {v : Txt} (h : msgUsesItext k v = true) : v ≠ .none := by
  intro hv; subst hv; simp [msgUsesItext] at h

/-- a bind message that goes through itext is filed under `xpath:key` -/
theorem msg_entry (dl : Str) {f : Flat} (hw : elemWf f.d = true) {k : Str} {v : Txt}
    (hkv : (k, v) ∈ f.d.msgs) (hu : msgUsesItext k v = true) :
    ∃ e ∈ elemEntries dl f, e.path = f.xpath ++ ':' :: k := by
  obtain ⟨_, _, _, _, hnd, hall⟩ := elemWf_parts hw
  have hlk : lookup k f.d.msgs = some v := lookup_of_mem_nodup ((nodupB_iff _).mp hnd) hkv
  obtain ⟨hk, hvw⟩ := hall (k, v) hkv
  have hk : k ∈ msgKeys := by simpa using hk
  have hne := msgUsesItext_ne_none hu
  unfold msgKeys at hk
  rcases List.mem_cons.mp hk with rfl | hk
  · obtain ⟨e, he, hp⟩ := entsOf_nonempty dl (path f.xpath "jr:constraintMsg") "long".toList hne hvw
    refine ⟨e, ?_, hp⟩
    simp only [elemEntries, List.mem_append]
    refine Or.inl (Or.inl (Or.inl (Or.inl (Or.inl ?_))))
    simp only [msgEntries, msgOf, hlk, Option.getD_some, hu, if_true]
    exact he
  rcases List.mem_cons.mp hk with rfl | hk
  · obtain ⟨e, he, hp⟩ := entsOf_nonempty dl (path f.xpath "jr:requiredMsg") "long".toList hne hvw
    refine ⟨e, ?_, hp⟩
    simp only [elemEntries, List.mem_append]
    refine Or.inl (Or.inl (Or.inl (Or.inl (Or.inr ?_))))
    simp only [msgEntries, msgOf, hlk, Option.getD_some, hu, if_true]
    exact he
  rcases List.mem_cons.mp hk with rfl | hk
  · obtain ⟨e, he, hp⟩ := entsOf_nonempty dl (path f.xpath "jr:noAppErrorString") "long".toList hne hvw
    refine ⟨e, ?_, hp⟩
    simp only [elemEntries, List.mem_append]
    refine Or.inl (Or.inl (Or.inl (Or.inr ?_)))
    simp only [msgEntries, msgOf, hlk, Option.getD_some, hu, if_true]
    exact he
  · cases hk

theorem bindRefs_entry (dl : Str) {f : Flat} (hw : elemWf f.d = true) {r : Str} (hr : r ∈ bindRefs f) :
    visited f = true ∧ ∃ e ∈ elemEntries dl f, e.path = r := by
  unfold bindRefs at hr
  split at hr
  next hv =>
    refine ⟨hv, ?_⟩
    obtain ⟨kv, hkv, hin⟩ := List.mem_flatMap.mp hr
    split at hin
    next hu =>
      simp only [List.mem_singleton] at hin
      subst hin
      exact msg_entry dl hw (k := kv.1) (v := kv.2) hkv hu
    next => cases hin
  next => cases hr

/-! ### choices -/

theorem optEntries_nonempty (dl id : Str) {o : Opt} (hl : optLabeled o = true) (hw : optWf o = true) :
    ∃ e ∈ optEntries dl id o, e.path = id := by
  simp only [optWf, Bool.and_eq_true] at hw
  by_cases ht : o.label.truthy = true
  · have hne : o.label ≠ .none := by intro h; rw [h] at ht; simp [Txt.truthy] at ht
    obtain ⟨e, he, hp⟩ := entsOf_nonempty dl id "long".toList hne hw.1
    exact ⟨e, by simp only [optEntries, ht, if_true, List.mem_append]; exact Or.inl he, hp⟩
  · have hm : mediaTruthy o.media = true := by
      simp only [optLabeled, Bool.or_eq_true] at hl
      rcases hl with h | h
      · exact absurd h ht
      · exact h
    cases hmed : o.media with
    | none => simp [hmed, mediaTruthy] at hm
    | some m =>
      rw [hmed] at hm
      have hw2 := hw.2
      rw [hmed] at hw2
      obtain ⟨e, he, hp⟩ := mediaEnts_nonempty dl id hm hw2
      refine ⟨e, ?_, hp⟩
      simp only [optEntries, hmed, hm, if_true, List.mem_append]
      exact Or.inr he

theorem idsFrom_entry (dl name : Str) (os : List Opt) (k : Nat)
    (hl : ∀ o ∈ os, optLabeled o = true ∧ optWf o = true) {i : Str} (hi : i ∈ idsFrom name k os) :
    ∃ e ∈ optsEntries dl name k os, e.path = i := by
  induction os generalizing k with
  | nil => simp [idsFrom] at hi
  | cons o rest ih =>
    simp only [idsFrom, List.mem_cons] at hi
    rcases hi with rfl | hi
    · obtain ⟨h1, h2⟩ := hl o List.mem_cons_self
      obtain ⟨e, he, hp⟩ := optEntries_nonempty dl (choiceId name k) h1 h2
      exact ⟨e, by simp only [optsEntries, List.mem_append]; exact Or.inl he, hp⟩
    · obtain ⟨e, he, hp⟩ := ih (k + 1) (fun o' ho' => hl o' (List.mem_cons_of_mem _ ho')) hi
      exact ⟨e, by simp only [optsEntries, List.mem_append]; exact Or.inr he, hp⟩

theorem listIds_entry (dl : Str) {lists : List CList} {l : CList} (hm : l ∈ lists)
    (hl : requiresItext l = true → ∀ o ∈ l.options, optLabeled o = true ∧ optWf o = true)
    {i : Str} (hi : i ∈ listIds l) : ∃ e ∈ choiceEntries dl lists, e.path = i := by
  unfold listIds at hi
  split at hi
  next hr =>
    obtain ⟨e, he, hp⟩ := idsFrom_entry dl l.name l.options 0 (hl hr) hi
    refine ⟨e, ?_, hp⟩
    unfold choiceEntries
    exact List.mem_flatMap.mpr ⟨l, hm, by simp only [hr, if_true]; exact he⟩
  next => cases hi

theorem optRequires_entry (dl id : Str) {o : Opt} (hr : optRequiresItext o = true) (hw : optWf o = true) :
    ∃ e, e ∈ optEntries dl id o := by
  have hl : optLabeled o = true := by
    simp only [optRequiresItext, Bool.or_eq_true] at hr
    simp only [optLabeled, Bool.or_eq_true]
    rcases hr with (h | h) | h
    · exact Or.inr h
    · left
      simp only [optWf, Bool.and_eq_true] at hw
      cases hlab : o.label with
      | dict l =>
        cases l with
        | nil => rw [hlab] at hw; simp [Txt.wf] at hw
        | cons kv rest => simp [Txt.truthy]
      | none => rw [hlab] at h; simp [Txt.isDict] at h
      | str t => rw [hlab] at h; simp [Txt.isDict] at h
    · left
      cases hlab : o.label with
      | str t =>
        rw [hlab] at h
        simp only [Bool.and_eq_true] at h
        simpa [Txt.truthy] using h.1
      | none => rw [hlab] at h; cases h
      | dict l => rw [hlab] at h; cases h
  obtain ⟨e, he, _⟩ := optEntries_nonempty dl id hl hw
  exact ⟨e, he⟩

theorem optsRequires_entry (dl name : Str) (os : List Opt) (k : Nat)
    (hw : ∀ o ∈ os, optWf o = true) (hr : os.any optRequiresItext = true) :
    ∃ e, e ∈ optsEntries dl name k os := by
  induction os generalizing k with
  | nil => simp at hr
  | cons o rest ih =>
    simp only [List.any_cons, Bool.or_eq_true] at hr
    rcases hr with h | h
    · obtain ⟨e, he⟩ := optRequires_entry dl (choiceId name k) h (hw o List.mem_cons_self)
      exact ⟨e, by simp only [optsEntries, List.mem_append]; exact Or.inl he⟩
    · obtain ⟨e, he⟩ := ih (k + 1) (fun o' ho' => hw o' (List.mem_cons_of_mem _ ho')) h
      exact ⟨e, by simp only [optsEntries, List.mem_append]; exact Or.inr he⟩

/-- a list that requires itext contributes at least one leaf assignment (so a language exists) -/
theorem requires_entry (dl : Str) {lists : List CList} {l : CList} (hm : l ∈ lists)
    (hw : ∀ o ∈ l.options, optWf o = true) (hr : requiresItext l = true) :
    ∃ e, e ∈ choiceEntries dl lists := by
  obtain ⟨e, he⟩ := optsRequires_entry dl l.name l.options 0 hw hr
  exact ⟨e, List.mem_flatMap.mpr ⟨l, hm, by simp only [hr, if_true]; exact he⟩⟩

end Pyxv.Itext
