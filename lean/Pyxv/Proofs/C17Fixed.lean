import Pyxv.Proofs.C17Rows
import Pyxv.Model.Rows17
/-!
# C17 — the repaired empty-section check (was crash class F13: `TypeError` in `Section.validate`)

A `begin … end` pair with nothing between them yields a section without children (`empty_block_parses`, an
instance of `balanced_accepted`), and the repaired validator rejects the tree naming that section
(`empty_section_rejected`), for every context.  Conversely an accepted tree has no childless section
(`validate17_ok_noEmpty`) — the guard "no empty group" that C02 / C04 needed for the old code is now a
consequence of acceptance.
-/
namespace Pyxv.C17
open Pyxv Pyxv.Form Pyxv.Rows Pyxv.Rows17

/-- the rows `begin ct name` / `end ct` with nothing in between parse to a childless section -/
theorem empty_block_parses (pre post : List (Nat × RowK)) (ts us : List Item) (n n' : Nat) (ct : Ctl)
    (name : Str) (b : Bool) (h1 : parseRows pre = .ok ts) (h3 : parseRows post = .ok us) :
    parseRows (pre ++ (n, .begin_ ct name b none) :: (n', .end_ ct) :: post) = .ok (ts ++ .sec ct name b [] :: us) := by
  have := balanced_accepted pre [] post ts [] us n n' ct name b h1 (by rfl) h3
  simpa using this

/-- after siblings that validate, a childless section is rejected by name — whatever follows it -/
theorem empty_section_rejected (ct : Ctl) (name : Str) (b : Bool) (post : List Item) :
    ∀ (pre : List Item), validateEach17 pre = .ok () →
      validateEach17 (pre ++ .sec ct name b [] :: post) = .error (.emptySection name) := by
  intro pre
  induction pre with
  | nil => intro _; simp [validateEach17, validateItem17]
  | cons p ps ih =>
    intro h
    simp only [validateEach17] at h
    cases hp : validateItem17 p with
    | error e => rw [hp] at h; simp at h
    | ok u =>
      rw [hp] at h
      simp only [List.cons_append, validateEach17, hp]
      exact ih h

/-- … also when it sits at any depth: a section whose children contain a rejected childless section is
    rejected with the same error -/
theorem empty_section_rejected_nested (ct ct' : Ctl) (name outer : Str) (b b' : Bool) (pre post : List Item)
    (h : validateEach17 pre = .ok ()) :
    validateItem17 (.sec ct' outer b' (pre ++ .sec ct name b [] :: post)) = .error (.emptySection name) := by
  have h2 := empty_section_rejected ct name b post pre h
  cases hpre : pre with
  | nil => subst hpre; simp [validateItem17, validateEach17]
  | cons p ps =>
    subst hpre
    simp only [List.cons_append] at h2 ⊢
    simp only [validateItem17, h2]

mutual
/-- an accepted tree has no childless section -/
theorem validateItem17_ok_noEmpty : ∀ (it : Item), validateItem17 it = .ok () → noEmpty it = true
  | .q _, _ => by simp [noEmpty]
  | .sec _ _ _ [], h => by simp [validateItem17] at h
  | .sec _ n _ (k :: ks), h => by
    simp only [validateItem17] at h
    cases he : validateEach17 (k :: ks) with
    | error e => rw [he] at h; simp at h
    | ok u =>
      simp only [noEmpty]
      exact validateEach17_ok_noEmpty (k :: ks) he
theorem validateEach17_ok_noEmpty : ∀ (its : List Item), validateEach17 its = .ok () → noEmptyL its = true
  | [], _ => by simp [noEmptyL]
  | k :: rest, h => by
    simp only [validateEach17] at h
    cases hk : validateItem17 k with
    | error e => rw [hk] at h; simp at h
    | ok u =>
      rw [hk] at h
      simp only [noEmptyL, validateItem17_ok_noEmpty k hk, validateEach17_ok_noEmpty rest h, Bool.and_self]
end

theorem validate17_ok_noEmpty (root : Str) (kids : List Item) (h : validate17 root kids = .ok ()) :
    kids ≠ [] ∧ noEmptyL kids = true := by
  unfold validate17 at h
  cases kids with
  | nil => simp at h
  | cons k ks =>
    simp only [] at h
    cases he : validateEach17 (k :: ks) with
    | error e => rw [he] at h; simp at h
    | ok u => exact ⟨by simp, validateEach17_ok_noEmpty _ he⟩

/-! ### Non-vacuity -/
def cc (k v : String) : Str × Str := (k.toList, v.toList)
example : (match formOut17 "data".toList []
      [[cc "type" "text", cc "name" "a", cc "label" "A"], [cc "type" "begin group", cc "name" "g", cc "label" "G"],
       [cc "type" "end group"]] [] with
    | .tree (.emptySection n) => n == "g".toList | _ => false) = true := by decide +kernel
example : (match formOut17 "data".toList []
      [[cc "type" "begin repeat", cc "name" "r"], [cc "type" "begin group", cc "name" "g"], [cc "type" "end group"],
       [cc "type" "text", cc "name" "a"], [cc "type" "end repeat"]] [] with
    | .tree (.emptySection n) => n == "g".toList | _ => false) = true := by decide +kernel
example : (match formOut17 "data".toList []
      [[cc "type" "begin group", cc "name" "g"], [cc "type" "text", cc "name" "a"], [cc "type" "end group"]] [] with
    | .ok => true | _ => false) = true := by decide +kernel
example : (match formOut17 "data".toList [] [] [cc "omit_instanceID" "yes"] with
    | .tree (.emptySection n) => n == "data".toList | _ => false) = true := by decide +kernel

end Pyxv.C17
