import Pyxv.Proofs.ConvertC10Doc
/-!
# C10 for the end-to-end composition: the table of static defaults behind the instance text

`Convert.convertDoc` writes the primary instance as `instNodes defs [root] (ntKids o.inst)`: every childless node at
path `p` — instance copy and `jr:template` copy alike — carries `lookupPath p defs` as its text, where
`defs = defaultsOfL [root] ditems`.  Here that table is tied to the `Defaults` slice (C10): its entries with a
non-empty text are, in document order, exactly `(path, Defaults.instText dynQ q)` of the questions `q` of the mapped
tree (`toDefL`) whose `instText` is non-empty — i.e. the stored default, iff the lexer classifies it static
(`C10.classification_is_pinned`), nothing for a dynamic or absent default.
-/
namespace Pyxv.ConvertP
open Pyxv Pyxv.Form Pyxv.Rows Pyxv.Xml Pyxv.Asm Pyxv.Convert Pyxv.C01

/-- an entry of the defaults table that puts a (non-empty) text into the instance -/
def nonEmptyV (e : List Str × Str) : Bool := !e.2.isEmpty

/-- what the `Defaults` slice prescribes for a question: its path with `instText`, when that is non-empty -/
def staticEntry (x : Defaults.Path × Defaults.Q) : Option (List Str × Str) :=
  if (Defaults.instText dynQ x.2).isEmpty then none else some (x.1, Defaults.instText dynQ x.2)

/-- the specification table: every question of the tree with a static (non-empty) default, document order -/
def staticTable (pre : List Str) (els : List Defaults.El) : List (List Str × Str) :=
  (Defaults.qwp pre els).filterMap staticEntry

theorem staticTable_cons (pre : List Str) (e : Defaults.El) (rest : List Defaults.El) :
    staticTable pre (e :: rest) = staticTable pre [e] ++ staticTable pre rest := by
  cases e with
  | q d =>
    simp only [staticTable, Defaults.qwp]
    rw [show ((pre ++ [d.name], d) :: Defaults.qwp pre rest) = [(pre ++ [d.name], d)] ++ Defaults.qwp pre rest from rfl,
      List.filterMap_append]
  | grp n ks => simp [staticTable, Defaults.qwp]
  | rep n ks => simp [staticTable, Defaults.qwp]

theorem staticTable_grp (pre : List Str) (n : Str) (ks : List Defaults.El) :
    staticTable pre [.grp n ks] = staticTable (pre ++ [n]) ks := by
  simp [staticTable, Defaults.qwp]

theorem staticTable_rep (pre : List Str) (n : Str) (ks : List Defaults.El) :
    staticTable pre [.rep n ks] = staticTable (pre ++ [n]) ks := by
  simp [staticTable, Defaults.qwp]

/-- one question: the table entry is the stored default iff the lexer says static (and it is non-empty) -/
theorem defaultsOf_q (pre : List Str) (d : QData) (p : Pay) :
    (defaultsOf pre (.q d p)).filter nonEmptyV = staticTable pre [toDef (.q d p)] := by
  unfold defaultsOf isStaticDefault defaultDyn
  cases hd : get p.cells "default" with
  | none =>
    simp [staticTable, toDef, Defaults.qwp, staticEntry, Defaults.instText, toQ, hd]
  | some dv =>
    simp only [staticTable, toDef, Defaults.qwp, List.filterMap_cons, List.filterMap_nil, staticEntry,
      Defaults.instText, dynQ, toQ, hd, Option.getD_some, C10.classification_is_pinned]
    cases dv with
    | nil => simp [Lexer.dynamicPinned, nonEmptyV]
    | cons c cs =>
      cases hp : Lexer.dynamicPinned (c :: cs) (typeName p.cells) <;> simp [nonEmptyV]

mutual
theorem defaultsOf_static : ∀ (pre : List Str) (d : DItem),
    (defaultsOf pre d).filter nonEmptyV = staticTable pre [toDef d]
  | pre, .q d p => defaultsOf_q pre d p
  | pre, .sec .rep n _ _ ks => by
    simp only [defaultsOf, toDef, staticTable_rep]; exact defaultsOfL_static (pre ++ [n]) ks
  | pre, .sec .group n _ _ ks => by
    simp only [defaultsOf, toDef, staticTable_grp]; exact defaultsOfL_static (pre ++ [n]) ks
  | pre, .sec .loop n _ _ ks => by
    simp only [defaultsOf, toDef, staticTable_grp]; exact defaultsOfL_static (pre ++ [n]) ks
/-- **the defaults table is the `Defaults` slice's static texts** (full, every decorated tree) -/
theorem defaultsOfL_static : ∀ (pre : List Str) (ds : List DItem),
    (defaultsOfL pre ds).filter nonEmptyV = staticTable pre (toDefL ds)
  | _, [] => by simp [defaultsOfL, toDefL, staticTable, Defaults.qwp]
  | pre, k :: ks => by
    simp only [defaultsOfL, toDefL, List.filter_append]
    rw [staticTable_cons, defaultsOf_static pre k, defaultsOfL_static pre ks]
end

#print axioms defaultsOfL_static

/-- membership form: a non-empty text is in the table at `p` iff some question at `p` has exactly that `instText` -/
theorem mem_defaultsOfL_iff (pre : List Str) (ds : List DItem) (p : List Str) (v : Str) (hv : v ≠ []) :
    (p, v) ∈ defaultsOfL pre ds ↔
      ∃ x ∈ Defaults.qwp pre (toDefL ds), x.1 = p ∧ Defaults.instText dynQ x.2 = v := by
  have h := defaultsOfL_static pre ds
  have hne : nonEmptyV (p, v) = true := by
    cases v with
    | nil => exact absurd rfl hv
    | cons _ _ => rfl
  constructor
  · intro hm
    have : (p, v) ∈ (defaultsOfL pre ds).filter nonEmptyV := List.mem_filter.2 ⟨hm, hne⟩
    rw [h, staticTable, List.mem_filterMap] at this
    obtain ⟨x, hx, he⟩ := this
    refine ⟨x, hx, ?_⟩
    unfold staticEntry at he
    split at he
    · simp at he
    · simp only [Option.some.injEq, Prod.mk.injEq] at he; exact he
  · rintro ⟨x, hx, h1, h2⟩
    have : (p, v) ∈ staticTable pre (toDefL ds) := by
      rw [staticTable, List.mem_filterMap]
      refine ⟨x, hx, ?_⟩
      unfold staticEntry
      rw [h2, h1]
      cases v with
      | nil => exact absurd rfl hv
      | cons _ _ => simp
    rw [← h] at this
    exact (List.mem_filter.1 this).1

#print axioms mem_defaultsOfL_iff

/-- a childless node of the instance (any copy: `t` = template or not) carries the table's text for its path -/
theorem instNode_leaf (defs : List (List Str × Str)) (pre : List Str) (n : Str) (t : Bool) :
    instNode defs pre (.node n t []) =
      .elem n (tmplAttrs t) (match lookupPath (pre ++ [n]) defs with | some v => [.text false v] | none => []) := by
  simp only [instNode]; rfl

/-- **C10, instance text of the converted document** (`_partial`: the table is full-strength, its use is by path
    lookup — that paths are pairwise different, which `Rows17.validate17` enforces, is not carried into this
    statement).  The children of the primary instance root of the document are `instNodes defs [root] nts` of the name
    tree `nts` of `convert_c04` — every childless node at path `p`, instance and `jr:template` copies alike, has the
    text `lookupPath p defs` (`instNode_leaf`) — and the non-empty entries of `defs` are, in document order, exactly
    the `Defaults` slice's `instText dynQ` of the questions of the mapped tree: the stored default iff it is static. -/
theorem convert_c10_defaults_partial (wb : Workbook) (doc : Node) (h : convertDoc wb = .ok doc) :
    ∃ (root : Str) (ditems : List DItem) (defs : List (List Str × Str)) (nts : List NT) (rt : Node),
      primaryRoot doc = some rt ∧ kidsOf rt = instNodes defs [root] nts ∧
      defs.filter nonEmptyV = staticTable [root] (toDefL ditems) ∧
      ∀ p v, v ≠ [] → ((p, v) ∈ defs ↔
        ∃ x ∈ Defaults.qwp [root] (toDefL ditems), x.1 = p ∧ Defaults.instText dynQ x.2 = v) := by
  obtain ⟨f, lists, rows, drows, o, ditems, T⟩ := convertDoc_trace wb doc h
  refine ⟨f.name, ditems, defaultsOfL [f.name] ditems, ntKids o.inst,
    .elem f.name (rootAttrs f) (instNodes (defaultsOfL [f.name] ditems) [f.name] (ntKids o.inst)), ?_, rfl,
    defaultsOfL_static _ _, fun p v hv => mem_defaultsOfL_iff _ _ p v hv⟩
  rw [T.hdoc]; exact primaryRoot_assemble ..

#print axioms convert_c10_defaults_partial

/-! ## Non-vacuity -/

def exDefs : List DItem :=
  [.q { name := l!"a", bind := true, control := true, node := true, tag := l!"input" }
      { cells := [(c!"type", l!"text"), (c!"name", l!"a"), (c!"default", l!"abc")] },
   .sec .rep (l!"r") false {}
     [.q { name := l!"n", bind := true, control := true, node := true, tag := l!"input" }
        { cells := [(c!"type", l!"text"), (c!"name", l!"n"), (c!"default", l!"now()")] },
      .q { name := l!"m", bind := true, control := true, node := true, tag := l!"input" }
        { cells := [(c!"type", l!"text"), (c!"name", l!"m"), (c!"default", l!"7")] }]]

-- the static defaults (top level and inside a repeat) are in the table, the dynamic one is not
example : defaultsOfL [l!"data"] exDefs = [([l!"data", l!"a"], l!"abc"), ([l!"data", l!"r", l!"m"], l!"7")] := by
  decide +kernel
example : staticTable [l!"data"] (toDefL exDefs) = [([l!"data", l!"a"], l!"abc"), ([l!"data", l!"r", l!"m"], l!"7")] := by
  rw [← defaultsOfL_static]; decide +kernel
-- the theorem applied to the workbook whose text `ex_convert` pins
example : ∃ doc, convertDoc exWb = .ok doc ∧ ∃ root ditems defs nts rt,
    primaryRoot doc = some rt ∧ kidsOf rt = instNodes defs [root] nts ∧
    defs.filter nonEmptyV = staticTable [root] (toDefL ditems) ∧
    ∀ p v, v ≠ [] → ((p, v) ∈ defs ↔
      ∃ x ∈ Defaults.qwp [root] (toDefL ditems), x.1 = p ∧ Defaults.instText dynQ x.2 = v) := by
  obtain ⟨doc, hd, -⟩ := convert_ok exWb false exText ex_convert
  exact ⟨doc, hd, convert_c10_defaults_partial exWb doc hd⟩

end Pyxv.ConvertP
