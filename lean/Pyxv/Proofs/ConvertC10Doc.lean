import Pyxv.Proofs.ConvertC10Repeats
/-!
# C10 for the end-to-end composition: the repeats' setvalues read from the document's nodes

`nodeRepFacts` reads the Node tree: at every `<repeat nodeset=r>` element, its `<setvalue>` children as
(r, `ref`, `event`).  On the body of a converted document this equals the walk-level `repFactsL` of
`ConvertC10Repeats` (locations rendered by `xpathStr`), so `convert_c10_all_partial`'s repeat part is a statement
about the document.
-/
namespace Pyxv.ConvertP
open Pyxv Pyxv.Form Pyxv.Rows Pyxv.Xml Pyxv.Asm Pyxv.Convert Pyxv.C01

abbrev SFact := Str × Str × Str

def sfactOf (r : Str) (k : Node) : Option SFact := (factOf none k).map fun f => (r, f.2.1, f.2.2)

def strFact (f : Fact) : SFact := (xpathStr (f.1.getD []), f.2.1, f.2.2)

mutual
/-- at every `<repeat nodeset=r>`: its `<setvalue>` children as (r, ref, event); inner repeats first -/
def nodeRepFacts : Node → List SFact
  | .text _ _ => []
  | .elem t a ks =>
    nodeRepFactsL ks ++ (if t = l!"repeat" then ks.filterMap (sfactOf ((lookup (l!"nodeset") a).getD [])) else [])
def nodeRepFactsL : List Node → List SFact
  | [] => []
  | k :: ks => nodeRepFacts k ++ nodeRepFactsL ks
end

theorem nodeRepFactsL_append (a b : List Node) : nodeRepFactsL (a ++ b) = nodeRepFactsL a ++ nodeRepFactsL b := by
  induction a with
  | nil => simp [nodeRepFactsL]
  | cons x xs ih => simp [nodeRepFactsL, ih]

theorem sfactOf_nonset (r t : Str) (a : List (Str × Str)) (ks : List Node) (h : t ≠ l!"setvalue") :
    sfactOf r (.elem t a ks) = none := by
  simp only [sfactOf, factOf, if_neg h, Option.map_none]

/-- a childless element contributes nothing -/
theorem nodeRepFacts_leaf (t : Str) (a : List (Str × Str)) : nodeRepFacts (.elem t a []) = [] := by
  simp only [nodeRepFacts, nodeRepFactsL, List.filterMap_nil, List.nil_append]
  split <;> rfl

/-- an element whose children contribute nothing and hold no setvalue contributes nothing -/
theorem nodeRepFacts_quiet (t : Str) (a : List (Str × Str)) (ks : List Node) (h1 : nodeRepFactsL ks = [])
    (h2 : ∀ r, ks.filterMap (sfactOf r) = []) : nodeRepFacts (.elem t a ks) = [] := by
  simp only [nodeRepFacts, h1, h2, List.nil_append]
  split <;> rfl

theorem outputKids_quiet : ∀ (ks : List Node), ks.all outputKid = true →
    nodeRepFactsL ks = [] ∧ ∀ r, ks.filterMap (sfactOf r) = []
  | [], _ => ⟨rfl, fun _ => rfl⟩
  | k :: ks, h => by
    simp only [List.all_cons, Bool.and_eq_true] at h
    obtain ⟨i1, i2⟩ := outputKids_quiet ks h.2
    match k, h.1 with
    | .text _ _, _ =>
      refine ⟨by simp only [nodeRepFactsL, nodeRepFacts, i1, List.nil_append], fun r => ?_⟩
      simp only [List.filterMap_cons, sfactOf, factOf, Option.map_none, i2 r]
    | .elem t a [], hk =>
      have ht : t = l!"output" := by simpa [outputKid] using hk
      refine ⟨by simp only [nodeRepFactsL, nodeRepFacts_leaf, i1, List.nil_append], fun r => ?_⟩
      have hne : t ≠ l!"setvalue" := by rw [ht]; decide
      simp only [List.filterMap_cons, sfactOf_nonset r t a [] hne, i2 r]
    | .elem _ _ (_ :: _), hk => simp [outputKid] at hk

theorem textNode_shape (els : List Refs.Chain) (path : List Str) (tag : Str) (cell : Option Str) :
    ∃ a ks, textNode els path tag cell = .elem tag a ks ∧ ks.all outputKid = true := by
  unfold textNode
  split
  · exact ⟨_, [], rfl, rfl⟩
  · split
    · rename_i s n hn
      have ho := (textOutcome_ok hn).2
      have htag : ∃ a ks, n = .elem tag a ks := by
        unfold textOutcome at hn
        split at hn
        · simp at hn
        · split at hn
          · rename_i n' hm
            split at hn
            · simp only [Chan.Outcome.ok.injEq] at hn; subst hn; exact mixedChannel_tag hm
            · simp at hn
          · rename_i hne; exact absurd hn (by intro h'; exact hne _ h')
      obtain ⟨a, ks, rfl⟩ := htag
      exact ⟨a, ks, rfl, by simpa only [outputOnly] using ho⟩
    · exact ⟨_, [], rfl, rfl⟩

theorem textNode_quiet (els : List Refs.Chain) (path : List Str) (tag : Str) (cell : Option Str)
    (hs : tag ≠ l!"setvalue") :
    nodeRepFacts (textNode els path tag cell) = [] ∧ ∀ r, sfactOf r (textNode els path tag cell) = none := by
  obtain ⟨a, ks, he, hk⟩ := textNode_shape els path tag cell
  rw [he]
  obtain ⟨i1, i2⟩ := outputKids_quiet ks hk
  exact ⟨nodeRepFacts_quiet tag a ks i1 i2, fun r => sfactOf_nonset r tag a ks hs⟩

theorem labelAndHint_quiet (els : List Refs.Chain) (path : List Str) (r : Cells) :
    nodeRepFactsL (labelAndHint els path r) = [] ∧ ∀ x, (labelAndHint els path r).filterMap (sfactOf x) = [] := by
  obtain ⟨l1, l2⟩ := textNode_quiet els path (l!"label") (get r "label") (by decide)
  obtain ⟨h1, h2⟩ := textNode_quiet els path (l!"hint") (get r "hint") (by decide)
  unfold labelAndHint labelNode hintNode
  refine ⟨?_, fun x => ?_⟩
  · rw [nodeRepFactsL_append]
    split <;> split <;> simp only [nodeRepFactsL, l1, h1, List.append_nil]
  · rw [List.filterMap_append]
    split <;> split <;> simp only [List.filterMap_cons, List.filterMap_nil, l2 x, h2 x, List.append_nil]

theorem itemsetNodes_quiet (r : Cells) :
    nodeRepFactsL (itemsetNodes r) = [] ∧ ∀ x, (itemsetNodes r).filterMap (sfactOf x) = [] := by
  unfold itemsetNodes
  split
  · exact ⟨rfl, fun _ => rfl⟩
  · split
    · exact ⟨rfl, fun _ => rfl⟩
    · have hv : ∀ a, nodeRepFacts (pyNode (l!"value") a []) = [] := fun a => nodeRepFacts_leaf _ _
      have hl : ∀ a, nodeRepFacts (pyNode (l!"label") a []) = [] := fun a => nodeRepFacts_leaf _ _
      refine ⟨?_, fun x => ?_⟩
      · simp only [nodeRepFactsL, List.append_nil]
        unfold pyNode
        apply nodeRepFacts_quiet
        · simp only [nodeRepFactsL, nodeRepFacts_leaf, List.append_nil]
        · intro r'
          simp only [List.filterMap_cons, List.filterMap_nil]
          rw [sfactOf_nonset _ _ _ _ (by decide), sfactOf_nonset _ _ _ _ (by decide)]
      · simp only [List.filterMap_cons, List.filterMap_nil, pyNode]
        rw [sfactOf_nonset _ _ _ _ (by decide)]

theorem dynSetOf_quiet (els : List Refs.Chain) (ctx : Refs.Chain) (r : Cells) (b : Bool) :
    nodeRepFactsL (dynSetOf els ctx r b) = [] := by
  unfold dynSetOf
  split
  · split
    · simp only [nodeRepFactsL, setvalueNode, pyNode, nodeRepFacts_leaf, List.append_nil]
    · rfl
  · rfl

mutual
theorem dynSets_quiet (els : List Refs.Chain) : ∀ (pre : List Str) (d : DItem), nodeRepFactsL (dynSets els pre d) = []
  | pre, .q d p => by simp only [dynSets, dynSetOf_quiet]
  | pre, .sec .rep _ _ _ _ => by simp only [dynSets, nodeRepFactsL]
  | pre, .sec .group n _ _ ks => by simp only [dynSets, dynSetsL_quiet els (pre ++ [n]) ks]
  | pre, .sec .loop n _ _ ks => by simp only [dynSets, dynSetsL_quiet els (pre ++ [n]) ks]
theorem dynSetsL_quiet (els : List Refs.Chain) : ∀ (pre : List Str) (ds : List DItem),
    nodeRepFactsL (dynSetsL els pre ds) = []
  | _, [] => by simp only [dynSetsL, nodeRepFactsL]
  | pre, k :: ks => by
    simp only [dynSetsL, nodeRepFactsL_append, dynSets_quiet els pre k, dynSetsL_quiet els pre ks, List.append_nil]
end

theorem sfactOf_factOf (rp : List Str) (k : Node) : sfactOf (xpathStr rp) k = (factOf (some rp) k).map strFact := by
  cases k with
  | text _ _ => rfl
  | elem t a ks =>
    simp only [sfactOf, factOf]
    split <;> rfl

theorem filterMap_sfactOf (rp : List Str) (l : List Node) :
    l.filterMap (sfactOf (xpathStr rp)) = (l.filterMap (factOf (some rp))).map strFact := by
  induction l with
  | nil => rfl
  | cons k ks ih =>
    simp only [List.filterMap_cons, sfactOf_factOf rp k]
    cases factOf (some rp) k with
    | none => simpa using ih
    | some f => simp [ih]

#print axioms filterMap_sfactOf
#print axioms labelAndHint_quiet

theorem group_ne_repeat : (l!"group" : Str) ≠ l!"repeat" := by decide
theorem nodeRepFacts_group (a : List (Str × Str)) (ks : List Node) :
    nodeRepFacts (.elem (l!"group") a ks) = nodeRepFactsL ks := by
  simp only [nodeRepFacts, if_neg group_ne_repeat, List.append_nil]
theorem group_ne_setvalue : (l!"group" : Str) ≠ l!"setvalue" := by decide

mutual
/-- **the document's repeats, read as nodes, say what the walk says** -/
theorem bodyNodes_repFacts (els : List Refs.Chain) : ∀ (pre : List Str) (d : DItem), ctlOk d = true →
    nodeRepFactsL (bodyNodes els pre d) = (repFacts els pre d).map strFact ∧
      ∀ r, (bodyNodes els pre d).filterMap (sfactOf r) = []
  | pre, .q d p, h => by
    simp only [ctlOk, Bool.and_eq_true, Bool.or_eq_true, Bool.not_eq_true'] at h
    simp only [bodyNodes, repFacts, List.map_nil]
    cases hc : d.control with
    | false => exact ⟨rfl, fun _ => rfl⟩
    | true =>
      have htag : controlTags.contains d.tag = true := h.1.resolve_left (by simp [hc])
      have hne : d.tag ≠ l!"setvalue" := by
        intro he; rw [he] at htag; revert htag; decide
      obtain ⟨a1, a2⟩ := labelAndHint_quiet els (pre ++ [d.name]) p.cells
      obtain ⟨b1, b2⟩ := itemsetNodes_quiet p.cells
      have hq : nodeRepFacts (pyNode d.tag ((l!"ref", xpathStr (pre ++ [d.name])) :: p.attrs)
          (labelAndHint els (pre ++ [d.name]) p.cells ++ itemsetNodes p.cells)) = [] := by
        unfold pyNode
        exact nodeRepFacts_quiet _ _ _ (by rw [nodeRepFactsL_append, a1, b1]; rfl)
          (fun r => by rw [List.filterMap_append, a2 r, b2 r]; rfl)
      refine ⟨by simp only [if_true, nodeRepFactsL, hq, List.append_nil], fun r => ?_⟩
      simp only [if_true, List.filterMap_cons, List.filterMap_nil, pyNode, sfactOf_nonset r _ _ _ hne]
  | pre, .sec .rep n b p ks, h => by
    simp only [ctlOk, Bool.and_eq_true] at h
    have hcl : cleanAttrs (Convert.subAttrs els (ctxOf els (pre ++ [n])) p.attrs) = true := by
      rw [cleanAttrs_subAttrs]; exact h.1
    obtain ⟨e1, _⟩ := head_attrs (l!"nodeset") (l!"ref") (xpathStr (pre ++ [n]))
      (Convert.subAttrs els (ctxOf els (pre ++ [n])) p.attrs) (clean_nodeset hcl) (clean_ref hcl) (by decide)
    obtain ⟨i1, i2⟩ := bodyNodesL_repFacts els (pre ++ [n]) ks h.2
    obtain ⟨l1, _⟩ := textNode_quiet els (pre ++ [n]) (l!"label") (get p.cells "label") (by decide)
    have hrep : nodeRepFacts (pyNode (l!"repeat")
        ((l!"nodeset", xpathStr (pre ++ [n])) :: subAttrs els (ctxOf els (pre ++ [n])) p.attrs)
        (bodyNodesL els (pre ++ [n]) ks ++ dynSetsL els (pre ++ [n]) ks)) =
        (repFactsL els (pre ++ [n]) ks).map strFact ++
          ((dynSetsL els (pre ++ [n]) ks).filterMap (factOf (some (pre ++ [n])))).map strFact := by
      simp only [pyNode, nodeRepFacts, if_true, e1, Option.getD_some, nodeRepFactsL_append, i1, dynSetsL_quiet,
        List.append_nil, List.filterMap_append, i2, List.nil_append, filterMap_sfactOf]
    refine ⟨?_, fun r => ?_⟩
    · simp only [bodyNodes, repFacts, List.map_append, nodeRepFactsL, List.append_nil]
      unfold pyNode at hrep ⊢
      rw [nodeRepFacts_group]
      simp only [nodeRepFactsL, List.append_nil]
      rw [hrep]
      unfold labelNode
      rw [l1]; rfl
    · simp only [bodyNodes, List.filterMap_cons, List.filterMap_nil, pyNode, sfactOf_nonset r _ _ _ group_ne_setvalue]
  | pre, .sec .group n b p ks, h => by
    simp only [ctlOk, Bool.and_eq_true] at h
    obtain ⟨i1, i2⟩ := bodyNodesL_repFacts els (pre ++ [n]) ks h.2
    obtain ⟨l1, l2⟩ := textNode_quiet els (pre ++ [n]) (l!"label") (get p.cells "label") (by decide)
    refine ⟨?_, fun r => ?_⟩
    · simp only [bodyNodes, repFacts, nodeRepFactsL, List.append_nil, pyNode, nodeRepFacts, if_neg group_ne_repeat,
        nodeRepFactsL_append, i1]
      split
      · simp only [nodeRepFactsL, labelNode, l1, List.append_nil, List.nil_append]
      · simp only [nodeRepFactsL, List.nil_append]
    · simp only [bodyNodes, List.filterMap_cons, List.filterMap_nil, pyNode, sfactOf_nonset r _ _ _ group_ne_setvalue]
  | pre, .sec .loop n b p ks, h => by
    simp only [ctlOk, Bool.and_eq_true] at h
    obtain ⟨i1, i2⟩ := bodyNodesL_repFacts els (pre ++ [n]) ks h.2
    obtain ⟨l1, l2⟩ := textNode_quiet els (pre ++ [n]) (l!"label") (get p.cells "label") (by decide)
    refine ⟨?_, fun r => ?_⟩
    · simp only [bodyNodes, repFacts, nodeRepFactsL, List.append_nil, pyNode, nodeRepFacts, if_neg group_ne_repeat,
        nodeRepFactsL_append, i1]
      split
      · simp only [nodeRepFactsL, labelNode, l1, List.append_nil, List.nil_append]
      · simp only [nodeRepFactsL, List.nil_append]
    · simp only [bodyNodes, List.filterMap_cons, List.filterMap_nil, pyNode, sfactOf_nonset r _ _ _ group_ne_setvalue]
theorem bodyNodesL_repFacts (els : List Refs.Chain) : ∀ (pre : List Str) (ds : List DItem), ctlOkL ds = true →
    nodeRepFactsL (bodyNodesL els pre ds) = (repFactsL els pre ds).map strFact ∧
      ∀ r, (bodyNodesL els pre ds).filterMap (sfactOf r) = []
  | _, [], _ => ⟨rfl, fun _ => rfl⟩
  | pre, k :: ks, h => by
    simp only [ctlOkL, Bool.and_eq_true] at h
    obtain ⟨a1, a2⟩ := bodyNodes_repFacts els pre k h.1
    obtain ⟨b1, b2⟩ := bodyNodesL_repFacts els pre ks h.2
    refine ⟨?_, fun r => ?_⟩
    · simp only [bodyNodesL, repFactsL, nodeRepFactsL_append, a1, b1, List.map_append]
    · simp only [bodyNodesL, List.filterMap_append, a2 r, b2 r, List.append_nil]
end

#print axioms bodyNodesL_repFacts

/-- the repeats' part of the walk on the trace = `Defaults.bodySetsL` of `Defaults.gen`'s body -/
theorem trace_repFacts {wb : Workbook} {doc : Node} {f : Fields} {lists : List (Str × List Choices.Choice)}
    {rows : List Cells} {drows : List ((Nat × RowK) × Pay)} {o : FormOut} {ditems : List DItem}
    (_T : Trace wb doc f lists rows drows o ditems) (sub : Defaults.Path → Str → Str) :
    repFactsL (elsOf f.name (dWithMeta f.name rows ditems)) [f.name] ditems =
      (Defaults.bodySetsL (Defaults.gen dynQ sub f.name (toDefL (dWithMeta f.name rows ditems))).body).map projFact := by
  have hcov : ∀ c ∈ Refs.chainsL [(f.name, Refs.Kind.group)] (toElL (dWithMeta f.name rows ditems)),
      c ∈ elsOf f.name (dWithMeta f.name rows ditems) := by
    intro c hc
    simp only [elsOf, Refs.El.chains, List.nil_append, List.mem_cons]
    exact Or.inr hc
  have hbody := repFactsL_body (elsOf f.name (dWithMeta f.name rows ditems)) sub
    (Defaults.pathOf (Defaults.qPaths [f.name] (toDefL (dWithMeta f.name rows ditems))))
    (Defaults.trigTable (toDefL (dWithMeta f.name rows ditems))) [(f.name, .group)]
    (dWithMeta f.name rows ditems) hcov
  have hp : Refs.Chain.path [(f.name, Refs.Kind.group)] = [f.name] := rfl
  rw [hp, repFactsL_dWithMeta] at hbody
  rw [hbody]
  rfl

/-- **C10 for the whole conversion: every setvalue of the document** (full for the setvalues' location, `ref` and
    `event`; their `value`s are `convert_c03_exprs`; the instance text of static defaults is outside).  Read from the
    document's nodes — the `<setvalue>` children of `<model>`, and at every `<repeat nodeset=r>` of `<h:body>` its
    `<setvalue>` children — the setvalues are those of `Defaults.gen` on the element tree mapped into the `Defaults`
    slice's type, whose `setFacts` are a permutation of the specification `expSets` (`C10.setvalues_exactly_once`):
    exactly one per question with a dynamic default, in the nearest enclosing repeat (`<model>` if none) with the
    matching event, none for any other element. -/
theorem convert_c10_setvalues (wb : Workbook) (doc : Node) (h : convertDoc wb = .ok doc)
    (sub : Defaults.Path → Str → Str) :
    ∃ (root : Str) (dall : List DItem) (g : Defaults.Out), g = Defaults.gen dynQ sub root (toDefL dall) ∧
      (modelKidsOf doc).filterMap (factOf none) = g.modelSets.map (fun s => projFact { loc := none, set := s }) ∧
      nodeRepFactsL (bodyKidsOf doc) = ((Defaults.bodySetsL g.body).map projFact).map strFact ∧
      Defaults.setFacts g = (g.modelSets.map fun s => { loc := none, set := s }) ++ Defaults.bodySetsL g.body ∧
      (Defaults.setFacts g).Perm (Defaults.expSets dynQ sub [root] none (toDefL dall)) := by
  obtain ⟨f, lists, rows, drows, o, ditems, T⟩ := convertDoc_trace wb doc h
  refine ⟨f.name, dWithMeta f.name rows ditems, _, rfl, ?_, ?_, rfl, C10.setvalues_exactly_once _ _ _ _⟩
  · rw [trace_c10_model T sub]; rfl
  · have hb : bodyKidsOf doc = bodyNodesL (elsOf f.name (dWithMeta f.name rows ditems)) [f.name] ditems := by
      rw [T.hdoc, bodyKidsOf_assemble]
    rw [hb, (bodyNodesL_repFacts _ [f.name] ditems T.hctl).1, trace_repFacts T sub]

#print axioms convert_c10_setvalues

/-! ## Non-vacuity -/

-- a `<repeat>` element with one setvalue child and an inner repeat: both are read, inner first
example : nodeRepFacts (.elem (l!"repeat") [(l!"nodeset", l!"/data/r")]
    [.elem (l!"input") [(l!"ref", l!"/data/r/n")] [],
     .elem (l!"setvalue") [(l!"ref", l!"/data/r/n"), (l!"value", l!"now()"), (l!"event", evNewRepeat)] []]) =
    [(l!"/data/r", l!"/data/r/n", evNewRepeat)] := by decide +kernel
-- the body `bodyNodesL` writes for `exRep`, read as nodes, carries exactly that fact
example : nodeRepFactsL (bodyNodesL (elsOf (l!"data") exRep) [l!"data"] exRep) =
    [(l!"/data/r", l!"/data/r/n", evNewRepeat)] := by decide +kernel
-- the theorem applied to the workbook whose text `ex_convert` pins
example : ∃ doc, convertDoc exWb = .ok doc ∧ ∃ root dall g, g = Defaults.gen dynQ (fun _ s => s) root (toDefL dall) ∧
    (modelKidsOf doc).filterMap (factOf none) = g.modelSets.map (fun s => projFact { loc := none, set := s }) ∧
    nodeRepFactsL (bodyKidsOf doc) = ((Defaults.bodySetsL g.body).map projFact).map strFact ∧
    Defaults.setFacts g = (g.modelSets.map fun s => { loc := none, set := s }) ++ Defaults.bodySetsL g.body ∧
    (Defaults.setFacts g).Perm (Defaults.expSets dynQ (fun _ s => s) [root] none (toDefL dall)) := by
  obtain ⟨doc, hd, -⟩ := convert_ok exWb false exText ex_convert
  exact ⟨doc, hd, convert_c10_setvalues exWb doc hd _⟩

end Pyxv.ConvertP
