import Pyxv.Proofs.C06
/-!
# C06: kernel-evaluated witnesses (what the modelled code does with instance() expressions)

Separate module: these `decide +kernel` evaluations run the whole lexer and take a minute or two.
-/
namespace Pyxv.C06
open Pyxv.Xml Pyxv.Chan

/-! ## instance() expressions: what the code does, pinned on the model (the open findings as exact witnesses)

`spec…` is what the property demands (the expression, as typed, is the value of one `output`; the text around it
is text; further references are further outputs); the theorems state what the model of the code computes
instead.  The same inputs are in the check's directed stream, where the implementation is compared. -/

/-- the element of an `.ok` outcome -/
def okNode : Outcome Node → Option Node
  | .ok n => some n
  | _ => none

def outp (v : String) : Node := outputNode v.toList
def txt (s : String) : Node := .text true s.toList

/-- a well-behaved cell: expression with a reference in its predicate, text around it, a second reference -/
theorem instance_expr_ok :
    okNode (mixedChannel exRefs "label".toList "x instance('l')/root/item[name = ${a}]/label y ${b2}".toList) =
      some (.elem "label".toList []
        [txt "x ", outp "instance('l')/root/item[name =  /data/a ]/label", txt " y ", outp " /data/g/b2 "]) := by
  rw [mixedChannel_pinned]
  decide +kernel

/-- **F15**: ` and ${a}` after the path is swallowed into the output's value (demanded:
    `[outp "instance('l')/root/item[name = 'c1']/label", txt " and ", outp " /data/a ", txt " tail"]`) -/
theorem F15_witness :
    okNode (mixedChannel exRefs "label".toList "instance('l')/root/item[name = 'c1']/label and ${a} tail".toList) =
      some (.elem "label".toList []
        [outp "instance('l')/root/item[name = 'c1']/label and  /data/a ", txt " tail"]) := by
  rw [mixedChannel_pinned]
  decide +kernel

/-- **F39**: the expression is escaped twice; the reader finds `&lt;` where `<` was typed -/
theorem F39_witness :
    okNode (mixedChannel exRefs "label".toList "x instance('l')/root/item[name < 3]/label y".toList) =
      some (.elem "label".toList []
        [txt "x ", outp "instance('l')/root/item[name &lt; 3]/label", txt " y"]) := by
  rw [mixedChannel_pinned]
  decide +kernel

/-- **F40**: a quote before the expression hides it from `find_boundaries`: no output at all -/
theorem F40_witness :
    okNode (mixedChannel exRefs "label".toList "it's instance('l')/root/item[name = 1]/label".toList) =
      some (nodeText "label".toList "it's instance('l')/root/item[name = 1]/label".toList) := by
  rw [mixedChannel_pinned]
  decide +kernel

/-- the boundaries themselves, for the F15 input: ONE expression spanning up to the end of ` /data/a`'s
    source `${a}` (positions in the escaped text) -/
theorem F15_boundaries :
    (Lexer.parseExpression "instance('l')/root/item[name = 'c1']/label and ${a} tail".toList).map
      (fun r => findBoundaries r.1) = some [(0, 51)] := by
  unfold Lexer.parseExpression
  rw [activeRules_pinned]
  decide +kernel


end Pyxv.C06
