import Pyxv.Model.Validator
/-! Helper lemmas for C18: the association-list file system, the token scan of the error cleaner. -/
namespace Pyxv.Validator

/-! ## file system -/

theorem unlink_unlink (fs : FS) (p : Path) : FS.unlink (FS.unlink fs p) p = FS.unlink fs p := by
  simp [FS.unlink, List.filter_filter]

theorem unlink_write (fs : FS) (p : Path) (c : Str) : FS.unlink (FS.write fs p c) p = FS.unlink fs p := by
  simp [FS.write, FS.unlink, List.filter_filter]

theorem read_none_iff (fs : FS) (p : Path) : FS.read fs p = none ↔ ∀ e ∈ fs, e.1 ≠ p := by
  simp [FS.read, List.find?_eq_none]

theorem unlink_fresh (fs : FS) (p : Path) (h : FS.read fs p = none) : FS.unlink fs p = fs := by
  rw [read_none_iff] at h
  simp only [FS.unlink, List.filter_eq_self]
  intro e he
  simpa using h e he

theorem read_write_same (fs : FS) (p : Path) (c : Str) : FS.read (FS.write fs p c) p = some c := by
  simp [FS.read, FS.write]

theorem read_unlink_same (fs : FS) (p : Path) : FS.read (FS.unlink fs p) p = none := by
  rw [read_none_iff]
  intro e he
  simp [FS.unlink] at he
  exact he.2

theorem read_write_other (fs : FS) (p q : Path) (c : Str) (h : q ≠ p) :
    FS.read (FS.write fs p c) q = FS.read fs q := by
  have h' : ¬ p = q := fun e => h e.symm
  simp only [FS.read, FS.write, FS.unlink, List.find?_cons, h', decide_false, List.find?_filter]
  congr 2
  funext a
  by_cases ha : a.1 = q
  · subst ha
    simp [h]
  · simp [ha]

theorem temps_write_file (fs : FS) (d n c : Str) : FS.temps (FS.write fs (.file d n) c) = FS.temps fs := by
  simp only [FS.temps, FS.write, FS.unlink, List.filter_cons, Path.isTmp, List.filter_filter]
  simp only [Bool.false_eq_true, ↓reduceIte]
  apply List.filter_congr
  intro e _
  cases h : e.1 <;> simp [Path.isTmp]

theorem temps_unlink_file (fs : FS) (d n : Str) : FS.temps (FS.unlink fs (.file d n)) = FS.temps fs := by
  simp only [FS.temps, FS.unlink, List.filter_filter]
  apply List.filter_congr
  intro e _
  cases h : e.1 <;> simp [Path.isTmp]

/-! ## dedup -/

/-- no two neighbouring lines are equal -/
def noAdjDup : List Str → Bool
  | x :: y :: rest => x ≠ y && noAdjDup (y :: rest)
  | _ => true

theorem dedupAdj_head (x : Str) (l : List Str) : ∃ t, dedupAdj (x :: l) = x :: t := by
  induction l generalizing x with
  | nil => exact ⟨[], rfl⟩
  | cons y rest ih =>
    by_cases h : x = y
    · subst h
      simpa [dedupAdj] using ih x
    · exact ⟨dedupAdj (y :: rest), by simp [dedupAdj, h]⟩

theorem dedupAdj_noAdjDup (l : List Str) : noAdjDup (dedupAdj l) = true := by
  induction l with
  | nil => rfl
  | cons x l ih =>
    cases l with
    | nil => rfl
    | cons y rest =>
      by_cases h : x = y
      · simpa [dedupAdj, h] using ih
      · obtain ⟨t, ht⟩ := dedupAdj_head y rest
        simp only [dedupAdj, h, ↓reduceIte]
        rw [ht] at ih ⊢
        simp [noAdjDup, h, ih]

theorem dedupAdj_mem (l : List Str) (a : Str) : a ∈ dedupAdj l ↔ a ∈ l := by
  induction l with
  | nil => simp [dedupAdj]
  | cons x l ih =>
    cases l with
    | nil => simp [dedupAdj]
    | cons y rest =>
      by_cases h : x = y
      · subst h
        simp only [dedupAdj, ↓reduceIte, ih]
        simp
      · simp only [dedupAdj, h, ↓reduceIte, List.mem_cons] at ih ⊢
        rw [ih]

theorem dedupAdj_sublist (l : List Str) : (dedupAdj l).Sublist l := by
  induction l with
  | nil => simp [dedupAdj]
  | cons x l ih =>
    cases l with
    | nil => simp [dedupAdj]
    | cons y rest =>
      by_cases h : x = y
      · simp only [dedupAdj, h, ↓reduceIte]
        exact List.Sublist.cons _ (by simpa [h] using ih)
      · simp only [dedupAdj, h, ↓reduceIte]
        exact List.Sublist.cons_cons _ ih

/-! ## token scan -/

theorem pushChar_not_run (c : Char) (t : List Tok) (h : isSeg c = false) :
    ∀ s r, pushChar c t ≠ .run s :: r := by
  intro s r
  unfold pushChar
  simp only [h, Bool.false_eq_true, ↓reduceIte]
  split
  · split <;> simp
  · simp

theorem toks_head_not_run (x : Str) (h : ∀ c r, x = c :: r → isSeg c = false) :
    ∀ s r, toks x ≠ .run s :: r := by
  cases x with
  | nil => intro s r; simp [toks]
  | cons c cs => exact pushChar_not_run c (toks cs) (h c cs rfl)

theorem pushChar_append (c : Char) (a b : List Tok) (hb : ∀ s r, b ≠ .run s :: r) :
    pushChar c (a ++ b) = pushChar c a ++ b := by
  cases a with
  | nil =>
    cases b with
    | nil => simp
    | cons t r =>
      cases t with
      | run s => exact absurd rfl (hb s r)
      | unit s => unfold pushChar; by_cases h1 : isSeg c = true <;> simp [h1] <;> split <;> simp
      | ch d => unfold pushChar; by_cases h1 : isSeg c = true <;> simp [h1] <;> split <;> simp
  | cons t r =>
    unfold pushChar
    cases t <;> by_cases h1 : isSeg c = true <;> simp [h1] <;> split <;> simp

theorem toks_append (pre x : Str) (h : ∀ c r, x = c :: r → isSeg c = false) :
    toks (pre ++ x) = toks pre ++ toks x := by
  induction pre with
  | nil => simp [toks]
  | cons c cs ih =>
    simp only [List.cons_append, toks, ih]
    exact pushChar_append c (toks cs) (toks x) (toks_head_not_run x h)

/-- a non-empty run of segment characters in front of tokens that do not start with a run -/
theorem toks_run (s : Str) (r : Str) (hs : s ≠ []) (hall : ∀ c ∈ s, isSeg c = true)
    (hr : ∀ s' t, toks r ≠ .run s' :: t) : toks (s ++ r) = .run s :: toks r := by
  induction s with
  | nil => exact absurd rfl hs
  | cons c cs ih =>
    have hc : isSeg c = true := hall c (by simp)
    cases cs with
    | nil =>
      simp only [List.cons_append, List.nil_append, toks, pushChar, hc, ↓reduceIte]
    | cons d ds =>
      have := ih (by simp) (fun x hx => hall x (by simp [hx]))
      simp only [List.cons_append] at this ⊢
      simp only [toks] at this ⊢
      rw [this]
      simp [pushChar, hc]

theorem toks_unit (s : Str) (r : Str) (hslash : isSeg '/' = false) (hs : s ≠ []) (hall : ∀ c ∈ s, isSeg c = true)
    (hr : ∀ s' t, toks r ≠ .run s' :: t) : toks ('/' :: s ++ r) = .unit s :: toks r := by
  have := toks_run s r hs hall hr
  simp only [List.cons_append, toks] at this ⊢
  rw [this]
  simp [pushChar, hslash]

theorem chainText_append (a b : List Str) : chainText (a ++ b) = chainText a ++ chainText b := by
  induction a with
  | nil => rfl
  | cons s rest ih => simp [chainText, ih]

theorem toks_chain (segs : List Str) (post : Str) (hslash : isSeg '/' = false)
    (hsegs : ∀ s ∈ segs, s ≠ [] ∧ ∀ c ∈ s, isSeg c = true)
    (hpost : ∀ c r, post = c :: r → isSeg c = false) :
    toks (chainText segs ++ post) = segs.map .unit ++ toks post := by
  induction segs with
  | nil => simp [chainText]
  | cons s rest ih =>
    have ih' := ih (fun x hx => hsegs x (by simp [hx]))
    have hs := hsegs s (by simp)
    have hr : ∀ s' t, toks (chainText rest ++ post) ≠ .run s' :: t := by
      rw [ih']
      cases rest with
      | nil => simpa using toks_head_not_run post hpost
      | cons x xs => intro s' t; simp
    have := toks_unit s (chainText rest ++ post) hslash hs.1 hs.2 hr
    simp only [chainText, List.cons_append, List.append_assoc, List.map_cons] at this ⊢
    rw [this, ih']

/-! ## rendering -/

def accOf (ts : List Tok) : Acc := ts.foldr stepTok ⟨[], []⟩

theorem foldr_out (ts : List Tok) (o : Str) :
    ts.foldr stepTok ⟨[], o⟩ = ⟨(accOf ts).chain, (accOf ts).out ++ o⟩ := by
  induction ts with
  | nil => simp [accOf]
  | cons t rest ih =>
    simp only [List.foldr_cons, accOf] at ih ⊢
    rw [ih]
    cases t <;> simp [stepTok, List.append_assoc]

theorem foldr_units (segs : List Str) (a : Acc) :
    (segs.map Tok.unit).foldr stepTok a = ⟨segs ++ a.chain, a.out⟩ := by
  induction segs with
  | nil => simp
  | cons s rest ih => simp [List.foldr_cons, ih, stepTok]

theorem accOf_chain_nil_of_ch (c : Char) (r : List Tok) : (accOf (.ch c :: r)).chain = [] := by
  simp [accOf, stepTok]

theorem renderToks_eq_out_of_ch (c : Char) (r : List Tok) : renderToks (.ch c :: r) = (accOf (.ch c :: r)).out := by
  simp [renderToks, accOf, stepTok, flush, chainText]

theorem renderToks_def (ts : List Tok) : renderToks ts = flush (accOf ts).chain ++ (accOf ts).out := rfl

/-- rendering of `A ++ units ++ P` when `A` is empty or ends in a `ch` token and `P` is empty or starts with one -/
theorem renderToks_chain (a p : List Tok) (segs : List Str)
    (ha : a = [] ∨ ∃ a' c, a = a' ++ [.ch c])
    (hp : p = [] ∨ ∃ c r, p = .ch c :: r) :
    renderToks (a ++ segs.map .unit ++ p) = renderToks a ++ flush segs ++ renderToks p := by
  have hP : p.foldr stepTok ⟨[], []⟩ = ⟨[], renderToks p⟩ := by
    rcases hp with rfl | ⟨c, r, rfl⟩
    · simp [renderToks, flush, chainText]
    · simp [renderToks, stepTok, flush, chainText]
  have hMP : (segs.map Tok.unit ++ p).foldr stepTok ⟨[], []⟩ = ⟨segs, renderToks p⟩ := by
    rw [List.foldr_append, hP, foldr_units]; simp
  rcases ha with rfl | ⟨a', c, rfl⟩
  · have hacc : accOf ([] ++ segs.map Tok.unit ++ p) = ⟨segs, renderToks p⟩ := by
      simpa [accOf] using hMP
    rw [renderToks_def, hacc]
    simp [renderToks_def, accOf, flush, chainText]
  · have hacc : accOf (a' ++ [Tok.ch c] ++ segs.map Tok.unit ++ p)
        = ⟨(accOf a').chain, (accOf a').out ++ c :: (flush segs ++ renderToks p)⟩ := by
      have e : a' ++ [Tok.ch c] ++ segs.map Tok.unit ++ p = a' ++ (Tok.ch c :: (segs.map Tok.unit ++ p)) := by simp
      rw [e, accOf, List.foldr_append, List.foldr_cons, hMP]
      simp only [stepTok]
      exact foldr_out _ _
    have hacc2 : accOf (a' ++ [Tok.ch c]) = ⟨(accOf a').chain, (accOf a').out ++ [c]⟩ := by
      rw [accOf, List.foldr_append]
      simp only [List.foldr_cons, List.foldr_nil, stepTok, flush, chainText, List.nil_append]
      exact foldr_out _ _
    rw [renderToks_def, hacc, renderToks_def (a' ++ [Tok.ch c]), hacc2]
    simp [List.append_assoc]

end Pyxv.Validator
