import Pyxv.Proofs.C07Rows
/-!
# C07 from the sheets, general form

`C07Rows.refs_exist_rows_partial` covered the one-level text columns of a flat form.  Here the composition with
the header layer (C08) is complete for everything the itext model reads from a row:

* text columns `label` / `hint` / `guidance_hint` (C08 `row_grouping`, `colFold_eq_colVal`, `flat_colVal`);
* **media** columns `media::<type>[::language]` and **bind message** columns `bind::<key>[::language]`
  (C08 `group_colFold`): the group column is `None` or a dict with unique keys none of whose values is `None`
  (`groupInv_colFold`), and each key holds a flat value;
* **nested sections** (groups / repeats, any depth), **selects wired to their lists**, any number of lists.

`refs_exist_rows`: every row meets C08's hypotheses (`RowOkG`) ⟹ `process_row` accepts all rows and the survey
built from the grouped rows satisfies all of C07 (`refs_exist`, `holds`).  No hypothesis about the built survey.
-/
namespace Pyxv.C07Sheets
open Pyxv Pyxv.Headers Pyxv.C08 Pyxv.Itext Pyxv.C07Rows

/-! ### group columns (`media`, `bind`) -/

theorem merge_ne_none (dk : Str) (a w : V) (hw : w.falsy = false) : merge dk a w ≠ .none := by
  cases w with
  | none => simp [V.falsy] at hw
  | str t =>
    have ht : t ≠ [] := by intro h; subst h; simp [V.falsy] at hw
    cases a with
    | none => simp [merge]
    | str s =>
      by_cases hs : s.isEmpty = true
      · simp [merge, hs]
      · simp [merge, hs, hw]
    | dict ka =>
      cases ka with
      | nil => simp [merge]
      | cons k v rest =>
        simp only [merge, hw]
        by_cases h : (Kvs.cons k v rest).has dk = true <;> simp [h]
  | dict kb =>
    have hk : kb ≠ .nil := by intro h; subst h; simp [V.falsy] at hw
    cases a with
    | none => simp [merge]
    | str s =>
      by_cases hs : s.isEmpty = true
      · simp [merge, hs]
      · simp only [merge, hs, hw]
        by_cases h : kb.has dk = true <;> simp [h]
    | dict ka =>
      cases ka with
      | nil => simp [merge]
      | cons k v rest => simp [merge, hw]

/-- a group column value: nothing, or a dict with unique keys none of which holds `None` -/
def GroupInv : V → Prop
  | .none => True
  | .str _ => False
  | .dict M => M.keys.Nodup ∧ ∀ k, M.has k = true → M.get k ≠ .none

theorem groupInv_step (dk : Str) (acc : V) (a : Str) (w : V) (hw : w.falsy = false) (h : GroupInv acc) :
    GroupInv (merge dk acc (.dict (.cons a w .nil))) := by
  have hwn : w ≠ .none := by intro e; subst e; simp [V.falsy] at hw
  cases acc with
  | none =>
    rw [merge_none_left]
    refine ⟨by simp [Kvs.keys], ?_⟩
    intro k hk
    have : k = a := by simpa [Kvs.has] using hk
    subst this
    simpa [Kvs.get] using hwn
  | str s => exact absurd h (by simp [GroupInv])
  | dict m =>
    rw [merge_dict_single]
    refine ⟨mergeTop_keys_nodup dk m a w h.1, ?_⟩
    intro k hk
    rw [mergeTop_get]
    by_cases hka : k = a
    · simp only [hka, if_true]
      exact merge_ne_none dk _ w hw
    · simp only [hka, if_false]
      rw [mergeTop_has] at hk
      have : m.has k = true := by simpa [hka] using hk
      exact h.2 k this

theorem groupInv_colFold (dk : Str) (hk : List (Str × List Str)) (g : Str) : ∀ (row : List (Str × Str)) (acc : V),
    GroupInv acc → (∀ c ∈ row, c.2 ≠ []) →
    (∀ c ∈ row, ∀ t ts, lookup c.1 hk = some (t :: ts) → g = t → 1 ≤ ts.length ∧ ts.length ≤ 2) →
    GroupInv (colFold dk hk g acc row)
  | [], acc, h, _, _ => by simpa [colFold] using h
  | (hd, v) :: rest, acc, h, hne, hyp => by
    have hv : v ≠ [] := hne (hd, v) (by simp)
    have hne' : ∀ c ∈ rest, c.2 ≠ [] := fun c hc => hne c (by simp [hc])
    have hyp' : ∀ c ∈ rest, ∀ t ts, lookup c.1 hk = some (t :: ts) → g = t → 1 ≤ ts.length ∧ ts.length ≤ 2 :=
      fun c hc => hyp c (by simp [hc])
    have ih := fun acc' ha => groupInv_colFold dk hk g rest acc' ha hne' hyp'
    cases hl : lookup hd hk with
    | none => simpa [colFold, hl] using ih acc h
    | some toks =>
      match toks, hl with
      | [], hl => simpa [colFold, hl] using ih acc h
      | [t], hl =>
        by_cases hq : g = t
        · have := (hyp (hd, v) (by simp) t [] hl hq).1
          simp at this
        · simpa [colFold, hl, hq] using ih acc h
      | [t, a], hl =>
        by_cases hq : g = t
        · subst hq
          simp only [colFold, hl, if_true, nest]
          exact ih _ (groupInv_step dk acc a (.str v) (by cases v <;> simp_all [V.falsy]) h)
        · simpa [colFold, hl, hq] using ih acc h
      | [t, a, l], hl =>
        by_cases hq : g = t
        · subst hq
          simp only [colFold, hl, if_true, nest]
          exact ih _ (groupInv_step dk acc a (.dict (.cons l (.str v) .nil)) (by simp [V.falsy]) h)
        · simpa [colFold, hl, hq] using ih acc h
      | t :: a :: b :: c :: ts, hl =>
        by_cases hq : g = t
        · have := (hyp (hd, v) (by simp) t (a :: b :: c :: ts) hl hq).2
          simp at this
        · simpa [colFold, hl, hq] using ih acc h

theorem subCells_texts (hk : List (Str × List Str)) (g k : Str) : ∀ (row : List (Str × Str)),
    (∀ c ∈ row, c.2 ≠ []) → ∀ d ∈ subCells hk g k row, d.2 ≠ []
  | [], _ => by simp [subCells]
  | (h, v) :: rest, hne => by
    have ih := subCells_texts hk g k rest (fun c hc => hne c (by simp [hc]))
    have hv : v ≠ [] := hne (h, v) (by simp)
    intro d hd
    unfold subCells at hd
    split at hd
    · split at hd
      · rcases List.mem_cons.mp hd with rfl | hd
        · exact hv
        · exact ih d hd
      · exact ih d hd
    · split at hd
      · rcases List.mem_cons.mp hd with rfl | hd
        · exact hv
        · exact ih d hd
      · exact ih d hd
    · exact ih d hd

def groupCols : List Str := ["media".toList, "bind".toList]

/-- C08's hypotheses for a whole row: the text columns as in `RowOk`, and for the group columns `media` and
`bind` one or two more tokens per header and distinct headers per sub-column -/
structure RowOkG (dk : Str) (hk : List (Str × List Str)) (row : List (Str × Str)) : Prop where
  text : RowOk dk hk textCols row
  groupShape : ∀ g ∈ groupCols, ∀ c ∈ row, ∀ t ts, lookup c.1 hk = some (t :: ts) → g = t → 1 ≤ ts.length ∧ ts.length ≤ 2
  groupDistinct : ∀ g ∈ groupCols, ∀ k, ((subCells hk g k row).map (·.1)).Nodup

/-- **header layer, whole row**: `process_row` succeeds; text columns are flat; group columns satisfy `GroupInv`
and each of their keys holds a flat value -/
theorem processRow_good {dk : Str} {hk : List (Str × List Str)} {row : List (Str × Str)} (h : RowOkG dk hk row) :
    ∃ out, processRow dk hk row = .ok out ∧ (∀ q ∈ textCols, Flat (out.get q)) ∧
      ∀ g ∈ groupCols, GroupInv (out.get g) ∧ ∀ k, Flat (getK (out.get g) k) := by
  obtain ⟨out, hout, hget⟩ := row_grouping dk hk row .nil h.text.headers h.text.noClash
  refine ⟨out, hout, ?_, ?_⟩
  · intro q hq
    rw [hget q, colFold_eq_colVal dk hk q row _ (h.text.oneLevel q hq)]
    exact flat_colVal dk _ _ (by simpa [Kvs.get] using Flat.none) (colCells_texts hk q row h.text.nonEmpty)
      (h.text.distinct q hq) (by intro hs; simp [Kvs.get, isStrV] at hs)
  · intro g hg
    rw [hget g]
    have hnone : Kvs.nil.get g = .none := rfl
    rw [hnone]
    refine ⟨groupInv_colFold dk hk g row .none trivial h.text.nonEmpty (h.groupShape g hg), ?_⟩
    intro k
    rw [group_colFold dk hk g k row .none trivial (h.groupShape g hg)]
    exact flat_colVal dk _ _ (by simpa [getK] using Flat.none) (subCells_texts hk g k row h.text.nonEmpty)
      (h.groupDistinct g hg k) (by intro hs; simp [getK, isStrV] at hs)

/-! ### from grouped rows to elements -/

/-- the `media` dict of a grouped row as the builder hands it to the element -/
def mediaOfV : V → Option Media
  | .dict M => some (M.keys.map fun k => (k, txtOfV (M.get k)))
  | _ => none

/-- the message entries of the `bind` dict, in dict order -/
def msgsOfV : V → List (Str × Txt)
  | .dict M => (M.keys.filter fun k => msgKeys.contains k).map fun k => (k, txtOfV (M.get k))
  | _ => []

theorem txtOfV_ne_none {v : V} (h : v ≠ .none) : txtOfV v ≠ .none := by
  cases v with
  | none => exact absurd rfl h
  | str s => simp [txtOfV]
  | dict m => simp [txtOfV]

theorem mediaOfV_wf {v : V} (hi : GroupInv v) (hf : ∀ k, Flat (getK v k)) : mediaWf (mediaOfV v) = true := by
  cases v with
  | none => rfl
  | str s => rfl
  | dict M =>
    simp only [mediaOfV, mediaWf, List.all_eq_true, List.mem_map, Bool.and_eq_true, bne_iff_ne, ne_eq]
    rintro kv ⟨k, hk, rfl⟩
    have hhas : M.has k = true := (Kvs.has_iff_mem_keys M k).mpr hk
    exact ⟨txtOfV_ne_none (hi.2 k hhas), txtOfV_wf (by simpa [getK] using hf k)⟩

theorem msgsOfV_wf {v : V} (hi : GroupInv v) (hf : ∀ k, Flat (getK v k)) :
    nodupB (keys (msgsOfV v)) = true ∧ ∀ kv ∈ msgsOfV v, msgKeys.contains kv.1 = true ∧ kv.2.wf = true := by
  cases v with
  | none => exact ⟨rfl, by simp [msgsOfV]⟩
  | str s => exact ⟨rfl, by simp [msgsOfV]⟩
  | dict M =>
    constructor
    · rw [nodupB_iff]
      have : keys (msgsOfV (.dict M)) = M.keys.filter fun k => msgKeys.contains k := by
        simp [msgsOfV, keys, List.map_map, Function.comp_def]
      rw [this]
      exact List.Nodup.sublist List.filter_sublist hi.1
    · intro kv hkv
      simp only [msgsOfV, List.mem_map, List.mem_filter] at hkv
      obtain ⟨k, ⟨_, hk⟩, rfl⟩ := hkv
      exact ⟨hk, txtOfV_wf (by simpa [getK] using hf k)⟩

/-- what a row is: a question with a body control, a select wired to a list, a group or a repeat -/
inductive Kind where
  | control
  | select (list : Str)
  | group
  | repeat

def Kind.cls : Kind → Cls
  | .control => .control
  | .select _ => .select
  | .group => .group
  | .repeat => .repeat

/-- the element the builder makes of a grouped row (all translatable slots; selects wired to their list) -/
def rowElemK (kind : Kind) (name : Str) (out : Kvs) : ElemD :=
  { cls := kind.cls, name := name, type := "text".toList
    label := txtOfV (out.get "label".toList), hint := txtOfV (out.get "hint".toList)
    guidance := (match kind with | .group => .none | .repeat => .none | _ => txtOfV (out.get "guidance_hint".toList))
    media := mediaOfV (out.get "media".toList), msgs := msgsOfV (out.get "bind".toList)
    hasCalc := false, trigger := false, bodyless := false, flat := false, appearance := none
    itemset := (match kind with | .select l => some l | _ => none)
    list := (match kind with | .select l => l | _ => [])
    hasChoices := (match kind with | .select _ => true | _ => false) }

/-- a good grouped row: what `processRow_good` establishes -/
def GoodOut (out : Kvs) : Prop :=
  (∀ q ∈ textCols, Flat (out.get q)) ∧ ∀ g ∈ groupCols, GroupInv (out.get g) ∧ ∀ k, Flat (getK (out.get g) k)

theorem elemWf_rowElemK (kind : Kind) (name : Str) {out : Kvs} (h : GoodOut out) :
    elemWf (rowElemK kind name out) = true := by
  have h1 := txtOfV_wf (h.1 "label".toList (by simp [textCols]))
  have h2 := txtOfV_wf (h.1 "hint".toList (by simp [textCols]))
  have h3 : (rowElemK kind name out).guidance.wf = true := by
    cases kind <;> first | rfl | exact txtOfV_wf (h.1 "guidance_hint".toList (by simp [textCols]))
  obtain ⟨hm1, hm2⟩ := h.2 "media".toList (by simp [groupCols])
  obtain ⟨hb1, hb2⟩ := h.2 "bind".toList (by simp [groupCols])
  have h4 := mediaOfV_wf hm1 hm2
  obtain ⟨h5, h6⟩ := msgsOfV_wf hb1 hb2
  simp only [elemWf, Bool.and_eq_true, List.all_eq_true]
  exact ⟨⟨⟨⟨⟨h1, h2⟩, h3⟩, h4⟩, h5⟩, fun kv hkv => by
    have := h6 kv hkv
    rw [this.1, this.2]; exact ⟨rfl, rfl⟩⟩

/-- the survey sheet as a tree of grouped rows (sections nest) -/
inductive RowTree where
  | node (kind : Kind) (name : Str) (out : Kvs) (kids : List RowTree)

mutual
def elemOfTree : RowTree → Elem
  | .node k n o kids => .node (rowElemK k n o) (elemsOfTrees kids)
def elemsOfTrees : List RowTree → List Elem
  | [] => []
  | t :: ts => elemOfTree t :: elemsOfTrees ts
end

mutual
def GoodTree : RowTree → Prop
  | .node _ _ o kids => GoodOut o ∧ GoodTrees kids
def GoodTrees : List RowTree → Prop
  | [] => True
  | t :: ts => GoodTree t ∧ GoodTrees ts
end

mutual
theorem wf_flatten (pre : Str) (hid : Bool) : ∀ (t : RowTree), GoodTree t →
    ∀ f ∈ flatten pre hid (elemOfTree t), elemWf f.d = true
  | .node k n o kids, hg, f, hf => by
    simp only [elemOfTree, flatten, List.mem_cons, List.mem_append] at hf
    simp only [GoodTree] at hg
    rcases hf with rfl | hf | hf
    · exact elemWf_rowElemK k n hg.1
    · simp [tagFlats, rowElemK] at hf
    · exact wf_flattenL _ _ kids hg.2 f hf
theorem wf_flattenL (pre : Str) (hid : Bool) : ∀ (ts : List RowTree), GoodTrees ts →
    ∀ f ∈ flattenL pre hid (elemsOfTrees ts), elemWf f.d = true
  | [], _, f, hf => by simp [elemsOfTrees, flattenL] at hf
  | t :: ts, hg, f, hf => by
    simp only [elemsOfTrees, flattenL, List.mem_append] at hf
    simp only [GoodTrees] at hg
    rcases hf with hf | hf
    · exact wf_flatten pre hid t hg.1 f hf
    · exact wf_flattenL pre hid ts hg.2 f hf
end

/-- choice rows: label and media columns -/
def optOf (o : Kvs) : Opt := { label := txtOfV (o.get "label".toList), media := mediaOfV (o.get "media".toList) }

def listOfG (name : Str) (outs : List Kvs) : CList := { name := name, options := outs.map optOf }

/-- the survey of a form: the tree of survey rows and the choice lists, all as grouped rows -/
def treeSurvey (dl : Str) (trees : List RowTree) (ls : List (Str × List Kvs)) : Survey :=
  { defaultLanguage := dl
    lists := ls.map fun l => listOfG l.1 l.2
    root := .node rootD0 (elemsOfTrees trees) }

/-- **`wf` is a theorem about the sheets**: for any nesting, any selects and lists -/
theorem wf_treeSurvey (dl : Str) (trees : List RowTree) (ls : List (Str × List Kvs))
    (ht : GoodTrees trees) (hl : ∀ l ∈ ls, ∀ o ∈ l.2, GoodOut o) : wf (treeSurvey dl trees ls) = true := by
  simp only [wf, Bool.and_eq_true, List.all_eq_true]
  constructor
  · intro f hf
    exact wf_flattenL _ _ trees ht f (by simpa [flats, treeSurvey, rootD, rootKids] using hf)
  · intro l hlm o ho
    simp only [treeSurvey, List.mem_map] at hlm
    obtain ⟨l0, hl0, rfl⟩ := hlm
    simp only [listOfG, List.mem_map] at ho
    obtain ⟨o0, ho0, rfl⟩ := ho
    have hg := hl l0 hl0 o0 ho0
    obtain ⟨hm1, hm2⟩ := hg.2 "media".toList (by simp [groupCols])
    simp only [optWf, optOf, Bool.and_eq_true]
    exact ⟨txtOfV_wf (hg.1 "label".toList (by simp [textCols])), mediaOfV_wf hm1 hm2⟩

/-! ### the rows as typed -/

/-- survey rows as typed, nested: (kind, name, cells in column order, rows inside the section) -/
inductive RawTree where
  | node (kind : Kind) (name : Str) (row : List (Str × Str)) (kids : List RawTree)

mutual
def RawOk (dk : Str) (hk : List (Str × List Str)) : RawTree → Prop
  | .node _ _ row kids => RowOkG dk hk row ∧ RawsOk dk hk kids
def RawsOk (dk : Str) (hk : List (Str × List Str)) : List RawTree → Prop
  | [] => True
  | t :: ts => RawOk dk hk t ∧ RawsOk dk hk ts
end

mutual
/-- `process_row` on every row of the tree -/
def groupTree (dk : Str) (hk : List (Str × List Str)) : RawTree → Except Err RowTree
  | .node k n row kids =>
    match processRow dk hk row with
    | .error e => .error e
    | .ok o =>
      match groupTrees dk hk kids with
      | .error e => .error e
      | .ok ks => .ok (.node k n o ks)
def groupTrees (dk : Str) (hk : List (Str × List Str)) : List RawTree → Except Err (List RowTree)
  | [] => .ok []
  | t :: ts =>
    match groupTree dk hk t with
    | .error e => .error e
    | .ok g =>
      match groupTrees dk hk ts with
      | .error e => .error e
      | .ok gs => .ok (g :: gs)
end

mutual
theorem groupTree_good (dk : Str) (hk : List (Str × List Str)) : ∀ (t : RawTree), RawOk dk hk t →
    ∃ g, groupTree dk hk t = .ok g ∧ GoodTree g
  | .node k n row kids, h => by
    simp only [RawOk] at h
    obtain ⟨o, ho, hg⟩ := processRow_good h.1
    obtain ⟨ks, hks, hgk⟩ := groupTrees_good dk hk kids h.2
    exact ⟨.node k n o ks, by simp [groupTree, ho, hks], by simp only [GoodTree]; exact ⟨hg, hgk⟩⟩
theorem groupTrees_good (dk : Str) (hk : List (Str × List Str)) : ∀ (ts : List RawTree), RawsOk dk hk ts →
    ∃ gs, groupTrees dk hk ts = .ok gs ∧ GoodTrees gs
  | [], _ => ⟨[], rfl, trivial⟩
  | t :: ts, h => by
    simp only [RawsOk] at h
    obtain ⟨g, hg, hgg⟩ := groupTree_good dk hk t h.1
    obtain ⟨gs, hgs, hggs⟩ := groupTrees_good dk hk ts h.2
    exact ⟨g :: gs, by simp [groupTrees, hg, hgs], by simp only [GoodTrees]; exact ⟨hgg, hggs⟩⟩
end

theorem processRows_good {dk : Str} {hk : List (Str × List Str)} :
    ∀ (rows : List (List (Str × Str))), (∀ r ∈ rows, RowOkG dk hk r) →
    ∃ outs, processRows dk hk rows = .ok outs ∧ ∀ o ∈ outs, GoodOut o
  | [], _ => ⟨[], rfl, by simp⟩
  | r :: rs, h => by
    obtain ⟨o, ho, hf⟩ := processRow_good (h r (by simp))
    obtain ⟨os, hos, hfs⟩ := processRows_good rs (fun r' hr' => h r' (by simp [hr']))
    refine ⟨o :: os, by simp [processRows, ho, hos], ?_⟩
    intro o' ho'
    rcases List.mem_cons.mp ho' with rfl | ho'
    · exact hf
    · exact hfs o' ho'

/-- all choice lists through `process_row` -/
def groupLists (dk : Str) (hk : List (Str × List Str)) : List (Str × List (List (Str × Str))) → Except Err (List (Str × List Kvs))
  | [] => .ok []
  | (n, rows) :: rest =>
    match processRows dk hk rows with
    | .error e => .error e
    | .ok os =>
      match groupLists dk hk rest with
      | .error e => .error e
      | .ok ls => .ok ((n, os) :: ls)

theorem groupLists_good {dk : Str} {hk : List (Str × List Str)} :
    ∀ (ls : List (Str × List (List (Str × Str)))), (∀ l ∈ ls, ∀ r ∈ l.2, RowOkG dk hk r) →
    ∃ gs, groupLists dk hk ls = .ok gs ∧ ∀ l ∈ gs, ∀ o ∈ l.2, GoodOut o
  | [], _ => ⟨[], rfl, by simp⟩
  | (n, rows) :: rest, h => by
    obtain ⟨os, hos, hgo⟩ := processRows_good rows (h (n, rows) (by simp))
    obtain ⟨gs, hgs, hgg⟩ := groupLists_good rest (fun l hl => h l (by simp [hl]))
    refine ⟨(n, os) :: gs, by simp [groupLists, hos, hgs], ?_⟩
    intro l hl
    rcases List.mem_cons.mp hl with rfl | hl
    · exact hgo
    · exact hgg l hl

/-- **C07 from the sheets.**  The survey sheet as typed — rows nested in groups and repeats to any depth, questions
and selects wired to their lists, every row with `label` / `hint` / `guidance_hint` / media / bind-message cells in
any number of languages and any column order — and any number of choice lists with `label` and media cells.  If every
row meets C08's hypotheses (`RowOkG`: headers resolve, no clashing duplicate column, non-empty cells, distinct
headers per column), then `process_row` accepts all rows, and for the survey built from the grouped rows every
`jr:itext` reference in the body and in bind messages and every `itextId` names a text present in every translation;
the whole oracle predicate `Itext.holds` (uniform ids, no duplicates, default mark) is true.
No hypothesis about the built survey remains. -/
theorem refs_exist_rows (dl : Str) (hkS hkC : List (Str × List Str)) (trees : List RawTree)
    (lists : List (Str × List (List (Str × Str))))
    (hs : RawsOk dl hkS trees) (hc : ∀ l ∈ lists, ∀ r ∈ l.2, RowOkG dl hkC r) :
    ∃ gt gl, groupTrees dl hkS trees = .ok gt ∧ groupLists dl hkC lists = .ok gl ∧
      let x := treeSurvey dl gt gl
      (∀ r ∈ C07.refs x, (out x).translations ≠ [] ∧ ∀ t ∈ (out x).translations, r ∈ t.ids) ∧
      holds (obsOf x.defaultLanguage (out x)) = true := by
  obtain ⟨gt, hgt, hgood⟩ := groupTrees_good dl hkS trees hs
  obtain ⟨gl, hgl, hlgood⟩ := groupLists_good lists hc
  have hw := wf_treeSurvey dl gt gl hgood hlgood
  exact ⟨gt, gl, hgt, hgl, C07.refs_exist _ hw, C07.holds_out _ hw⟩

/-! ### `RowOkG` as a decidable check, and non-vacuity -/

/-- second tokens of the two- and three-token headers -/
def subKeys (hk : List (Str × List Str)) : List Str :=
  hk.filterMap fun p => match p.2 with
    | [_, a] => some a
    | [_, a, _] => some a
    | _ => none

theorem subCells_nil (hk : List (Str × List Str)) (g k : Str) (hkk : k ∉ subKeys hk) :
    ∀ (row : List (Str × Str)), subCells hk g k row = []
  | [] => rfl
  | (h, v) :: rest => by
    have ih := subCells_nil hk g k hkk rest
    unfold subCells
    split
    next t a hl =>
      have hm : a ∈ subKeys hk := List.mem_filterMap.mpr ⟨(h, [t, a]), mem_of_lookup hl, rfl⟩
      have : ¬ (g = t ∧ k = a) := fun hh => hkk (hh.2 ▸ hm)
      simp [this, ih]
    next t a l hl =>
      have hm : a ∈ subKeys hk := List.mem_filterMap.mpr ⟨(h, [t, a, l]), mem_of_lookup hl, rfl⟩
      have : ¬ (g = t ∧ k = a) := fun hh => hkk (hh.2 ▸ hm)
      simp [this, ih]
    next => exact ih

def rowOkGB (dk : Str) (hk : List (Str × List Str)) (row : List (Str × Str)) : Bool :=
  rowOkB dk hk textCols row &&
  (groupCols.all fun g => row.all fun c =>
    match lookup c.1 hk with
    | some (t :: ts) => g != t || (decide (1 ≤ ts.length) && decide (ts.length ≤ 2))
    | _ => true) &&
  (groupCols.all fun g => (subKeys hk).all fun k => decide ((subCells hk g k row).map (·.1)).Nodup)

theorem rowOkGB_sound {dk : Str} {hk : List (Str × List Str)} {row : List (Str × Str)}
    (h : rowOkGB dk hk row = true) : RowOkG dk hk row := by
  simp only [rowOkGB, Bool.and_eq_true, List.all_eq_true] at h
  obtain ⟨⟨h1, h2⟩, h3⟩ := h
  refine ⟨rowOkB_sound h1, ?_, ?_⟩
  · intro g hg c hc t ts hl hgt
    have := h2 g hg c hc
    rw [hl] at this
    simp only [Bool.or_eq_true, bne_iff_ne, ne_eq, Bool.and_eq_true, decide_eq_true_eq] at this
    rcases this with h' | h'
    · exact absurd hgt h'
    · exact h'
  · intro g hg k
    by_cases hk' : k ∈ subKeys hk
    · simpa using h3 g hg k hk'
    · rw [subCells_nil hk g k hk' row]; simp

def hkG : List (Str × List Str) :=
  [("label::fr".toList, ["label".toList, "fr".toList]), ("label".toList, ["label".toList]),
   ("label::en".toList, ["label".toList, "en".toList]),
   ("hint::en".toList, ["hint".toList, "en".toList]), ("guidance_hint".toList, ["guidance_hint".toList]),
   ("image::fr".toList, ["media".toList, "image".toList, "fr".toList]),
   ("audio".toList, ["media".toList, "audio".toList]),
   ("constraint_message::en".toList, ["bind".toList, "jr:constraintMsg".toList, "en".toList]),
   ("constraint".toList, ["bind".toList, "constraint".toList]),
   ("required_message".toList, ["bind".toList, "jr:requiredMsg".toList])]

/-- a group with a translated label and an image in French only, containing a question with a translated
constraint message and a `${}` required message, and a select wired to list `yn` with audio -/
def treesG : List RawTree :=
  [.node .group "g".toList [("label::fr".toList, "Gf".toList), ("image::fr".toList, "g.png".toList)]
     [.node .control "a".toList
        [("label::fr".toList, "Qfr".toList), ("label".toList, "Q".toList), ("hint::en".toList, "h".toList),
         ("guidance_hint".toList, "gd".toList), ("constraint".toList, ". > 0".toList),
         ("constraint_message::en".toList, "positive".toList), ("required_message".toList, "need ${b}".toList)] [],
      .node (.select "yn".toList) "b".toList [("label".toList, "B".toList), ("audio".toList, "b.mp3".toList)] []]]

def listsG : List (Str × List (List (Str × Str))) :=
  [("yn".toList, [[("label::fr".toList, "Oui".toList), ("label::en".toList, "Yes".toList)],
                  [("label::en".toList, "No".toList), ("image::fr".toList, "n.png".toList)]])]

mutual
def rawOkB (dk : Str) (hk : List (Str × List Str)) : RawTree → Bool
  | .node _ _ row kids => rowOkGB dk hk row && rawsOkB dk hk kids
def rawsOkB (dk : Str) (hk : List (Str × List Str)) : List RawTree → Bool
  | [] => true
  | t :: ts => rawOkB dk hk t && rawsOkB dk hk ts
end

mutual
theorem rawOkB_sound (dk : Str) (hk : List (Str × List Str)) : ∀ (t : RawTree), rawOkB dk hk t = true → RawOk dk hk t
  | .node _ _ row kids, h => by
    simp only [rawOkB, Bool.and_eq_true] at h
    simp only [RawOk]
    exact ⟨rowOkGB_sound h.1, rawsOkB_sound dk hk kids h.2⟩
theorem rawsOkB_sound (dk : Str) (hk : List (Str × List Str)) : ∀ (ts : List RawTree), rawsOkB dk hk ts = true → RawsOk dk hk ts
  | [], _ => trivial
  | t :: ts, h => by
    simp only [rawsOkB, Bool.and_eq_true] at h
    simp only [RawsOk]
    exact ⟨rawOkB_sound dk hk t h.1, rawsOkB_sound dk hk ts h.2⟩
end

/-- the hypotheses of `refs_exist_rows` hold for these sheets and its conclusion is not vacuous: 8 references
(group label; label, hint and two bind messages of `a`; label of `b`; two itextIds) over 3 translations -/
example :
    (rawsOkB "default".toList hkG treesG && listsG.all fun l => l.2.all (rowOkGB "default".toList hkG)) = true ∧
    (match groupTrees "default".toList hkG treesG, groupLists "default".toList hkG listsG with
     | .ok gt, .ok gl =>
       let x := treeSurvey "default".toList gt gl
       (C07.refs x).length == 8 && (out x).translations.length == 3 &&
       (C07.refs x).contains "/data/g/a:jr:requiredMsg".toList && (C07.refs x).contains "/data/g:label".toList
     | _, _ => false) = true := by decide +kernel

end Pyxv.C07Sheets
