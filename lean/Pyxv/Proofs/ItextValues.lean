import Pyxv.Proofs.ItextLemmas
/-!
# Value level of the translation table

`valueAt T lang id form` = `_translations[lang][id][form]`.  Last write wins (`ins` overwrites in place),
padding never overwrites (`pad` only adds missing keys with `-`), and nothing else ever appears in the table:
every value is the padding `-` or a text written for exactly that language, id and form.
-/
namespace Pyxv.Itext
open Pyxv

def valueAt (T : Table) (l p f : Str) : Option Str :=
  (lookup l T).bind fun ps => (lookup p ps).bind fun fs => lookup f fs

theorem valueAt_ins (T : Table) (e : Ent) (l p f : Str) :
    valueAt (ins T e) l p f =
      if l = e.lang ∧ p = e.path ∧ f = e.form then some e.text else valueAt T l p f := by
  unfold valueAt ins
  by_cases hl : l = e.lang
  · by_cases hp : p = e.path
    · by_cases hf : f = e.form
      · simp [lookup_upd, hl, hp, hf]
      · cases h1 : lookup e.lang T with
        | none => simp [lookup_upd, hl, hp, hf, h1, lookup]
        | some ps =>
          cases h2 : lookup e.path ps with
          | none => simp [lookup_upd, hl, hp, hf, h1, h2, lookup]
          | some fs => simp [lookup_upd, hl, hp, hf, h1, h2]
    · cases h1 : lookup e.lang T with
      | none => simp [lookup_upd, hl, hp, h1, lookup]
      | some ps => simp [lookup_upd, hl, hp, h1]
  · simp [lookup_upd, hl]

def sameKey (a b : Ent) : Prop := a.lang = b.lang ∧ a.path = b.path ∧ a.form = b.form

theorem valueAt_foldl_other (es : List Ent) (T : Table) (l p f : Str)
    (h : ∀ e ∈ es, ¬ (l = e.lang ∧ p = e.path ∧ f = e.form)) :
    valueAt (es.foldl ins T) l p f = valueAt T l p f := by
  induction es generalizing T with
  | nil => rfl
  | cons e rest ih =>
    simp only [List.foldl_cons]
    rw [ih _ (fun e' he' => h e' (List.mem_cons_of_mem _ he')), valueAt_ins, if_neg (h e List.mem_cons_self)]

/-- **last write wins** -/
theorem valueAt_setup_last (pre post : List Ent) (e : Ent)
    (h : ∀ e' ∈ post, ¬ sameKey e e') :
    valueAt (setup (pre ++ e :: post)) e.lang e.path e.form = some e.text := by
  unfold setup
  rw [List.foldl_append, List.foldl_cons, valueAt_foldl_other post _ _ _ _ h, valueAt_ins]
  simp

/-- when all assignments to one key carry the same text, that text is the value (whatever their number) -/
theorem valueAt_foldl_agree (es : List Ent) (e : Ent) : ∀ (T : Table),
    (e ∈ es ∨ valueAt T e.lang e.path e.form = some e.text) →
    (∀ e' ∈ es, sameKey e e' → e'.text = e.text) →
    valueAt (es.foldl ins T) e.lang e.path e.form = some e.text := by
  induction es with
  | nil => intro T h _; rcases h with h | h; cases h; exact h
  | cons a rest ih =>
    intro T h hag
    simp only [List.foldl_cons]
    apply ih
    · by_cases hk : sameKey e a
      · right
        rw [valueAt_ins]
        unfold sameKey at hk
        rw [if_pos hk, hag a List.mem_cons_self hk]
      · rcases h with h | h
        · rcases List.mem_cons.mp h with h | h
          · exact absurd (h ▸ ⟨rfl, rfl, rfl⟩) hk
          · exact Or.inl h
        · right
          rw [valueAt_ins]
          unfold sameKey at hk
          rw [if_neg hk]; exact h
    · intro e' he'; exact hag e' (List.mem_cons_of_mem _ he')

theorem valueAt_setup_agree {es : List Ent} {e : Ent} (he : e ∈ es)
    (hag : ∀ e' ∈ es, sameKey e e' → e'.text = e.text) :
    valueAt (setup es) e.lang e.path e.form = some e.text :=
  valueAt_foldl_agree es e [] (Or.inl he) hag

theorem lookup_map_snd {β γ} (G : β → γ) (T : List (Str × β)) (l : Str) :
    lookup l (T.map fun lps => (lps.1, G lps.2)) = (lookup l T).map G := by
  induction T with
  | nil => rfl
  | cons kv rest ih =>
    obtain ⟨k, v⟩ := kv
    by_cases h : l = k <;> simp [lookup, h, ih]

theorem lookup_foldl_getD (cs : List (Str × Unit)) (fs : Forms) (f t : Str) (h : lookup f fs = some t) :
    lookup f (cs.foldl (fun fs c => upd c.1 (fun o3 => o3.getD dashStr) fs) fs) = some t := by
  induction cs generalizing fs with
  | nil => exact h
  | cons c rest ih =>
    simp only [List.foldl_cons]
    apply ih
    rw [lookup_upd]
    by_cases hf : f = c.1
    · subst hf; simp [h]
    · simp [hf, h]

theorem lookup_padLang_some (P : List (Str × List (Str × Unit))) (ps : Paths) (p f t : Str) (fs : Forms)
    (h1 : lookup p ps = some fs) (h2 : lookup f fs = some t) :
    ∃ fs', lookup p (padLang P ps) = some fs' ∧ lookup f fs' = some t := by
  unfold padLang
  induction P generalizing ps fs with
  | nil => exact ⟨fs, h1, h2⟩
  | cons pc rest ih =>
    simp only [List.foldl_cons]
    by_cases hp : p = pc.1
    · apply ih _ (pc.2.foldl (fun fs c => upd c.1 (fun o3 => o3.getD dashStr) fs) fs)
      · rw [lookup_upd]; subst hp; simp [h1]
      · exact lookup_foldl_getD _ _ _ _ h2
    · apply ih _ fs
      · rw [lookup_upd]; simp [hp, h1]
      · exact h2

/-- **padding never overwrites** -/
theorem valueAt_pad (lists : List CList) (T : Table) (l p f t : Str) (h : valueAt T l p f = some t) :
    valueAt (pad lists T) l p f = some t := by
  unfold valueAt at h ⊢
  unfold pad
  rw [lookup_map_snd (padLang (allPathsC lists T))]
  cases h1 : lookup l T with
  | none => simp [h1] at h
  | some ps =>
    simp only [h1, Option.bind_some] at h
    cases h2 : lookup p ps with
    | none => simp [h2] at h
    | some fs =>
      simp only [h2, Option.bind_some] at h
      obtain ⟨fs', hf1, hf2⟩ := lookup_padLang_some (allPathsC lists T) ps p f t fs h2 h
      simp [hf1, hf2]

/-! ### nothing but written texts and `-` -/

/-- every value of the table is `-` or the text of a leaf assignment for exactly this (lang, id, form) -/
def Sound (es : List Ent) (T : Table) : Prop :=
  ∀ lps ∈ T, ∀ pf ∈ lps.2, ∀ ft ∈ pf.2, ft.2 = dashStr ∨ (⟨lps.1, pf.1, ft.1, ft.2⟩ : Ent) ∈ es

theorem upd_mem {β} (k : Str) (g : Option β → β) (l : List (Str × β)) {kv : Str × β} (h : kv ∈ upd k g l) :
    kv ∈ l ∨ (kv.1 = k ∧ ∃ o, kv.2 = g o ∧ (∀ v, o = some v → (k, v) ∈ l)) := by
  induction l with
  | nil =>
    simp only [upd, List.mem_singleton] at h
    subst h
    exact Or.inr ⟨rfl, none, rfl, by simp⟩
  | cons kv' rest ih =>
    obtain ⟨k', v'⟩ := kv'
    unfold upd at h
    by_cases hk : k' = k
    · simp only [hk, if_true] at h
      rcases List.mem_cons.mp h with h | h
      · subst h
        exact Or.inr ⟨rfl, some v', rfl, by intro v hv; cases hv; simp [hk]⟩
      · exact Or.inl (List.mem_cons_of_mem _ h)
    · simp only [hk, if_false] at h
      rcases List.mem_cons.mp h with h | h
      · exact Or.inl (by rw [h]; exact List.mem_cons_self)
      · rcases ih h with h | ⟨h1, o, h2, h3⟩
        · exact Or.inl (List.mem_cons_of_mem _ h)
        · exact Or.inr ⟨h1, o, h2, fun v hv => List.mem_cons_of_mem _ (h3 v hv)⟩

theorem sound_mono {es es' : List Ent} {T : Table} (h : Sound es T) (hs : ∀ e ∈ es, e ∈ es') : Sound es' T := by
  intro lps hl pf hp ft hf
  rcases h lps hl pf hp ft hf with h | h
  · exact Or.inl h
  · exact Or.inr (hs _ h)

theorem sound_ins {es : List Ent} {T : Table} (e : Ent) (h : Sound es T) (he : e ∈ es) : Sound es (ins T e) := by
  intro lps hl pf hp ft hf
  unfold ins at hl
  rcases upd_mem _ _ _ hl with hl | ⟨hk, o, ho, hmem⟩
  · exact h lps hl pf hp ft hf
  · rw [ho] at hp
    rcases upd_mem _ _ _ hp with hp | ⟨hk2, o2, ho2, hmem2⟩
    · cases o with
      | none => simp at hp
      | some ps =>
        have := h (e.lang, ps) (hmem ps rfl) pf hp ft hf
        rw [hk]; exact this
    · rw [ho2] at hf
      rcases upd_mem _ _ _ hf with hf | ⟨hk3, o3, ho3, _⟩
      · cases o2 with
        | none => simp at hf
        | some fs =>
          cases o with
          | none => exact absurd (hmem2 fs rfl) (by simp)
          | some ps =>
            have := h (e.lang, ps) (hmem ps rfl) (e.path, fs) (hmem2 fs rfl) ft hf
            rw [hk, hk2]; exact this
      · refine Or.inr ?_
        have : (⟨lps.1, pf.1, ft.1, ft.2⟩ : Ent) = e := by
          rw [hk, hk2, hk3, ho3]
        rw [this]; exact he

theorem sound_setup_aux (es all : List Ent) (T : Table) (h : Sound all T) (hs : ∀ e ∈ es, e ∈ all) :
    Sound all (es.foldl ins T) := by
  induction es generalizing T with
  | nil => exact h
  | cons e rest ih =>
    simp only [List.foldl_cons]
    exact ih _ (sound_ins e h (hs e List.mem_cons_self)) (fun e' he' => hs e' (List.mem_cons_of_mem _ he'))

theorem sound_setup (es : List Ent) : Sound es (setup es) :=
  sound_setup_aux es es [] (by intro lps hl; cases hl) (fun _ h => h)

theorem foldl_getD_mem (cs : List (Str × Unit)) (fs : Forms) {ft : Str × Str}
    (h : ft ∈ cs.foldl (fun fs c => upd c.1 (fun o3 => o3.getD dashStr) fs) fs) : ft ∈ fs ∨ ft.2 = dashStr := by
  induction cs generalizing fs with
  | nil => exact Or.inl h
  | cons c rest ih =>
    simp only [List.foldl_cons] at h
    rcases ih _ h with h | h
    · rcases upd_mem _ _ _ h with h | ⟨hk, o, ho, hm⟩
      · exact Or.inl h
      · cases o with
        | none => exact Or.inr (by rw [ho]; rfl)
        | some v =>
          left
          have := hm v rfl
          have hft : ft = (c.1, v) := by
            rcases ft with ⟨a, b⟩
            simp only at hk ho
            rw [hk, ho]; rfl
          rw [hft]; exact this
    · exact Or.inr h

theorem padLang_mem (P : List (Str × List (Str × Unit))) (ps : Paths) {pf : Str × Forms} (h : pf ∈ padLang P ps) :
    ∀ ft ∈ pf.2, ft.2 = dashStr ∨ ∃ fs, (pf.1, fs) ∈ ps ∧ ft ∈ fs := by
  unfold padLang at h
  induction P generalizing ps with
  | nil => intro ft hft; exact Or.inr ⟨pf.2, h, hft⟩
  | cons pc rest ih =>
    simp only [List.foldl_cons] at h
    intro ft hft
    rcases ih _ h ft hft with h1 | ⟨fs, hfs, hin⟩
    · exact Or.inl h1
    · rcases upd_mem _ _ _ hfs with hfs | ⟨hk, o, ho, hm⟩
      · exact Or.inr ⟨fs, hfs, hin⟩
      · simp only at hk ho
        rw [ho] at hin
        rcases foldl_getD_mem _ _ hin with hin | hin
        · cases o with
          | none => simp at hin
          | some fs0 => exact Or.inr ⟨fs0, by rw [hk]; exact hm fs0 rfl, hin⟩
        · exact Or.inl hin

theorem sound_pad {es : List Ent} {T : Table} (lists : List CList) (h : Sound es T) : Sound es (pad lists T) := by
  intro lps hl pf hp ft hf
  obtain ⟨lps0, hl0, rfl⟩ := mem_pad.mp hl
  rcases padLang_mem _ _ hp ft hf with h1 | ⟨fs, hfs, hin⟩
  · exact Or.inl h1
  · exact h lps0 hl0 (pf.1, fs) hfs ft hin

end Pyxv.Itext
