import Pyxv.Proofs.C03Rel
/-!
# C03: the hole reader inverts the renderer

`parseHole` is what the check uses to read the implementation's output; `Emitted.render` (inside
`Out.text`) is what the model emits.  `parseHole (render e) = e` for every emitted path whose segments are
names without `/`, blanks, and different from `.` / `..`.
-/
namespace Pyxv.Refs
open Pyxv

/-- segments that can be read back: non-empty, no `/`, no Python whitespace, not `.` or `..` -/
def HoleNames (p : List Str) : Prop :=
  ∀ s ∈ p, s ≠ [] ∧ '/' ∉ s ∧ s ≠ dotdot ∧ s ≠ ['.'] ∧ ∀ c ∈ s, pyIsSpace c = false

instance (p : List Str) : Decidable (HoleNames p) := by unfold HoleNames; exact inferInstance

theorem HoleNames.good {p : List Str} (h : HoleNames p) : GoodNames p :=
  fun s hs => ⟨(h s hs).2.1, (h s hs).1⟩

theorem HoleNames.allGood {p : List Str} (h : HoleNames p) : p.all goodSeg = true := by
  rw [List.all_eq_true]
  intro s hs
  obtain ⟨h1, _, h3, h4, _⟩ := h s hs
  simp [goodSeg, h1, h3, h4]

/-! ### strip is the identity on strings without blanks at the ends -/

theorem lstrip_id (a : Char) (s : Str) (h : pyIsSpace a = false) : lstrip (a :: s) = a :: s := by
  simp [lstrip, List.dropWhile_cons, h]

theorem rstrip_id (s : Str) (z : Char) (hl : s.getLast? = some z) (h : pyIsSpace z = false) : rstrip s = s := by
  unfold rstrip
  have : s.reverse = z :: s.dropLast.reverse := by
    have hne : s ≠ [] := by intro e; simp [e] at hl
    have hz : s.getLast hne = z := by
      have := List.getLast?_eq_some_getLast hne
      rw [this] at hl; exact Option.some.inj hl
    conv => lhs; rw [← List.dropLast_concat_getLast hne]
    simp [hz]
  rw [this]
  simp only [List.dropWhile_cons, h, Bool.false_eq_true, ↓reduceIte]
  rw [← this, List.reverse_reverse]

theorem strip_id (a z : Char) (s : Str) (hl : (a :: s).getLast? = some z) (ha : pyIsSpace a = false)
    (hz : pyIsSpace z = false) : strip (a :: s) = a :: s := by
  unfold strip
  rw [lstrip_id a s ha, rstrip_id _ z hl hz]

/-- the last character of a joined path is the last character of its last name -/
theorem joinWith_getLast_char (sep : Str) (p : List Str) (l : Str) (z : Char) (h : p.getLast? = some l)
    (hz : l.getLast? = some z) : (joinWith sep p).getLast? = some z := by
  obtain ⟨pre, hp⟩ := joinWith_getLast sep p l h
  rw [hp]
  have hne : l ≠ [] := by intro e; simp [e] at hz
  rw [List.getLast?_append, hz]; rfl

theorem holeNames_lastChar {p : List Str} (h : HoleNames p) (hp : p ≠ []) :
    ∃ l z, p.getLast? = some l ∧ l.getLast? = some z ∧ pyIsSpace z = false := by
  have hl := List.getLast?_eq_some_getLast hp
  have hmem : p.getLast hp ∈ p := List.getLast_mem hp
  obtain ⟨h1, _, _, _, h5⟩ := h _ hmem
  refine ⟨_, (p.getLast hp).getLast h1, hl, List.getLast?_eq_some_getLast h1, h5 _ (List.getLast_mem h1)⟩

theorem parseAbs_pathStr (p : List Str) (hp : p ≠ []) (h : HoleNames p) : parseAbs (pathStr p) = some p := by
  unfold parseAbs
  rw [split_pathStr p hp h.good]
  cases p with
  | nil => contradiction
  | cons a r => simp [h.allGood]

theorem startsWith_cons_ne (a b : Char) (s t : Str) (h : a ≠ b) : startsWith (a :: s) (b :: t) = false := by
  simp [startsWith, h]

theorem curTag_eq : curTag = 'c' :: "urrent()/".toList := by decide
theorem lsTag_eq : lsTag = 'i' :: "nstance('__last-saved')".toList := by decide
theorem pathStr_cons (p : List Str) : pathStr p = '/' :: joinWith ['/'] p := rfl

theorem parseHole_abs_form (x : Str) (h1 : startsWith x curTag = false) (h2 : startsWith x lsTag = false)
    (hs : strip x = x) (r : Str) (hx : x = '/' :: r) :
    parseHole x = (parseAbs x).map fun q => ⟨false, .abs q⟩ := by
  unfold parseHole
  simp only [hs, h1, Bool.false_eq_true, ↓reduceIte]
  unfold parseCore
  subst hx
  simp only [h2, Bool.false_eq_true, ↓reduceIte, List.head?_cons]

theorem parseHole_ls_form (x : Str) (h1 : startsWith (lsTag ++ x) curTag = false) (hs : strip (lsTag ++ x) = lsTag ++ x) :
    parseHole (lsTag ++ x) = (parseAbs x).map fun q => ⟨false, .lastSaved q⟩ := by
  have h2 : startsWith (lsTag ++ x) lsTag = true := (startsWith_iff _ _).2 ⟨_, rfl⟩
  unfold parseHole
  simp only [hs, h1, Bool.false_eq_true, ↓reduceIte]
  unfold parseCore
  simp only [h2, ↓reduceIte, List.drop_left', Bool.false_eq_true]

theorem pathStr_last (p : List Str) (hp : p ≠ []) (h : HoleNames p) :
    ∃ z, (pathStr p).getLast? = some z ∧ pyIsSpace z = false := by
  obtain ⟨l, z, hl, hz, hsp⟩ := holeNames_lastChar h hp
  have hjl := joinWith_getLast_char ['/'] p l z hl hz
  have hne : joinWith ['/'] p ≠ [] := by intro e; simp [e] at hjl
  exact ⟨z, by rw [pathStr_cons, List.getLast?_cons_of_ne_nil hne]; exact hjl, hsp⟩

/-- **parse_render_abs** -/
theorem parse_render_abs (p : List Str) (hp : p ≠ []) (h : HoleNames p) :
    parseHole (Emitted.render (.abs p)) = some ⟨false, .abs p⟩ := by
  obtain ⟨z, hlast, hsp⟩ := pathStr_last p hp h
  have hs : strip (pathStr p) = pathStr p := by
    rw [pathStr_cons] at hlast ⊢
    exact strip_id '/' z _ hlast (by decide) hsp
  have h1 : startsWith (pathStr p) curTag = false := by
    rw [curTag_eq, pathStr_cons]; exact startsWith_cons_ne _ _ _ _ (by decide)
  have h2 : startsWith (pathStr p) lsTag = false := by
    rw [lsTag_eq, pathStr_cons]; exact startsWith_cons_ne _ _ _ _ (by decide)
  show parseHole (pathStr p) = _
  rw [parseHole_abs_form (pathStr p) h1 h2 hs _ (pathStr_cons p), parseAbs_pathStr p hp h]
  rfl

/-- **parse_render_lastSaved** -/
theorem parse_render_lastSaved (p : List Str) (hp : p ≠ []) (h : HoleNames p) :
    parseHole (Emitted.render (.lastSaved p)) = some ⟨false, .lastSaved p⟩ := by
  obtain ⟨z, hlast0, hsp⟩ := pathStr_last p hp h
  have hcons : lsTag ++ pathStr p = 'i' :: ("nstance('__last-saved')".toList ++ pathStr p) := by
    rw [lsTag_eq]; rfl
  have hlast : (lsTag ++ pathStr p).getLast? = some z := by
    rw [List.getLast?_append, hlast0]; rfl
  have hs : strip (lsTag ++ pathStr p) = lsTag ++ pathStr p := by
    rw [hcons] at hlast ⊢
    exact strip_id 'i' z _ hlast (by decide) hsp
  have h1 : startsWith (lsTag ++ pathStr p) curTag = false := by
    rw [hcons, curTag_eq]; exact startsWith_cons_ne _ _ _ _ (by decide)
  show parseHole (lsTag ++ pathStr p) = _
  rw [parseHole_ls_form (pathStr p) h1 hs, parseAbs_pathStr p hp h]
  rfl

/-! ### relative paths -/

theorem countLeadingDotDot_replicate (k : Nat) (d : List Str) (hd : d.head? ≠ some dotdot) :
    countLeadingDotDot (List.replicate k dotdot ++ d) = k := by
  induction k with
  | zero =>
    cases d with
    | nil => rfl
    | cons a r =>
      have : a ≠ dotdot := fun e => hd (by simp [e])
      simp [countLeadingDotDot, this]
  | succ k ih => simp [List.replicate_succ, countLeadingDotDot, ih]

theorem joinWith_head (sep : Str) (a : Char) (as : Str) (rest : List Str) :
    ∃ r, joinWith sep ((a :: as) :: rest) = a :: r := by
  cases rest with
  | nil => exact ⟨as, rfl⟩
  | cons b r => exact ⟨as ++ sep ++ joinWith sep (b :: r), by simp [joinWith]⟩

theorem render_rel_eq (k : Nat) (d : List Str) (hk : 0 < k) (hd : d ≠ []) :
    Emitted.render (.rel k d) = joinWith ['/'] (List.replicate k dotdot ++ d) := by
  have hr : List.replicate k dotdot ≠ [] := by
    cases k with
    | zero => omega
    | succ n => simp [List.replicate_succ]
  rw [joinWith_append _ _ _ hr hd]
  have hdd : "..".toList = dotdot := by decide
  show joinWith ['/'] (List.replicate k "..".toList) ++ pathStr d = _
  rw [hdd, pathStr_cons, List.append_assoc, List.singleton_append]

theorem parseCore_rel (cur : Bool) (x : Str) (a : Char) (r : Str) (hx : x = a :: r) (ha : a ≠ '/')
    (h2 : startsWith x lsTag = false) :
    parseCore cur x =
      (if countLeadingDotDot (splitOnChar '/' x) > 0 &&
          !((splitOnChar '/' x).drop (countLeadingDotDot (splitOnChar '/' x))).isEmpty &&
          ((splitOnChar '/' x).drop (countLeadingDotDot (splitOnChar '/' x))).all goodSeg
       then some ⟨cur, .rel (countLeadingDotDot (splitOnChar '/' x))
          ((splitOnChar '/' x).drop (countLeadingDotDot (splitOnChar '/' x)))⟩ else none) := by
  unfold parseCore
  subst hx
  have hne : ¬ (some a = some '/') := fun e => ha (Option.some.inj e)
  simp only [h2, Bool.false_eq_true, ↓reduceIte, List.head?_cons, hne]

/-- what both relative round trips share -/
theorem rel_core (cur : Bool) (k : Nat) (d : List Str) (hk : 0 < k) (hd : d ≠ []) (h : HoleNames d) :
    parseCore cur (Emitted.render (.rel k d)) = some ⟨cur, .rel k d⟩ := by
  rw [render_rel_eq k d hk hd]
  have hR : List.replicate k dotdot ++ d ≠ [] := by simp [hd]
  have hfree : ∀ s ∈ List.replicate k dotdot ++ d, '/' ∉ s := by
    intro s hs
    rcases List.mem_append.1 hs with h1 | h1
    · rw [List.eq_of_mem_replicate h1]; decide
    · exact (h s h1).2.1
  have hsplit := split_join _ hR hfree
  obtain ⟨n, rfl⟩ : ∃ n, k = n + 1 := ⟨k - 1, by omega⟩
  obtain ⟨r, hr⟩ := joinWith_head ['/'] '.' ['.'] (List.replicate n dotdot ++ d)
  have hx : joinWith ['/'] (List.replicate (n + 1) dotdot ++ d) = '.' :: r := by
    rw [List.replicate_succ, List.cons_append]; exact hr
  have h2 : startsWith (joinWith ['/'] (List.replicate (n + 1) dotdot ++ d)) lsTag = false := by
    rw [hx, lsTag_eq]; exact startsWith_cons_ne _ _ _ _ (by decide)
  rw [parseCore_rel cur _ '.' r hx (by decide) h2, hsplit]
  have hdh : d.head? ≠ some dotdot := by
    cases d with
    | nil => contradiction
    | cons a t => intro e; simp at e; exact (h a (by simp)).2.2.1 e
  rw [countLeadingDotDot_replicate (n + 1) d hdh]
  have hdrop : (List.replicate (n + 1) dotdot ++ d).drop (n + 1) = d := by
    rw [List.drop_left']; simp
  rw [hdrop]
  have : d.isEmpty = false := by cases d <;> simp_all
  simp [h.allGood, this]

theorem rel_last (k : Nat) (d : List Str) (hk : 0 < k) (hd : d ≠ []) (h : HoleNames d) :
    ∃ z, (Emitted.render (.rel k d)).getLast? = some z ∧ pyIsSpace z = false := by
  obtain ⟨l, z, hl, hz, hsp⟩ := holeNames_lastChar h hd
  rw [render_rel_eq k d hk hd]
  refine ⟨z, joinWith_getLast_char ['/'] _ l z ?_ hz, hsp⟩
  rw [List.getLast?_append, hl]; rfl

theorem rel_head (k : Nat) (d : List Str) (hk : 0 < k) (hd : d ≠ []) :
    ∃ r, Emitted.render (.rel k d) = '.' :: r := by
  rw [render_rel_eq k d hk hd]
  obtain ⟨n, rfl⟩ : ∃ n, k = n + 1 := ⟨k - 1, by omega⟩
  rw [List.replicate_succ, List.cons_append]
  exact joinWith_head ['/'] '.' ['.'] _

/-- **parse_render_rel** -/
theorem parse_render_rel (k : Nat) (d : List Str) (hk : 0 < k) (hd : d ≠ []) (h : HoleNames d) :
    parseHole (Emitted.render (.rel k d)) = some ⟨false, .rel k d⟩ := by
  obtain ⟨z, hlast, hsp⟩ := rel_last k d hk hd h
  obtain ⟨r, hr⟩ := rel_head k d hk hd
  have hs : strip (Emitted.render (.rel k d)) = Emitted.render (.rel k d) := by
    rw [hr] at hlast ⊢; exact strip_id '.' z _ hlast (by decide) hsp
  have h1 : startsWith (Emitted.render (.rel k d)) curTag = false := by
    rw [hr, curTag_eq]; exact startsWith_cons_ne _ _ _ _ (by decide)
  unfold parseHole
  simp only [hs, h1, Bool.false_eq_true, ↓reduceIte]
  exact rel_core false k d hk hd h

/-- **parse_render_rel_current**: the `current()/` anchor is read back as the flag -/
theorem parse_render_rel_current (k : Nat) (d : List Str) (hk : 0 < k) (hd : d ≠ []) (h : HoleNames d) :
    parseHole (curTag ++ Emitted.render (.rel k d)) = some ⟨true, .rel k d⟩ := by
  obtain ⟨z, hlast0, hsp⟩ := rel_last k d hk hd h
  have hcons : curTag ++ Emitted.render (.rel k d) = 'c' :: ("urrent()/".toList ++ Emitted.render (.rel k d)) := by
    rw [curTag_eq]; rfl
  have hlast : (curTag ++ Emitted.render (.rel k d)).getLast? = some z := by
    rw [List.getLast?_append, hlast0]; rfl
  have hs : strip (curTag ++ Emitted.render (.rel k d)) = curTag ++ Emitted.render (.rel k d) := by
    rw [hcons] at hlast ⊢; exact strip_id 'c' z _ hlast (by decide) hsp
  have h1 : startsWith (curTag ++ Emitted.render (.rel k d)) curTag = true := (startsWith_iff _ _).2 ⟨_, rfl⟩
  unfold parseHole
  simp only [hs, h1, ↓reduceIte, List.drop_left']
  exact rel_core true k d hk hd h

theorem rstrip_pad (s : Str) : rstrip (s ++ [' ']) = rstrip s := by
  have : pyIsSpace ' ' = true := by decide
  simp [rstrip, List.dropWhile_cons, this]

theorem parseHole_pad (X : Str) (a z : Char) (r : Str) (hX : X = a :: r) (hl : X.getLast? = some z)
    (ha : pyIsSpace a = false) (hz : pyIsSpace z = false) : parseHole (' ' :: (X ++ [' '])) = parseHole X := by
  subst hX
  have hsp : pyIsSpace ' ' = true := by decide
  have h1 : strip (' ' :: ((a :: r) ++ [' '])) = a :: r := by
    unfold strip
    have : lstrip (' ' :: ((a :: r) ++ [' '])) = (a :: r) ++ [' '] := by
      simp [lstrip, List.dropWhile_cons, hsp, ha]
    rw [this, rstrip_pad, rstrip_id _ z hl hz]
  have h2 : strip (a :: r) = a :: r := strip_id a z r hl ha hz
  unfold parseHole
  simp only [h1, h2]

theorem text_false (e : Emitted) : Out.text (.ok false e) = some (' ' :: (e.render ++ [' '])) := rfl

theorem text_true (e : Emitted) : Out.text (.ok true e) = some (' ' :: ((curTag ++ e.render) ++ [' '])) := rfl

/-- **parse_text**: the text the model emits for a reference (`Out.text`: blank, optional `current()/`, path,
blank) is read back by the check's hole reader as exactly the emitted path and anchor flag. -/
theorem parse_text (cur : Bool) (e : Emitted) (t : Str) (ht : Out.text (.ok cur e) = some t)
    (hok : match e with
      | .abs p => p ≠ [] ∧ HoleNames p ∧ cur = false
      | .lastSaved p => p ≠ [] ∧ HoleNames p ∧ cur = false
      | .rel k d => 0 < k ∧ d ≠ [] ∧ HoleNames d) :
    parseHole t = some ⟨cur, e⟩ := by
  cases e with
  | abs p =>
    obtain ⟨hp, hn, hc⟩ := hok
    subst hc
    rw [text_false] at ht
    cases ht
    obtain ⟨z, hlast, hsp⟩ := pathStr_last p hp hn
    show parseHole (' ' :: (pathStr p ++ [' '])) = _
    rw [parseHole_pad _ '/' z _ (pathStr_cons p) hlast (by decide) hsp]
    exact parse_render_abs p hp hn
  | lastSaved p =>
    obtain ⟨hp, hn, hc⟩ := hok
    subst hc
    rw [text_false] at ht
    cases ht
    obtain ⟨z, hlast0, hsp⟩ := pathStr_last p hp hn
    have hcons : Emitted.render (.lastSaved p) = 'i' :: ("nstance('__last-saved')".toList ++ pathStr p) := rfl
    have hlast : (Emitted.render (.lastSaved p)).getLast? = some z := by
      show (lsTag ++ pathStr p).getLast? = some z
      rw [List.getLast?_append, hlast0]; rfl
    rw [parseHole_pad _ 'i' z _ hcons hlast (by decide) hsp]
    exact parse_render_lastSaved p hp hn
  | rel k d =>
    obtain ⟨hk, hd, hn⟩ := hok
    obtain ⟨z, hlast0, hsp⟩ := rel_last k d hk hd hn
    obtain ⟨r, hr⟩ := rel_head k d hk hd
    cases cur with
    | false =>
      rw [text_false] at ht
      cases ht
      rw [parseHole_pad _ '.' z r hr hlast0 (by decide) hsp]
      exact parse_render_rel k d hk hd hn
    | true =>
      rw [text_true] at ht
      cases ht
      have hcons : curTag ++ Emitted.render (.rel k d) = 'c' :: ("urrent()/".toList ++ Emitted.render (.rel k d)) := by
        rw [curTag_eq]; rfl
      have hlast : (curTag ++ Emitted.render (.rel k d)).getLast? = some z := by
        rw [List.getLast?_append, hlast0]; rfl
      rw [parseHole_pad _ 'c' z _ hcons hlast (by decide) hsp]
      exact parse_render_rel_current k d hk hd hn

/-! ### non-vacuity -/

example : HoleNames ["abcde_r2".toList, "t".toList] := by decide
example : parseHole " current()/../../../abcde_r2/t ".toList =
    some ⟨true, .rel 3 ["abcde_r2".toList, "t".toList]⟩ := by decide
example : Out.text (.ok true (.rel 3 ["abcde_r2".toList, "t".toList])) = some " current()/../../../abcde_r2/t ".toList := by
  decide

end Pyxv.Refs
