import Pyxv.Proofs.C03Rel
/-!
# C03: the hole reader inverts the renderer

`parseHole` is what the check uses to read the implementation's output; `Emitted.render` (inside
`Out.text`) is what the model emits.  `parseHole (render e) = e` for every emitted path whose segments are
names without `/`, blanks, and different from `.` / `..`.
-/
namespace Pyxv.Refs
open Pyxv

/-- segments that can be read back: non-empty, no `/`, no Python whitespace, not `.` or `..` -/
def HoleNames (p : List Str) : Prop :=
  ∀ s ∈ p, s ≠ [] ∧ '/' ∉ s ∧ s ≠ dotdot ∧ s ≠ ['.'] ∧ ∀ c ∈ s, pyIsSpace c = false

instance (p : List Str) : Decidable (HoleNames p) := by unfold HoleNames; exact inferInstance

theorem HoleNames.good {p : List Str} (h : HoleNames p) : GoodNames p :=
  fun s hs => ⟨(h s hs).2.1, (h s hs).1⟩

theorem HoleNames.allGood {p : List Str} (h : HoleNames p) : p.all goodSeg = true := by
  rw [List.all_eq_true]
  intro s hs
  obtain ⟨h1, _, h3, h4, _⟩ := h s hs
  simp [goodSeg, h1, h3, h4]

/-! ### strip is the identity on strings without blanks at the ends -/

theorem lstrip_id (a : Char) (s : Str) (h : pyIsSpace a = false) : lstrip (a :: s) = a :: s := by
  simp [lstrip, List.dropWhile, h]

theorem rstrip_id (s : Str) (z : Char) (hl : s.getLast? = some z) (h : pyIsSpace z = false) : rstrip s = s := by
  unfold rstrip
  have : s.reverse = z :: s.dropLast.reverse := by
    have hne : s ≠ [] := by intro e; simp [e] at hl
    have hz : s.getLast hne = z := by
      have := List.getLast?_eq_some_getLast hne
      rw [this] at hl; exact Option.some.inj hl
    conv => lhs; rw [← List.dropLast_concat_getLast hne]
    simp [hz]
  rw [this]
  simp only [List.dropWhile, h]
  rw [← this, List.reverse_reverse]

theorem strip_id (a z : Char) (s : Str) (hl : (a :: s).getLast? = some z) (ha : pyIsSpace a = false)
    (hz : pyIsSpace z = false) : strip (a :: s) = a :: s := by
  unfold strip
  rw [lstrip_id a s ha, rstrip_id _ z hl hz]

/-- the last character of a joined path is the last character of its last name -/
theorem joinWith_getLast_char (sep : Str) (p : List Str) (l : Str) (z : Char) (h : p.getLast? = some l)
    (hz : l.getLast? = some z) : (joinWith sep p).getLast? = some z := by
  obtain ⟨pre, hp⟩ := joinWith_getLast sep p l h
  rw [hp]
  have hne : l ≠ [] := by intro e; simp [e] at hz
  rw [List.getLast?_append_of_ne_nil _ hne, hz]

theorem holeNames_lastChar {p : List Str} (h : HoleNames p) (hp : p ≠ []) :
    ∃ l z, p.getLast? = some l ∧ l.getLast? = some z ∧ pyIsSpace z = false := by
  have hl := List.getLast?_eq_some_getLast hp
  have hmem : p.getLast hp ∈ p := List.getLast_mem hp
  obtain ⟨h1, _, _, _, h5⟩ := h _ hmem
  refine ⟨_, (p.getLast hp).getLast h1, hl, List.getLast?_eq_some_getLast h1, h5 _ (List.getLast_mem h1)⟩

theorem parseAbs_pathStr (p : List Str) (hp : p ≠ []) (h : HoleNames p) : parseAbs (pathStr p) = some p := by
  unfold parseAbs
  rw [split_pathStr p hp h.good]
  cases p with
  | nil => contradiction
  | cons a r => simp [h.allGood]

theorem startsWith_cons_ne (a b : Char) (s t : Str) (h : a ≠ b) : startsWith (a :: s) (b :: t) = false := by
  simp [startsWith, h]

/-- **parse_render_abs** -/
theorem parse_render_abs (p : List Str) (hp : p ≠ []) (h : HoleNames p) :
    parseHole (Emitted.render (.abs p)) = some ⟨false, .abs p⟩ := by
  obtain ⟨l, z, hl, hz, hsp⟩ := holeNames_lastChar h hp
  have hlast : (pathStr p).getLast? = some z := by
    simp only [pathStr]
    have := joinWith_getLast_char ['/'] p l z hl hz
    have hne : joinWith ['/'] p ≠ [] := by intro e; simp [e] at this
    rw [List.getLast?_cons_of_ne_nil hne] at *
    exact this
  unfold parseHole
  simp only [Emitted.render]
  have hs : strip (pathStr p) = pathStr p := strip_id '/' z _ hlast (by decide) hsp
  rw [hs]
  have h1 : startsWith (pathStr p) curTag = false := startsWith_cons_ne _ _ _ _ (by decide)
  have h2 : startsWith (pathStr p) lsTag = false := startsWith_cons_ne _ _ _ _ (by decide)
  simp only [h1, Bool.false_eq_true, ↓reduceIte, parseCore, h2]
  simp only [pathStr]
  simp only [← pathStr.eq_1, parseAbs_pathStr p hp h, Option.map_some]

/-- **parse_render_lastSaved** -/
theorem parse_render_lastSaved (p : List Str) (hp : p ≠ []) (h : HoleNames p) :
    parseHole (Emitted.render (.lastSaved p)) = some ⟨false, .lastSaved p⟩ := by
  obtain ⟨l, z, hl, hz, hsp⟩ := holeNames_lastChar h hp
  have hjl := joinWith_getLast_char ['/'] p l z hl hz
  have hne : joinWith ['/'] p ≠ [] := by intro e; simp [e] at hjl
  have hlast : (lsTag ++ pathStr p).getLast? = some z := by
    rw [List.getLast?_append_of_ne_nil _ (by simp [pathStr])]
    simp only [pathStr]
    rw [List.getLast?_cons_of_ne_nil hne]; exact hjl
  unfold parseHole
  simp only [Emitted.render]
  change (let s := strip (lsTag ++ pathStr p); _) = _
  have hcons : lsTag ++ pathStr p = 'i' :: ("nstance('__last-saved')".toList ++ pathStr p) := rfl
  have hs : strip (lsTag ++ pathStr p) = lsTag ++ pathStr p := by
    rw [hcons] at hlast ⊢
    exact strip_id 'i' z _ hlast (by decide) hsp
  simp only [hs]
  have h1 : startsWith (lsTag ++ pathStr p) curTag = false := by
    rw [hcons]; exact startsWith_cons_ne _ _ _ _ (by decide)
  have h2 : startsWith (lsTag ++ pathStr p) lsTag = true := (startsWith_iff _ _).2 ⟨_, rfl⟩
  simp only [h1, Bool.false_eq_true, ↓reduceIte, parseCore, h2, List.drop_left', parseAbs_pathStr p hp h,
    Option.map_some]

end Pyxv.Refs
