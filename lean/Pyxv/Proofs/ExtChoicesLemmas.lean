import Pyxv.Model.ExtChoices
/-! `has_external_choices` finds an external select at any depth, under any key and any container type. -/
namespace Pyxv.Validator
open Pyxv.JV

/-- some dict at any depth of the JSON value binds `type` to a string starting with `select one external` -/
inductive ExtAt : J → Prop where
  | here (kvs : List (Str × J)) (v : J) : (typeKey, v) ∈ kvs → isExtType v = true → ExtAt (.obj kvs)
  | inObj (kvs : List (Str × J)) (k : Str) (v : J) : (k, v) ∈ kvs → ExtAt v → ExtAt (.obj kvs)
  | inArr (xs : List J) (x : J) : x ∈ xs → ExtAt x → ExtAt (.arr xs)

mutual
theorem hasExt_sound : ∀ j : J, hasExt j = true → ExtAt j
  | .obj kvs, h => by
    simp only [hasExt] at h
    obtain ⟨k, v, hm, hc⟩ := hasExtKvs_sound kvs h
    rcases hc with ⟨hk, hv⟩ | hv
    · subst hk; exact .here kvs v hm hv
    · exact .inObj kvs k v hm hv
  | .arr xs, h => by
    simp only [hasExt] at h
    obtain ⟨x, hm, hx⟩ := hasExtList_sound xs h
    exact .inArr xs x hm hx
  | .null, h => by simp [hasExt] at h
  | .bool _, h => by simp [hasExt] at h
  | .num _, h => by simp [hasExt] at h
  | .str _, h => by simp [hasExt] at h
theorem hasExtKvs_sound : ∀ kvs : List (Str × J), hasExtKvs kvs = true →
    ∃ k v, (k, v) ∈ kvs ∧ ((k = typeKey ∧ isExtType v = true) ∨ ExtAt v)
  | [], h => by simp [hasExtKvs] at h
  | (k, v) :: rest, h => by
    simp only [hasExtKvs, Bool.or_eq_true, Bool.and_eq_true, beq_iff_eq] at h
    rcases h with (⟨hk, hv⟩ | hv) | hr
    · exact ⟨k, v, by simp, .inl ⟨hk, hv⟩⟩
    · exact ⟨k, v, by simp, .inr (hasExt_sound v hv)⟩
    · obtain ⟨k', v', hm, hc⟩ := hasExtKvs_sound rest hr
      exact ⟨k', v', by simp [hm], hc⟩
theorem hasExtList_sound : ∀ xs : List J, hasExtList xs = true → ∃ x, x ∈ xs ∧ ExtAt x
  | [], h => by simp [hasExtList] at h
  | x :: xs, h => by
    simp only [hasExtList, Bool.or_eq_true] at h
    rcases h with hx | hr
    · exact ⟨x, by simp, hasExt_sound x hx⟩
    · obtain ⟨y, hm, hy⟩ := hasExtList_sound xs hr
      exact ⟨y, by simp [hm], hy⟩
end

theorem hasExtKvs_of_mem (kvs : List (Str × J)) (k : Str) (v : J) (hm : (k, v) ∈ kvs)
    (h : (k = typeKey ∧ isExtType v = true) ∨ hasExt v = true) : hasExtKvs kvs = true := by
  induction kvs with
  | nil => simp at hm
  | cons p rest ih =>
    obtain ⟨k', v'⟩ := p
    simp only [hasExtKvs, Bool.or_eq_true, Bool.and_eq_true, beq_iff_eq]
    rcases List.mem_cons.1 hm with e | hr
    · injection e with e1 e2
      subst e1 e2
      rcases h with ⟨hk, hv⟩ | hv
      · exact .inl (.inl ⟨hk, hv⟩)
      · exact .inl (.inr hv)
    · exact .inr (ih hr)

theorem hasExtList_of_mem (xs : List J) (x : J) (hm : x ∈ xs) (h : hasExt x = true) : hasExtList xs = true := by
  induction xs with
  | nil => simp at hm
  | cons y ys ih =>
    simp only [hasExtList, Bool.or_eq_true]
    rcases List.mem_cons.1 hm with e | hr
    · subst e; exact .inl h
    · exact .inr (ih hr)

theorem hasExt_complete (j : J) (h : ExtAt j) : hasExt j = true := by
  induction h with
  | here kvs v hm hv => simp only [hasExt]; exact hasExtKvs_of_mem kvs typeKey v hm (.inl ⟨rfl, hv⟩)
  | inObj kvs k v hm _ ih => simp only [hasExt]; exact hasExtKvs_of_mem kvs k v hm (.inr ih)
  | inArr xs x hm _ ih => simp only [hasExt]; exact hasExtList_of_mem xs x hm ih

end Pyxv.Validator
