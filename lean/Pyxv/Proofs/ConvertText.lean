import Pyxv.Proofs.Convert
/-!
# C02 for the end-to-end composition, at the level of the returned TEXT

`convert_c02_partial` (Proofs/Convert.lean) speaks about the DOM tree whose text `convert` returns.  Here the same
closure is stated about what an XML reader gets from the text: `parseDoc text`, projected to its elements (`eproj`; the
statement is about attributes of elements, text nodes carry no references).  The transport uses the printer/parser
round trip (`render_parses_compact_lax` / `render_parses_pretty_lax`: the reader's tree is `expectedLax doc` /
`expectedPrettyLax doc`) and `eproj_expectedLax` / `eproj_expectedPrettyLax` (its element projection is `normAttrs
(eproj doc)`, the DOM's elements with every attribute value normalised as XML 1.0 §3.3.3 prescribes: TAB / LF / CR →
space).
-/
namespace Pyxv.ConvertP
open Pyxv Pyxv.Form Pyxv.Rows Pyxv.Xml Pyxv.Asm Pyxv.Convert Pyxv.C01

theorem toList_map {α β} (f : α → β) (o : Option α) : (o.map f).toList = o.toList.map f := by
  cases o <;> rfl

mutual
/-- `ref` / `nodeset` of the body controls, as the reader sees them -/
theorem ctlRefs_read : ∀ (t : Str) (a : List (Str × Str)) (ks : List Node),
    ctlRefs (.elem t (normAttrList a) (normAttrsKids (eprojKids ks))) = (ctlRefs (.elem t a ks)).map normAttrVal
  | t, a, ks => by
    simp only [ctlRefs, ctlRefsL_read ks, List.map_append]
    split
    · simp only [lookup_normAttrList, toList_map, List.map_append]
    · rfl
theorem ctlRefsL_read : ∀ (ks : List Node),
    ctlRefsL (normAttrsKids (eprojKids ks)) = (ctlRefsL ks).map normAttrVal
  | [] => by simp [eprojKids_nil, normAttrsKids, ctlRefsL]
  | .text b s :: rest => by
    rw [eprojKids_text, ctlRefsL_read rest]
    simp [ctlRefsL, ctlRefs]
  | .elem t a ks :: rest => by
    rw [eprojKids_elem]
    simp only [normAttrsKids, normAttrs, ctlRefsL, ctlRefs_read t a ks, ctlRefsL_read rest, List.map_append]
end

theorem bindRefs_read : ∀ (ks : List Node),
    (normAttrsKids (eprojKids ks)).filterMap bindRef = (ks.filterMap bindRef).map normAttrVal
  | [] => by simp [eprojKids_nil, normAttrsKids]
  | .text b s :: rest => by
    rw [eprojKids_text, bindRefs_read rest, List.filterMap_cons]
    rfl
  | .elem t a ks :: rest => by
    rw [eprojKids_elem]
    simp only [normAttrsKids, normAttrs, List.filterMap_cons, bindRef, bindRefs_read rest]
    by_cases ht : t = l!"bind"
    · simp only [ht, if_true, lookup_normAttrList]
      cases lookup (l!"nodeset") a <;> simp
    · simp [ht]

mutual
/-- the instance reads back as the same name tree -/
theorem ntOf_read : ∀ (t : Str) (a : List (Str × Str)) (ks : List Node),
    ntOf (.elem t (normAttrList a) (normAttrsKids (eprojKids ks))) = ntOf (.elem t a ks)
  | t, a, ks => by
    simp only [ntOf, ntOfL_read ks, lookup_normAttrList, Option.isSome_map]
theorem ntOfL_read : ∀ (ks : List Node), ntOfL (normAttrsKids (eprojKids ks)) = ntOfL ks
  | [] => by simp [eprojKids_nil, normAttrsKids, ntOfL]
  | .text b s :: rest => by
    rw [eprojKids_text, ntOfL_read rest]
    simp [ntOfL, ntOf]
  | .elem t a ks :: rest => by
    rw [eprojKids_elem]
    simp only [normAttrsKids, normAttrs, ntOfL, ntOf_read t a ks, ntOfL_read rest]
end

/-- the element projection of the reader's tree of an assembled document -/
theorem read_assemble (f : Fields) (rk rest bk : List Node) :
    modelKidsOf (normAttrs (eproj (assemble f none rk rest bk))) =
      normAttrsKids (eprojKids (Asm.modelKids f none rk rest)) ∧
    bodyKidsOf (normAttrs (eproj (assemble f none rk rest bk))) = normAttrsKids (eprojKids bk) := by
  constructor <;>
    simp [assemble, pyNode, eproj, eprojKids, isText, normAttrs, normAttrsKids, modelKidsOf, bodyKidsOf]

theorem find_read (t : Str) : ∀ (ks : List Node),
    (normAttrsKids (eprojKids ks)).find? (isTag t) = (ks.find? (isTag t)).map fun n => normAttrs (eproj n)
  | [] => by simp [eprojKids_nil, normAttrsKids]
  | .text b s :: rest => by
    rw [eprojKids_text, find_read t rest]
    simp [List.find?, isTag]
  | .elem t' a ks :: rest => by
    rw [eprojKids_elem]
    simp only [normAttrsKids, normAttrs, List.find?, isTag]
    by_cases h : (t' == t) = true
    · simp [h, eproj_elem, normAttrs]
    · simp only [h]; exact find_read t rest

theorem primaryRoot_read (f : Fields) (rk rest bk : List Node) :
    primaryRoot (normAttrs (eproj (assemble f none rk rest bk))) =
      some (.elem f.name (normAttrList (rootAttrs f)) (normAttrsKids (eprojKids rk))) := by
  have hsub : ∀ a, isTag (l!"instance") (pyNode (l!"submission") a []) = false := by
    intro a; simp only [pyNode, isTag]; decide
  have hinst : ∀ ks, isTag (l!"instance") (pyNode (l!"instance") [] ks) = true := by
    intro ks; simp only [pyNode, isTag]; decide
  have hfind : (Asm.modelKids f none rk rest).find? (isTag (l!"instance")) =
      some (pyNode "instance".toList [] [.elem f.name (rootAttrs f) rk]) := by
    unfold Asm.modelKids submissionNode
    split
    · simp [itextPart, List.find?, hinst]
    · simp [itextPart, List.find?, hsub, hinst]
  unfold primaryRoot
  rw [(read_assemble f rk rest bk).1, find_read, hfind]
  simp [pyNode, setAttrs, eproj, eprojKids, isText, normAttrs, normAttrsKids, normAttrList]

/-- **C02 for the whole conversion, on the returned text** (either `pretty_print` mode).  The text parses; in the
    parsed document (its element projection) the `nodeset` of every `<bind>` of the model and the `ref` / `nodeset` of
    every body control is — as the reader sees the attribute value — an absolute path `xpathStr p` (attribute-value
    normalised) such that `p` names a node of the primary instance *read back from the same parsed text*.
    From `convert_c02_partial`, the printer/parser round trip and `eproj_expectedLax` / `eproj_expectedPrettyLax`.
    Hypothesis: `noBrTree` of the produced tree (complement of the open finding F5), as for `convert_c15`. -/
theorem convert_c02 (wb : Workbook) (p : Bool) (text : Str) (h : convert wb p = .ok text)
    (hn : ∀ doc, convertDoc wb = .ok doc → noBrTree doc = true) :
    ∃ parsed rt, parseDoc text = some parsed ∧ primaryRoot (eproj parsed) = some rt ∧
      ∀ s ∈ bindRefs (eproj parsed) ++ ctlRefsL (bodyKidsOf (eproj parsed)),
        ∃ q, s = normAttrVal (xpathStr q) ∧ resolves (NT.node (tagOf rt) false (ntOfL (kidsOf rt))) q = true := by
  obtain ⟨doc, hd, rfl⟩ := convert_ok wb p text h
  obtain ⟨f, lists, rows, drows, o, ditems, T⟩ := convertDoc_trace wb doc hd
  obtain ⟨hwf, helem⟩ := trace_wf T (hn doc hd)
  obtain ⟨rt0, hrt0, hall⟩ := convert_c02_partial wb doc hd
  have hE : ∃ parsed, parseDoc (renderDoc p doc) = some parsed ∧ eproj parsed = normAttrs (eproj doc) := by
    cases p with
    | false => exact ⟨_, render_parses_compact_lax doc hwf helem, eproj_expectedLax doc⟩
    | true => exact ⟨_, render_parses_pretty_lax doc hwf helem, eproj_expectedPrettyLax doc⟩
  obtain ⟨parsed, hparse, hep⟩ := hE
  have hdoc := T.hdoc
  -- the primary instance root of the DOM tree
  have hrt : rt0 = .elem f.name (rootAttrs f) (instNodes (defaultsOfL [f.name] ditems) [f.name] (ntKids o.inst)) := by
    rw [hdoc, primaryRoot_assemble] at hrt0
    exact (Option.some.inj hrt0).symm
  refine ⟨parsed, .elem f.name (normAttrList (rootAttrs f))
    (normAttrsKids (eprojKids (instNodes (defaultsOfL [f.name] ditems) [f.name] (ntKids o.inst)))), hparse, ?_, ?_⟩
  · rw [hep, hdoc]; exact primaryRoot_read ..
  · intro s hs
    simp only [tagOf, kidsOf, ntOfL_read]
    rw [hep, bindRefs, hdoc, (read_assemble ..).1, (read_assemble ..).2, bindRefs_read, ctlRefsL_read,
      ← List.map_append, List.mem_map] at hs
    obtain ⟨s0, hs0, rfl⟩ := hs
    have hs0' : s0 ∈ bindRefs doc ++ ctlRefsL (bodyKidsOf doc) := by
      rw [bindRefs, hdoc, modelKidsOf_assemble, bodyKidsOf_assemble]; exact hs0
    obtain ⟨q, rfl, hq⟩ := hall s0 hs0'
    refine ⟨q, rfl, ?_⟩
    rw [hrt] at hq
    simpa [tagOf, kidsOf] using hq

#print axioms convert_c02

-- non-vacuity: the example workbook, both modes
example : ∃ parsed rt, parseDoc exText = some parsed ∧ primaryRoot (eproj parsed) = some rt ∧
    ∀ s ∈ bindRefs (eproj parsed) ++ ctlRefsL (bodyKidsOf (eproj parsed)),
      ∃ q, s = normAttrVal (xpathStr q) ∧ resolves (NT.node (tagOf rt) false (ntOfL (kidsOf rt))) q = true :=
  convert_c02 exWb false exText ex_convert (fun d hd => namesClean_of_B ex_clean d hd)

end Pyxv.ConvertP
