import Pyxv.Proofs.HeadersLemmas
import Pyxv.Model.Texts
import Pyxv.Model.TextSpec
/-!
# C08 — each language shows exactly the text written for it: theorems about the header layer

All statements are about the model `Pyxv.Headers` of `pyxform/parsing/sheet_headers.py` and hold for all
strings, dict sizes, row lengths and default languages.  Proved: what one `merge_dicts` call and one `process_row` step do, `row_grouping` for whole rows, and for columns of the
shape `name` / `name::language` the closed form `column_reading` (= the spec's reading of the cells) with its corollary
`column_order_independent` for arbitrary permutations.
The composition through `Pyxv.Texts` (get_translations, itext
table, padding) to `Pyxv.TextSpec.text` is *not* proved; it is tied by the correspondence run of the check
(`c08.model` = implementation = `c08.spec` on every explored case).  See notes/design_C08.md.
-/
namespace Pyxv.C08
open Pyxv Pyxv.Headers

/-- the text stored for language `l` in a column value: a plain string counts as the default language -/
def readLang (dk : Str) (v : V) (l : Str) : Option Str :=
  match v with
  | .str t => if l = dk then some t else none
  | .dict m => match m.get l with
    | .str t => some t
    | _ => none
  | .none => none

/-- **row_grouping (one cell)**: one step of `process_row` files the cell under the first token of its header —
merged with what that column already holds — and changes no other column.  The hypothesis `hplain` excludes
only a second *unsuffixed* cell for a column that currently holds a plain string (two headers with the same
one-token reading; `dealias_and_group_headers` rejects most of them).  This is the statement whose one-token
case failed before the repair of F19 (`out_row[t] = val` overwrote a dict of translations). -/
theorem row_grouping_step (dk : Str) (hk : List (Str × List Str)) (out : Kvs) (header val t : Str) (ts : List Str)
    (hrow : header ≠ "__row".toList) (hlk : lookup header hk = some (t :: ts))
    (hplain : ts = [] → ∀ x, out.get t ≠ .str x) :
    ∃ out', processCell dk hk out header val = .ok out' ∧
      ∀ q, out'.get q = if q = t then merge dk (out.get t) (nest ts val) else out.get q := by
  have hrow' : ¬ header = ['_', '_', 'r', 'o', 'w'] := by simpa using hrow
  cases ts with
  | nil =>
    cases hg : out.get t with
    | none =>
      refine ⟨out.set t (.str val), ?_, ?_⟩
      · simp [processCell, hrow', hlk, hg]
      · intro q; rw [Kvs.set_get]; simp [merge_none_left, nest]
    | str x => exact absurd hg (hplain rfl x)
    | dict m =>
      refine ⟨mergeTop dk out t (.str val), ?_, ?_⟩
      · simp [processCell, hrow', hlk, hg]
      · intro q; rw [mergeTop_get dk out t _ q]; simp [nest, hg]
  | cons t' ts' =>
    refine ⟨mergeTop dk out t (nest (t' :: ts') val), ?_, ?_⟩
    · simp [processCell, hrow', hlk]
    · intro q; rw [mergeTop_get dk out t _ q]

example : ∃ out', processCell "default".toList [("label::fr".toList, ["label".toList, "fr".toList])]
      (.cons "label".toList (.str "Q".toList) .nil) "label::fr".toList "Qfr".toList = .ok out' ∧
      ∀ q, out'.get q = if q = "label".toList then merge "default".toList (.str "Q".toList) (nest ["fr".toList] "Qfr".toList)
        else (Kvs.cons "label".toList (.str "Q".toList) .nil).get q :=
  row_grouping_step _ _ _ _ _ "label".toList ["fr".toList] (by decide) (by decide) (by intro h; cases h)

/-- non-vacuity of `mergeTop_get`: a two-column row, merging a French hint -/
example : (mergeTop "default".toList (.cons "label".toList (.str "Q".toList) (.cons "hint".toList (.str "H".toList) .nil))
      "hint".toList (nest ["fr".toList] "Hfr".toList)).get "label".toList = .str "Q".toList := by
  rw [mergeTop_get]; simp [Kvs.get]

/-- **default-language rule, suffixed after unsuffixed**: a column suffixed with the default language replaces
the unsuffixed text (documented overwrite rule). -/
theorem default_suffix_wins_after (dk u : Str) (m : Kvs) (hu : u ≠ []) (hm : m.has dk = true) :
    merge dk (.str u) (.dict m) = .dict m := by
  cases m with
  | nil => simp [Kvs.has] at hm
  | cons k v rest =>
    cases u with
    | nil => exact absurd rfl hu
    | cons c cs => simp [merge, V.falsy, hm]

/-- **default-language rule, unsuffixed after suffixed**: the unsuffixed text does not displace it either. -/
theorem default_suffix_wins_before (dk u : Str) (m : Kvs) (hu : u ≠ []) (hm : m.has dk = true) :
    merge dk (.dict m) (.str u) = .dict m := by
  cases m with
  | nil => simp [Kvs.has] at hm
  | cons k v rest =>
    cases u with
    | nil => exact absurd rfl hu
    | cons c cs => simp [merge, V.falsy, hm]

example : merge "fr".toList (.str "Q".toList) (.dict (.cons "fr".toList (.str "Qfr".toList) .nil))
    = .dict (.cons "fr".toList (.str "Qfr".toList) .nil) :=
  default_suffix_wins_after _ _ _ (by decide) (by decide)

example : merge "fr".toList (.dict (.cons "fr".toList (.str "Qfr".toList) .nil)) (.str "Q".toList)
    = .dict (.cons "fr".toList (.str "Qfr".toList) .nil) :=
  default_suffix_wins_before _ _ _ (by decide) (by decide)

/-- **unsuffixed cells count as the default language** (unsuffixed column first) -/
theorem unsuffixed_is_default_after (dk u : Str) (m : Kvs) (hu : u ≠ []) (hne : m ≠ .nil) (hm : m.has dk = false) :
    merge dk (.str u) (.dict m) = .dict (.cons dk (.str u) m) := by
  cases m with
  | nil => exact absurd rfl hne
  | cons k v rest =>
    cases u with
    | nil => exact absurd rfl hu
    | cons c cs => simp [merge, V.falsy, hm]

example : merge "default".toList (.str "Q".toList) (.dict (.cons "fr".toList (.str "Qfr".toList) .nil))
    = .dict (.cons "default".toList (.str "Q".toList) (.cons "fr".toList (.str "Qfr".toList) .nil)) :=
  unsuffixed_is_default_after _ _ _ (by decide) (by intro h; cases h) (by decide)

/-- **unsuffixed cells count as the default language** (unsuffixed column last: the case F19 broke) -/
theorem unsuffixed_is_default_before (dk u : Str) (m : Kvs) (hu : u ≠ []) (hne : m ≠ .nil) (hm : m.has dk = false) :
    merge dk (.dict m) (.str u) = .dict (m.append (.cons dk (.str u) .nil)) := by
  cases m with
  | nil => exact absurd rfl hne
  | cons k v rest =>
    cases u with
    | nil => exact absurd rfl hu
    | cons c cs => simp [merge, V.falsy, hm]

example : merge "default".toList (.dict (.cons "fr".toList (.str "Qfr".toList) .nil)) (.str "Q".toList)
    = .dict (.cons "fr".toList (.str "Qfr".toList) (.cons "default".toList (.str "Q".toList) .nil)) :=
  unsuffixed_is_default_before _ _ _ (by decide) (by intro h; cases h) (by decide)

/-- **a further language is appended, nothing else moves** -/
theorem new_language_appended (dk l : Str) (x : V) (m : Kvs) (hne : m ≠ .nil) (hl : m.has l = false) :
    merge dk (.dict m) (.dict (.cons l x .nil)) = .dict (m.append (.cons l x .nil)) := by
  cases m with
  | nil => exact absurd rfl hne
  | cons k v rest =>
    have hd : ∀ q, (Kvs.cons k v rest).has q = true → (Kvs.cons l x Kvs.nil).has q = false := by
      intro q hq
      by_cases h : q = l
      · subst h; rw [hl] at hq; cases hq
      · simp [Kvs.has, h]
    have h1 := mergeKvs_disjoint dk (.cons k v rest) (.cons l x .nil) hd
    have h2 : (Kvs.cons l x Kvs.nil).without (Kvs.cons k v rest) = Kvs.cons l x Kvs.nil := by
      simp [Kvs.without, hl]
    simp only [merge, V.falsy, Bool.false_eq_true, if_false, h1, h2]

example : merge "default".toList (.dict (.cons "fr".toList (.str "A".toList) .nil)) (.dict (.cons "en".toList (.str "B".toList) .nil))
    = .dict (.cons "fr".toList (.str "A".toList) (.cons "en".toList (.str "B".toList) .nil)) :=
  new_language_appended _ _ _ _ (by intro h; cases h) (by decide)

/-- **two plain values for one key: the later one wins** (repair b0e6b55 of F39 / the C17 crash: before it the
earlier text was wrapped once more, `{dk: a}`, and the later one dropped). -/
theorem two_strings_later_wins (dk a b : Str) (ha : a ≠ []) (hb : b ≠ []) :
    merge dk (.str a) (.str b) = .str b := by
  cases a with
  | nil => exact absurd rfl ha
  | cons c cs =>
    cases b with
    | nil => exact absurd rfl hb
    | cons d ds => simp [merge, V.falsy]

example : merge "fr".toList (.str "A".toList) (.str "B".toList) = .str "B".toList :=
  two_strings_later_wins _ _ _ (by decide) (by decide)

/-! ## the whole row -/

/-- what column `q` holds after the cells of `row` (tokens through `hk`), starting from `acc`: the cells whose first
token is `q`, merged in column order; every other cell is ignored -/
def colFold (dk : Str) (hk : List (Str × List Str)) (q : Str) : V → List (Str × Str) → V
  | acc, [] => acc
  | acc, (h, v) :: rest =>
    match lookup h hk with
    | some (t :: ts) => colFold dk hk q (if q = t then merge dk acc (nest ts v) else acc) rest
    | _ => colFold dk hk q acc rest

/-- no second *unsuffixed* cell arrives for a column that holds a plain string at that moment -/
def NoClash (dk : Str) (hk : List (Str × List Str)) (out : Kvs) (row : List (Str × Str)) : Prop :=
  ∀ pre h v post, row = pre ++ (h, v) :: post → ∀ t, lookup h hk = some [t] → ∀ x, colFold dk hk t (out.get t) pre ≠ .str x

/-- **row_grouping**: `process_row` puts every cell under the first token of its header — merged, in column order, with
the other cells of that column — and nowhere else: after the whole row, column `q` holds exactly `colFold q`. -/
theorem row_grouping (dk : Str) (hk : List (Str × List Str)) : ∀ (row : List (Str × Str)) (out : Kvs),
    (∀ c ∈ row, c.1 ≠ "__row".toList ∧ ∃ t ts, lookup c.1 hk = some (t :: ts)) →
    NoClash dk hk out row →
    ∃ out', processRowFrom dk hk out row = .ok out' ∧ ∀ q, out'.get q = colFold dk hk q (out.get q) row
  | [], out, _, _ => ⟨out, by simp [processRowFrom], fun q => by simp [colFold]⟩
  | (h, v) :: rest, out, hwf, hnc => by
    obtain ⟨hrow, t, ts, hlk⟩ := hwf (h, v) (by simp)
    simp only at hrow hlk
    have hplain : ts = [] → ∀ x, out.get t ≠ .str x := by
      intro hts x
      have := hnc [] h v rest rfl t (by rw [hlk, hts]) x
      simpa [colFold] using this
    obtain ⟨out1, hstep, hget1⟩ := row_grouping_step dk hk out h v t ts hrow hlk hplain
    have hwf' : ∀ c ∈ rest, c.1 ≠ "__row".toList ∧ ∃ t ts, lookup c.1 hk = some (t :: ts) :=
      fun c hc => hwf c (by simp [hc])
    have hnc' : NoClash dk hk out1 rest := by
      intro pre h' v' post hsplit t' hlk' x
      have := hnc ((h, v) :: pre) h' v' post (by simp [hsplit]) t' hlk' x
      by_cases ht : t' = t
      · subst ht; simpa [colFold, hlk, hget1 t'] using this
      · simpa [colFold, hlk, hget1 t', ht] using this
    obtain ⟨out2, hrest, hget2⟩ := row_grouping dk hk rest out1 hwf' hnc'
    refine ⟨out2, ?_, ?_⟩
    · simp [processRowFrom, hstep, hrest]
    · intro q
      rw [hget2 q, hget1 q]
      by_cases hq : q = t
      · subst hq; simp [colFold, hlk]
      · simp [colFold, hlk, hq]

def hkEx : List (Str × List Str) := [("label::fr".toList, ["label".toList, "fr".toList]), ("label".toList, ["label".toList])]
def rowEx : List (Str × Str) := [("label::fr".toList, "Qfr".toList), ("label".toList, "Q".toList)]

/-- non-vacuity: the F19 shape (suffixed column first, unsuffixed last) meets every hypothesis -/
example : ∃ out', processRowFrom "default".toList hkEx .nil rowEx = .ok out' ∧
    ∀ q, out'.get q = colFold "default".toList hkEx q (Kvs.nil.get q) rowEx := by
  apply row_grouping
  · intro c hc
    simp only [rowEx, List.mem_cons, List.mem_nil_iff, or_false] at hc
    rcases hc with rfl | rfl
    · exact ⟨by decide, "label".toList, ["fr".toList], by decide⟩
    · exact ⟨by decide, "label".toList, [], by decide⟩
  · intro pre h v post hs t hl x
    rcases pre with _ | ⟨p1, _ | ⟨p2, pre⟩⟩
    · simp only [rowEx, List.nil_append, List.cons.injEq, Prod.mk.injEq] at hs
      obtain ⟨⟨rfl, rfl⟩, _⟩ := hs
      have : lookup "label::fr".toList hkEx = some ["label".toList, "fr".toList] := by decide
      rw [this] at hl; simp at hl
    · simp only [rowEx, List.cons_append, List.nil_append, List.cons.injEq, Prod.mk.injEq] at hs
      obtain ⟨rfl, ⟨rfl, rfl⟩, _⟩ := hs
      have ht : t = "label".toList := by
        have : lookup "label".toList hkEx = some ["label".toList] := by decide
        rw [this] at hl; simpa using hl.symm
      subst ht
      have hl2 : lookup ['l', 'a', 'b', 'e', 'l', ':', ':', 'f', 'r'] hkEx = some [['l', 'a', 'b', 'e', 'l'], ['f', 'r']] := by decide
      simp [colFold, hl2, Kvs.get, merge_none_left, nest]
    · simp [rowEx] at hs

/-! ## one column, any number of languages, any column order -/

/-- one column's cells in column order: (language suffix, or none for the unsuffixed column; text) -/
abbrev ColCell := Option Str × Str

/-- what `process_row` merges into the column for such a cell: `nest [] x` / `nest [l] x` -/
def cellV : ColCell → V
  | (none, x) => .str x
  | (some l, x) => .dict (.cons l (.str x) .nil)

theorem cellV_eq_nest (c : ColCell) : cellV c = nest (match c.1 with | none => [] | some l => [l]) c.2 := by
  rcases c with ⟨_ | l, x⟩ <;> rfl

/-- the column value after merging the cells in order (= `colFold` restricted to one column) -/
def colVal (dk : Str) : V → List ColCell → V
  | acc, [] => acc
  | acc, c :: cs => colVal dk (merge dk acc (cellV c)) cs

def findLang (cells : List ColCell) (k : Option Str) : Option Str :=
  (cells.find? fun c => c.1 = k).map (·.2)

/-- the spec reading of one column: the cell suffixed with `q`; else, for the default language, the unsuffixed cell -/
def specRead (dk : Str) (cells : List ColCell) (q : Str) : Option Str :=
  (findLang cells (some q)).orElse fun _ => if q = dk then findLang cells none else none

/-- a column value as rows produce it: nothing, a non-empty string, or a non-empty dict of non-empty strings -/
def FlatD (m : Kvs) : Prop :=
  ∀ q, (m.has q = false ∧ m.get q = .none) ∨ (m.has q = true ∧ ∃ y, y ≠ [] ∧ m.get q = .str y)

inductive Flat : V → Prop
  | none : Flat .none
  | str (u : Str) : u ≠ [] → Flat (.str u)
  | dict (m : Kvs) : m ≠ .nil → FlatD m → Flat (.dict m)

def isStrV : V → Bool
  | .str _ => true
  | _ => false

/-- reading with a starting value: later cells win, then what was there, then the unsuffixed cell for the default language -/
def readFrom (dk : Str) (acc : V) (cells : List ColCell) (q : Str) : Option Str :=
  (findLang cells (some q)).orElse fun _ => (readLang dk acc q).orElse fun _ =>
    if q = dk then findLang cells none else none

theorem ne_nil_of_has {m : Kvs} {q : Str} (h : m.has q = true) : m ≠ .nil := by
  intro hm; subst hm; simp [Kvs.has] at h

theorem flatD_single (l x : Str) (hx : x ≠ []) : FlatD (.cons l (.str x) .nil) := by
  intro q
  by_cases hq : q = l
  · right; subst hq; exact ⟨by simp [Kvs.has], x, hx, by simp [Kvs.get]⟩
  · left; exact ⟨by simp [Kvs.has, hq], by simp [Kvs.get, hq]⟩

theorem flatD_mergeTop (dk : Str) (m : Kvs) (l x : Str) (hx : x ≠ []) (hm : FlatD m) :
    FlatD (mergeTop dk m l (.str x)) := by
  intro q
  rw [mergeTop_has, mergeTop_get]
  by_cases hq : q = l
  · subst hq
    right
    refine ⟨by simp, x, hx, ?_⟩
    rcases hm q with ⟨_, hg⟩ | ⟨_, y, hy, hg⟩
    · simp [hg, merge_none_left]
    · simp only [if_true, hg]; exact two_strings_later_wins dk y x hy hx
  · simp only [hq, decide_false, Bool.or_false, if_false]
    exact hm q

theorem flatD_append_single (m : Kvs) (k u : Str) (hu : u ≠ []) (hm : FlatD m) (hk : m.has k = false) :
    FlatD (m.append (.cons k (.str u) .nil)) := by
  intro q
  rw [Kvs.append_has, Kvs.append_get]
  rcases hm q with ⟨hh, hg⟩ | ⟨hh, y, hy, hg⟩
  · by_cases hq : q = k
    · right; subst hq; exact ⟨by simp [Kvs.has], u, hu, by simp [hh, Kvs.get]⟩
    · left; exact ⟨by simp [hh, Kvs.has, hq], by simp [hh, Kvs.get, hq]⟩
  · right; exact ⟨by simp [hh], y, hy, by simp [hh, hg]⟩

theorem flatD_cons_fresh (m : Kvs) (k u : Str) (hu : u ≠ []) (hm : FlatD m) (hk : m.has k = false) :
    FlatD (.cons k (.str u) m) := by
  intro q
  by_cases hq : q = k
  · right; subst hq; exact ⟨by simp [Kvs.has], u, hu, by simp [Kvs.get]⟩
  · rcases hm q with ⟨hh, hg⟩ | ⟨hh, y, hy, hg⟩
    · left; exact ⟨by simp [Kvs.has, hq, hh], by simp [Kvs.get, hq, hg]⟩
    · right; exact ⟨by simp [Kvs.has, hq, hh], y, hy, by simp [Kvs.get, hq, hg]⟩

theorem readLang_flat (dk : Str) (m : Kvs) (hm : FlatD m) (q : Str) :
    readLang dk (.dict m) q = (if m.has q then (match m.get q with | .str y => some y | _ => none) else none) := by
  rcases hm q with ⟨hh, hg⟩ | ⟨hh, y, _, hg⟩ <;> simp [readLang, hh, hg]


theorem findLang_cons (c : ColCell) (cs : List ColCell) (k : Option Str) :
    findLang (c :: cs) k = if c.1 = k then some c.2 else findLang cs k := by
  by_cases h : c.1 = k <;> simp [findLang, List.find?, h]

theorem step_unsuffixed (dk : Str) (acc : V) (u : Str) (cs : List ColCell)
    (hf : Flat acc) (hu : u ≠ []) (hstr : isStrV acc = false) (hnd : findLang cs none = none) :
    Flat (merge dk acc (.str u)) ∧
      ∀ q, readFrom dk (merge dk acc (.str u)) cs q = readFrom dk acc ((none, u) :: cs) q := by
  cases hf with
  | none =>
    refine ⟨by rw [merge_none_left]; exact Flat.str u hu, fun q => ?_⟩
    rw [merge_none_left]
    simp only [readFrom, findLang_cons, hnd, readLang]
    by_cases hq : q = dk <;> cases findLang cs (some q) <;> simp [hq]
  | str u0 h0 => simp [isStrV] at hstr
  | dict m hne hm =>
    by_cases hdk : m.has dk = true
    · rw [default_suffix_wins_before dk u m hu hdk]
      refine ⟨Flat.dict m hne hm, fun q => ?_⟩
      simp only [readFrom, findLang_cons, hnd]
      by_cases hq : q = dk
      · subst hq
        rcases hm q with ⟨hh, _⟩ | ⟨_, y, _, hg⟩
        · rw [hh] at hdk; cases hdk
        · cases findLang cs (some q) <;> simp [readLang, hg]
      · cases findLang cs (some q) <;> simp [hq]
    · have hdk' : m.has dk = false := by simpa using hdk
      rw [unsuffixed_is_default_before dk u m hu hne hdk']
      have hfl := flatD_append_single m dk u hu hm hdk'
      refine ⟨Flat.dict _ (ne_nil_of_has (q := dk) (by simp [Kvs.append_has, Kvs.has])) hfl, fun q => ?_⟩
      simp only [readFrom, findLang_cons, hnd]
      have hr : readLang dk (.dict (m.append (.cons dk (.str u) .nil))) q =
          (readLang dk (.dict m) q).orElse fun _ => if q = dk then some u else none := by
        simp only [readLang, Kvs.append_get]
        rcases hm q with ⟨hh, hg⟩ | ⟨hh, y, _, hg⟩
        · by_cases hq : q = dk
          · subst hq; simp [hh, hg, Kvs.get]
          · simp [hh, hg, Kvs.get, hq]
        · simp [hh, hg]
      rw [hr]
      by_cases hq : q = dk <;> cases findLang cs (some q) <;> cases readLang dk (.dict m) q <;> simp [hq]

theorem step_suffixed (dk : Str) (acc : V) (l x : Str) (cs : List ColCell)
    (hf : Flat acc) (hx : x ≠ []) (hnd : findLang cs (some l) = none) :
    Flat (merge dk acc (cellV (some l, x))) ∧ isStrV (merge dk acc (cellV (some l, x))) = false ∧
      ∀ q, readFrom dk (merge dk acc (cellV (some l, x))) cs q = readFrom dk acc ((some l, x) :: cs) q := by
  have hsingle := flatD_single l x hx
  have key : ∀ (v : V), (∀ q, readLang dk v q = if q = l then some x else readLang dk acc q) →
      ∀ q, readFrom dk v cs q = readFrom dk acc ((some l, x) :: cs) q := by
    intro v hv q
    simp only [readFrom, findLang_cons, hv q]
    by_cases hq : q = l
    · subst hq; simp [hnd]
    · have : ¬ some l = some q := fun h => hq (Option.some.inj h).symm
      simp [hq, this]
  cases hf with
  | none =>
    simp only [cellV, merge_none_left]
    refine ⟨Flat.dict _ (by intro h; cases h) hsingle, rfl, key _ fun q => ?_⟩
    by_cases hq : q = l <;> simp [readLang, Kvs.get, hq]
  | str u0 h0 =>
    by_cases hl : l = dk
    · subst hl
      simp only [cellV]
      rw [default_suffix_wins_after l u0 _ h0 (by simp [Kvs.has])]
      refine ⟨Flat.dict _ (by intro h; cases h) hsingle, rfl, key _ fun q => ?_⟩
      by_cases hq : q = l <;> simp [readLang, Kvs.get, hq]
    · have hh : (Kvs.cons l (V.str x) Kvs.nil).has dk = false := by
        simp [Kvs.has]; exact fun h => hl h.symm
      simp only [cellV]
      rw [unsuffixed_is_default_after dk u0 _ h0 (by intro h; cases h) hh]
      refine ⟨Flat.dict _ (by intro h; cases h) (flatD_cons_fresh _ dk u0 h0 hsingle hh), rfl, key _ fun q => ?_⟩
      by_cases hq : q = l
      · subst hq; simp [readLang, Kvs.get, hl]
      · by_cases hqd : q = dk
        · subst hqd; simp [readLang, Kvs.get, hq]
        · simp [readLang, Kvs.get, hq, hqd]
  | dict m hne hm =>
    simp only [cellV]
    rw [merge_dict_single]
    refine ⟨Flat.dict _ (ne_nil_of_has (q := l) (by simp [mergeTop_has])) (flatD_mergeTop dk m l x hx hm), rfl, key _ fun q => ?_⟩
    simp only [readLang, mergeTop_get]
    by_cases hq : q = l
    · subst hq
      rcases hm q with ⟨_, hg⟩ | ⟨_, y, hy, hg⟩
      · simp [hg, merge_none_left]
      · simp [hg, two_strings_later_wins dk y x hy hx]
    · simp [hq]

/-- **column_reading**: for one column whose cells (unsuffixed and/or suffixed, any number of languages, any order,
distinct headers, non-empty texts) are merged in column order onto a flat starting value, every language reads:
the cell suffixed with that language, else what was there before, else — for the default language — the unsuffixed cell. -/
theorem column_reading_from (dk : Str) : ∀ (cells : List ColCell) (acc : V),
    Flat acc → (∀ c ∈ cells, c.2 ≠ []) → (cells.map (·.1)).Nodup →
    (isStrV acc = true → ∀ c ∈ cells, c.1 ≠ none) →
    ∀ q, readLang dk (colVal dk acc cells) q = readFrom dk acc cells q
  | [], acc, _, _, _, _ => fun q => by
    cases h : readLang dk acc q <;> simp [colVal, readFrom, findLang, h]
  | c :: cs, acc, hf, hne, hnd, hstr => fun q => by
    have hnd' : (cs.map (·.1)).Nodup := (List.nodup_cons.mp hnd).2
    have hfresh : findLang cs c.1 = none := by
      have hnotin := (List.nodup_cons.mp hnd).1
      simp only [findLang, Option.map_eq_none_iff, List.find?_eq_none]
      intro d hd hdc
      exact hnotin (List.mem_map.mpr ⟨d, hd, by simpa using hdc⟩)
    have hne' : ∀ d ∈ cs, d.2 ≠ [] := fun d hd => hne d (by simp [hd])
    have hx : c.2 ≠ [] := hne c (by simp)
    rcases c with ⟨_ | l, x⟩
    · have hs : isStrV acc = false := by
        cases h : isStrV acc with
        | false => rfl
        | true => exact absurd rfl (hstr h (none, x) (by simp))
      obtain ⟨hf', hrd⟩ := step_unsuffixed dk acc x cs hf hx hs hfresh
      have hstr' : isStrV (merge dk acc (.str x)) = true → ∀ d ∈ cs, d.1 ≠ none := by
        intro _ d hd hdn
        exact (List.nodup_cons.mp hnd).1 (List.mem_map.mpr ⟨d, hd, by simpa using hdn⟩)
      have := column_reading_from dk cs _ hf' hne' hnd' hstr' q
      simp only [colVal, cellV]
      rw [this, hrd q]
    · obtain ⟨hf', hs', hrd⟩ := step_suffixed dk acc l x cs hf hx hfresh
      have hstr' : isStrV (merge dk acc (cellV (some l, x))) = true → ∀ d ∈ cs, d.1 ≠ none := by
        intro h; rw [hs'] at h; cases h
      have := column_reading_from dk cs _ hf' hne' hnd' hstr' q
      simp only [colVal]
      rw [this, hrd q]

/-- **effective reading of a column = the spec's reading of its cells**, for any number of languages and any column order -/
theorem column_reading (dk : Str) (cells : List ColCell) (hne : ∀ c ∈ cells, c.2 ≠ []) (hnd : (cells.map (·.1)).Nodup) (q : Str) :
    readLang dk (colVal dk .none cells) q = specRead dk cells q := by
  rw [column_reading_from dk cells .none Flat.none hne hnd (by intro h; cases h) q]
  simp [readFrom, specRead, readLang]

theorem findLang_some_iff : ∀ (cells : List ColCell), (cells.map (·.1)).Nodup → ∀ (k : Option Str) (x : Str),
    (findLang cells k = some x ↔ (k, x) ∈ cells)
  | [], _, k, x => by simp [findLang]
  | c :: cs, hnd, k, x => by
    have hnot := (List.nodup_cons.mp hnd).1
    have ih := findLang_some_iff cs (List.nodup_cons.mp hnd).2 k x
    rw [findLang_cons]
    by_cases hc : c.1 = k
    · simp only [hc, if_true, List.mem_cons]
      constructor
      · intro h; left; rcases c with ⟨a, b⟩; simp at hc h; simp [hc, h]
      · rintro (h | h)
        · rw [← h]
        · have hk : c.1 ∈ cs.map (·.1) := List.mem_map.mpr ⟨(k, x), h, hc.symm⟩
          exact absurd hk hnot
    · simp only [hc, if_false, List.mem_cons, ih]
      constructor
      · exact fun h => Or.inr h
      · rintro (h | h)
        · exact absurd (by rw [← h]) hc
        · exact h

theorem findLang_perm (cells cells' : List ColCell) (hp : cells.Perm cells') (hnd : (cells.map (·.1)).Nodup) (k : Option Str) :
    findLang cells k = findLang cells' k := by
  have hnd' : (cells'.map (·.1)).Nodup := (hp.map _).nodup_iff.mp hnd
  apply Option.ext
  intro x
  rw [findLang_some_iff cells hnd, findLang_some_iff cells' hnd', hp.mem_iff]

/-- **column_order_independent** (general; holds since the repair of `merge_dicts`, b0e6b55): permuting the columns of
one column group — unsuffixed and any number of suffixed ones, with distinct headers — does not change what any language reads. -/
theorem column_order_independent (dk : Str) (cells cells' : List ColCell) (hp : cells.Perm cells')
    (hne : ∀ c ∈ cells, c.2 ≠ []) (hnd : (cells.map (·.1)).Nodup) (q : Str) :
    readLang dk (colVal dk .none cells) q = readLang dk (colVal dk .none cells') q := by
  have hnd' : (cells'.map (·.1)).Nodup := (hp.map _).nodup_iff.mp hnd
  have hne' : ∀ c ∈ cells', c.2 ≠ [] := fun c hc => hne c (hp.mem_iff.mpr hc)
  rw [column_reading dk cells hne hnd q, column_reading dk cells' hne' hnd' q]
  simp only [specRead, findLang_perm cells cells' hp hnd]

/-- non-vacuity: the shape that crashed / lost the text before b0e6b55 — unsuffixed, another language, then the
default language's own column — reads the explicitly suffixed text for the default language -/
example : readLang "fr".toList (colVal "fr".toList .none
    [(none, "A".toList), (some "en".toList, "Aen".toList), (some "fr".toList, "Afr".toList)]) "fr".toList = some "Afr".toList := by
  rw [column_reading _ _ (by decide) (by decide)]; decide

example : readLang "fr".toList (colVal "fr".toList .none
      [(none, "A".toList), (some "en".toList, "Aen".toList), (some "fr".toList, "Afr".toList)]) "fr".toList =
    readLang "fr".toList (colVal "fr".toList .none
      [(some "fr".toList, "Afr".toList), (none, "A".toList), (some "en".toList, "Aen".toList)]) "fr".toList :=
  column_order_independent _ _ _ (by decide) (by decide) (by decide) _

/-- the cells of column `q` of a row, as (language suffix, text), for headers with at most one token after the column -/
def colCells (hk : List (Str × List Str)) (q : Str) : List (Str × Str) → List ColCell
  | [] => []
  | (h, v) :: rest =>
    match lookup h hk with
    | some [t] => if q = t then (none, v) :: colCells hk q rest else colCells hk q rest
    | some [t, l] => if q = t then (some l, v) :: colCells hk q rest else colCells hk q rest
    | _ => colCells hk q rest

/-- for a column whose headers are `q` or `q::language` (label, hint, guidance_hint; label of choices), what
`process_row` leaves in the column (`colFold`, see `row_grouping`) is the merge of its (language, text) cells -/
theorem colFold_eq_colVal (dk : Str) (hk : List (Str × List Str)) (q : Str) : ∀ (row : List (Str × Str)) (acc : V),
    (∀ c ∈ row, ∀ t ts, lookup c.1 hk = some (t :: ts) → q = t → ts.length ≤ 1) →
    colFold dk hk q acc row = colVal dk acc (colCells hk q row)
  | [], acc, _ => by simp [colFold, colCells, colVal]
  | (h, v) :: rest, acc, hyp => by
    have hrest : ∀ c ∈ rest, ∀ t ts, lookup c.1 hk = some (t :: ts) → q = t → ts.length ≤ 1 :=
      fun c hc => hyp c (by simp [hc])
    have ih := fun acc' => colFold_eq_colVal dk hk q rest acc' hrest
    cases hl : lookup h hk with
    | none => simp [colFold, colCells, hl, ih]
    | some toks =>
      match toks, hl with
      | [], hl => simp [colFold, colCells, hl, ih]
      | [t], hl =>
        by_cases hq : q = t
        · subst hq
          simp [colFold, colCells, hl, ih, colVal, cellV, nest]
        · simp [colFold, colCells, hl, hq, ih]
      | [t, l], hl =>
        by_cases hq : q = t
        · subst hq
          simp [colFold, colCells, hl, ih, colVal, cellV, nest]
        · simp [colFold, colCells, hl, hq, ih]
      | t :: a :: b :: ts, hl =>
        by_cases hq : q = t
        · have := hyp (h, v) (by simp) t (a :: b :: ts) hl hq
          simp at this
        · simp [colFold, colCells, hl, hq, ih]


/-! ## media and message columns (one more token) -/

/-- `d.get(k)` of a group column value (`media`, `bind`): `None` unless the value is a dict -/
def getK : V → Str → V
  | .dict m, k => m.get k
  | _, _ => .none

/-- the cells of sub-column `g::k` of a row, as (language suffix, text): headers `g::k` and `g::k::language`
(`media::image::fr`, `bind::jr:constraintMsg::fr`, i.e. the aliases image / constraint_message / …) -/
def subCells (hk : List (Str × List Str)) (g k : Str) : List (Str × Str) → List ColCell
  | [] => []
  | (h, v) :: rest =>
    match lookup h hk with
    | some [t, a] => if g = t ∧ k = a then (none, v) :: subCells hk g k rest else subCells hk g k rest
    | some [t, a, l] => if g = t ∧ k = a then (some l, v) :: subCells hk g k rest else subCells hk g k rest
    | _ => subCells hk g k rest

def isGroupVal : V → Prop
  | .none => True
  | .dict _ => True
  | .str _ => False

theorem getK_merge_single (dk : Str) (acc : V) (a : Str) (w : V) (k : Str) (hacc : isGroupVal acc) :
    getK (merge dk acc (.dict (.cons a w .nil))) k = (if k = a then merge dk (getK acc k) w else getK acc k) ∧
    isGroupVal (merge dk acc (.dict (.cons a w .nil))) := by
  cases acc with
  | none =>
    rw [merge_none_left]
    refine ⟨?_, trivial⟩
    by_cases h : k = a <;> simp [getK, Kvs.get, h, merge_none_left]
  | str s => exact absurd hacc (by simp [isGroupVal])
  | dict m =>
    rw [merge_dict_single]
    refine ⟨?_, trivial⟩
    by_cases h : k = a
    · subst h; simp [getK, mergeTop_get]
    · simp [getK, mergeTop_get, h]

/-- **closed form for media and message columns, part 1**: for a group column `g` all of whose headers have one or two
more tokens (`g::k`, `g::k::language`), key `k` of what `process_row` leaves in column `g` is the merge, in column
order, of the (language, text) cells of sub-column `g::k` — other sub-columns do not touch it. -/
theorem group_colFold (dk : Str) (hk : List (Str × List Str)) (g k : Str) : ∀ (row : List (Str × Str)) (acc : V),
    isGroupVal acc →
    (∀ c ∈ row, ∀ t ts, lookup c.1 hk = some (t :: ts) → g = t → 1 ≤ ts.length ∧ ts.length ≤ 2) →
    getK (colFold dk hk g acc row) k = colVal dk (getK acc k) (subCells hk g k row)
  | [], acc, _, _ => by simp [colFold, subCells, colVal]
  | (h, v) :: rest, acc, hacc, hyp => by
    have hrest : ∀ c ∈ rest, ∀ t ts, lookup c.1 hk = some (t :: ts) → g = t → 1 ≤ ts.length ∧ ts.length ≤ 2 :=
      fun c hc => hyp c (by simp [hc])
    have ih := fun acc' ha => group_colFold dk hk g k rest acc' ha hrest
    cases hl : lookup h hk with
    | none => simp [colFold, subCells, hl, ih acc hacc]
    | some toks =>
      match toks, hl with
      | [], hl => simp [colFold, subCells, hl, ih acc hacc]
      | [t], hl =>
        by_cases hq : g = t
        · have := (hyp (h, v) (by simp) t [] hl hq).1
          simp at this
        · simp [colFold, subCells, hl, hq, ih acc hacc]
      | [t, a], hl =>
        by_cases hq : g = t
        · subst hq
          obtain ⟨hget, hgrp⟩ := getK_merge_single dk acc a (.str v) k hacc
          simp only [colFold, hl, if_true, nest, subCells]
          rw [ih _ hgrp, hget]
          by_cases hka : k = a
          · subst hka; simp [colVal, cellV]
          · simp [hka]
        · simp [colFold, subCells, hl, hq, ih acc hacc]
      | [t, a, l], hl =>
        by_cases hq : g = t
        · subst hq
          obtain ⟨hget, hgrp⟩ := getK_merge_single dk acc a (.dict (.cons l (.str v) .nil)) k hacc
          simp only [colFold, hl, if_true, nest, subCells]
          rw [ih _ hgrp, hget]
          by_cases hka : k = a
          · subst hka; simp [colVal, cellV]
          · simp [hka]
        · simp [colFold, subCells, hl, hq, ih acc hacc]
      | t :: a :: b :: c :: ts, hl =>
        by_cases hq : g = t
        · have := (hyp (h, v) (by simp) t (a :: b :: c :: ts) hl hq).2
          simp at this
        · simp [colFold, subCells, hl, hq, ih acc hacc]

/-- **closed form for media and message columns**: every language reads, under `g::k` of the grouped row, exactly the
spec's cell of sub-column `g::k` (suffixed, else the unsuffixed one for the default language), in any column order. -/
theorem group_column_reading (dk : Str) (hk : List (Str × List Str)) (g k : Str) (row : List (Str × Str))
    (hyp : ∀ c ∈ row, ∀ t ts, lookup c.1 hk = some (t :: ts) → g = t → 1 ≤ ts.length ∧ ts.length ≤ 2)
    (hne : ∀ c ∈ subCells hk g k row, c.2 ≠ []) (hnd : ((subCells hk g k row).map (·.1)).Nodup) (q : Str) :
    readLang dk (getK (colFold dk hk g .none row) k) q = specRead dk (subCells hk g k row) q := by
  rw [group_colFold dk hk g k row .none trivial hyp]
  exact column_reading dk _ hne hnd q

def hkM : List (Str × List Str) :=
  [("image".toList, ["media".toList, "image".toList]), ("image::fr".toList, ["media".toList, "image".toList, "fr".toList]),
   ("audio::fr".toList, ["media".toList, "audio".toList, "fr".toList])]
def rowM : List (Str × Str) :=
  [("image::fr".toList, "f.png".toList), ("audio::fr".toList, "f.mp3".toList), ("image".toList, "u.png".toList)]

/-- non-vacuity: image suffixed before unsuffixed with an audio column in between; `default` reads the unsuffixed image -/
example : readLang "default".toList (getK (colFold "default".toList hkM "media".toList .none rowM) "image".toList) "default".toList
    = some "u.png".toList := by
  have hyp : ∀ c ∈ rowM, ∀ t ts, lookup c.1 hkM = some (t :: ts) → "media".toList = t → 1 ≤ ts.length ∧ ts.length ≤ 2 := by
    intro c hc t ts hl _
    simp only [rowM, List.mem_cons, List.mem_nil_iff, or_false] at hc
    rcases hc with rfl | rfl | rfl
    · have h2 : lookup "image::fr".toList hkM = some ["media".toList, "image".toList, "fr".toList] := by decide
      rw [h2] at hl; cases hl; simp
    · have h2 : lookup "audio::fr".toList hkM = some ["media".toList, "audio".toList, "fr".toList] := by decide
      rw [h2] at hl; cases hl; simp
    · have h2 : lookup "image".toList hkM = some ["media".toList, "image".toList] := by decide
      rw [h2] at hl; cases hl; simp
  rw [group_column_reading _ _ _ _ _ hyp (by decide) (by decide)]; decide


/-! ## facts about the regenerated tables (re-checked against /repo's source on every run) -/

/-- the translatable one-token columns are expected columns of the survey sheet and are not aliased -/
theorem survey_text_columns_plain :
    (["label", "hint", "guidance_hint", "media", "bind"].all fun c =>
      surveyColumns.contains c.toList && (lookup c.toList surveyAliases).isNone) = true := by decide +kernel

/-- the message and media spellings de-alias to the grouped headers the text layer reads -/
theorem survey_aliases_of_translatable :
    lookup "constraint_message".toList surveyAliases = some ["bind".toList, "jr:constraintMsg".toList] ∧
    lookup "required_message".toList surveyAliases = some ["bind".toList, "jr:requiredMsg".toList] ∧
    lookup "image".toList surveyAliases = some ["media".toList, "image".toList] ∧
    lookup "audio".toList surveyAliases = some ["media".toList, "audio".toList] ∧
    lookup "video".toList surveyAliases = some ["media".toList, "video".toList] ∧
    lookup "big-image".toList surveyAliases = some ["media".toList, "big-image".toList] ∧
    lookup "caption".toList surveyAliases = some ["label".toList] := by decide +kernel

theorem choices_aliases_of_translatable :
    listColumns.contains "label".toList = true ∧ listColumns.contains "media".toList = true ∧
    lookup "image".toList listAliases = some ["media".toList, "image".toList] ∧
    lookup "audio".toList listAliases = some ["media".toList, "audio".toList] ∧
    lookup "list_name".toList listAliases = some ["list name".toList] := by decide +kernel

/-- `process_header` on the documented header shapes (both delimiters, spaces, aliases, the `jr:` case) -/
theorem process_header_shapes :
    (processHeader "label::fr".toList true surveyAliases surveyColumns).toOption = some (some "label".toList, ["label".toList, "fr".toList]) ∧
    (processHeader "Label : French (fr)".toList false surveyAliases surveyColumns).toOption = some (some "label".toList, ["label".toList, "French (fr)".toList]) ∧
    (processHeader "constraint message :: fr".toList true surveyAliases surveyColumns).toOption
      = some (none, ["bind".toList, "jr:constraintMsg".toList, "fr".toList]) ∧
    (processHeader "bind:jr:requiredMsg:fr".toList false surveyAliases surveyColumns).toOption
      = some (some "bind".toList, ["bind".toList, "jr:requiredMsg".toList, "fr".toList]) ∧
    (processHeader "image::fr".toList true listAliases listColumns).toOption = some (none, ["media".toList, "image".toList, "fr".toList]) := by
  decide +kernel

end Pyxv.C08
