import Pyxv.Proofs.HeadersLemmas
import Pyxv.Model.Texts
import Pyxv.Model.TextSpec
/-!
# C08 — each language shows exactly the text written for it: theorems about the header layer

All statements are about the model `Pyxv.Headers` of `pyxform/parsing/sheet_headers.py` and hold for all
strings, dict sizes, row lengths and default languages.  Proved: what one `merge_dicts` call and one `process_row` step do, and `row_grouping` for whole rows.
The composition through `Pyxv.Texts` (get_translations, itext
table, padding) to `Pyxv.TextSpec.text` is *not* proved; it is tied by the correspondence run of the check
(`c08.model` = implementation = `c08.spec` on every explored case).  See notes/design_C08.md.
-/
namespace Pyxv.C08
open Pyxv Pyxv.Headers

/-- the text stored for language `l` in a column value: a plain string counts as the default language -/
def readLang (dk : Str) (v : V) (l : Str) : Option Str :=
  match v with
  | .str t => if l = dk then some t else none
  | .dict m => match m.get l with
    | .str t => some t
    | _ => none
  | .none => none

/-- **row_grouping (one cell)**: one step of `process_row` on a row of truthy values files the cell under
the first token of its header — merged with what that column already holds — and changes no other column.
The hypothesis `hplain` excludes only a second *unsuffixed* cell for a column that currently holds a plain
string (two headers with the same one-token reading; `dealias_and_group_headers` rejects most of them).
This is the statement whose one-token case failed before the repair of F19 (`out_row[t] = val` overwrote a
dict of translations). -/
theorem row_grouping_step (dk : Str) (hk : List (Str × List Str)) (out : Kvs) (header val t : Str) (ts : List Str) (q : Str)
    (hrow : header ≠ "__row".toList) (hlk : lookup header hk = some (t :: ts)) (htr : out.allTruthy = true)
    (hplain : ts = [] → ∀ x, out.get t ≠ .str x) :
    ∃ out', processCell dk hk out header val = .ok out' ∧
      out'.get q = if q = t then merge dk (out.get t) (nest ts val) else out.get q := by
  have hrow' : ¬ header = ['_', '_', 'r', 'o', 'w'] := by simpa using hrow
  cases ts with
  | nil =>
    cases hg : out.get t with
    | none =>
      refine ⟨out.set t (.str val), ?_, ?_⟩
      · simp [processCell, hrow', hlk, hg]
      · rw [Kvs.set_get]; simp [merge_none_left, nest, hg]
    | str x => exact absurd hg (hplain rfl x)
    | dict m =>
      refine ⟨mergeTop dk out t (.str val), ?_, ?_⟩
      · simp [processCell, hrow', hlk, hg]
      · rw [mergeTop_get dk out t _ q htr]; simp [nest, hg]
  | cons t' ts' =>
    refine ⟨mergeTop dk out t (nest (t' :: ts') val), ?_, ?_⟩
    · simp [processCell, hrow', hlk]
    · rw [mergeTop_get dk out t _ q htr]

example : ∃ out', processCell "default".toList [("label::fr".toList, ["label".toList, "fr".toList])]
      (.cons "label".toList (.str "Q".toList) .nil) "label::fr".toList "Qfr".toList = .ok out' ∧
      out'.get "label".toList = merge "default".toList (.str "Q".toList) (nest ["fr".toList] "Qfr".toList) :=
  row_grouping_step _ _ _ _ _ "label".toList ["fr".toList] "label".toList (by decide) (by decide) (by decide) (by intro h; cases h)

/-- non-vacuity of `mergeTop_get`: a two-column row of truthy values, merging a French hint -/
example : (mergeTop "default".toList (.cons "label".toList (.str "Q".toList) (.cons "hint".toList (.str "H".toList) .nil))
      "hint".toList (nest ["fr".toList] "Hfr".toList)).get "label".toList = .str "Q".toList := by
  rw [mergeTop_get _ _ _ _ _ (by decide)]; simp [Kvs.get]

/-- **default-language rule, suffixed after unsuffixed**: a column suffixed with the default language replaces
the unsuffixed text (documented overwrite rule). -/
theorem default_suffix_wins_after (dk u : Str) (m : Kvs) (hu : u ≠ []) (hm : m.has dk = true) :
    merge dk (.str u) (.dict m) = .dict m := by
  cases m with
  | nil => simp [Kvs.has] at hm
  | cons k v rest =>
    cases u with
    | nil => exact absurd rfl hu
    | cons c cs => simp [merge, V.falsy, hm]

/-- **default-language rule, unsuffixed after suffixed**: the unsuffixed text does not displace it either. -/
theorem default_suffix_wins_before (dk u : Str) (m : Kvs) (hu : u ≠ []) (hm : m.has dk = true) :
    merge dk (.dict m) (.str u) = .dict m := by
  cases m with
  | nil => simp [Kvs.has] at hm
  | cons k v rest =>
    cases u with
    | nil => exact absurd rfl hu
    | cons c cs => simp [merge, V.falsy, hm]

example : merge "fr".toList (.str "Q".toList) (.dict (.cons "fr".toList (.str "Qfr".toList) .nil))
    = .dict (.cons "fr".toList (.str "Qfr".toList) .nil) :=
  default_suffix_wins_after _ _ _ (by decide) (by decide)

example : merge "fr".toList (.dict (.cons "fr".toList (.str "Qfr".toList) .nil)) (.str "Q".toList)
    = .dict (.cons "fr".toList (.str "Qfr".toList) .nil) :=
  default_suffix_wins_before _ _ _ (by decide) (by decide)

/-- **unsuffixed cells count as the default language** (unsuffixed column first) -/
theorem unsuffixed_is_default_after (dk u : Str) (m : Kvs) (hu : u ≠ []) (hne : m ≠ .nil) (hm : m.has dk = false) :
    merge dk (.str u) (.dict m) = .dict (.cons dk (.str u) m) := by
  cases m with
  | nil => exact absurd rfl hne
  | cons k v rest =>
    cases u with
    | nil => exact absurd rfl hu
    | cons c cs => simp [merge, V.falsy, hm]

example : merge "default".toList (.str "Q".toList) (.dict (.cons "fr".toList (.str "Qfr".toList) .nil))
    = .dict (.cons "default".toList (.str "Q".toList) (.cons "fr".toList (.str "Qfr".toList) .nil)) :=
  unsuffixed_is_default_after _ _ _ (by decide) (by intro h; cases h) (by decide)

/-- **unsuffixed cells count as the default language** (unsuffixed column last: the case F19 broke) -/
theorem unsuffixed_is_default_before (dk u : Str) (m : Kvs) (hu : u ≠ []) (hne : m ≠ .nil) (htr : m.allTruthy = true)
    (hm : m.has dk = false) :
    merge dk (.dict m) (.str u) = .dict (m.append (.cons dk (.str u) .nil)) := by
  cases m with
  | nil => exact absurd rfl hne
  | cons k v rest =>
    cases u with
    | nil => exact absurd rfl hu
    | cons c cs =>
      have := Kvs.mergeNone_id (.cons k v rest) htr
      simp [merge, V.falsy, hm, this]

example : merge "default".toList (.dict (.cons "fr".toList (.str "Qfr".toList) .nil)) (.str "Q".toList)
    = .dict (.cons "fr".toList (.str "Qfr".toList) (.cons "default".toList (.str "Q".toList) .nil)) :=
  unsuffixed_is_default_before _ _ _ (by decide) (by intro h; cases h) (by decide) (by decide)

/-- **a further language is appended, nothing else moves** -/
theorem new_language_appended (dk l : Str) (x : V) (m : Kvs) (hne : m ≠ .nil) (htr : m.allTruthy = true) (hl : m.has l = false) :
    merge dk (.dict m) (.dict (.cons l x .nil)) = .dict (m.append (.cons l x .nil)) := by
  cases m with
  | nil => exact absurd rfl hne
  | cons k v rest =>
    have hd : ∀ q, (Kvs.cons k v rest).has q = true → (Kvs.cons l x Kvs.nil).has q = false := by
      intro q hq
      by_cases h : q = l
      · subst h; rw [hl] at hq; cases hq
      · simp [Kvs.has, h]
    have h1 := mergeKvs_disjoint dk (.cons k v rest) (.cons l x .nil) htr hd
    have h2 : (Kvs.cons l x Kvs.nil).without (Kvs.cons k v rest) = Kvs.cons l x Kvs.nil := by
      simp [Kvs.without, hl]
    simp only [merge, V.falsy, Bool.false_eq_true, if_false, h1, h2]

example : merge "default".toList (.dict (.cons "fr".toList (.str "A".toList) .nil)) (.dict (.cons "en".toList (.str "B".toList) .nil))
    = .dict (.cons "fr".toList (.str "A".toList) (.cons "en".toList (.str "B".toList) .nil)) :=
  new_language_appended _ _ _ _ (by intro h; cases h) (by decide) (by decide)

/-- **column order independence for an unsuffixed and a suffixed column** (the F19 shape, now repaired):
whichever comes first, every language reads the same text. -/
theorem column_order_independent (dk l u x q : Str) (hu : u ≠ []) (hx : x ≠ []) :
    readLang dk (merge dk (.str u) (.dict (.cons l (.str x) .nil))) q =
    readLang dk (merge dk (.dict (.cons l (.str x) .nil)) (.str u)) q := by
  by_cases hl : l = dk
  · subst hl
    rw [default_suffix_wins_after l u _ hu (by simp [Kvs.has]), default_suffix_wins_before l u _ hu (by simp [Kvs.has])]
  · have hh : (Kvs.cons l (V.str x) Kvs.nil).has dk = false := by
      simp [Kvs.has]; exact fun h => hl h.symm
    have htr : (Kvs.cons l (V.str x) Kvs.nil).allTruthy = true := by
      cases x with
      | nil => exact absurd rfl hx
      | cons c cs => simp [Kvs.allTruthy, V.falsy]
    rw [unsuffixed_is_default_after dk u _ hu (by intro h; cases h) hh,
        unsuffixed_is_default_before dk u _ hu (by intro h; cases h) htr hh]
    by_cases hq : q = dk
    · subst hq
      have : ¬ q = l := fun h => hl h.symm
      simp [readLang, Kvs.get, Kvs.append, this]
    · by_cases hql : q = l <;> simp [readLang, Kvs.get, Kvs.append, hq, hql, hl]

example : readLang "default".toList (merge "default".toList (.str "Q".toList) (.dict (.cons "fr".toList (.str "Qfr".toList) .nil))) "fr".toList
    = some "Qfr".toList := by decide

/-- **the remaining defect of `merge_dicts` (guard of the row-level statement; findings F39 / C17 crash)**: two
plain strings under one key are not merged but *nested*: the later text is dropped and the earlier one is
wrapped once more, unless the default language's name happens to be a substring of the later text. -/
theorem two_strings_nest (dk a b : Str) (ha : a ≠ []) (hb : b ≠ []) (hsub : isInfix dk b = false) :
    merge dk (.str a) (.str b) = .dict (.cons dk (.str a) .nil) := by
  cases a with
  | nil => exact absurd rfl ha
  | cons c cs =>
    cases b with
    | nil => exact absurd rfl hb
    | cons d ds => simp [merge, V.falsy, hsub]

example : V.beq (merge "fr".toList (.str "A".toList) (.str "Afr".toList)) (.str "Afr".toList) = true := by decide +kernel
example : merge "fr".toList (.str "A".toList) (.str "B".toList) = .dict (.cons "fr".toList (.str "A".toList) .nil) :=
  two_strings_nest _ _ _ (by decide) (by decide) (by decide)

/-! ## the whole row -/

/-- what column `q` holds after the cells of `row` (tokens through `hk`), starting from `acc`: the cells whose first
token is `q`, merged in column order; every other cell is ignored -/
def colFold (dk : Str) (hk : List (Str × List Str)) (q : Str) : V → List (Str × Str) → V
  | acc, [] => acc
  | acc, (h, v) :: rest =>
    match lookup h hk with
    | some (t :: ts) => colFold dk hk q (if q = t then merge dk acc (nest ts v) else acc) rest
    | _ => colFold dk hk q acc rest

/-- no second *unsuffixed* cell arrives for a column that holds a plain string at that moment -/
def NoClash (dk : Str) (hk : List (Str × List Str)) (out : Kvs) (row : List (Str × Str)) : Prop :=
  ∀ pre h v post, row = pre ++ (h, v) :: post → ∀ t, lookup h hk = some [t] → ∀ x, colFold dk hk t (out.get t) pre ≠ .str x

theorem step_full (dk : Str) (hk : List (Str × List Str)) (out : Kvs) (header val t : Str) (ts : List Str)
    (hrow : header ≠ "__row".toList) (hval : val ≠ []) (hlk : lookup header hk = some (t :: ts)) (htr : out.allTruthy = true)
    (hplain : ts = [] → ∀ x, out.get t ≠ .str x) :
    ∃ out', processCell dk hk out header val = .ok out' ∧ out'.allTruthy = true ∧
      ∀ q, out'.get q = if q = t then merge dk (out.get t) (nest ts val) else out.get q := by
  have hrow' : ¬ header = ['_', '_', 'r', 'o', 'w'] := by simpa using hrow
  have hv : (V.str val).falsy = false := nest_truthy [] val hval
  cases ts with
  | nil =>
    cases hg : out.get t with
    | none =>
      refine ⟨out.set t (.str val), ?_, Kvs.set_allTruthy _ _ _ htr hv, ?_⟩
      · simp [processCell, hrow', hlk, hg]
      · intro q; rw [Kvs.set_get]; simp [merge_none_left, nest]
    | str x => exact absurd hg (hplain rfl x)
    | dict m =>
      refine ⟨mergeTop dk out t (.str val), ?_, mergeTop_allTruthy _ _ _ _ htr hv, ?_⟩
      · simp [processCell, hrow', hlk, hg]
      · intro q; rw [mergeTop_get dk out t _ q htr]; simp [nest, hg]
  | cons t' ts' =>
    refine ⟨mergeTop dk out t (nest (t' :: ts') val), ?_, mergeTop_allTruthy _ _ _ _ htr (nest_truthy _ _ hval), ?_⟩
    · simp [processCell, hrow', hlk]
    · intro q; rw [mergeTop_get dk out t _ q htr]

/-- **row_grouping**: `process_row` puts every cell under the first token of its header — merged, in column order, with
the other cells of that column — and nowhere else: after the whole row, column `q` holds exactly `colFold q`. -/
theorem row_grouping (dk : Str) (hk : List (Str × List Str)) : ∀ (row : List (Str × Str)) (out : Kvs),
    out.allTruthy = true →
    (∀ c ∈ row, c.1 ≠ "__row".toList ∧ c.2 ≠ [] ∧ ∃ t ts, lookup c.1 hk = some (t :: ts)) →
    NoClash dk hk out row →
    ∃ out', processRowFrom dk hk out row = .ok out' ∧ out'.allTruthy = true ∧
      ∀ q, out'.get q = colFold dk hk q (out.get q) row
  | [], out, htr, _, _ => ⟨out, by simp [processRowFrom], htr, fun q => by simp [colFold]⟩
  | (h, v) :: rest, out, htr, hwf, hnc => by
    obtain ⟨hrow, hval, t, ts, hlk⟩ := hwf (h, v) (by simp)
    simp only at hrow hval hlk
    have hplain : ts = [] → ∀ x, out.get t ≠ .str x := by
      intro hts x
      have := hnc [] h v rest rfl t (by rw [hlk, hts]) x
      simpa [colFold] using this
    obtain ⟨out1, hstep, htr1, hget1⟩ := step_full dk hk out h v t ts hrow hval hlk htr hplain
    have hwf' : ∀ c ∈ rest, c.1 ≠ "__row".toList ∧ c.2 ≠ [] ∧ ∃ t ts, lookup c.1 hk = some (t :: ts) :=
      fun c hc => hwf c (by simp [hc])
    have hnc' : NoClash dk hk out1 rest := by
      intro pre h' v' post hsplit t' hlk' x
      have := hnc ((h, v) :: pre) h' v' post (by simp [hsplit]) t' hlk' x
      by_cases ht : t' = t
      · subst ht; simpa [colFold, hlk, hget1 t'] using this
      · simpa [colFold, hlk, hget1 t', ht] using this
    obtain ⟨out2, hrest, htr2, hget2⟩ := row_grouping dk hk rest out1 htr1 hwf' hnc'
    refine ⟨out2, ?_, htr2, ?_⟩
    · simp [processRowFrom, hstep, hrest]
    · intro q
      rw [hget2 q, hget1 q]
      by_cases hq : q = t
      · subst hq; simp [colFold, hlk]
      · simp [colFold, hlk, hq]


def hkEx : List (Str × List Str) := [("label::fr".toList, ["label".toList, "fr".toList]), ("label".toList, ["label".toList])]
def rowEx : List (Str × Str) := [("label::fr".toList, "Qfr".toList), ("label".toList, "Q".toList)]

/-- non-vacuity: the F19 shape (suffixed column first, unsuffixed last) meets every hypothesis -/
example : ∃ out', processRowFrom "default".toList hkEx .nil rowEx = .ok out' ∧ out'.allTruthy = true ∧
    ∀ q, out'.get q = colFold "default".toList hkEx q (Kvs.nil.get q) rowEx := by
  apply row_grouping _ _ _ _ (by decide)
  · intro c hc
    simp only [rowEx, List.mem_cons, List.mem_nil_iff, or_false] at hc
    rcases hc with rfl | rfl
    · exact ⟨by decide, by decide, "label".toList, ["fr".toList], by decide⟩
    · exact ⟨by decide, by decide, "label".toList, [], by decide⟩
  · intro pre h v post hs t hl x
    rcases pre with _ | ⟨p1, _ | ⟨p2, pre⟩⟩
    · simp only [rowEx, List.nil_append, List.cons.injEq, Prod.mk.injEq] at hs
      obtain ⟨⟨rfl, rfl⟩, _⟩ := hs
      have : lookup "label::fr".toList hkEx = some ["label".toList, "fr".toList] := by decide
      rw [this] at hl; simp at hl
    · simp only [rowEx, List.cons_append, List.nil_append, List.cons.injEq, Prod.mk.injEq] at hs
      obtain ⟨rfl, ⟨rfl, rfl⟩, _⟩ := hs
      have ht : t = "label".toList := by
        have : lookup "label".toList hkEx = some ["label".toList] := by decide
        rw [this] at hl; simpa using hl.symm
      subst ht
      have hl2 : lookup ['l', 'a', 'b', 'e', 'l', ':', ':', 'f', 'r'] hkEx = some [['l', 'a', 'b', 'e', 'l'], ['f', 'r']] := by decide
      simp [colFold, hl2, Kvs.get, merge_none_left, nest]
    · simp [rowEx] at hs

/-! ## facts about the regenerated tables (re-checked against /repo's source on every run) -/

/-- the translatable one-token columns are expected columns of the survey sheet and are not aliased -/
theorem survey_text_columns_plain :
    (["label", "hint", "guidance_hint", "media", "bind"].all fun c =>
      surveyColumns.contains c.toList && (lookup c.toList surveyAliases).isNone) = true := by decide +kernel

/-- the message and media spellings de-alias to the grouped headers the text layer reads -/
theorem survey_aliases_of_translatable :
    lookup "constraint_message".toList surveyAliases = some ["bind".toList, "jr:constraintMsg".toList] ∧
    lookup "required_message".toList surveyAliases = some ["bind".toList, "jr:requiredMsg".toList] ∧
    lookup "image".toList surveyAliases = some ["media".toList, "image".toList] ∧
    lookup "audio".toList surveyAliases = some ["media".toList, "audio".toList] ∧
    lookup "video".toList surveyAliases = some ["media".toList, "video".toList] ∧
    lookup "big-image".toList surveyAliases = some ["media".toList, "big-image".toList] ∧
    lookup "caption".toList surveyAliases = some ["label".toList] := by decide +kernel

theorem choices_aliases_of_translatable :
    listColumns.contains "label".toList = true ∧ listColumns.contains "media".toList = true ∧
    lookup "image".toList listAliases = some ["media".toList, "image".toList] ∧
    lookup "audio".toList listAliases = some ["media".toList, "audio".toList] ∧
    lookup "list_name".toList listAliases = some ["list name".toList] := by decide +kernel

/-- `process_header` on the documented header shapes (both delimiters, spaces, aliases, the `jr:` case) -/
theorem process_header_shapes :
    (processHeader "label::fr".toList true surveyAliases surveyColumns).toOption = some (some "label".toList, ["label".toList, "fr".toList]) ∧
    (processHeader "Label : French (fr)".toList false surveyAliases surveyColumns).toOption = some (some "label".toList, ["label".toList, "French (fr)".toList]) ∧
    (processHeader "constraint message :: fr".toList true surveyAliases surveyColumns).toOption
      = some (none, ["bind".toList, "jr:constraintMsg".toList, "fr".toList]) ∧
    (processHeader "bind:jr:requiredMsg:fr".toList false surveyAliases surveyColumns).toOption
      = some (some "bind".toList, ["bind".toList, "jr:requiredMsg".toList, "fr".toList]) ∧
    (processHeader "image::fr".toList true listAliases listColumns).toOption = some (none, ["media".toList, "image".toList, "fr".toList]) := by
  decide +kernel

end Pyxv.C08
