import Pyxv.Proofs.BackendsLemmas
import Pyxv.Proofs.BackendsCsv
import Pyxv.Proofs.BackendsMd
import Pyxv.Proofs.BackendsExcel
/-!
# C12 — container format and delivery channel do not matter

Property theorems about `Pyxv/Model/Backends.lean` (the model of `pyxform/xls2json_backends.py`).
The csv / Markdown round trips live in `Pyxv/Proofs/BackendsCsv.lean`, `BackendsMd.lean` and are
combined at the end of this file.
-/
namespace Pyxv.Backends
open Pyxv

/-! ## the limits and tables are the ones in the source (re-checked on every run) -/

theorem limits_are_60_20 : Gen.maxEmptyRowRun = 60 ∧ Gen.maxEmptyHeaderRun = 20 := by decide

theorem parser_order : allTypes = [.xlsx, .xlsm, .xls, .md, .csv] := by decide

theorem md_regex_sources :
    Gen.backendRegexSources =
      [("MD_CELL", "\\s*\\|(.*)\\|\\s*"), ("MD_COMMENT", "^\\s*#"), ("MD_COMMENT_INLINE", "^(.*)(#[^|]+)$"),
       ("MD_PIPE_OR_ESCAPE", "(?<!\\\\)\\|"), ("MD_SEPARATOR", "^[\\|-]+$"), ("RE_WHITESPACE", "( )+")] := by
  decide

/-- the keys kept for `DefinitionData`: exactly the supported sheets, their headers and `sheet_names` -/
theorem definition_fields :
    definitionFields = (["survey", "choices", "settings", "external_choices", "entities", "osm"].flatMap
      fun s => [s.toList, (s ++ "_header").toList]) ++ ["sheet_names".toList] := by decide

/-! ## trailing trim -/

/-- `trim_trailing_empty` removes exactly `n` trailing elements and is a prefix of its input -/
theorem trimTrailing_removes_suffix {α} (l : List α) (n : Nat) :
    trimTrailing l n <+: l ∧ (trimTrailing l n).length = l.length - n :=
  ⟨trimTrailing_prefix l n, trimTrailing_length l n⟩

theorem trimTrailing_idempotent {α} (l : List α) (n : Nat) :
    trimTrailing (trimTrailing l n) 0 = trimTrailing l n := trimTrailing_idem l n

/-- the specification `stripTrailing` only removes empties at the end, and is idempotent -/
theorem stripTrailing_only_trailing_empties {α} (l : List (List α)) :
    (∃ t, l = stripTrailing (·.isEmpty) l ++ t ∧ ∀ x ∈ t, x.isEmpty = true) ∧
    stripTrailing (·.isEmpty) (stripTrailing (·.isEmpty) l) = stripTrailing (·.isEmpty) l :=
  ⟨stripTrailing_decomp _ l, stripTrailing_idem _ l⟩

example : stripTrailing (·.isEmpty) [[1], [], [2], [], []] = [[1], [], [2]] := by decide
example : trimTrailing [1, 2, 3, 4] 2 = [1, 2] := by decide

/-! ## rows: runs of up to 60 empty rows inside the data never truncate a sheet -/

/-- **getRows_spec.** If every block of empty rows that is followed by data has at most 60 rows,
`get_excel_rows` returns every cleaned row up to the last non-empty one: nothing is truncated,
only trailing empty rows go. -/
theorem getRows_spec (hdr : List (Option Str)) (rows : List (List Cell))
    (h : InteriorRunsLE 60 (rows.map fun r => rowDict hdr r [])) :
    getRows hdr rows = stripTrailing (·.isEmpty) (rows.map fun r => rowDict hdr r []) := by
  unfold getRows
  have h60 : Gen.maxEmptyRowRun = 60 := by decide
  rw [h60]
  apply getRowsOf_spec
  exact runsInt_of_interior 60 _ 0 (by simpa using h)

/-- consequence: every non-empty row survives, in order -/
theorem getRows_never_truncates (hdr : List (Option Str)) (rows : List (List Cell))
    (h : InteriorRunsLE 60 (rows.map fun r => rowDict hdr r [])) :
    (getRows hdr rows).filter (fun d => !d.isEmpty) =
      (rows.map fun r => rowDict hdr r []).filter (fun d => !d.isEmpty) := by
  rw [getRows_spec hdr rows h]
  exact stripTrailing_filter _ _

/-- the decidable form of the hypothesis, for any limit and any row type -/
theorem getRowsOf_runsInt_spec {α} (lim : Nat) (ds : List (List α)) (h : runsInt lim 0 ds = true) :
    getRowsOf lim ds = stripTrailing (·.isEmpty) ds := getRowsOf_spec lim ds h

/-- non-vacuity: a run of exactly `lim` empties inside the data is kept (here `lim = 2`), one more truncates -/
example : getRowsOf 2 [[1], [], [], [5], []] = [[1], [], [], [5]] := by decide
example : runsInt 2 0 [[1], [], [], [5], []] = true := by decide
example : getRowsOf 2 [[1], [], [], [], [5]] = [[1]] := by decide
example : InteriorRunsLE 60 ([[1], [], [2]] : List (List Nat)) := by
  intro pre mid post x hd hm hx
  have : (pre ++ mid ++ x :: post).length = 3 := by rw [← hd]; rfl
  simp at this; omega

/-! ## headers: runs of up to 20 empty columns never truncate the header row -/

/-- **getHeaders_spec.** If no run of empty header cells is longer than 20 and no duplicate is
reported, the header list is the cleaned first row without its trailing empty cells. -/
theorem getHeaders_spec (row hs : List (Option Str)) (hr : runsAll 20 0 row = true)
    (h : getHeaders row = .ok hs) : hs = stripTrailing Option.isNone (row.map cleanOpt) := by
  unfold getHeaders at h
  have h20 : Gen.maxEmptyHeaderRun = 20 := by decide
  rw [h20] at h
  split at h
  · rename_i acc adj hl
    injection h with h
    subst h
    have := headersLoop_spec 20 row 0 [] (acc, adj) (by omega) rfl hr (by simpa using hl)
    simpa using this
  · cases h

example : (getHeaders [some "type".toList, none, some " na  me ".toList, none, none]).toOption =
    some [some "type".toList, none, some "na me".toList] := by decide
example : runsAll 20 0 [some "type".toList, none, some " na  me ".toList, none, none] = true := by decide

/-- **getHeaders never truncates.** If every run of empty header cells *followed by a header* has at
most 20 cells (a trailing run may be arbitrarily long) and no duplicate is reported, then the result
is the cleaned first row without its trailing empties, possibly followed by one `None` (the one the
loop appends before it stops inside a trailing run longer than 20); in both cases it is a prefix of
the cleaned row and contains every header of it, in order and position. -/
theorem getHeaders_never_truncates (row hs : List (Option Str)) (hr : runsIntH 20 0 row = true)
    (h : getHeaders row = .ok hs) :
    (hs = stripTrailing Option.isNone (row.map cleanOpt) ∨
      hs = stripTrailing Option.isNone (row.map cleanOpt) ++ [none]) ∧
    hs <+: row.map cleanOpt ∧ hs.filterMap id = (row.map cleanOpt).filterMap id := by
  unfold getHeaders at h
  have h20 : Gen.maxEmptyHeaderRun = 20 := by decide
  rw [h20] at h
  split at h
  · rename_i acc adj hl
    injection h with h
    subst h
    have := headersLoop_interior 20 row 0 [] (acc, adj) (by omega) rfl hr (by simpa using hl)
    simp only [List.replicate_zero, List.append_nil, List.nil_append] at this
    obtain ⟨t, ht, hall⟩ := stripTrailing_decomp Option.isNone (row.map cleanOpt)
    have hnone : ∀ x ∈ t, x = none := fun x hx => by
      have h1 := hall x hx
      cases x with
      | none => rfl
      | some v => exact absurd h1 (by simp)
    rcases this with h1 | ⟨h1, t', ht', hall'⟩
    · refine ⟨.inl h1, ?_, ?_⟩
      · rw [h1]; exact ⟨t, ht.symm⟩
      · rw [h1]
        conv => rhs; rw [ht]
        rw [List.filterMap_append, filterMap_id_all_none t hnone, List.append_nil]
    · refine ⟨.inr h1, ?_, ?_⟩
      · rw [h1]; exact ⟨t', by rw [List.append_assoc]; exact ht'.symm⟩
      · rw [h1]
        conv => rhs; rw [ht']
        rw [List.filterMap_append, List.filterMap_append]
        have : (none :: t').filterMap id = [] := filterMap_id_all_none _ (by
          intro x hx
          rcases List.mem_cons.1 hx with hx | hx
          · exact hx
          · exact hall' x hx)
        rw [this]; rfl
  · cases h

/-- non-vacuity with a small limit: the loop (limit 2) stops inside the trailing run and leaves one `None` -/
example : (headersLoop 2 0 [] [some "a".toList, none, none, some "b".toList, none, none, none, none, none]).toOption
    = some ([some "a".toList, none, none, some "b".toList, none, none, none], 2) := by decide
example : runsIntH 20 0 ([some "a".toList] ++ List.replicate 20 none ++ [some "b".toList] ++ List.replicate 30 none) = true := by
  decide
example : (getHeaders ([some "a".toList] ++ List.replicate 20 none ++ [some "b".toList] ++ List.replicate 30 none)).toOption
    = some ([some "a".toList] ++ List.replicate 20 none ++ [some "b".toList, none]) := by decide +kernel

/-! ## typed cells are read as canonical text -/

theorem cellText_int (n : Int) : cellText (.int n) = some (intText n) := rfl

theorem cellText_integralFloat (n : Int) (r : Str) : cellText (.float (some n) r) = some (intText n) := rfl

/-- a non-integral float is spelled as Python's `str(float)` (a parameter of the model) -/
theorem cellText_decimal (r : Str) : cellText (.float none r) = some r := rfl

theorem cellText_bool (b : Bool) : cellText (.bool b) = some (if b then "TRUE".toList else "FALSE".toList) := by
  cases b <;> rfl

theorem mem_dropWhile_of_neg {α} (p : α → Bool) (x : α) : ∀ l : List α, x ∈ l → p x = false → x ∈ l.dropWhile p
  | [], h, _ => by cases h
  | y :: l, h, hx => by
    simp only [List.dropWhile]
    cases hy : p y with
    | false => simpa using h
    | true =>
      simp only
      apply mem_dropWhile_of_neg p x l _ hx
      rcases List.mem_cons.1 h with h | h
      · subst h; rw [hx] at hy; cases hy
      · exact h

theorem strip_keeps_nonspace (s : Str) (x : Char) (hx : x ∈ s) (hp : pyIsSpace x = false) : x ∈ strip s := by
  unfold strip rstrip lstrip
  rw [List.mem_reverse]
  apply mem_dropWhile_of_neg _ _ _ _ hp
  rw [List.mem_reverse]
  exact mem_dropWhile_of_neg _ _ _ hx hp

theorem allSpace_strip (s : Str) (h : allSpace s = false) : allSpace (strip s) = false := by
  unfold allSpace at *
  rw [Bool.eq_false_iff] at *
  intro hall
  apply h
  rw [List.all_eq_true] at *
  intro x hx
  cases hp : pyIsSpace x with
  | true => rfl
  | false => exact absurd (hall x (strip_keeps_nonspace s x hx hp)) (by simp [hp])

/-- **cellText_trim_nbsp.** A text cell that is not blank is read as its stripped text with every
remaining U+00A0 replaced by a space; the result contains no U+00A0. -/
theorem cellText_trim_nbsp (s : Str) (h : allSpace s = false) :
    cellText (.text s) = some (replaceNbsp (strip s)) ∧ nbsp ∉ replaceNbsp (strip s) := by
  constructor
  · simp [cellText, isEmptyCell, allSpace_strip s h, valueToStr]
  · unfold replaceNbsp
    intro hm
    rw [List.mem_map] at hm
    obtain ⟨c, _, hc⟩ := hm
    split at hc
    · exact absurd hc (by decide)
    · rename_i hne; exact hne hc

theorem cellText_blank (s : Str) (h : allSpace s = true) : cellText (.text s) = none := by
  have : allSpace (strip s) = true := by
    unfold allSpace at *
    rw [List.all_eq_true] at *
    intro x hx
    apply h
    unfold strip rstrip lstrip at hx
    rw [List.mem_reverse] at hx
    have := (List.dropWhile_sublist _).subset hx
    rw [List.mem_reverse] at this
    exact (List.dropWhile_sublist _).subset this
  simp [cellText, isEmptyCell, this]

example : cellText (.text [nbsp, ' ', 'A', nbsp, 'B', ' ', nbsp]) = some ['A', ' ', 'B'] := by decide
example : cellText (.int (-3)) = some "-3".toList := by decide
example : cellText (.float (some 42) "42.0".toList) = some "42".toList := by decide
example : cellText (.bool true) = some "TRUE".toList := by decide

/-! ## delivery channels -/

/-- `get_xlsform` = parse the normalised bytes with the chosen parsers, then attach the stem -/
theorem getXlsform_eq (bin : FileType → Str → Except Err Book) (c : Channel) (content : Str) (ft : Option FileType) :
    getXlsform bin c content ft =
      match tryParsers bin (getDefinitionData c content).data
          (match (match ft with | some t => some t | none => (getDefinitionData c content).fileType) with
            | some t => [t] | none => allTypes) with
      | .error e => .error e
      | .ok b => .ok (toDefinition b, (getDefinitionData c content).stem) := by
  cases c <;> rfl

/-- a channel delivers the whole content: everything but an open file that is not at its start
(a caller's `BytesIO` at any position does) -/
def Channel.whole : Channel → Bool
  | .file pos => pos == 0
  | _ => true

theorem data_of_whole (c : Channel) (content : Str) (h : c.whole = true) :
    (getDefinitionData c content).data = content := by
  cases c <;> simp_all [getDefinitionData, Channel.whole]

/-- with an explicit `file_type` the parsed workbook does not depend on the channel
(in particular not on the position of a `BytesIO`) -/
theorem channel_independent_explicit (bin : FileType → Str → Except Err Book) (c₁ c₂ : Channel)
    (content : Str) (t : FileType) (h₁ : c₁.whole = true) (h₂ : c₂.whole = true) :
    (getXlsform bin c₁ content (some t)).map Prod.fst = (getXlsform bin c₂ content (some t)).map Prod.fst := by
  rw [getXlsform_eq, getXlsform_eq, data_of_whole c₁ content h₁, data_of_whole c₂ content h₂]
  simp only []
  cases tryParsers bin content [t] <;> rfl

/-- the position of a caller's `BytesIO` is irrelevant -/
theorem bytesIO_position_irrelevant (bin : FileType → Str → Except Err Book) (p q : Nat) (content : Str)
    (t : Option FileType) :
    getXlsform bin (.bytesIO p) content t = getXlsform bin (.bytesIO q) content t := rfl

/-- what a channel contributes besides the bytes -/
def stemOf : Channel → Option Str
  | .path p => some (pathStem (pathName p))
  | _ => none

/-- **channel_stem.** A path supplies the stem of its file name (`PurePath.stem`) as the default form
id — whatever its suffix is, recognised as a file type or not — and every other channel supplies none. -/
theorem channel_stem (bin : FileType → Str → Except Err Book) (c : Channel) (content : Str)
    (t : Option FileType) (b : Book) (st : Option Str) (h : getXlsform bin c content t = .ok (b, st)) :
    st = stemOf c := by
  rw [getXlsform_eq] at h
  split at h
  · cases h
  · injection h with h
    injection h with _ h
    subst h
    cases c <;> rfl

/-- what a channel says about the type (only a path with a known suffix does) -/
theorem fileType_of_not_path (c : Channel) (content : Str) (h : ∀ n, c ≠ .path n) :
    (getDefinitionData c content).fileType = none ∧ (getDefinitionData c content).stem = none := by
  cases c with
  | path n => exact absurd rfl (h n)
  | _ => exact ⟨rfl, rfl⟩

/-- without `file_type`, the channels that are not paths and deliver the whole content are
indistinguishable; a path whose suffix names a supported type behaves like that explicit type -/
theorem channel_independent_implicit (bin : FileType → Str → Except Err Book) (c₁ c₂ : Channel)
    (content : Str) (h₁ : ∀ n, c₁ ≠ .path n) (h₂ : ∀ n, c₂ ≠ .path n)
    (w₁ : c₁.whole = true) (w₂ : c₂.whole = true) :
    getXlsform bin c₁ content none = getXlsform bin c₂ content none := by
  rw [getXlsform_eq, getXlsform_eq, data_of_whole c₁ content w₁, data_of_whole c₂ content w₂,
    (fileType_of_not_path c₁ content h₁).1, (fileType_of_not_path c₂ content h₂).1,
    (fileType_of_not_path c₁ content h₁).2, (fileType_of_not_path c₂ content h₂).2]

theorem path_suffix_is_file_type (bin : FileType → Str → Except Err Book) (name : Str) (content : Str)
    (t : FileType) (h : FileType.ofSuffix (pathSuffix (pathName name)) = some t) :
    getXlsform bin (.path name) content none = getXlsform bin (.path name) content (some t) := by
  simp [getXlsform, getDefinitionData, h]

/-- **the stem for arbitrary suffixes.** For a file name `base.ext` (non-empty `base`, which may contain
dots itself; non-empty dot-free `ext` — `XLSX`, `Md`, `txt`, `markdown`, `v2`, anything) delivered as a
path, with or without `file_type`, a successful parse carries `fallback_form_name = base`. -/
theorem channel_stem_any_suffix (bin : FileType → Str → Except Err Book) (dir base ext content : Str)
    (t : Option FileType) (b : Book) (st : Option Str) (hb : base ≠ []) (he : ext ≠ []) (hd : '.' ∉ ext)
    (hs : '/' ∉ base ++ '.' :: ext)
    (h : getXlsform bin (.path (dir ++ '/' :: (base ++ '.' :: ext))) content t = .ok (b, st)) : st = some base := by
  rw [channel_stem bin _ content t b st h]
  simp only [stemOf, pathName_join dir _ hs, (pathStem_ext base ext hb he hd).1]

/-- **any directory.** The file may be stored anywhere: for a path `dir/name` the default form id is the
stem of `name`, whatever `dir` is (its length — well beyond 260 characters —, dots, spaces, non-ASCII
letters in its components do not matter). -/
theorem channel_stem_any_directory (bin : FileType → Str → Except Err Book) (dir name content : Str)
    (t : Option FileType) (b : Book) (st : Option Str) (hs : '/' ∉ name)
    (h : getXlsform bin (.path (dir ++ '/' :: name)) content t = .ok (b, st)) : st = some (pathStem name) := by
  rw [channel_stem bin _ content t b st h]
  simp only [stemOf, pathName_join dir name hs]

/-- the directory does not change what is parsed either -/
theorem directory_irrelevant (bin : FileType → Str → Except Err Book) (d₁ d₂ name content : Str)
    (t : Option FileType) (hs : '/' ∉ name) :
    getXlsform bin (.path (d₁ ++ '/' :: name)) content t = getXlsform bin (.path (d₂ ++ '/' :: name)) content t := by
  simp only [getXlsform, getDefinitionData, pathName_join _ name hs]

example : pathName "/tmp/v1.2/forms.md/My Documents/été.x/FORM.XLSX".toList = "FORM.XLSX".toList := by decide
example : (List.replicate 300 'd' ++ '/' :: "a.md".toList).length > 260 ∧
    pathName (List.replicate 300 'd' ++ '/' :: "a.md".toList) = "a.md".toList :=
  ⟨by rw [List.length_append, List.length_replicate]; omega, pathName_join _ _ (by decide)⟩

/-- the suffix only selects the parser; the stem never depends on whether it is recognised -/
theorem stem_independent_of_file_type (bin : FileType → Str → Except Err Book) (name content : Str)
    (t₁ t₂ : Option FileType) (b₁ b₂ : Book) (s₁ s₂ : Option Str)
    (h₁ : getXlsform bin (.path name) content t₁ = .ok (b₁, s₁))
    (h₂ : getXlsform bin (.path name) content t₂ = .ok (b₂, s₂)) : s₁ = s₂ := by
  rw [channel_stem bin _ content t₁ b₁ s₁ h₁, channel_stem bin _ content t₂ b₂ s₂ h₂]

/-- `PurePath.stem` / `suffix` on `List Char`: partition, last suffix only, leading and trailing dots -/
theorem pathStem_spec :
    (∀ n, pathStem n ++ pathSuffix n = n) ∧
    (∀ base ext, base ≠ [] → ext ≠ [] → '.' ∉ ext →
      pathStem (base ++ '.' :: ext) = base ∧ pathSuffix (base ++ '.' :: ext) = '.' :: ext) ∧
    (∀ n, '.' ∉ n → pathStem n = n ∧ pathSuffix n = []) ∧
    (∀ rest, '.' ∉ rest → pathStem ('.' :: rest) = '.' :: rest ∧ pathSuffix ('.' :: rest) = []) ∧
    (∀ base, pathStem (base ++ ['.']) = base ++ ['.'] ∧ pathSuffix (base ++ ['.']) = []) :=
  ⟨pathStem_append_pathSuffix, pathStem_ext, pathStem_no_dot, pathStem_leading_dot, pathStem_trailing_dot⟩

/-- the file-type hint is case-sensitive and exact (so `.XLSX`, `.Md`, `.txt` give no hint) -/
theorem ofSuffix_exact (s : Str) (t : FileType) (h : FileType.ofSuffix s = some t) :
    s = (match t with | .xlsx => ".xlsx" | .xlsm => ".xlsm" | .xls => ".xls" | .md => ".md" | .csv => ".csv").toList := by
  unfold FileType.ofSuffix at h
  repeat' split at h
  all_goals first | (injection h with h; subst h; assumption) | cases h

example : pathStem "a.tar.gz".toList = "a.tar".toList ∧ pathSuffix "a.tar.gz".toList = ".gz".toList := by decide
example : pathStem ".hidden".toList = ".hidden".toList ∧ pathStem "name.".toList = "name.".toList ∧
    pathStem "FORM.XLSX".toList = "FORM".toList ∧ pathStem "..md".toList = ".".toList := by decide
example : FileType.ofSuffix (pathSuffix "FORM.XLSX".toList) = none ∧
    FileType.ofSuffix (pathSuffix "form.backup.xlsx".toList) = some .xlsx := by decide
example : (getXlsform (fun _ _ => .error .readError) (.path "my.form.MD".toList)
    "| survey |\n| | type | name |\n| | text | a |".toList none).toOption.map Prod.snd = some (some "my.form".toList) := by decide


/-! ## the text containers read back the workbook they render -/

/-- **csv reader/writer.** `csv.reader` inverts the `QUOTE_ALL` writer on every list of records
(any characters: quotes, commas, CR, LF; empty records and fields). -/
theorem csvRead_csvWrite (rows : List (List Str)) : csvRead (csvWrite rows) = rows := Csv.csvRead_write rows

/-- **csv_roundtrip.** For every workbook satisfying the decidable guard `Csv.CsvOK` whose rendering
passes the `is_csv` sniffer, `csv_to_dict` of the rendered CSV is the dict container of the workbook. -/
theorem csv_roundtrip (wb : Workbook) (h : Csv.CsvOK wb = true) (hc : isCsv (renderCsv wb) = true) :
    csvToDict (renderCsv wb) = .ok (toBook wb) := Csv.csv_roundtrip wb h hc

/-- **md_roundtrip.** Same for Markdown under `Md.MdOK` and the `is_markdown_table` sniffer. -/
theorem md_roundtrip (wb : Workbook) (h : Md.MdOK wb = true) (hm : isMarkdownTable (renderMd wb) = true) :
    mdToDict (renderMd wb) = .ok (toBook wb) := Md.md_roundtrip wb h hm

theorem getXlsform_md (bin : FileType → Str → Except Err Book) (c : Channel) (wb : Workbook)
    (hw : c.whole = true) (h : Md.MdOK wb = true) (hm : isMarkdownTable (renderMd wb) = true) :
    getXlsform bin c (renderMd wb) (some .md) =
      .ok (toDefinition (toBook wb), stemOf c) := by
  rw [getXlsform_eq, data_of_whole c _ hw]
  simp only [tryParsers, parser, md_roundtrip wb h hm]
  cases c <;> rfl

theorem getXlsform_csv (bin : FileType → Str → Except Err Book) (c : Channel) (wb : Workbook)
    (hw : c.whole = true) (h : Csv.CsvOK wb = true) (hc : isCsv (renderCsv wb) = true) :
    getXlsform bin c (renderCsv wb) (some .csv) =
      .ok (toDefinition (toBook wb), stemOf c) := by
  rw [getXlsform_eq, data_of_whole c _ hw]
  simp only [tryParsers, parser, csv_roundtrip wb h hc]
  cases c <;> rfl

/-- table fact: every supported sheet and its header are `DefinitionData` fields (re-checked on every run) -/
theorem supported_are_fields :
    (supported.all fun s => definitionFields.contains s && definitionFields.contains (s ++ headerSuffix)) = true ∧
      definitionFields.contains sheetNamesKey = true := by decide

/-- the key filter of `definition_to_dict` keeps the whole dict container of a workbook whose sheets
are XLSForm sheets (in particular of every workbook inside `Md.MdOK`) -/
theorem toDefinition_toBook (wb : Workbook) (h : ∀ s ∈ wb, lowerAscii s.name ∈ supported) :
    toDefinition (toBook wb) = toBook wb := by
  unfold toDefinition
  rw [List.filter_eq_self]
  intro kv hkv
  have hs := supported_are_fields
  simp only [toBook, List.mem_cons, List.mem_flatMap] at hkv
  rcases hkv with rfl | ⟨s, hsw, he⟩
  · exact hs.2
  · have hsup := h s hsw
    have := (List.all_eq_true.1 hs.1) _ hsup
    simp only [Bool.and_eq_true] at this
    simp only [sheetEntries, List.mem_cons, List.not_mem_nil, or_false] at he
    rcases he with rfl | rfl
    · exact this.1
    · exact this.2

/-- **channel_independent.** On the model: a workbook inside both guards, rendered as Markdown or
as CSV and delivered through any two channels (with the container's `file_type`), is parsed to the
same workbook structure — the dict container `toBook wb` — and the only trace of the channel is the
stem a path supplies. -/
theorem channel_independent (bin : FileType → Str → Except Err Book) (c₁ c₂ : Channel) (wb : Workbook)
    (w₁ : c₁.whole = true) (w₂ : c₂.whole = true)
    (hmd : Md.MdOK wb = true) (hm : isMarkdownTable (renderMd wb) = true)
    (hcsv : Csv.CsvOK wb = true) (hc : isCsv (renderCsv wb) = true) :
    (getXlsform bin c₁ (renderMd wb) (some .md)).map Prod.fst =
      (getXlsform bin c₂ (renderCsv wb) (some .csv)).map Prod.fst := by
  rw [getXlsform_md bin c₁ wb w₁ hmd hm, getXlsform_csv bin c₂ wb w₂ hcsv hc]
  rfl

/-- non-vacuity: a two-sheet workbook inside both guards; both channels give `toBook` -/
def exBoth : Workbook :=
  [⟨"survey".toList, ["type".toList, "name".toList, "label".toList],
     [["text".toList, "a".toList, "A|B \"q\"".toList], ["note".toList, [], "N".toList]]⟩,
   ⟨"choices".toList, ["list_name".toList, "name".toList], [["l".toList, "x".toList]]⟩]

example : Md.MdOK exBoth = true ∧ Csv.CsvOK exBoth = true ∧ isMarkdownTable (renderMd exBoth) = true ∧
    isCsv (renderCsv exBoth) = true := by decide

example : (getXlsform (fun _ _ => .error .readError) (.path "f.md".toList) (renderMd exBoth) (some .md)).toOption
    = some (toBook exBoth, some "f".toList) := by decide +kernel


/-! ## Markdown lines are split on U+000A only -/

/-- **md line splitting.** `mdstr.split("\n")` cuts the rendered workbook exactly at the row
boundaries as soon as no cell contains U+000A — whatever other line-separator characters
(U+2028, U+2029, U+0085, VT, FF, CR) the cells contain. -/
theorem md_lines_split_only_on_LF (wb : Workbook) (hne : wb ≠ []) (h : Md.NoNl wb) :
    splitOnChar '\n' (renderMd wb) = mdLines wb := Md.splitOnChar_renderMd wb hne h

/-- a cell whose first and last characters are not whitespace and which contains no U+000A is inside
the guard of `md_roundtrip` and is read back exactly — its interior is arbitrary. -/
theorem md_cell_interior_arbitrary (a b : Char) (mid : Str) (ha : pyIsSpace a = false)
    (hb : pyIsSpace b = false) (hn : '\n' ∉ a :: (mid ++ [b])) :
    Md.cellOK (a :: (mid ++ [b])) = true ∧ mdStrp (mdCellPad (a :: (mid ++ [b]))) = some (a :: (mid ++ [b])) := by
  have hs : strip (a :: (mid ++ [b])) = a :: (mid ++ [b]) := by
    unfold strip
    rw [Md.lstrip_cons_of_not a _ ha]
    have : a :: (mid ++ [b]) = (a :: mid) ++ [b] := rfl
    rw [this, Md.rstrip_snoc_of_not _ b hb]
  exact ⟨(Md.cellOK_iff _).2 ⟨hs, hn⟩, Md.mdStrp_pad _ hs (by simp)⟩

/-- the separators of `str.splitlines` other than LF / CR-LF -/
def exoticSeparators : Str := [Char.ofNat 0x2028, Char.ofNat 0x2029, Char.ofNat 0x85, Char.ofNat 0x0B, Char.ofNat 0x0C]

/-- non-vacuity: a label holding all of U+2028, U+2029, U+0085, VT, FF survives the md round trip -/
def exExotic : Workbook :=
  [⟨"survey".toList, ["type".toList, "name".toList, "label".toList],
     [["text".toList, "a".toList, 'x' :: (exoticSeparators ++ ['y'])],
      ["note".toList, "n".toList, ('p' :: Char.ofNat 0x2028 :: "q r".toList)]]⟩]

example : Md.MdOK exExotic = true ∧ isMarkdownTable (renderMd exExotic) = true := by decide
example : mdToDict (renderMd exExotic) = .ok (toBook exExotic) := md_roundtrip exExotic (by decide) (by decide)
example : (splitOnChar '\n' (renderMd exExotic)).length = 4 := by
  rw [md_lines_split_only_on_LF exExotic (by decide) (by decide)]; rfl

/-! ## spreadsheets after decoding, and all containers together -/

/-- **excel_roundtrip.** Whatever typed grids the (third-party) decoder delivers — integers, floats,
booleans, padded or nbsp-padded text, missing cells, ragged or over-long rows — as long as they
*show* the workbook (`Excel.ShowsAll`: header row as text cells, every data cell read by `cellText`
as the workbook's text) and the workbook is inside `Excel.ExcelOK`, `xlsx_to_dict` / `xls_to_dict`
return the dict container; blank rows inside the data are kept. -/
theorem excel_roundtrip (wb : Workbook) (gs : List Grid) (hs : Excel.ShowsAll wb gs)
    (h : Excel.ExcelOK wb = true) : excelToDict (Excel.sheetsOf wb gs) = .ok (toBook wb) :=
  Excel.excel_roundtrip wb gs hs h

/-- text cells that show a text: stripped, without U+00A0 (`cellText` never delivers a U+00A0, so no cell shows a text holding one; every reader maps it to a space) -/
theorem text_cell_shows (t : Str) (hs : strip t = t) (hn : nbsp ∉ t) : cellText (.text t) = Md.toOpt t := by
  by_cases ht : t = []
  · subst ht; rfl
  · have hsp : allSpace t = false := by
      cases hh : allSpace t with
      | false => rfl
      | true =>
        exfalso
        have := cellText_blank t hh
        obtain ⟨⟨a, r, hx, ha⟩, _⟩ := Md.edges_of_strip t hs ht
        subst hx
        simp [allSpace, ha] at hh
    rw [(cellText_trim_nbsp t hsp).1, hs]
    have : replaceNbsp t = t := by
      unfold replaceNbsp
      conv => rhs; rw [← List.map_id t]
      apply List.map_congr_left
      intro c hc
      have : c ≠ nbsp := fun e => hn (e ▸ hc)
      simp [this]
    simp [this, Md.toOpt, ht]

/-- **container_independent.** One workbook inside the three guards: its Markdown rendering, its CSV
rendering and every decoded spreadsheet showing it are all read as the same structure — the dict
container `toBook wb` (for md/csv/xls/xlsx after `definition_to_dict`'s key filter, which keeps it whole). -/
theorem container_independent (wb : Workbook) (gs : List Grid)
    (hmd : Md.MdOK wb = true) (hm : isMarkdownTable (renderMd wb) = true)
    (hcsv : Csv.CsvOK wb = true) (hc : isCsv (renderCsv wb) = true)
    (hx : Excel.ExcelOK wb = true) (hs : Excel.ShowsAll wb gs) :
    mdToDict (renderMd wb) = .ok (toBook wb) ∧ csvToDict (renderCsv wb) = .ok (toBook wb) ∧
      excelToDict (Excel.sheetsOf wb gs) = .ok (toBook wb) ∧ toDefinition (toBook wb) = toBook wb := by
  refine ⟨md_roundtrip wb hmd hm, csv_roundtrip wb hcsv hc, excel_roundtrip wb gs hs hx, ?_⟩
  apply toDefinition_toBook
  intro s hsw
  simp only [Excel.ExcelOK, Bool.and_eq_true, List.all_eq_true] at hx
  exact (Excel.sheetOK_unpack s (hx.1 s hsw)).sup

/-- non-vacuity: typed cells (int, integral float, decimal, bool, padded and nbsp-padded text, a
missing cell, an over-long row) showing `exTyped`, which is inside all three guards -/
def exTyped : Workbook :=
  [⟨"survey".toList, ["type".toList, "name".toList, "label".toList, "default".toList],
     [["integer".toList, "a".toList, "42".toList, "7".toList],
      ["decimal".toList, "b".toList, "TRUE".toList, "1.5".toList, "beyond".toList],
      ["text".toList, "c".toList, "x y".toList]]⟩]

def exTypedGrid : Grid :=
  [[.text "type".toList, .text "name".toList, .text "label".toList, .text "default".toList],
   [.text " integer ".toList, .text "a".toList, .int 42, .float (some 7) "7.0".toList],
   [.text "decimal".toList, .text [nbsp, 'b', nbsp], .bool true, .float none "1.5".toList, .text "beyond".toList],
   [.text "text".toList, .text "c".toList, .text " x y".toList]]

theorem exTyped_shows : Excel.ShowsAll exTyped [exTypedGrid] :=
  .cons ⟨_, rfl, by decide⟩ .nil

example : Md.MdOK exTyped = true ∧ Csv.CsvOK exTyped = true ∧ Excel.ExcelOK exTyped = true ∧
    isMarkdownTable (renderMd exTyped) = true ∧ isCsv (renderCsv exTyped) = true := by decide

example : excelToDict (Excel.sheetsOf exTyped [exTypedGrid]) = .ok (toBook exTyped) :=
  excel_roundtrip exTyped [exTypedGrid] exTyped_shows (by decide)


/-- non-vacuity after the repairs of F16 / F29: a workbook with blank rows *inside* the data is inside all
three guards, and every container reads the same structure with the blank rows kept -/
def exBlankRows : Workbook :=
  [⟨"survey".toList, ["type".toList, "name".toList, "label".toList],
     [["text".toList, "a".toList, "A".toList], [[], [], []], [[]],
      ["note".toList, "n".toList, "N".toList]]⟩]

def exBlankRowsGrid : Grid :=
  [[.text "type".toList, .text "name".toList, .text "label".toList],
   [.text "text".toList, .text "a".toList, .text "A".toList],
   [.none, .text "  ".toList, .none], [.none],
   [.text "note".toList, .text "n".toList, .text "N".toList]]

example : Md.MdOK exBlankRows = true ∧ Csv.CsvOK exBlankRows = true ∧ Excel.ExcelOK exBlankRows = true ∧
    isMarkdownTable (renderMd exBlankRows) = true ∧ isCsv (renderCsv exBlankRows) = true ∧
    Excel.showsAllB exBlankRows [exBlankRowsGrid] = true := by decide

example : mdToDict (renderMd exBlankRows) = .ok (toBook exBlankRows) ∧
    csvToDict (renderCsv exBlankRows) = .ok (toBook exBlankRows) ∧
    excelToDict (Excel.sheetsOf exBlankRows [exBlankRowsGrid]) = .ok (toBook exBlankRows) ∧
    toDefinition (toBook exBlankRows) = toBook exBlankRows :=
  container_independent exBlankRows [exBlankRowsGrid] (by decide) (by decide) (by decide) (by decide) (by decide)
    (Excel.showsAll_of_showsAllB _ _ (by decide))

/-- a U+00A0 inside a value is read as a plain space by the dict container of the readers -/
example : toBook [⟨"survey".toList, ["label".toList], [[['A', nbsp, 'B']]]⟩] =
    [(sheetNamesKey, .names ["survey".toList]), ("survey".toList, .rows [[(some "label".toList, "A B".toList)]]),
     ("survey_header".toList, .header [["label".toList]])] := by decide

end Pyxv.Backends
