import Pyxv.Proofs.ConvertC10DefaultsFull
/-!
# C10 for the end-to-end composition: the leaves of the `Defaults` slice's instance and the document's texts

`convert_c10_defaults_leaves`: every leaf of `(Defaults.gen dynQ sub root (toDefL ditems)).inst` — the C10 slice's
primary instance of the mapped tree: instance copies and `jr:template` copies — has, as its text, exactly what
`convertDoc` writes into the childless nodes at that path (`lookupPath path defs`, absent = empty).
-/
namespace Pyxv.ConvertP
open Pyxv Pyxv.Form Pyxv.Rows Pyxv.Xml Pyxv.Asm Pyxv.Convert Pyxv.C01

theorem secsNonEmpty_append_left : ∀ (a b : List Defaults.El), Defaults.secsNonEmpty (a ++ b) = true →
    Defaults.secsNonEmpty a = true
  | [], _, _ => by simp [Defaults.secsNonEmpty]
  | .q d :: rest, b, h => by
    simp only [List.cons_append, Defaults.secsNonEmpty] at h ⊢
    exact secsNonEmpty_append_left rest b h
  | .grp n ks :: rest, b, h => by
    simp only [List.cons_append, Defaults.secsNonEmpty, Bool.and_eq_true] at h ⊢
    exact ⟨h.1, secsNonEmpty_append_left rest b h.2⟩
  | .rep n ks :: rest, b, h => by
    simp only [List.cons_append, Defaults.secsNonEmpty, Bool.and_eq_true] at h ⊢
    exact ⟨h.1, secsNonEmpty_append_left rest b h.2⟩

/-- no section of a converted workbook is empty (from the `validate17` step) -/
theorem trace_secsNonEmpty {wb : Workbook} {doc : Node} {f : Fields} {lists : List (Str × List Choices.Choice)}
    {rows : List Cells} {drows : List ((Nat × RowK) × Pay)} {o : FormOut} {ditems : List DItem}
    (T : Trace wb doc f lists rows drows o ditems)
    (hval : Rows17.validate17 f.name (withMeta rows [] o.items) = .ok ()) :
    Defaults.secsNonEmpty (toDefL ditems) = true := by
  have he : Convert.eraseL (dWithMeta f.name rows ditems) = withMeta rows [] o.items := by
    rw [erase_dWithMeta, (trace_items T).1]
  rw [← he] at hval
  obtain ⟨h1, -⟩ := validate17_parts' _ _ hval
  rw [← validateEach17_shape] at h1
  have hn := C10.noEmpty_shape _ (Pyxv.C17.validateEach17_ok_noEmpty _ h1)
  obtain ⟨tail, ht⟩ := dWithMeta_prefix f.name rows ditems
  rw [ht, toDefL_append] at hn
  exact secsNonEmpty_append_left _ _ hn

theorem toDefL_eq_nil : ∀ (ds : List DItem), toDefL ds = [] → ds = []
  | [], _ => rfl
  | _ :: _, h => by simp [toDefL] at h

/-- **C10, instance text: the `Defaults` slice's instance and the converted document agree leaf by leaf** (full).
    For every `sub`: each leaf `l` of `(Defaults.gen dynQ sub root (toDefL ditems)).inst` — `l.path`, `l.tmpl`
    (inside a `jr:template` copy or not), `l.text` — has the text `convertDoc` writes at that path,
    `(lookupPath l.path defs).getD []`, where the document's primary instance is `instNodes defs [root] nts`. -/
theorem convert_c10_defaults_leaves (wb : Workbook) (doc : Node) (h : convertDoc wb = .ok doc)
    (sub : Defaults.Path → Str → Str) :
    ∃ (root : Str) (ditems : List DItem) (defs : List (List Str × Str)) (nts : List NT) (rt : Node),
      primaryRoot doc = some rt ∧ kidsOf rt = instNodes defs [root] nts ∧ ntOfL (kidsOf rt) = nts ∧
      ∀ l ∈ Defaults.leaves [] false (Defaults.gen dynQ sub root (toDefL ditems)).inst,
        (lookupPath l.path defs).getD [] = l.text := by
  obtain ⟨f, lists, rows, drows, o, ditems, T, hval⟩ := convertDoc_trace_val wb doc h
  have hu := trace_paths_nodup T hval
  have hs := trace_secsNonEmpty T hval
  refine ⟨f.name, ditems, defaultsOfL [f.name] ditems, ntKids o.inst,
    .elem f.name (rootAttrs f) (instNodes (defaultsOfL [f.name] ditems) [f.name] (ntKids o.inst)), ?_, rfl,
    by simp only [kidsOf, ntOfL_instNodes], ?_⟩
  · rw [T.hdoc]; exact primaryRoot_assemble ..
  · intro l hl
    by_cases hne : toDefL ditems = []
    · have hd := toDefL_eq_nil ditems hne
      subst hd
      simp only [Defaults.gen, toDefL, Defaults.instKids, Defaults.leaves, List.mem_singleton] at hl
      subst hl
      simp [defaultsOfL, lookupPath]
    · obtain ⟨x, hx, h1, h2⟩ := C10.instance_text_sound dynQ sub f.name (toDefL ditems) hs hne l hl
      rw [h1, lookup_instText _ _ hu x hx, h2]
      rfl

#print axioms convert_c10_defaults_leaves

/-! ## Non-vacuity -/

-- the C10 slice's instance of `exDefs` has four leaves (a; the template and the instance copy of r/n … r/m: 5)
example : (Defaults.leaves [] false (Defaults.gen dynQ (fun _ s => s) (l!"data") (toDefL exDefs)).inst).length = 5 := by
  simp [exDefs, toDefL, toDef, toQ, Defaults.gen, Defaults.instKids, Defaults.tmplKids, Defaults.qNode, Defaults.leaves,
    Defaults.leavesL]
-- the theorem applied to the workbook whose text `ex_convert` pins
example : ∃ doc, convertDoc exWb = .ok doc ∧ ∃ root ditems defs nts rt,
    primaryRoot doc = some rt ∧ kidsOf rt = instNodes defs [root] nts ∧ ntOfL (kidsOf rt) = nts ∧
    ∀ l ∈ Defaults.leaves [] false (Defaults.gen dynQ (fun _ s => s) root (toDefL ditems)).inst,
      (lookupPath l.path defs).getD [] = l.text := by
  obtain ⟨doc, hd, -⟩ := convert_ok exWb false exText ex_convert
  exact ⟨doc, hd, convert_c10_defaults_leaves exWb doc hd _⟩

end Pyxv.ConvertP
