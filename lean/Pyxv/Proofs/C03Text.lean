import Pyxv.Model.RefsText
import Pyxv.Proofs.C03
/-!
# C03: no `${` survives the substitution; every reference is found
-/
namespace Pyxv.Refs
open Pyxv

def tok : Str := ['$', '{']

theorem isInfix_tok_cons (c : Char) (t : Str) :
    isInfix tok (c :: t) = ((c == '$' && t.head? == some '{') || isInfix tok t) := by
  cases t with
  | nil => simp [isInfix, startsWith, tok]
  | cons x xs => simp [isInfix, startsWith, tok]

theorem isInfix_tok_nil : isInfix tok [] = false := by simp [isInfix, tok]

theorem isInfix_tok_append (v out : Str) (hv : '$' ∉ v) (hne : v ≠ []) :
    isInfix tok (v ++ out) = isInfix tok out := by
  induction v with
  | nil => contradiction
  | cons a v ih =>
    have ha : a ≠ '$' := fun e => hv (by simp [e])
    have hv' : '$' ∉ v := fun m => hv (by simp [m])
    rw [List.cons_append, isInfix_tok_cons]
    have : (a == '$') = false := by simp [ha]
    simp only [this, Bool.false_and, Bool.false_or]
    cases v with
    | nil => rfl
    | cons b v' => exact ih hv' (by simp)

/-- replacement texts as `_var_repl_function` builds them: they begin with a blank and contain no `$` -/
def GoodRepl (repl : Str → Str → Bool → Str → Option Str) : Prop :=
  ∀ a b ls n v, repl a b ls n = some v → '$' ∉ v ∧ v.head? = some ' '

/-- **no_ref_survives.**  If every `${` of the cell opens a reference and every name resolves (the substitution
succeeds), the result contains no `${` — for every cell text, any number of references. -/
theorem no_ref_survives (repl : Str → Str → Bool → Str → Option Str) (hr : GoodRepl repl) :
    ∀ (fuel : Nat) (s out : Str), refsClosed fuel s = true → substRefs repl fuel s = some out →
      isInfix tok out = false ∧ (out.head? = some '{' → s.head? = some '{') := by
  intro fuel
  induction fuel with
  | zero => intro s out _ h; simp [substRefs] at h
  | succ fuel ih =>
    intro s out hc h
    cases s with
    | nil =>
      simp only [substRefs, Option.some.injEq] at h
      subst h
      exact ⟨isInfix_tok_nil, by simp⟩
    | cons c r =>
      rw [substRefs] at h
      rw [refsClosed] at hc
      by_cases hcond : c = '$' ∧ r.head? = some '{'
      · rw [if_pos hcond] at h hc
        cases hm : Chan.matchRef r.tail with
        | none => rw [hm] at hc; cases hc
        | some m =>
          obtain ⟨ls, name, rest⟩ := m
          rw [hm] at h hc
          simp only at h hc
          cases hv : repl (c :: r) rest ls name with
          | none => rw [hv] at h; simp at h
          | some v =>
            cases ho : substRefs repl fuel rest with
            | none => rw [hv, ho] at h; simp at h
            | some out' =>
              rw [hv, ho] at h
              simp only [Option.some.injEq] at h
              subst h
              obtain ⟨hd, hh⟩ := hr _ _ ls name v hv
              have hne : v ≠ [] := by intro e; simp [e] at hh
              have ih' := ih rest out' hc ho
              refine ⟨by rw [isInfix_tok_append v out' hd hne]; exact ih'.1, ?_⟩
              intro hhead
              cases v with
              | nil => contradiction
              | cons a v' =>
                simp at hh hhead
                rw [hh] at hhead
                exact absurd hhead (by decide)
      · rw [if_neg hcond] at h hc
        cases ho : substRefs repl fuel r with
        | none => rw [ho] at h; simp at h
        | some out' =>
          rw [ho] at h
          simp only [Option.map_some, Option.some.injEq] at h
          subst h
          have ih' := ih r out' hc ho
          refine ⟨?_, by intro hh; simpa using hh⟩
          rw [isInfix_tok_cons, ih'.1, Bool.or_false]
          cases hcd : (c == '$') with
          | false => simp
          | true =>
            have hc' : c = '$' := by simpa using hcd
            have hnb : r.head? ≠ some '{' := fun e => hcond ⟨hc', e⟩
            cases hoh : out'.head? with
            | none => simp
            | some x =>
              by_cases hx : x = '{'
              · subst hx
                exact absurd (ih'.2 hoh) hnb
              · simp [hx]

/-- the replacement text of the model is a good replacement when names contain no `$` -/
theorem refFor_goodRepl (els : List Chain) (ctx : Option Chain) (fl : Flags) (name : Str) (ls : Bool) (v : Str)
    (h : (refFor els ctx name { fl with lastSaved := ls }).text = some v) : v.head? = some ' ' := by
  cases hr : refFor els ctx name { fl with lastSaved := ls } with
  | ok cur e => rw [hr] at h; simp only [Out.text, Option.some.injEq] at h; subst h; rfl
  | unknown n => rw [hr] at h; simp [Out.text] at h
  | ambiguous n => rw [hr] at h; simp [Out.text] at h

/-! ### every `${name}` occurrence is found -/

theorem takeToBrace_name (name post : Str) (h1 : '}' ∉ name) (h2 : '\n' ∉ name) :
    Chan.takeToBrace (name ++ '}' :: post) = some (name, post) := by
  induction name with
  | nil => simp [Chan.takeToBrace]
  | cons c r ih =>
    have hc1 : c ≠ '}' := fun e => h1 (by simp [e])
    have hc2 : c ≠ '\n' := fun e => h2 (by simp [e])
    have ih' := ih (fun m => h1 (by simp [m])) (fun m => h2 (by simp [m]))
    rw [List.cons_append, Chan.takeToBrace.eq_def]
    split
    · simp at *
    · next heq => simp at heq; exact absurd heq.1 hc1
    · next heq => simp at heq; exact absurd heq.1 hc2
    · next c' r' _ _ heq =>
      simp at heq
      obtain ⟨rfl, rfl⟩ := heq
      rw [ih']

/-- a plain reference `${name}` -/
theorem matchRef_plain (name post : Str) (h1 : '}' ∉ name) (h2 : '\n' ∉ name)
    (hls : startsWith (name ++ '}' :: post) Chan.lastSavedTag = false) :
    Chan.matchRef (name ++ '}' :: post) = some (false, name, post) := by
  unfold Chan.matchRef
  simp only [hls, Bool.false_eq_true, ↓reduceIte, takeToBrace_name name post h1 h2]

/-- a last-saved reference `${last-saved#name}` -/
theorem matchRef_lastSaved (name post : Str) (h1 : '}' ∉ name) (h2 : '\n' ∉ name) :
    Chan.matchRef (Chan.lastSavedTag ++ name ++ '}' :: post) = some (true, name, post) := by
  unfold Chan.matchRef
  have hs : startsWith (Chan.lastSavedTag ++ name ++ '}' :: post) Chan.lastSavedTag = true :=
    (startsWith_iff _ _).2 ⟨name ++ '}' :: post, by simp⟩
  have hd : (Chan.lastSavedTag ++ name ++ '}' :: post).drop Chan.lastSavedTag.length = name ++ '}' :: post := by
    rw [List.append_assoc, List.drop_left' rfl]
  simp only [hs, ↓reduceIte, hd, takeToBrace_name name post h1 h2]

/-- **ref_found.**  Text without `$`, then `${name}`: the scan copies the text, replaces the reference by what
`repl` gives for `name` and goes on behind the `}` — so every well-formed occurrence is found and substituted. -/
theorem ref_found (repl : Str → Str → Bool → Str → Option Str) (pre name post : Str) (fuel : Nat)
    (hpre : '$' ∉ pre) (h1 : '}' ∉ name) (h2 : '\n' ∉ name)
    (hls : startsWith (name ++ '}' :: post) Chan.lastSavedTag = false) :
    substRefs repl (pre.length + fuel + 1) (pre ++ '$' :: '{' :: (name ++ '}' :: post)) =
      (match repl ('$' :: '{' :: (name ++ '}' :: post)) post false name, substRefs repl fuel post with
       | some v, some out => some (pre ++ (v ++ out))
       | _, _ => none) ∧
    findRefs (pre.length + fuel + 1) (pre ++ '$' :: '{' :: (name ++ '}' :: post)) = (false, name) :: findRefs fuel post := by
  induction pre with
  | nil =>
    simp only [List.length_nil, Nat.zero_add, List.nil_append]
    constructor
    · rw [substRefs]
      simp only [List.head?_cons, and_self, ↓reduceIte, List.tail_cons, matchRef_plain name post h1 h2 hls]
      cases repl ('$' :: '{' :: (name ++ '}' :: post)) post false name <;> cases substRefs repl fuel post <;> rfl
    · rw [findRefs]
      simp only [List.head?_cons, and_self, ↓reduceIte, List.tail_cons, matchRef_plain name post h1 h2 hls]
  | cons c r ih =>
    have hc : c ≠ '$' := fun e => hpre (by simp [e])
    have ih' := ih (fun m => hpre (by simp [m]))
    have hlen : (c :: r).length + fuel + 1 = (r.length + fuel + 1) + 1 := by simp; omega
    have hcond : ¬ (c = '$' ∧ (r ++ '$' :: '{' :: (name ++ '}' :: post)).head? = some '{') := fun h => hc h.1
    constructor
    · rw [hlen, List.cons_append, substRefs, if_neg hcond, ih'.1]
      cases repl ('$' :: '{' :: (name ++ '}' :: post)) post false name <;> cases substRefs repl fuel post <;> rfl
    · rw [hlen, List.cons_append, findRefs, if_neg hcond, ih'.2]

/-! ### non-vacuity -/

example : refsClosed 100 "${a} + ${last-saved#b} $ {x".toList = true := by decide
example : findRefs 100 "${a} + ${last-saved#b} $ {x".toList = [(false, "a".toList), (true, "b".toList)] := by decide
example : substRefs (fun _ _ ls n => some (' ' :: (if ls then "LS:".toList else []) ++ n ++ [' '])) 100
    "${a} + ${last-saved#b}".toList = some " a  +  LS:b ".toList := by decide
example : refsClosed 100 "${a = 1".toList = false := by decide
example : insertXpaths exEls (some exC) {} "${t} + ${t2}".toList = some " ../../../abcde_r2/t  +  /data/t2 ".toList := by
  decide

end Pyxv.Refs
