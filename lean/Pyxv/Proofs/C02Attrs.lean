import Pyxv.Proofs.C02FlatInst
import Pyxv.Model.FormAttrs
/-!
# C02: no user-supplied column can move a ref / nodeset off the generated path

Element level (`emit*`), for every attribute dict: the reference attribute of an emitted element is the generated path
and nothing else, or the element is not emitted.  Row level (`rowEmit`): the same for the bind, the body elements and the
action of one classified row.  Sheet level (`formOutAttrs`): an accepted sheet has exactly the output of the sheet without
the four columns, hence closure (`refs_resolve_flat`) holds unchanged.
-/
namespace Pyxv.C02
open Pyxv Pyxv.Form Pyxv.Rows Pyxv.FormFlat Pyxv.FormAttrs

theorem setAttr_filter_ne (a : Attrs) (k v key : Str) (h : k ≠ key) :
    (setAttr a k v).filter (fun kv => kv.1 = key) = a.filter (fun kv => kv.1 = key) := by
  induction a with
  | nil => simp [setAttr, h]
  | cons x rest ih =>
    obtain ⟨k', v'⟩ := x
    simp only [setAttr]
    split
    · next hk => subst hk; simp [List.filter_cons, h]
    · simp [List.filter_cons, ih]

/-- the guarded loop never touches the attribute called `key` -/
theorem emitGuarded_keeps (key skip : Str) (mk : Str → FormAttrs.Err) (user acc out : Attrs)
    (h : emitGuarded key skip mk acc user = .ok out) :
    out.filter (fun kv => kv.1 = key) = acc.filter (fun kv => kv.1 = key) := by
  induction user generalizing acc with
  | nil => simp [emitGuarded] at h; subst h; rfl
  | cons x rest ih =>
    obtain ⟨k, v⟩ := x
    simp only [emitGuarded] at h
    split at h
    · cases h
    · next hk =>
      split at h
      · exact ih acc h
      · rw [ih _ h, setAttr_filter_ne _ _ _ _ hk]

/-- the guarded loop succeeds exactly when the dict has no item called `key` (whatever was set before) -/
theorem emitGuarded_ok_iff (key skip : Str) (mk : Str → FormAttrs.Err) (user acc : Attrs) :
    (∃ out, emitGuarded key skip mk acc user = .ok out) ↔ hasKey user key = false := by
  induction user generalizing acc with
  | nil => simp [emitGuarded, hasKey]
  | cons x rest ih =>
    obtain ⟨k, v⟩ := x
    simp only [emitGuarded, hasKey, List.any_cons]
    split
    · next hk => simp [hk]
    · next hk =>
      have : (decide (k = key)) = false := by simp [hk]
      simp only [this, Bool.false_or]
      split
      · exact ih acc
      · exact ih _

/-- a bind that is emitted has the generated path as its only `nodeset` — for every bind dict -/
theorem bind_nodeset_generated (path : Str) (user out : Attrs) (h : emitBind path user = .ok out) :
    onlyGenerated "nodeset".toList path out := by
  unfold onlyGenerated
  rw [emitGuarded_keeps _ _ _ _ _ _ h]; simp

/-- a question control that is emitted has the generated path as its only `ref` — for every control dict -/
theorem question_ref_generated (path : Str) (user out : Attrs) (h : emitQuestionCtl path user = .ok out) :
    onlyGenerated "ref".toList path out := by
  unfold onlyGenerated
  rw [emitGuarded_keeps _ _ _ _ _ _ h]; simp

/-- an action element that is emitted has the generated path as its only `ref` — for every action dict -/
theorem action_ref_generated (path : Str) (user out : Attrs) (h : emitAction path user = .ok out) :
    onlyGenerated "ref".toList path out := by
  unfold onlyGenerated
  rw [emitGuarded_keeps _ _ _ _ _ _ h]; simp

/-- `bind::nodeset` / `body::ref` (question) / `action::ref`: the element is emitted iff the column is absent -/
theorem reserved_key_rejected (path : Str) (user : Attrs) :
    ((∃ out, emitBind path user = .ok out) ↔ hasKey user "nodeset".toList = false) ∧
    ((∃ out, emitQuestionCtl path user = .ok out) ↔ hasKey user "ref".toList = false) ∧
    ((∃ out, emitAction path user = .ok out) ↔ hasKey user "ref".toList = false) :=
  ⟨emitGuarded_ok_iff _ _ _ _ _, emitGuarded_ok_iff _ _ _ _ _, emitGuarded_ok_iff _ _ _ _ _⟩

/-- a group's `ref` is the generated path whatever `body::ref` says; a flat group has no `ref` at all -/
theorem group_ref_generated (path : Str) (user : Attrs) :
    onlyGenerated "ref".toList path (emitGroup false path user) ∧ noKey "ref".toList (emitGroup true path user) := by
  unfold onlyGenerated noKey emitGroup
  constructor
  · simp only [Bool.false_eq_true, if_false, List.filter_append]
    have : (List.filter (fun kv => decide (kv.1 = "ref".toList)) (List.filter (fun kv => decide (kv.1 ≠ "ref".toList)) user)) = [] := by
      induction user with
      | nil => rfl
      | cons x xs ih => by_cases hx : x.1 = "ref".toList <;> simp_all [List.filter_cons]
    rw [this]; simp
  · simp only [if_true]
    induction user with
    | nil => rfl
    | cons x xs ih => by_cases hx : x.1 = "ref".toList <;> simp_all [List.filter_cons]

theorem filter_key_of_not_hasKey (a : Attrs) (k : Str) (h : hasKey a k = false) : a.filter (fun kv => kv.1 = k) = [] := by
  induction a with
  | nil => rfl
  | cons x xs ih =>
    simp only [hasKey, List.any_cons, Bool.or_eq_false_iff] at h
    have ih' := ih (by simpa [hasKey] using h.2)
    simp [List.filter_cons, h.1, ih']

/-- a repeat that is emitted has the generated path as its only `nodeset` and no `ref` — for every control dict -/
theorem repeat_nodeset_generated (path : Str) (user out : Attrs) (h : emitRepeat path user = .ok out) :
    onlyGenerated "nodeset".toList path out ∧ noKey "ref".toList out := by
  unfold emitRepeat at h
  split at h
  · cases h
  · next h1 =>
    split at h
    · cases h
    · next h2 =>
      injection h with h; subst h
      unfold onlyGenerated noKey
      constructor
      · simp [List.filter_cons, filter_key_of_not_hasKey _ _ (by simpa using h1)]
      · have : ¬ ("nodeset".toList = "ref".toList) := by decide
        simp [List.filter_cons, this, filter_key_of_not_hasKey _ _ (by simpa using h2)]

theorem optEmit_some (c : Bool) (e : Except FormAttrs.Err Attrs) (a : Attrs) (h : optEmit c e = .ok (some a)) : e = .ok a := by
  unfold optEmit at h
  split at h
  · split at h
    · injection h with h; injection h with h; subst h; rfl
    · cases h
  · injection h with h; cases h

/-- one row: whatever its `bind::` / `control::` / `action::` cells are, the bind, every body element and the action
    that the row's element emits carry the generated path as their only reference attribute (a flat group: no `ref`) -/
theorem row_refs_generated (path : Str) (r : Cells) (fl : Bool) (k : RowK) (a : RowAttrs)
    (h : rowEmit path r fl k = .ok a) :
    (∀ b, a.bind = some b → onlyGenerated "nodeset".toList path b) ∧
    (∀ c ∈ a.ctl, onlyGenerated c.1 path c.2 ∨ (fl = true ∧ noKey "ref".toList c.2)) ∧
    (∀ b, a.action = some b → onlyGenerated "ref".toList path b) := by
  cases k with
  | q d other =>
    simp only [rowEmit] at h
    split at h
    · cases h
    · next b hb =>
      split at h
      · cases h
      · next act hact =>
        split at h
        · cases h
        · next c hc =>
          injection h with h; subst h
          refine ⟨?_, ?_, ?_⟩
          · intro b' hb'; injection hb' with hb'; subst hb'; exact bind_nodeset_generated _ _ _ hb
          · intro c' hc'
            left
            cases c with
            | none => simp at hc'
            | some x =>
              simp only [Option.map, Option.toList, List.mem_singleton] at hc'; subst hc'
              exact question_ref_generated _ _ _ (optEmit_some _ _ _ hc)
          · intro b' hb'
            simp only at hb'; subst hb'
            exact action_ref_generated _ _ _ (optEmit_some _ _ _ hact)
  | begin_ ct name bd helper =>
    simp only [rowEmit] at h
    split at h
    · split at h
      · cases h
      · next b hb =>
        split at h
        · cases h
        · next c hc =>
          injection h with h; subst h
          refine ⟨?_, ?_, ?_⟩
          · intro b' hb'; injection hb' with hb'; subst hb'; exact bind_nodeset_generated _ _ _ hb
          · intro c' hc'
            left
            simp only [List.mem_cons, List.not_mem_nil, or_false] at hc'
            rcases hc' with rfl | rfl
            · simp [onlyGenerated]
            · exact (repeat_nodeset_generated _ _ _ hc).1
          · intro b' hb'; cases hb'
    · split at h
      · next hfl =>
        injection h with h; subst h
        refine ⟨?_, ?_, ?_⟩
        · intro b' hb'; cases hb'
        · intro c' hc'
          simp only [List.mem_singleton] at hc'; subst hc'
          right; exact ⟨hfl, (group_ref_generated path _).2⟩
        · intro b' hb'; cases hb'
      · split at h
        · cases h
        · next b hb =>
          injection h with h; subst h
          refine ⟨?_, ?_, ?_⟩
          · intro b' hb'; injection hb' with hb'; subst hb'; exact bind_nodeset_generated _ _ _ hb
          · intro c' hc'
            simp only [List.mem_singleton] at hc'; subst hc'
            left; exact (group_ref_generated path _).1
          · intro b' hb'; cases hb'
  | skip => simp only [rowEmit] at h; injection h with h; subst h; simp
  | end_ ct => simp only [rowEmit] at h; injection h with h; subst h; simp
  | bad e => simp only [rowEmit] at h; injection h with h; subst h; simp

/-- the four columns are inert on every accepted sheet: its output is the output of the sheet without them -/
theorem attrs_columns_inert (root : Str) (lists : List Str) (rows : List Cells) (settings : Cells) (o : FlatOut)
    (h : formOutAttrs root lists rows settings = .ok o) :
    formOutFlat root lists (rows.map dropAttrs) settings = .ok o ∧
    ∃ ks, checkRows rows (flagRows (rows.map dropAttrs) ks) = none := by
  unfold formOutAttrs at h
  simp only at h
  split at h
  · cases h
  · next o' ho =>
    split at h
    · cases h
    · next ks _ =>
      split at h
      · cases h
      · split at h
        · cases h
        · next hc =>
          injection h with h
          rw [walkOut_eq _ _ _ _ _ ho] at h
          exact ⟨h ▸ ho, ks, hc⟩

/-- closure on sheets that carry `body::ref` / `body::nodeset` / `bind::nodeset` / `action::ref` anywhere -/
theorem attrs_refs_resolve (root : Str) (lists : List Str) (rows : List Cells) (settings : Cells) (o : FlatOut)
    (h : formOutAttrs root lists rows settings = .ok o) :
    ∀ p ∈ o.binds ++ o.body, resolves o.inst p = true :=
  refs_resolve_flat root lists _ settings o (attrs_columns_inert root lists rows settings o h).1

/-! ### Non-vacuity -/

def cA (k v : String) : Str × Str := (k.toList, v.toList)

def exAttrs : List Cells := [
  [cA "type" "text", cA "name" "a", cA "label" "A", cA "control::nodeset" "/x/y"],
  [cA "type" "begin group", cA "name" "g", cA "label" "G", cA "control::ref" "/x/y", cA "action::ref" "zzz"],
  [cA "type" "begin group", cA "name" "f", cA "label" "F", cA "flat" "yes", cA "bind::nodeset" "/x", cA "control::ref" "/y"],
  [cA "type" "text", cA "name" "b", cA "label" "B"],
  [cA "type" "end group"],
  [cA "type" "end group"],
  [cA "type" "begin repeat", cA "name" "r", cA "label" "R", cA "action::ref" "zzz"],
  [cA "type" "text", cA "name" "c", cA "label" "C"],
  [cA "type" "end repeat"]]

-- accepted, with the generated paths only
example : (match formOutAttrs "data".toList [] exAttrs [] with
    | .ok o => o.body.map xpathStr == ["/data/a", "/data/g", "/data/g/b", "/data/r", "/data/r", "/data/r/c"].map String.toList
        && o.binds.length == 4
    | .error _ => false) = true := by decide +kernel
-- each rejected shape
example : (match formOutAttrs "data".toList [] ([cA "type" "text", cA "name" "q", cA "label" "Q", cA "control::ref" "/x"] :: exAttrs) [] with
    | .error (.attr 2 (.body _)) => true | _ => false) = true := by decide +kernel
example : (match formOutAttrs "data".toList [] ([cA "type" "integer", cA "name" "q", cA "label" "Q", cA "bind::nodeset" "/x"] :: exAttrs) [] with
    | .error (.attr 2 (.bind _)) => true | _ => false) = true := by decide +kernel
example : (match formOutAttrs "data".toList [] (exAttrs ++ [[cA "type" "begin repeat", cA "name" "s", cA "label" "S", cA "control::nodeset" "/x"],
      [cA "type" "text", cA "name" "d", cA "label" "D"], [cA "type" "end repeat"]]) [] with
    | .error (.attr 11 (.body _)) => true | _ => false) = true := by decide +kernel
-- element level: pass-through of other keys, overwrite by setAttribute, the guard
example : (emitQuestionCtl "/data/q".toList [cA "nodeset" "/x", cA "tag" "input", cA "nodeset" "/y"]).toOption
    = some [cA "ref" "/data/q", cA "nodeset" "/y"] := by decide +kernel
example : (match emitBind "/data/q".toList [cA "type" "string", cA "nodeset" "/x"] with
    | .error (.bind a) => a == "nodeset".toList | _ => false) = true := by decide +kernel
example : (match emitAction "/data/q".toList [cA "name" "odk:recordaudio", cA "ref" "/x"] with
    | .error (.action a) => a == "ref".toList | _ => false) = true := by decide +kernel
example : emitGroup false "/data/g".toList [cA "ref" "/x", cA "nodeset" "/y"] = [cA "nodeset" "/y", cA "ref" "/data/g"] := by decide +kernel
example : emitGroup true "/data/g".toList [cA "ref" "/x"] = [] := by decide +kernel
example : (emitRepeat "/data/r".toList [cA "appearance" "field-list"]).toOption = some [cA "nodeset" "/data/r", cA "appearance" "field-list"] := by decide +kernel
example : (rowEmit "/data/r".toList [cA "type" "begin repeat", cA "name" "r", cA "control::ref" "/x"] false (.begin_ .rep "r".toList false none)).toOption.isNone = true := by decide +kernel

end Pyxv.C02
