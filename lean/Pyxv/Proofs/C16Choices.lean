import Pyxv.Proofs.C16
import Pyxv.Model.FromJsonChoices
/-!
# C16: the tree theorem joined to the survey-level `choices` object

`fromJsonC` (Model/FromJsonChoices.lean) = `fromJson` + `Survey.__init__`'s reading of `choices`.
`dump_stable_tree_choices`: for every dict the extended builder model accepts, dump → load → dump is identical.
-/
namespace Pyxv.C16
open Pyxv Pyxv.JV Pyxv.ToJson

/-- what `mapOpt` returns, element by element -/
theorem mapOpt_map {α β γ} (f : α → Option β) (g : γ → α) (g' : γ → β) (l : List γ)
    (h : ∀ x ∈ l, f (g x) = some (g' x)) : mapOpt f (l.map g) = some (l.map g') := by
  induction l with
  | nil => rfl
  | cons x xs ih =>
    have hx := h x (by simp)
    have := ih (fun y hy => h y (by simp [hy]))
    simp [mapOpt, hx, this]

theorem mapOpt_mem {α β} (f : α → Option β) (l : List α) (r : List β) (h : mapOpt f l = some r) :
    ∀ y ∈ r, ∃ x ∈ l, f x = some y := by
  induction l generalizing r with
  | nil => simp [mapOpt] at h; subst h; simp
  | cons x xs ih =>
    simp only [mapOpt] at h
    split at h
    · cases h
    · next y hy =>
      split at h
      · cases h
      · next ys hys =>
        cases h
        intro z hz
        simp only [List.mem_cons] at hz
        rcases hz with hz | hz
        · subst hz; exact ⟨x, by simp, hy⟩
        · obtain ⟨x', hx', e⟩ := ih ys hys z hz
          exact ⟨x', by simp [hx'], e⟩

theorem optionCtor_facts : optionCtor.Nodup ∧ k!"name" ∈ optionCtor ∧
    k!"name" ∉ allDelete .option optionCtor [] [k!"parent"] := by decide

/-- an option as `Option(**d)` builds it from a dict with distinct keys and a truthy `name` -/
def BuiltOpt (o : Opt) : Prop := ∃ d, optFromJson optionCtor (.obj d) = some o

/-- one option: its dump is accepted again, and the rebuilt option dumps identically -/
theorem option_reload_stable (o : Opt) (h : BuiltOpt o) :
    optFromJson optionCtor (optionToJson o) = some (reloadOption optionCtor (optionDump o)) ∧
    optionDump (reloadOption optionCtor (optionDump o)) = optionDump o := by
  obtain ⟨d, hd⟩ := h
  simp only [optFromJson] at hd
  split at hd
  · next hg =>
    simp only [Bool.and_eq_true, decide_eq_true_eq] at hg
    cases hd
    obtain ⟨hnd, hname⟩ := hg
    let f : Str → J := fun n => (lookup n d).getD .null
    let extra := reloadExtra optionCtor d
    have hslots : (reloadOption optionCtor d) = (optionCtor.map (fun n => (n, f n)), extra) := rfl
    have hen : (extra.map Prod.fst).Nodup :=
      List.Pairwise.sublist ((List.filter_sublist).map Prod.fst) hnd
    have hed : ∀ k ∈ extra.map Prod.fst, k ∉ optionCtor := by
      intro k hk
      simp only [extra, reloadExtra, List.mem_map, List.mem_filter] at hk
      obtain ⟨kv, ⟨_, hkv⟩, e⟩ := hk
      subst e
      simpa using hkv
    have hst := ToJson.option_dump_stable optionCtor optionCtor_facts.1 (fun _ => true) f extra
      (by intro k _ hk; cases hk) hen hed
    have hfil : optionCtor.filter (fun _ => true) = optionCtor := by simp
    rw [hfil] at hst
    rw [hslots]
    refine ⟨?_, hst⟩
    -- the guard on the dumped option
    let del := allDelete .option optionCtor [] [k!"parent"]
    let F := extra.filter fun kv => truthy kv.2
    have hkeysS : (optionCtor.map fun n => (n, f n)).map Prod.fst = optionCtor := by
      simp [List.map_map, Function.comp_def]
    have hd1 : optionDump (optionCtor.map (fun n => (n, f n)), extra) =
        ownDump del (optionCtor.map fun n => (n, f n)) ++ F := by
      simp only [optionDump, hkeysS]
      rw [restoreExtra_fresh extra _ hen (fun k hk hin => hed k hk (by
        have := ownDump_keys_subset _ _ k hin; rw [hkeysS] at this; exact this))]
    have hFkeys : ∀ k ∈ F.map Prod.fst, k ∉ optionCtor := by
      intro k hk
      apply hed k
      simp only [F, List.mem_map, List.mem_filter] at hk ⊢
      obtain ⟨q, ⟨hq, _⟩, e⟩ := hk
      exact ⟨q, hq, e⟩
    have hFn : (F.map Prod.fst).Nodup := List.Pairwise.sublist ((List.filter_sublist).map Prod.fst) hen
    have hOn : ((ownDump del (optionCtor.map fun n => (n, f n))).map Prod.fst).Nodup := by
      rw [ownDump_eq_filter]
      have := List.Pairwise.sublist ((List.filter_sublist (p := keeps del)
        (l := optionCtor.map fun n => (n, f n))).map Prod.fst) (by rw [hkeysS]; exact optionCtor_facts.1)
      exact this
    have hnodup : ((ownDump del (optionCtor.map fun n => (n, f n)) ++ F).map Prod.fst).Nodup := by
      rw [List.map_append, List.nodup_append]
      refine ⟨hOn, hFn, ?_⟩
      intro a ha b hb e
      subst e
      have := ownDump_keys_subset _ _ a ha
      rw [hkeysS] at this
      exact hFkeys a hb this
    have hnm : isTruthyAt k!"name" (ownDump del (optionCtor.map fun n => (n, f n)) ++ F) = true := by
      have hC : lookup k!"name" F = none :=
        lookup_none_of_not_mem _ _ (fun hin => hFkeys _ hin optionCtor_facts.2.1)
      have hv : truthy (f k!"name") = true := by
        simp only [isTruthyAt] at hname
        simp only [f]
        cases hl : lookup k!"name" d with
        | none => simp [hl] at hname
        | some v => simpa [hl] using hname
      have hk : keeps del (k!"name", f k!"name") = true := by
        simp only [keeps, Bool.and_eq_true, Bool.not_eq_true', hv, and_true]
        have := optionCtor_facts.2.2
        simpa [del] using this
      simp only [isTruthyAt]
      rw [lookup_own_append del optionCtor f optionCtor_facts.1 F _ hC]
      simp [optionCtor_facts.2.1, hk, hv]
    simp only [optionToJson, hd1, optFromJson, hnodup, hnm, decide_true, Bool.and_self, if_true]
  · cases hd

/-- a list of options: the dumped list is accepted again and dumps identically -/
theorem optlist_reload_stable (os : List Opt) (h : ∀ o ∈ os, BuiltOpt o) :
    mapOpt (optFromJson optionCtor) (os.map optionToJson) =
      some (os.map fun o => reloadOption optionCtor (optionDump o)) :=
  mapOpt_map _ _ _ os (fun o ho => (option_reload_stable o (h o ho)).1)

/-- the choices object: the dumped object is accepted again, as `reloadChoices` -/
theorem choices_reload (ch : List (Str × List Opt)) (h : ∀ c ∈ ch, ∀ o ∈ c.2, BuiltOpt o) :
    mapOpt (listFromJson optionCtor) (ch.map fun c => (c.1, J.arr (c.2.map optionToJson))) =
      some (reloadChoices optionCtor ch) := by
  unfold reloadChoices
  apply mapOpt_map
  intro c hc
  simp only [listFromJson, optlist_reload_stable c.2 (h c hc)]

theorem choicesJson_reload (ch : List (Str × List Opt)) (h : ∀ c ∈ ch, ∀ o ∈ c.2, BuiltOpt o) :
    choicesJson (reloadChoices optionCtor ch) = choicesJson ch := by
  simp only [choicesJson, reloadChoices, List.map_map]
  congr 1
  apply List.map_congr_left
  intro c hc
  simp only [Function.comp]
  congr 2
  rw [List.map_map]
  apply List.map_congr_left
  intro o ho
  simp only [Function.comp, optionToJson]
  rw [(option_reload_stable o (h c hc o ho)).2]

/-- what `fromJsonC` read as choices was built by `Option(**d)` -/
theorem built_of_mapOpt (cj : Dict) (ch : List (Str × List Opt))
    (h : mapOpt (listFromJson optionCtor) cj = some ch) : ∀ c ∈ ch, ∀ o ∈ c.2, BuiltOpt o := by
  intro c hc o ho
  obtain ⟨p, _, hp⟩ := mapOpt_mem _ _ _ h c hc
  simp only [listFromJson] at hp
  split at hp
  · next os hos =>
    split at hp
    · next l hl =>
      cases hp
      obtain ⟨x, _, hx⟩ := mapOpt_mem _ _ _ hl o ho
      cases x with
      | obj d => exact ⟨d, hx⟩
      | _ => simp [optFromJson] at hx
    · cases hp
  · cases hp

/-- a survey dict accepted by `fromJson` gives a survey element with the slots of the slot tuple, no options, no
    choices, and the type slot `survey` -/
theorem fromJson_survey_shape (cfg : Cfg) (f : Nat) (kvs : Dict) (e : El)
    (h : fromJson cfg f (.obj kvs) = some e) (ht : lookup k!"type" kvs = some (.str k!"survey")) :
    ∃ kvs' kids, e = .mk .survey (cfg.surveyNames.map fun n => (n, surveyFn kvs' n)) [] [] [] kids none [] ∧
      lookup k!"type" kvs' = some (.str k!"survey") := by
  cases f with
  | zero => simp [fromJson] at h
  | succ f =>
    simp only [fromJson] at h
    split at h
    · next t hty =>
      rw [ht] at hty
      cases hty
      split at h
      · split at h
        · cases h
        · split at h
          · cases h
          · split at h
            · cases h
            · split at h
              · split at h
                · cases h
                · next nm hnm =>
                  simp only [Option.some.injEq, surveySlots_eq] at h
                  refine ⟨_, _, h.symm, ?_⟩
                  split
                  · exact ht
                  · exact lookup_append_some _ _ _ _ ht
              · next hs => exact absurd rfl hs
      · next hsec => exact absurd (Or.inl rfl) hsec
    · next hno => exact absurd ht (by intro hh; exact hno _ hh)

/-- the dump of a survey element that carries choices: the dump without them, then the `choices` object -/
theorem toJson_survey_choices (slots : Dict) (kids : List El) (c : Str × List Opt) (cs : List (Str × List Opt))
    (x : List Str) :
    toJson (.mk .survey slots [] [] [] kids none (c :: cs)) x =
      .obj (ownDump (allDelete .survey (slots.map Prod.fst) [] x) slots ++ childPart kids ++
        [(k!"choices", choicesJson (c :: cs))]) := by
  cases kids with
  | nil => simp [toJson, childPart, ownDump, dropFalsy, truthy, List.filter_append, List.filter, choicesJson]
  | cons k ks =>
    simp [toJson, childPart, ownDump, dropFalsy, toJsonL, truthy, List.filter_append, List.filter, choicesJson]

theorem stripChoices_fresh (D : Dict) (v : J) (h : k!"choices" ∉ D.map Prod.fst) :
    stripChoices (D ++ [(k!"choices", v)]) = D := by
  simp only [stripChoices, List.filter_append]
  have h1 : D.filter (fun kv => kv.1 != k!"choices") = D := by
    rw [List.filter_eq_self]
    intro kv hkv
    have : kv.1 ≠ k!"choices" := fun e => h (List.mem_map.mpr ⟨kv, hkv, e⟩)
    simpa using this
  rw [h1]
  simp [List.filter]

theorem lookup_stripChoices (k : Str) (kvs : Dict) (h : k ≠ k!"choices") :
    lookup k (stripChoices kvs) = lookup k kvs := by
  induction kvs with
  | nil => rfl
  | cons kv rest ih =>
    cases kv with
    | mk k' v' =>
      by_cases e : k' = k!"choices"
      · subst e
        simp [stripChoices, List.filter, lookup, h] at ih ⊢
        exact ih
      · have : (k' != k!"choices") = true := by simpa using e
        simp only [stripChoices, List.filter, this, lookup] at ih ⊢
        rw [ih]

theorem lookup_none_of_hasKey {k : Str} {d : Dict} (h : ¬ hasKey k d = true) : lookup k d = none := by
  simp only [hasKey] at h
  cases hl : lookup k d with
  | none => rfl
  | some v => simp [hl] at h

/-- a dict accepted by `fromJson` has no `choices` key -/
theorem fromJson_no_choices (cfg : Cfg) (f : Nat) (kvs : Dict) (e : El)
    (h : fromJson cfg f (.obj kvs) = some e) : lookup k!"choices" kvs = none := by
  cases f with
  | zero => simp [fromJson] at h
  | succ f =>
    simp only [fromJson] at h
    split at h
    · next t hty =>
      split at h
      · split at h
        · cases h
        · next hg =>
          simp only [not_or] at hg
          exact lookup_none_of_hasKey hg.1
      · simp only [questionFromJson] at h
        split at h
        · cases h
        · split at h
          · cases h
          · next hg =>
            simp only [not_or] at hg
            exact lookup_none_of_hasKey hg.2.2
    · cases h

theorem not_mem_of_lookup_none (k : Str) (d : Dict) (h : lookup k d = none) : k ∉ d.map Prod.fst := by
  intro hm
  induction d with
  | nil => simp at hm
  | cons kv rest ih =>
    cases kv with
    | mk k' v' =>
      simp only [lookup] at h
      by_cases e : k = k'
      · simp [e] at h
      · simp only [e, if_false] at h
        simp only [List.map_cons, List.mem_cons] at hm
        rcases hm with hm | hm
        · exact e hm
        · exact ih h hm

theorem mapOpt_nil {α β} (f : α → Option β) (l : List α) (h : mapOpt f l = some []) : l = [] := by
  cases l with
  | nil => rfl
  | cons x xs =>
    simp only [mapOpt] at h
    split at h
    · cases h
    · split at h <;> cases h

/-- JOINED TREE THEOREM: for every dict the builder model with survey-level `choices` accepts (surveys, groups,
    repeats to any depth, questions of every type of the regenerated type table incl. selects that refer to a list,
    a `choices` object of any number of lists and options with any extra columns), the dump of the built survey is
    accepted again and the rebuilt survey dumps to the identical dict. -/
theorem dump_stable_tree_choices (f : Nat) (d : J) (e : El) (h : fromJsonC genCfg optionCtor f d = some e) :
    ∃ e', fromJsonC genCfg optionCtor f (toJson e []) = some e' ∧ toJson e' [] = toJson e [] := by
  cases d with
  | obj kvs =>
    simp only [fromJsonC] at h
    split at h
    · -- no `choices` key: `fromJson`
      obtain ⟨e', h1, h2⟩ := dump_stable_tree f _ e h
      cases hj : toJson e [] with
      | obj D =>
        rw [hj] at h1
        refine ⟨e', ?_, by rw [h2, hj]⟩
        simp only [fromJsonC, fromJson_no_choices _ _ _ _ h1]
        exact h1
      | _ => rw [hj] at h1; cases f <;> simp [fromJson] at h1
    · next cj hcj =>
      split at h
      · cases h
      · next hne =>
        split at h
        · next t hty =>
          split at h
          · next hts =>
            subst hts
            split at h
            · cases h
            · next ch hch =>
              split at h
              · cases h
              · next e0 he0 =>
                cases h
                obtain ⟨kvs', kids, hshape, htype'⟩ := fromJson_survey_shape genCfg f _ e0 he0 hty
                subst hshape
                have hbuilt := built_of_mapOpt cj ch hch
                -- the choices are not empty
                cases ch with
                | nil => exact absurd (mapOpt_nil _ _ hch) (by intro e; subst e; simp at hne)
                | cons c cs =>
                  let fn := surveyFn kvs'
                  let names := genCfg.surveyNames
                  have ok := genCfg_secOk
                  have hkeys : (names.map fun n => (n, fn n)).map Prod.fst = names := by
                    simp [List.map_map, Function.comp_def]
                  let del := allDelete .survey names [] []
                  let D0 : Dict := ownDump del (names.map fun n => (n, fn n)) ++ childPart kids
                  have hd0 : toJson (.mk .survey (names.map fun n => (n, fn n)) [] [] [] kids none []) [] = .obj D0 := by
                    rw [toJson_section _ (by decide)]
                    simp [hkeys, D0, del]
                  obtain ⟨e0', h1, h2⟩ := dump_stable_tree f _ _ he0
                  rw [hd0] at h1 h2
                  have hnc : lookup k!"choices" D0 = none := fromJson_no_choices _ _ _ _ h1
                  have htyD : lookup k!"type" D0 = some (.str k!"survey") := by
                    have hf : fn k!"type" = .str k!"survey" := by
                      simp only [fn, surveyFn, keys_ne2.1, keys_ne2.2.1, if_false, htype', Option.getD_some]
                    have := lookup_dumpD del names fn ok.sN kids k!"type" keys_ne.1
                    simp only [D0]
                    rw [this]
                    have hk : keeps del (k!"type", fn k!"type") = true := by
                      have h3 := ok.sKeepType
                      simp only [keeps, hf, truthy, Bool.and_eq_true, Bool.not_eq_true']
                      refine ⟨?_, by decide⟩
                      simpa [del, names] using h3
                    rw [hf] at hk
                    simp [ok.sType, hk, hf, names]
                  obtain ⟨kvs2, kids2, hshape2, _⟩ := fromJson_survey_shape genCfg f _ e0' h1 htyD
                  subst hshape2
                  have hdump1 : toJson (withChoices (c :: cs)
                      (.mk .survey (names.map fun n => (n, fn n)) [] [] [] kids none [])) [] =
                      .obj (D0 ++ [(k!"choices", choicesJson (c :: cs))]) := by
                    simp only [withChoices]
                    rw [toJson_survey_choices]
                    simp [hkeys, D0, del]
                  refine ⟨withChoices (reloadChoices optionCtor (c :: cs))
                    (.mk .survey (genCfg.surveyNames.map fun n => (n, surveyFn kvs2 n)) [] [] [] kids2 none []), ?_, ?_⟩
                  · rw [hdump1]
                    obtain ⟨CJ, hCJ⟩ : ∃ CJ : Dict, CJ = (c :: cs).map fun c => (c.1, J.arr (c.2.map optionToJson)) :=
                      ⟨_, rfl⟩
                    have hcjs : choicesJson (c :: cs) = .obj CJ := by rw [hCJ]; rfl
                    have hCJne : CJ.isEmpty = false := by rw [hCJ]; simp
                    rw [hcjs]
                    have hl : lookup k!"choices" (D0 ++ [(k!"choices", J.obj CJ)]) = some (J.obj CJ) := by
                      rw [lookup_append_none _ _ _ hnc]; simp [lookup]
                    have hstrip := stripChoices_fresh D0 (J.obj CJ) (not_mem_of_lookup_none _ _ hnc)
                    have hch2 := choices_reload (c :: cs) hbuilt
                    rw [← hCJ] at hch2
                    simp only [fromJsonC, hl, hstrip, htyD, h1, hch2, hCJne]
                    simp
                  · rw [hdump1]
                    have hkeys2 : ((genCfg.surveyNames.map fun n => (n, surveyFn kvs2 n))).map Prod.fst = names := by
                      simp [List.map_map, Function.comp_def, names]
                    have hd2 : toJson (.mk .survey (genCfg.surveyNames.map fun n => (n, surveyFn kvs2 n))
                        [] [] [] kids2 none []) [] =
                        .obj (ownDump del (genCfg.surveyNames.map fun n => (n, surveyFn kvs2 n)) ++ childPart kids2) := by
                      rw [toJson_section _ (by decide)]
                      simp [hkeys2, del]
                    rw [hd2] at h2
                    simp only [J.obj.injEq] at h2
                    simp only [withChoices, reloadChoices, List.map_cons]
                    rw [toJson_survey_choices]
                    have := choicesJson_reload (c :: cs) hbuilt
                    simp only [reloadChoices, List.map_cons] at this
                    rw [this, hkeys2]
                    simp only [del] at h2
                    rw [h2]
          · cases h
        · cases h
    · cases h
  | _ => simp [fromJsonC] at h

/-- non-vacuity with the real tables: a survey with a `choices` object (two options, one with an extra column and
    one falsy extra value) and a `select one` question referring to the list by `itemset` is accepted by the extended
    builder model (and is outside `fromJson`'s fragment), hence round-trips. -/
example : ∃ e e', fromJson genCfg 4 (.obj [(k!"type", .str k!"survey"), (k!"name", .str k!"data"),
      (k!"children", .arr [.obj [(k!"name", .str k!"q"), (k!"type", .str k!"select one"),
        (k!"itemset", .str k!"l"), (k!"label", .str k!"Q")]]),
      (k!"choices", .obj [(k!"l", .arr [.obj [(k!"name", .str k!"a"), (k!"label", .str k!"A"), (k!"pop", .str k!"1")],
        .obj [(k!"name", .str k!"b"), (k!"label", .str k!"B"), (k!"pop", .str [])]])])]) = none ∧
    fromJsonC genCfg optionCtor 4 (.obj [(k!"type", .str k!"survey"), (k!"name", .str k!"data"),
      (k!"children", .arr [.obj [(k!"name", .str k!"q"), (k!"type", .str k!"select one"),
        (k!"itemset", .str k!"l"), (k!"label", .str k!"Q")]]),
      (k!"choices", .obj [(k!"l", .arr [.obj [(k!"name", .str k!"a"), (k!"label", .str k!"A"), (k!"pop", .str k!"1")],
        .obj [(k!"name", .str k!"b"), (k!"label", .str k!"B"), (k!"pop", .str [])]])])]) = some e ∧
    fromJsonC genCfg optionCtor 4 (toJson e []) = some e' ∧ toJson e' [] = toJson e [] := by
  have hnone : (fromJson genCfg 4 (.obj [(k!"type", .str k!"survey"), (k!"name", .str k!"data"),
      (k!"children", .arr [.obj [(k!"name", .str k!"q"), (k!"type", .str k!"select one"),
        (k!"itemset", .str k!"l"), (k!"label", .str k!"Q")]]),
      (k!"choices", .obj [(k!"l", .arr [.obj [(k!"name", .str k!"a"), (k!"label", .str k!"A"), (k!"pop", .str k!"1")],
        .obj [(k!"name", .str k!"b"), (k!"label", .str k!"B"), (k!"pop", .str [])]])])])).isNone = true := by
    decide +kernel
  have hsome : (fromJsonC genCfg optionCtor 4 (.obj [(k!"type", .str k!"survey"), (k!"name", .str k!"data"),
      (k!"children", .arr [.obj [(k!"name", .str k!"q"), (k!"type", .str k!"select one"),
        (k!"itemset", .str k!"l"), (k!"label", .str k!"Q")]]),
      (k!"choices", .obj [(k!"l", .arr [.obj [(k!"name", .str k!"a"), (k!"label", .str k!"A"), (k!"pop", .str k!"1")],
        .obj [(k!"name", .str k!"b"), (k!"label", .str k!"B"), (k!"pop", .str [])]])])])).isSome = true := by
    decide +kernel
  obtain ⟨e, he⟩ := Option.isSome_iff_exists.mp hsome
  obtain ⟨e', h1, h2⟩ := dump_stable_tree_choices 4 _ e he
  exact ⟨e, e', Option.isNone_iff_eq_none.mp hnone, he, h1, h2⟩

/-- the dump of such a survey really carries the `choices` object: the keys of the dumped option (the falsy extra
    value is dropped, the truthy one kept) -/
example : (fromJsonC genCfg optionCtor 3 (.obj [(k!"type", .str k!"survey"), (k!"name", .str k!"data"),
      (k!"choices", .obj [(k!"l", .arr [.obj [(k!"name", .str k!"a"), (k!"pop", .str k!"1"), (k!"z", .str [])]])])])).map
      (fun e => match toJson e [] with
        | .obj d => (match lookup k!"choices" d with
          | some (.obj [(_, .arr [.obj o])]) => o.map Prod.fst
          | _ => [])
        | _ => []) = some [k!"name", k!"pop"] := by
  decide +kernel

end Pyxv.C16
