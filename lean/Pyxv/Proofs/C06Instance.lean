import Pyxv.Proofs.ChannelLemmas
/-!
# C06: a general statement about `find_boundaries` on cells that contain an instance() expression

Token level (the level `instance_expression.find_boundaries` works on): for EVERY token list of the shape

  pre ++ [instance(, 'lit', ), /] ++ path₁ ++ [name[] ++ pred ++ [], /] ++ path₂ ++ post

with the explicit guards below, the loop reports exactly ONE boundary: from the start of `instance(` to the end of
the last path token.  The guards are the well-behaved complement of the open findings:
* `post` is empty or begins with a WHITESPACE token (F15: ` and ` / ` or ` / ` div ` / ` mod ` lex as OPS_BOOL /
  OPS_MATH, not WHITESPACE, and are swallowed);
* no `instance(` call token in `pre` and in the rest of `post` (F40 is the case where the lexer never produces the
  `instance(` token because a quote in `pre` opened a SYSTEM_LITERAL);
* the predicate is flat: no `/` and no `]` inside (a `)/` inside a predicate re-enters path mode, after which a blank
  inside the predicate ends the expression early).
-/
namespace Pyxv.Chan
open Pyxv.Lexer

/-- the last token of `l :: toks` -/
def lastOr (l : Token) : List Token → Token
  | [] => l
  | t :: ts => lastOr t ts

def plainPathTok (t : Token) : Bool := t.name != "WHITESPACE" && t.name != "XPATH_PRED_START"
def flatPredTok (t : Token) : Bool := t.name != "XPATH_PRED_END" && t.name != "PATH_SEP"

theorem foldl_fbStep_idle_from (tokens : List Token) (h : ∀ t ∈ tokens, isInstanceCall t = false) :
    ∀ (st : FB), st.instanceEnter = false → tokens.foldl fbStep st = st := by
  induction tokens with
  | nil => intro st _; rfl
  | cons t ts ih =>
    intro st hst
    simp only [List.foldl_cons]
    rw [fbStep_idle st t hst (h t (List.mem_cons_self ..))]
    exact ih (fun u hu => h u (List.mem_cons_of_mem _ hu)) st hst

theorem fbStep_path (t l : Token) (pr : Bool) (b : List Nat) (h : plainPathTok t = true) :
    fbStep ⟨true, true, pr, some l, b⟩ t = ⟨true, true, pr, some t, b⟩ := by
  simp only [plainPathTok, Bool.and_eq_true, bne_iff_ne, ne_eq] at h
  have h1 : (t.name == "WHITESPACE") = false := by simpa using h.1
  have h2 : (t.name != "XPATH_PRED_START") = true := by simpa using h.2
  unfold fbStep
  simp only [Bool.not_true, Bool.false_and, Bool.false_eq_true, if_false, if_true, h1, h2]
  split <;> (try split) <;> (try split) <;> (try split) <;> simp_all

theorem foldl_path : ∀ (toks : List Token) (l : Token) (pr : Bool) (b : List Nat),
    (∀ t ∈ toks, plainPathTok t = true) →
    toks.foldl fbStep ⟨true, true, pr, some l, b⟩ = ⟨true, true, pr, some (lastOr l toks), b⟩
  | [], _, _, _, _ => by simp [lastOr]
  | t :: ts, l, pr, b, h => by
    simp only [List.foldl_cons]
    rw [fbStep_path t l pr b (h t (List.mem_cons_self ..)),
      foldl_path ts t pr b (fun u hu => h u (List.mem_cons_of_mem _ hu))]
    rfl

theorem fbStep_pred (t l : Token) (b : List Nat) (h : flatPredTok t = true) :
    fbStep ⟨true, false, true, some l, b⟩ t = ⟨true, false, true, some t, b⟩ := by
  simp only [flatPredTok, Bool.and_eq_true, bne_iff_ne, ne_eq] at h
  have h1 : (t.name != "XPATH_PRED_END") = true := by simpa using h.1
  have h2 : (t.name == "PATH_SEP") = false := by simpa using h.2
  unfold fbStep
  simp only [Bool.not_true, Bool.false_and, Bool.false_eq_true, if_false, if_true, h1, h2]
  split <;> (try split) <;> simp_all

theorem foldl_pred : ∀ (toks : List Token) (l : Token) (b : List Nat),
    (∀ t ∈ toks, flatPredTok t = true) →
    toks.foldl fbStep ⟨true, false, true, some l, b⟩ = ⟨true, false, true, some (lastOr l toks), b⟩
  | [], _, _, _ => by simp [lastOr]
  | t :: ts, l, b, h => by
    simp only [List.foldl_cons]
    rw [fbStep_pred t l b (h t (List.mem_cons_self ..)),
      foldl_pred ts t b (fun u hu => h u (List.mem_cons_of_mem _ hu))]
    rfl

/-- the guards on the tokens of one instance() expression with one flat predicate -/
structure GoodExpr (inst lit close sep : Token) (path1 : List Token) (ps : Token) (pred : List Token)
    (pe sep2 : Token) (path2 : List Token) : Prop where
  inst : isInstanceCall inst = true
  lit : lit.name = "SYSTEM_LITERAL"
  close : close.name = "CLOSE_PAREN"
  sep : sep.name = "PATH_SEP"
  path1 : ∀ t ∈ path1, plainPathTok t = true
  ps : ps.name = "XPATH_PRED_START"
  pred : ∀ t ∈ pred, flatPredTok t = true
  pe : pe.name = "XPATH_PRED_END"
  sep2 : sep2.name = "PATH_SEP"
  path2 : ∀ t ∈ path2, plainPathTok t = true

/-- what follows the expression: nothing, or a WHITESPACE token and then no further `instance(` -/
def GoodPost : List Token → Prop
  | [] => True
  | w :: rest => w.name = "WHITESPACE" ∧ ∀ t ∈ rest, isInstanceCall t = false

/-- the state of the loop after the expression's tokens -/
theorem foldl_expr {inst lit close sep ps pe sep2 : Token} {path1 pred path2 : List Token}
    (h : GoodExpr inst lit close sep path1 ps pred pe sep2 path2) :
    ([inst, lit, close, sep] ++ path1 ++ [ps] ++ pred ++ [pe, sep2] ++ path2).foldl fbStep {} =
      ⟨true, true, false, some (lastOr sep2 path2), [inst.start]⟩ := by
  have hi := h.inst
  have e1 : fbStep {} inst = ⟨true, false, false, some inst, [inst.start]⟩ := by
    simp [fbStep, hi]
  have e2 : fbStep ⟨true, false, false, some inst, [inst.start]⟩ lit = ⟨true, false, false, some lit, [inst.start]⟩ := by
    simp [fbStep, hi, h.lit]
  have e3 : fbStep ⟨true, false, false, some lit, [inst.start]⟩ close = ⟨true, false, false, some close, [inst.start]⟩ := by
    simp [fbStep, h.lit, h.close]
  have e4 : fbStep ⟨true, false, false, some close, [inst.start]⟩ sep = ⟨true, true, false, some sep, [inst.start]⟩ := by
    simp [fbStep, h.close, h.sep]
  have e5 : fbStep ⟨true, true, false, some (lastOr sep path1), [inst.start]⟩ ps =
      ⟨true, false, true, some ps, [inst.start]⟩ := by
    simp [fbStep, h.ps]
  have e6 : fbStep ⟨true, false, true, some (lastOr ps pred), [inst.start]⟩ pe =
      ⟨true, false, false, some pe, [inst.start]⟩ := by
    simp [fbStep, h.pe]
  have e7 : fbStep ⟨true, false, false, some pe, [inst.start]⟩ sep2 = ⟨true, true, false, some sep2, [inst.start]⟩ := by
    simp [fbStep, h.pe, h.sep2]
  simp only [List.foldl_append, List.foldl_cons, List.foldl_nil, e1, e2, e3, e4,
    foldl_path path1 sep false [inst.start] h.path1, e5, foldl_pred pred ps [inst.start] h.pred, e6, e7,
    foldl_path path2 sep2 false [inst.start] h.path2]

/-- **`find_boundaries`, general well-behaved case**: exactly one boundary, from the start of the `instance(` token
    to the end of the last token of the path — whatever `pre`, the literal, the path steps, the (flat) predicate and the
    rest of `post` are -/
theorem findBoundaries_single {inst lit close sep ps pe sep2 : Token} {path1 pred path2 : List Token}
    (pre post : List Token) (hpre : ∀ t ∈ pre, isInstanceCall t = false)
    (h : GoodExpr inst lit close sep path1 ps pred pe sep2 path2) (hpost : GoodPost post) :
    findBoundaries (pre ++ ([inst, lit, close, sep] ++ path1 ++ [ps] ++ pred ++ [pe, sep2] ++ path2) ++ post) =
      [(inst.start, (lastOr sep2 path2).stop)] := by
  unfold findBoundaries
  rw [List.foldl_append, List.foldl_append, foldl_fbStep_idle_from pre hpre {} rfl, foldl_expr h]
  cases post with
  | nil => simp [pairUp]
  | cons w rest =>
    obtain ⟨hw, hrest⟩ := hpost
    have ew : fbStep ⟨true, true, false, some (lastOr sep2 path2), [inst.start]⟩ w =
        ⟨false, false, false, some (lastOr sep2 path2), [inst.start, (lastOr sep2 path2).stop]⟩ := by
      simp [fbStep, hw]
    simp only [List.foldl_cons, ew]
    rw [foldl_fbStep_idle_from rest hrest _ rfl]
    simp [pairUp]

/-- **`replace_with_output`, general well-behaved case** (string level, the guard is on the token list that
    `parse_expression` returns for the escaped text `x`): the text before the expression and the text after it stay
    exactly as they are, the expression — with its `${refs}` resolved — becomes ONE `<output value="…"/>` -/
theorem replaceWithOutput_single {inst lit close sep ps pe sep2 : Token} {path1 pred path2 : List Token}
    (rules : Rules) (refs : List (Str × Str)) (x n : Str) (pre post : List Token) (hlen : 9 < x.length)
    (htok : (parseWith rules x).1 =
      pre ++ ([inst, lit, close, sep] ++ path1 ++ [ps] ++ pred ++ [pe, sep2] ++ path2) ++ post)
    (hpre : ∀ t ∈ pre, isInstanceCall t = false)
    (h : GoodExpr inst lit close sep path1 ps pred pe sep2 path2) (hpost : GoodPost post)
    (hsub : subRefs refs (((x.drop inst.start).take ((lastOr sep2 path2).stop - inst.start)).length + 1)
      ((x.drop inst.start).take ((lastOr sep2 path2).stop - inst.start)) = some n) :
    (match replaceWithOutputWith (some rules) refs x with
     | .ok y => y = x.take inst.start ++ outputXml n ++ x.drop (lastOr sep2 path2).stop
     | _ => False) := by
  have hl : ¬ x.length ≤ 9 := by omega
  unfold replaceWithOutputWith
  simp only [hl, if_false, Option.map_some, htok, findBoundaries_single pre post hpre h hpost,
    List.mapM_cons, List.mapM_nil, hsub]
  simp [spliceAll]

/-! ## non-vacuity: the real lexer on a label with text before and after the expression -/

def exLabel : Str := "x instance('l')/root/item[name = 'c1']/label y".toList

def tk (n : String) (v : String) (a b : Nat) : Token := ⟨n, v.toList, a, b⟩

theorem exLabel_tokens :
    (parseWith pinnedRules exLabel).1 =
      [tk "NAME" "x" 0 1, tk "WHITESPACE" " " 1 2] ++
      ([tk "FUNC_CALL" "instance(" 2 11, tk "SYSTEM_LITERAL" "'l'" 11 14, tk "CLOSE_PAREN" ")" 14 15, tk "PATH_SEP" "/" 15 16] ++
        [tk "NAME" "root" 16 20, tk "PATH_SEP" "/" 20 21] ++ [tk "XPATH_PRED_START" "item[" 21 26] ++
        [tk "NAME" "name" 26 30, tk "WHITESPACE" " " 30 31, tk "OPS_COMP" "=" 31 32, tk "WHITESPACE" " " 32 33,
         tk "SYSTEM_LITERAL" "'c1'" 33 37] ++
        [tk "XPATH_PRED_END" "]" 37 38, tk "PATH_SEP" "/" 38 39] ++ [tk "NAME" "label" 39 44]) ++
      [tk "WHITESPACE" " " 44 45, tk "NAME" "y" 45 46] := by decide +kernel

theorem exLabel_good : GoodExpr (tk "FUNC_CALL" "instance(" 2 11) (tk "SYSTEM_LITERAL" "'l'" 11 14) (tk "CLOSE_PAREN" ")" 14 15)
    (tk "PATH_SEP" "/" 15 16) [tk "NAME" "root" 16 20, tk "PATH_SEP" "/" 20 21] (tk "XPATH_PRED_START" "item[" 21 26)
    [tk "NAME" "name" 26 30, tk "WHITESPACE" " " 30 31, tk "OPS_COMP" "=" 31 32, tk "WHITESPACE" " " 32 33,
     tk "SYSTEM_LITERAL" "'c1'" 33 37]
    (tk "XPATH_PRED_END" "]" 37 38) (tk "PATH_SEP" "/" 38 39) [tk "NAME" "label" 39 44] :=
  ⟨by decide, rfl, rfl, rfl, by decide, rfl, by decide, rfl, rfl, by decide⟩

/-- the general theorems instantiated: one boundary (2, 44); `x ` and ` y` stay, the expression becomes one output -/
example : findBoundaries (parseWith pinnedRules exLabel).1 = [(2, 44)] := by
  rw [exLabel_tokens]
  exact findBoundaries_single _ _ (by decide) exLabel_good ⟨rfl, by decide⟩

example : (match replaceWithOutputWith (some pinnedRules) [] exLabel with
    | .ok y => y = "x <output value=\"instance('l')/root/item[name = 'c1']/label\"/> y".toList
    | _ => False) := by
  have := replaceWithOutput_single pinnedRules [] exLabel "instance('l')/root/item[name = 'c1']/label".toList _ _
    (by decide) exLabel_tokens (by decide) exLabel_good ⟨rfl, by decide⟩ (by decide +kernel)
  revert this
  cases replaceWithOutputWith (some pinnedRules) [] exLabel with
  | ok y => intro h; rw [h]; decide +kernel
  | _ => exact id

-- the F15 input violates the guard: what follows the path is an OPS_BOOL token, not WHITESPACE
example : ((parseWith pinnedRules "instance('l')/root/item[name = 'c1']/label and ${a} tail".toList).1.map (·.name)).drop 15 =
    ["OPS_BOOL", "PYXFORM_REF", "WHITESPACE", "NAME"] := by decide +kernel

end Pyxv.Chan
