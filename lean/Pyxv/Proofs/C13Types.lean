import Pyxv.Proofs.C13
/-!
# C13 — type spellings through the whole classified sheet and `formOut`

Lifts `C13.classify_retype` (one row) to the row list: retyping any row of a sheet to a spelling with the same
`typeObs` leaves `classifyAll`, `unknownTypeRows`, `metaKids` — and therefore `Rows.formOut` — unchanged.
-/
namespace Pyxv.C13
open Pyxv Pyxv.Spell Pyxv.Form Pyxv.Rows

theorem lookup_filter_ne (k d : Str) (hk : k ≠ d) (r : Cells) :
    lookup k (r.filter fun kv => kv.1 ≠ d) = lookup k r := by
  induction r with
  | nil => rfl
  | cons kv rest ih =>
    obtain ⟨k2, v2⟩ := kv
    simp only [List.filter_cons]
    by_cases h2 : k2 = d
    · subst h2
      simp only [ne_eq, not_true_eq_false, decide_false, Bool.false_eq_true, if_false, lookup, hk]
      exact ih
    · simp only [ne_eq, h2, not_false_eq_true, decide_true, if_true, lookup, ih]

theorem get_type_filter (r : Cells) :
    Rows.get (r.filter fun kv => kv.1 ≠ "disabled".toList) "type" = Rows.get r "type" := by
  unfold Rows.get; exact lookup_filter_ne _ _ (by decide) r

theorem get_type_retype (t' : Str) (r : Cells) (t : Str) (ht : Rows.get r "type" = some t) :
    Rows.get (retype t' r) "type" = some t' := by
  unfold Rows.get at ht ⊢
  rw [lookup_retype_type, ht]; rfl

/-- `qdata` reads the row only through cells other than `type` -/
theorem qdata_retype (name t t' : Str) (r : Cells) : qdata name t (retype t' r) = qdata name t r := by
  have hh : ∀ k : String, (k.toList == "type".toList) = false → Rows.has (retype t' r) k = Rows.has r k := has_retype t' r
  unfold qdata hasBindCells hasLabelOrHint
  simp only [hasPrefix_retype, hh "bind::calculate" (by decide), hh "trigger" (by decide), hh "label" (by decide),
    hh "hint" (by decide), get_retype t' r "control::appearance" (by decide)]

/-- `qdata` reads the type through `typeObs` only -/
theorem qdata_type_congr (name t t' : Str) (r : Cells) (h : typeObs t = typeObs t') : qdata name t r = qdata name t' r := by
  obtain ⟨_, h2, _, h4, h5, _, _, _, _, _, h11⟩ := TypeObs.mk.inj h
  have a2 : (t = "calculate".toList) ↔ (t' = "calculate".toList) := iff_of_beq _ _ _ h2
  have a4 : (t = "xml-external".toList) ↔ (t' = "xml-external".toList) := iff_of_beq _ _ _ h4
  have a5 : (t = "csv-external".toList) ↔ (t' = "csv-external".toList) := iff_of_beq _ _ _ h5
  unfold qdata
  simp only [a2, a4, a5, h11]

/-- **the whole classified sheet**: retyping one row to a spelling with the same observations leaves the
    classification of every row (numbers included) unchanged -/
theorem classifyAll_retype (lists : List Str) (pre post : List Cells) (r : Cells) (t t' : Str)
    (ht : Rows.get r "type" = some t) (h : typeObs t = typeObs t') : ∀ n,
    classifyAll lists n (pre ++ retype t' r :: post) = classifyAll lists n (pre ++ r :: post) := by
  have hr : ∀ n, classify lists n (retype t' r) = classify lists n r := fun n =>
    classify_retype lists n r t t' (by rw [get_type_filter]; exact ht) h
  induction pre with
  | nil => intro n; simp only [List.nil_append, classifyAll, hr]
  | cons x xs ih => intro n; simp only [List.cons_append, classifyAll, ih]

/-- rows of unknown type are the same rows -/
theorem unknownTypeRows_retype (lists : List Str) (pre post : List Cells) (r : Cells) (t t' : Str)
    (ht : Rows.get r "type" = some t) (h : typeObs t = typeObs t') : ∀ n,
    unknownTypeRows lists n (pre ++ retype t' r :: post) = unknownTypeRows lists n (pre ++ r :: post) := by
  have hr : ∀ n, classify lists n (retype t' r) = classify lists n r := fun n =>
    classify_retype lists n r t t' (by rw [get_type_filter]; exact ht) h
  obtain ⟨_, _, _, _, _, _, _, h8, h9, _, _⟩ := TypeObs.mk.inj h
  induction pre with
  | nil =>
    intro n
    simp only [List.nil_append, unknownTypeRows, hr, get_type_retype t' r t ht, ht, qdata_retype,
      ← qdata_type_congr [] t t' r h, ← h8, ← h9]
  | cons x xs ih => intro n; simp only [List.cons_append, unknownTypeRows, ih]

theorem isAuditRow_retype (r : Cells) (t t' : Str) (ht : Rows.get r "type" = some t) (h : typeObs t = typeObs t') :
    isAuditRow (retype t' r) = isAuditRow r := by
  obtain ⟨h1, _⟩ := TypeObs.mk.inj h
  have a1 : (t = "audit".toList) ↔ (t' = "audit".toList) := iff_of_beq _ _ _ h1
  unfold isAuditRow
  rw [get_type_retype t' r t ht, ht, get_retype t' r "disabled" (by decide)]
  simp only [Option.some.injEq, a1]

/-- the meta block is the same -/
theorem metaKids_retype (pre post : List Cells) (r : Cells) (t t' : Str) (settings : Cells)
    (ht : Rows.get r "type" = some t) (h : typeObs t = typeObs t') :
    metaKids (pre ++ retype t' r :: post) settings = metaKids (pre ++ r :: post) settings := by
  unfold metaKids
  simp only [List.filter_append, List.filter_cons, isAuditRow_retype r t t' ht h]
  split <;> simp only [List.map_append, List.map_cons]

/-- **Type spellings do not reach the structural pipeline**: rewriting the type cell of any row of a sheet to a
    spelling with the same `typeObs` (`int`/`integer`, `text`/`string`, `begin group`/`begin_group`,
    `select_one l`/`select one l`, … — every pair with equal observations) leaves `Rows.formOut` unchanged:
    same instance tree, binds, body refs and controls, or the same located error. -/
theorem formOut_retype (root : Str) (lists : List Str) (pre post : List Cells) (r : Cells) (t t' : Str)
    (settings : Cells) (ht : Rows.get r "type" = some t) (h : typeObs t = typeObs t') :
    formOut root lists (pre ++ retype t' r :: post) settings = formOut root lists (pre ++ r :: post) settings := by
  unfold formOut withMeta
  rw [classifyAll_retype lists pre post r t t' ht h 2, unknownTypeRows_retype lists pre post r t t' ht h 2,
    metaKids_retype pre post r t t' settings ht h]

/-- non-vacuity: a select spelling with a concrete list name, and a control spelling -/
example : typeObs "select one l".toList = typeObs "select_one l".toList ∧
    typeObs "begin_group".toList = typeObs "begin group".toList ∧
    typeObs (dealiasType "int".toList) = typeObs "integer".toList := by decide +kernel

example (root : Str) (lists : List Str) (post : List Cells) (settings : Cells) :
    formOut root lists ([] ++ retype "select one l".toList [("type".toList, "select_one l".toList), ("name".toList, "s".toList)] :: post) settings =
    formOut root lists ([] ++ [("type".toList, "select_one l".toList), ("name".toList, "s".toList)] :: post) settings :=
  formOut_retype root lists [] post _ "select_one l".toList _ settings (by decide +kernel) (by decide +kernel)

end Pyxv.C13
