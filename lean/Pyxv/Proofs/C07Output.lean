import Pyxv.Model.ItextOutput
import Pyxv.Proofs.C06
import Pyxv.Proofs.C07Text
/-!
# C07, DOM level: `<output>` substitution inside itext values

`Pyxv.ItextOut` (Model/ItextOutput.lean) builds the `<value>` element of every final table value with C06's mixed
channel.  Here C06's channel theorems (`mixed_channel_total`, `mixed_no_ref`) are composed with C07's value-level
theorems (`value_label`, `value_hint`, `value_guidance`, `value_msg`, `value_choice_label`):

for an element `f` of any survey, any language `l` of a translated slot whose cell is `t0 ${n1} t1 … ${nk} tk`
(literal chunks with ANY characters, names resolving in the survey's own reference table), the itext block holds
under `f`'s id, in the translation of `l`, a `<value>` whose children are exactly the chunks (line ends normalised)
interleaved with one `<output value=" xpath "/>` per reference — or the conversion is rejected, exactly when a chunk
holds a character XML does not allow.
-/
namespace Pyxv.C07Output
open Pyxv Pyxv.Itext Pyxv.ItextOut Pyxv.Xml Pyxv.Chan Pyxv.C06 Pyxv.C07Text

/-- the `form` attribute `itext()` gives the `<value>` of content type `f` under text id `p` -/
def formOf (p f : Str) : Option Str :=
  if labelType p == "hint".toList && f == "guidance".toList then some f else none

/-- content types that carry text (not a media file name): everything under a hint id, and `long` -/
def textKind (p f : Str) : Bool := labelType p == "hint".toList || f == "long".toList

/-! ## 1. one `<value>` -/

/-- **a value with references**: the `<value>` built for a cell `t0 ${n1} t1 … ${nk} tk` (k ≥ 1) has the `form`
attribute asked for and exactly the prescribed children; rejected exactly when a literal chunk holds a character
XML does not allow.  (C06 `mixed_channel_total` under the tag `value`.) -/
theorem value_dom_refs (refs : List (Str × Str)) (form : Option Str) (c : Cell) (items : List (Str × Str))
    (hc : CellShape refs c items) (hi : NoInstanceExpr c.text) :
    valueDom refs form c.text =
      if textsValid c.head items then .ok (.elem valueTag (formAttr form) (cellKids true c.head items))
      else .pyxformError := by
  unfold valueDom
  rw [mixed_channel_total refs valueTag c items (by decide) hc hi]
  cases textsValid c.head items <;> simp [withAttrs]

/-- **a value without references** is one text node holding the cell as it is -/
theorem value_dom_plain (refs : List (Str × Str)) (form : Option Str) (s : Str)
    (h : hasDollarBrace s = false) (hi : NoInstanceExpr s) :
    valueDom refs form s = .ok (.elem valueTag (formAttr form) [.text false s]) := by
  unfold valueDom
  rw [mixed_no_ref refs valueTag s h hi]
  simp [withAttrs, nodeText]

/-- the entry `itext()` writes for a text-bearing content type -/
theorem dom_entry_text (refs : List (Str × Str)) (st : Bool) (p : Str) (fb : Str × Str)
    (hk : textKind p fb.1 = true) (hs : (st || !isInfix "${".toList fb.2) = true) :
    domEntry refs st p fb = some (formOf p fb.1, some (valueDom refs (formOf p fb.1) fb.2)) := by
  have hlg : ("long".toList == "guidance".toList) = false := by decide
  unfold domEntry formOf
  unfold textKind at hk
  revert hlg hk
  generalize "hint".toList = H
  generalize "guidance".toList = G
  generalize "long".toList = L
  intro hlg hk
  simp only [hs, if_true]
  cases h1 : (labelType p == H) <;> cases h2 : (fb.1 == G) <;> simp_all

/-! ## 2. the itext block -/

theorem mem_of_lookup {β} (k : Str) : ∀ (l : List (Str × β)) (v : β), lookup k l = some v → (k, v) ∈ l
  | [], _, h => by simp [lookup] at h
  | (k', v') :: rest, v, h => by
    simp only [lookup] at h
    split at h
    · next hk => cases h; subst hk; exact List.mem_cons_self
    · exact List.mem_cons_of_mem _ (mem_of_lookup k rest v h)

/-- **from the table to the block**: whatever text `t` the final table holds for (language, id, content type) — a
text-bearing content type, context outside repeats or no `${` in the text — the itext block has, in that language's
translation under that id, the `<value>` that the mixed channel builds from `t` with the survey's reference table -/
theorem dom_of_valueAt (x : Survey) {l p f t : Str} (hv : valueAt (table x) l p f = some t)
    (hk : textKind p f = true) (hs : (stated x p || !isInfix "${".toList t) = true) :
    ∃ tds, (l, tds) ∈ outDoms x ∧ ∃ vs, (p, vs) ∈ tds ∧
      (formOf p f, some (valueDom (nameRefs x) (formOf p f) t)) ∈ vs := by
  unfold valueAt at hv
  cases h1 : lookup l (table x) with
  | none => simp [h1] at hv
  | some ps =>
    simp only [h1, Option.bind_some] at hv
    cases h2 : lookup p ps with
    | none => simp [h2] at hv
    | some fs =>
      simp only [h2, Option.bind_some] at hv
      have m1 := mem_of_lookup l _ _ h1
      have m2 := mem_of_lookup p _ _ h2
      have m3 := mem_of_lookup f _ _ hv
      refine ⟨ps.map fun pf => (pf.1, valueDoms (nameRefs x) (stated x pf.1) pf.1 pf.2), ?_, ?_⟩
      · exact List.mem_map.mpr ⟨(l, ps), m1, rfl⟩
      · refine ⟨valueDoms (nameRefs x) (stated x p) p fs, List.mem_map.mpr ⟨(p, fs), m2, rfl⟩, ?_⟩
        unfold valueDoms
        exact List.mem_filterMap.mpr ⟨(f, t), m3, dom_entry_text _ _ p (f, t) hk hs⟩

theorem formOf_long (p : Str) : formOf p "long".toList = none := by
  unfold formOf
  have : ("long".toList == "guidance".toList) = false := by decide
  simp [this]

theorem textKind_long (p : Str) : textKind p "long".toList = true := by
  simp [textKind]

/-- what the block holds for a cell with references -/
def RefsValue (x : Survey) (l p : Str) (form : Option Str) (c : Cell) (items : List (Str × Str)) : Prop :=
  ∃ tds, (l, tds) ∈ outDoms x ∧ ∃ vs, (p, vs) ∈ tds ∧
    (form, some (if textsValid c.head items
      then Chan.Outcome.ok (.elem valueTag (formAttr form) (cellKids true c.head items))
      else Chan.Outcome.pyxformError)) ∈ vs

/-- content type `long` (label, hint, bind message, choice label): table value `c.text` ⟹ the `<value>` of the
block, no `form` attribute -/
theorem long_dom (x : Survey) {l p : Str} {c : Cell} {items : List (Str × Str)}
    (hv : valueAt (table x) l p "long".toList = some c.text) (hs : stated x p = true)
    (hc : CellShape (nameRefs x) c items) (hi : NoInstanceExpr c.text) :
    RefsValue x l p none c items := by
  obtain ⟨tds, h1, vs, h2, h3⟩ := dom_of_valueAt x hv (textKind_long p) (by simp [hs])
  rw [formOf_long, value_dom_refs _ _ c items hc hi] at h3
  exact ⟨tds, h1, vs, h2, h3⟩

/-- **translated label with references**, per language: chunks verbatim interleaved with one `<output>` per
reference, under the element's label id in that language's translation -/
theorem label_dom {x : Survey} (hx : ((flats x).map (·.xpath)).Nodup) {f : Flat} (hf : f ∈ flats x)
    (hv : visited f = true) {pairs : List (Str × Str)} (hl : f.d.label = .dict pairs) (hok : SlotOk f pairs)
    {l : Str} {c : Cell} {items : List (Str × Str)} (hlt : (l, c.text) ∈ pairs)
    (hs : stated x (path f.xpath "label") = true)
    (hc : CellShape (nameRefs x) c items) (hi : NoInstanceExpr c.text) :
    RefsValue x l (path f.xpath "label") none c items :=
  long_dom x (value_label hx hf hv hl hok hlt) hs hc hi

/-- **translated hint with references**, per language -/
theorem hint_dom {x : Survey} (hx : ((flats x).map (·.xpath)).Nodup) {f : Flat} (hf : f ∈ flats x)
    (hv : visited f = true) {pairs : List (Str × Str)} (hl : f.d.hint = .dict pairs) (hfun : Functional pairs)
    {l : Str} {c : Cell} {items : List (Str × Str)} (hlt : (l, c.text) ∈ pairs)
    (hs : stated x (path f.xpath "hint") = true)
    (hc : CellShape (nameRefs x) c items) (hi : NoInstanceExpr c.text) :
    RefsValue x l (path f.xpath "hint") none c items :=
  long_dom x (value_hint hx hf hv hl hfun hlt) hs hc hi

/-- **translated bind message with references**, per language -/
theorem msg_dom {x : Survey} (hx : ((flats x).map (·.xpath)).Nodup) {f : Flat} (hf : f ∈ flats x)
    (hv : visited f = true) {k : String} (hk : k ∈ ["jr:constraintMsg", "jr:requiredMsg", "jr:noAppErrorString"])
    {pairs : List (Str × Str)} (hm : msgOf f.d k = .dict pairs) (hfun : Functional pairs)
    {l : Str} {c : Cell} {items : List (Str × Str)} (hlt : (l, c.text) ∈ pairs)
    (hs : stated x (path f.xpath k) = true)
    (hc : CellShape (nameRefs x) c items) (hi : NoInstanceExpr c.text) :
    RefsValue x l (path f.xpath k) none c items :=
  long_dom x (value_msg hx hf hv hk hm hfun hlt) hs hc hi

/-- **translated choice label with references**, per language (choices carry no context: `stated` is only asked of
the id) -/
theorem choice_label_dom {x : Survey} (hn : (x.lists.map (·.name)).Nodup) {cl : CList} (hl : cl ∈ x.lists)
    (hr : requiresItext cl = true) {i : Nat} {o : Opt} (hi : cl.options[i]? = some o)
    {pairs : List (Str × Str)} (hlab : o.label = .dict pairs) (hfun : Functional pairs)
    (hlong : ∀ m, o.media = some m → "long".toList ∉ m.map (·.1))
    {lang : Str} {c : Cell} {items : List (Str × Str)} (hlt : (lang, c.text) ∈ pairs)
    (hs : stated x (choiceId cl.name i) = true)
    (hc : CellShape (nameRefs x) c items) (hin : NoInstanceExpr c.text) :
    RefsValue x lang (choiceId cl.name i) none c items :=
  long_dom x (value_choice_label hn hl hr hi hlab hfun hlong hlt) hs hc hin

/-! ### guidance hint: the `form="guidance"` value under the hint id -/

theorem takeWhile_stop {α} (p : α → Bool) (a : List α) (c : α) (b : List α) (hc : p c = false) :
    (a ++ c :: b).takeWhile p = a.takeWhile p := by
  induction a with
  | nil => simp [List.takeWhile, hc]
  | cons h t ih =>
    simp only [List.cons_append, List.takeWhile_cons]
    split
    · rw [ih]
    · rfl

/-- the display element of an id `xpath:display` is what follows the last colon of `display` -/
theorem labelType_path (xp d : Str) : labelType (xp ++ ':' :: d) = labelType d := by
  unfold labelType
  rw [List.reverse_append, List.reverse_cons, List.append_assoc]
  simp only [List.singleton_append]
  rw [takeWhile_stop _ _ _ _ (by simp)]

theorem formOf_guidance (xp : Str) : formOf (path xp "hint") "guidance".toList = some "guidance".toList := by
  unfold formOf path
  rw [labelType_path]
  decide

/-- **translated guidance hint with references**, per language: the `<value form="guidance">` under the hint id -/
theorem guidance_dom {x : Survey} (hx : ((flats x).map (·.xpath)).Nodup) {f : Flat} (hf : f ∈ flats x)
    (hv : visited f = true) {pairs : List (Str × Str)} (hl : f.d.guidance = .dict pairs) (hfun : Functional pairs)
    {l : Str} {c : Cell} {items : List (Str × Str)} (hlt : (l, c.text) ∈ pairs)
    (hs : stated x (path f.xpath "hint") = true)
    (hc : CellShape (nameRefs x) c items) (hi : NoInstanceExpr c.text) :
    RefsValue x l (path f.xpath "hint") (some "guidance".toList) c items := by
  have hk : textKind (path f.xpath "hint") "guidance".toList = true := by
    unfold textKind path
    rw [labelType_path]
    decide
  obtain ⟨tds, h1, vs, h2, h3⟩ := dom_of_valueAt x (value_guidance hx hf hv hl hfun hlt) hk (by simp [hs])
  rw [formOf_guidance, value_dom_refs _ _ c items hc hi] at h3
  exact ⟨tds, h1, vs, h2, h3⟩

/-! ## 3. Non-vacuity -/

/-- question `n` with a translated label (two references in English, markup characters around them), a translated
hint and a translated guidance hint, next to the referenced questions -/
def exSurvey : Survey :=
  { defaultLanguage := "default".toList
    lists := []
    root := .node (C07.q .group "data" .none .none .none) [
      .node (C07.q .control "a" (.str "A".toList) .none .none) [],
      .node (C07.q .control "n" (C07.tr [("en", "Hi ${a}, <b> & ${last-saved#a}!"), ("fr", "Salut")])
              (C07.tr [("fr", "h ${a}")]) (C07.tr [("fr", "${a} g")])) [] ] }

def exC : Cell := ⟨"Hi ".toList, [("a".toList, ", <b> & ".toList), ("last-saved#a".toList, "!".toList)]⟩
def exI : List (Str × Str) :=
  [(" /data/a ".toList, ", <b> & ".toList), (" instance('__last-saved')/data/a ".toList, "!".toList)]
def exG : Cell := ⟨[], [("a".toList, " g".toList)]⟩
def exGI : List (Str × Str) := [(" /data/a ".toList, " g".toList)]

instance (ps : List (Str × Str)) : Decidable (Functional ps) := by unfold Functional; infer_instance

theorem exC_shape : CellShape (nameRefs exSurvey) exC exI :=
  ⟨by decide, ⟨by decide, by decide, by decide, by decide, trivial⟩, by decide +kernel,
   ⟨by decide, by decide, trivial⟩, by decide⟩

theorem exG_shape : CellShape (nameRefs exSurvey) exG exGI :=
  ⟨by decide, ⟨by decide, by decide, trivial⟩, by decide +kernel, ⟨by decide, trivial⟩, by decide⟩

/-- `value_dom_refs` / `value_dom_plain` instantiated -/
example : valueDom (nameRefs exSurvey) (some "guidance".toList) exC.text =
    .ok (.elem valueTag [("form".toList, "guidance".toList)] (cellKids true exC.head exI)) := by
  rw [value_dom_refs _ _ exC exI exC_shape (by decide +kernel)]
  have : textsValid exC.head exI = true := by decide +kernel
  simp [this, formAttr]
example : valueDom [] none "<b> & $ { }".toList = .ok (.elem valueTag [] [.text false "<b> & $ { }".toList]) :=
  value_dom_plain [] none _ (by decide) (by decide +kernel)

/-- `dom_entry_text`, `dom_of_valueAt`, `long_dom` instantiated: the English label of `n` in the itext block -/
example : RefsValue exSurvey "en".toList (path "/data/n".toList "label") none exC exI :=
  long_dom exSurvey (by decide +kernel) (by decide +kernel) exC_shape (by decide +kernel)

/-- … and computed by the kernel, as `writexml` serialises it (boundary spaces of mixed content included): the typed
`<b> &` is character data, the two references are the only elements -/
example :
    (outDoms exSurvey).any (fun lt => lt.1 == "en".toList && lt.2.any fun td =>
      td.1 == "/data/n:label".toList && td.2.any fun fv => fv.1 == none &&
        (match fv.2 with
         | some (.ok n) => render [] [] [] n ==
             "<value> Hi <output value=\" /data/a \"/>, &lt;b&gt; &amp; <output value=\" instance('__last-saved')/data/a \"/>! </value>".toList
         | _ => false)) = true := by decide +kernel

/-- the hypotheses of `label_dom` / `hint_dom` / `guidance_dom` / `msg_dom` hold for `n` in `exSurvey`: `label_dom`
and `guidance_dom` instantiated at the element itself -/
example :
    RefsValue exSurvey "en".toList (path ((flats exSurvey)[1]'(by decide +kernel)).xpath "label") none exC exI ∧
    RefsValue exSurvey "fr".toList (path ((flats exSurvey)[1]'(by decide +kernel)).xpath "hint")
      (some "guidance".toList) exG exGI := by
  have hx : ((flats exSurvey).map (·.xpath)).Nodup := by decide +kernel
  have hm : ((flats exSurvey)[1]'(by decide +kernel)).d.media = none := by decide +kernel
  refine ⟨label_dom hx (List.getElem_mem _) (by decide +kernel)
      (pairs := [("en".toList, exC.text), ("fr".toList, "Salut".toList)]) (by decide +kernel)
      ⟨by decide, fun m h => by rw [hm] at h; cases h⟩ (by decide) (by decide +kernel) exC_shape (by decide +kernel), ?_⟩
  exact guidance_dom hx (List.getElem_mem _) (by decide +kernel)
      (pairs := [("fr".toList, exG.text)]) (by decide +kernel) (by decide) (by decide) (by decide +kernel) exG_shape
      (by decide +kernel)

/-- non-vacuity of `choice_label_dom` / `msg_dom`: their value-level hypotheses are those of `value_choice_label` /
`value_msg` (witnessed in `C07Text`); the cell hypotheses are `exC_shape` -/
example : CellShape (nameRefs exSurvey) exC exI ∧ NoInstanceExpr exC.text ∧
    stated exSurvey (choiceId "c".toList 0) = true ∧
    stated exSurvey (path "/data/n".toList "jr:constraintMsg") = true :=
  ⟨exC_shape, by decide +kernel, by decide +kernel, by decide +kernel⟩

end Pyxv.C07Output
